"""
C02 — Symbolic block map agrees with step-by-step concrete execution.

Theorems (lean/Amoco/Props/C02.lean, helpers in Amoco/Proofs/Mapper*.lean): block_map_sound_regs (every IR
program over registers and sub-register slices, every state, every setting), block_map_sound (the general
statement: loads/stores through concrete and symbolic pointers, either byte order, every setting in which
stores are recorded, for states whose accesses do not wrap around the address space and — under the
no-aliasing assumption — whose distinct symbolic bases do not overlap), block_map_sound_mem_concrete
(concrete addresses, both byte orders, by refinement to the byte store of C08), block_map_sound_noalias.
An instruction is modelled as an IR program: statements `loc := e` evaluated in the current map.
NOT proved (partial): that each ISA's Python semantics function performs the same IR on a symbolic and on a
concrete map — checked per generated instruction sequence by the ISA-level oracle below.
Ties (every run):
  (1) correspondence: random IR programs (register / sub-register assignments, loads and stores at concrete
      and pointer-relative addresses, sizes 8..64, both byte orders, all four noaliasing/memtrace settings)
      executed on the real `mapper` statement by statement vs the model: ordered map, lastw, mods lists,
      byte orders after every statement, zones byte by byte at the end; `m1 >> m2` of two programs likewise;
  (2) the model's own statement `applyMap σ (symExec P) = concExec P σ` evaluated by the driver on the same
      programs and states, and `concExec` against the Python reference (map_ref).
Oracles (property-level, independent of the model):
  (a) IR level: `concrete >> mapper(P)` on the real code vs the sequential reference execution;
      `c >> (m1 >> m2)` vs executing P1 then P2;
  (b) ISA level (map_isa.py): for spec-directed instruction sequences (length 1..8) of every ISA module with
      semantics, `concrete_state >> mapper(instrs)` vs executing the instructions one at a time on the
      concrete state; "stays symbolic" is accepted, a different constant is a violation, an exception on
      either route is counted, not reported (C01/C17 matter).  Phase 1d of map_isa.py draws immediates and register
      values from boundary classes per operand width (shift counts at / above the width, sign bit set, all-ones).
"""
import sys, json, time, os
from common import *
import map_gen, map_ref, map_check
from map_check import SETTINGS, setting_name, compare_run, oracle, shrink, shape, base_state, norm, _same_entries
from map_gen import Gen, pointer_assignments, PTRS, REGSIZE
from map_real import Settings, run, concrete_mapper, eval_real, Unknown, dump_map, reg

THM = "Amoco.Mapper.Props.block_map_sound"
DROPPED = "C02:noaliasing=True,memtrace=False:stores-not-composed"


def compose_oracle(p1, p2, noal, mt, vals):
    """`c >> (m1 >> m2)` on the real code vs executing P1 then P2"""
    st0 = base_state(vals)
    st = st0.copy()
    map_ref.run(p1, st)
    st1 = st.copy()
    map_ref.run(p2, st)
    with Settings(noal, mt):
        try:
            a1, a2 = [], []
            m1, _ = run(p1, accesses=a1)
            m2, _ = run(p2, accesses=a2)
            if noal:
                # the accesses of the composition: those of P1, and those of P2 with their pointers taken through m1
                # (m2 itself was built assuming that *its* distinct bases do not overlap in the state it is applied to)
                acc = list(a1) + [(m1(p), n) for p, n in a2]
                if (map_check.overlap_of_distinct_zones(acc, st0) is not False
                        or map_check.overlap_of_distinct_zones(a2, st1) is not False):
                    return "skip-distinct-bases-overlap", None
            mm = m1 >> m2
            c = concrete_mapper(st0, [(a, n) for _, a, n in st.accesses])
            cm = c >> mm
        except Exception as ex:
            return "raise-" + type(ex).__name__, None
        for n, size in REGSIZE.items():
            v = cm[reg(n, size)]
            try:
                got = (v.v & v.mask) if v._is_cst else eval_real(v, st0)
            except Unknown:
                continue
            if got != st.reg(n):
                return "fail", {"where": "reg", "loc": n, "got": got, "expected": st.reg(n)}
    return "ok", None


def main(tier):
    ck = Check("C02", tier)
    quick = tier == "quick"
    t_start = time.time()
    r = rng("C02")
    broken = ck.build_and_audit(["Amoco.Props.C02", "drv_map"])
    drv = Driver("drv_map")
    ties = []
    model_stmt = []

    def report_fail(prog, noal, mt, vals, detail, origin):
        if noal and not mt and detail["where"] == "mem":
            ck.report(DROPPED, "with noaliasing=True and memtrace=False the stores of a map are not items of it and `concrete >> m` drops them: "
                      "%s, address %#x is %#x, step-by-step execution gives %#x" % (shape(prog), detail["loc"], detail["got"], detail["expected"]),
                      "oracle", THM, case={"prog": prog, "noaliasing": noal, "memtrace": mt, "pointers": vals}, real=detail,
                      expected=detail["expected"])
            return

        def fails(p):
            st, d = oracle(p, noal, mt, vals)
            return st == "fail" and not (noal and not mt and d["where"] == "mem")
        small = shrink(prog, fails)
        st, d = oracle(small, noal, mt, vals)
        d = d or detail
        sig = "C02:ir:%s:%s" % (setting_name(noal, mt) if (noal and not mt) else ("noaliasing" if noal else "aliasing"), shape(small))
        what = "%s: %s under %s with pointers %s: %s %s is %#x, step-by-step execution gives %#x" % (
            origin, shape(small), setting_name(noal, mt), {k: hex(v) for k, v in vals.items()},
            d["where"], d["loc"] if d["where"] == "reg" else hex(d["loc"]), d["got"], d["expected"])
        ck.report(sig, what, "oracle", THM, case={"prog": small, "noaliasing": noal, "memtrace": mt, "pointers": vals, "from": prog},
                  real=d, expected=d["expected"])

    # ---- IR programs: correspondence, model statement, oracle -----------------------------------------------
    n = 1200 if quick else 12000
    nassign = 2 if quick else 6
    for t in range(n):
        be = r.random() < 0.4
        profile = r.choice(["regs", "conc", "mixed", "mixed", "ptr", "alias-shapes"])
        prog = map_gen.shaped_alias_program(r, be) if profile == "alias-shapes" else Gen(r, profile, be).program()
        ck.count("programs.%s.%s" % (profile, "be" if be else "le"))
        ck.count("length.%d" % len(prog["stmts"]))
        for noal, mt in SETTINGS:
            res = compare_run(drv, prog, noal, mt, r, lambda k: ck.count("tie." + k))
            if res == "unmodelled":
                ck.count("tie.unmodelled")
                continue
            if res is not None and res[0] == "raise":
                ck.count("tie.real-raises-" + res[1])
                continue
            if res is not None:
                ties.append((prog, noal, mt) + tuple(res[1:]))
            else:
                ck.count("tie.agree." + setting_name(noal, mt))
            for kind, vals in pointer_assignments(r, PTRS[:3], nassign):
                # (2) the model's statement, evaluated: applyMap σ (symExec P) = concExec P σ = reference
                st0 = base_state(vals)
                st = st0.copy()
                map_ref.run(prog, st)
                regs = [[nm, REGSIZE[nm], st0.reg(nm)] for nm in REGSIZE]
                probe = sorted(st.mem)[:48]
                ap = drv.ask({"op": "map.apply", "prog": prog, "noaliasing": noal, "memtrace": mt, "regs": regs, "probe": probe})
                refobs = {"regs": [st.reg(nm) for nm in REGSIZE], "mem": [st.byte(a) for a in probe]}
                if ap["conc"] != refobs:
                    model_stmt.append(("concExec vs reference", prog, noal, mt, vals, ap["conc"], refobs))
                # (a) oracle on the real code
                ost, d = oracle(prog, noal, mt, vals)
                ck.case((json.dumps(prog), noal, mt, sorted(vals.items())), nontrivial=(ost in ("ok", "fail")))
                ck.count("oracle.%s.%s" % (setting_name(noal, mt), ost))
                if ost == "fail":
                    report_fail(prog, noal, mt, vals, d, "generated")
                # hypotheses of the theorem hold for this state?  (skips = distinct bases overlap under noaliasing)
                if ost in ("ok", "fail") and (mt or not noal):
                    if ap["sym"] != ap["conc"]:
                        model_stmt.append(("applyMap(symExec) vs concExec", prog, noal, mt, vals, ap["sym"], ap["conc"]))
                    ck.count("model-statement.checked")
                elif ost in ("ok", "fail") and ap["sym"]["regs"] != ap["conc"]["regs"]:
                    model_stmt.append(("applyMap(symExec) vs concExec (registers)", prog, noal, mt, vals, ap["sym"], ap["conc"]))
        if t < 2:
            ck.sample({"prog": prog, "shape": shape(prog)})

    # ---- composition m1 >> m2 ----------------------------------------------------------------------------------
    ncomp = 250 if quick else 3000
    for t in range(ncomp):
        be = r.random() < 0.4
        profile = r.choice(["regs", "conc", "mixed", "ptr"])
        g = Gen(r, profile, be)
        p1, p2 = g.program(r.randint(1, 4)), g.program(r.randint(1, 4))
        for noal, mt in ((True, True), (False, True)):
            with Settings(noal, mt):
                try:
                    m1, _ = run(p1)
                    m2, _ = run(p2)
                    real = dump_map(m1 >> m2)
                except Exception as ex:
                    ck.count("compose.real-raises-" + type(ex).__name__)
                    continue
            kind, vals = pointer_assignments(r, PTRS[:3], 1)[0]
            st0 = base_state(vals)
            regs = [[nm, REGSIZE[nm], st0.reg(nm)] for nm in REGSIZE]
            mod = drv.ask({"op": "map.compose", "prog1": p1, "prog2": p2, "noaliasing": noal, "memtrace": mt, "regs": regs, "probe": []})
            if mod == "unmodelled":
                ck.count("compose.unmodelled")
                continue
            states = map_ref.probe_states(REGSIZE, r)
            ck.count("compose.m2-wellformed-%s" % mod["m2ok"])
            if not mod["m2ok"]:
                model_stmt.append(("MapSt.ok (hypothesis of rcompose_assoc_eval) fails on a symExec map", p2, noal, mt, vals, None, None))
            elif mod["sym"] != mod["seq"] and not noal:
                model_stmt.append(("applyMap σ (m1 >> m2) vs applyMap (applyMap σ m1) m2", {"be": be, "stmts": p1["stmts"] + [["--then--"]] + p2["stmts"]},
                                   noal, mt, vals, mod["sym"], mod["seq"]))
            w = _same_entries(norm(real["entries"]), mod["entries"], states, lambda k: ck.count("compose.tie." + k))
            if w is None and real["lastw"] != mod["lastw"]:
                w = "lastw %d vs %d" % (real["lastw"], mod["lastw"])
            if w == map_check.ALGEBRA:
                ck.count("compose.tie." + map_check.ALGEBRA)
                w = None
            elif w is not None:
                ties.append(({"be": be, "stmts": p1["stmts"] + [["--then--"]] + p2["stmts"]}, noal, mt, "m1 >> m2: " + w, real, mod))
            else:
                ck.count("compose.tie.agree")
            ost, d = compose_oracle(p1, p2, noal, mt, vals)
            ck.case(("compose", json.dumps(p1), json.dumps(p2), noal, mt), nontrivial=(ost in ("ok", "fail")))
            ck.count("compose.oracle." + ost)
            if ost == "fail":
                ck.report("C02:ir:compose:%s|%s" % (shape(p1), shape(p2)),
                          "c >> (m1 >> m2) differs from executing P1 then P2: register %s is %#x, expected %#x (%s)" % (
                              d["loc"], d["got"], d["expected"], setting_name(noal, mt)),
                          "oracle", "Amoco.Mapper.Props.rcompose_assoc_eval",
                          case={"prog1": p1, "prog2": p2, "noaliasing": noal, "memtrace": mt, "pointers": vals}, real=d,
                          expected=d["expected"])
    drv.close()

    # ---- ISA level ---------------------------------------------------------------------------------------------
    try:
        import map_isa
    except ImportError:
        map_isa = None
    if map_isa is not None and not os.environ.get("MAP_NO_ISA"):
        # of which phase 1d (operands and immediates at the boundaries of the operand widths) has its own part
        budget, boundary = (111, 16) if quick else (1050, 150)
        map_isa.run(ck, tier, rng("C02-isa"), budget, boundary)
        ck.oblige("ISA-level oracle ran", True)
    else:
        ck.oblige("ISA-level oracle ran", bool(os.environ.get("MAP_NO_ISA")), "harness/map_isa.py missing")

    for b in broken:
        ck.report("C02:proof-obligation", "proof obligation broken: %s" % b[:300], "proof-obligation", b[:2000],
                  failing_input_found=False)
    if ties:
        prog, noal, mt, where, real, mod = ties[0]
        ck.report("C02:correspondence", "%d disagreements between the mapper model and the code without a property failure (first: %s, %s)"
                  % (len(ties), shape(prog) if ["--then--"] not in prog["stmts"] else "composition", where), "correspondence",
                  "correspondence Amoco.Mapper ~ cas/mapper.py: " + where,
                  case={"prog": prog, "noaliasing": noal, "memtrace": mt}, real=real, model=mod, failing_input_found=False)
    ck.oblige("correspondence mapper model ~ cas/mapper.py", not ties, "%d" % len(ties))
    if model_stmt:
        what, prog, noal, mt, vals, a, b = model_stmt[0]
        ck.report("C02:model-statement", "%d cases where the model's own statement fails on evaluation (%s)" % (len(model_stmt), what),
                  "checker", THM, case={"prog": prog, "noaliasing": noal, "memtrace": mt, "pointers": vals}, real=a, model=b,
                  failing_input_found=False)
    ck.oblige("model statement evaluates true / concExec = Python reference", not model_stmt, "%d" % len(model_stmt))
    ck.assumptions += [
        "each ISA's Python semantics function performs the same IR program on a symbolic and on a concrete map: checked per generated sequence (oracle b), not proved",
        "accesses do not wrap around the address space; under noaliasing=True distinct symbolic bases do not overlap (hypotheses of the theorems, the oracle skips other states)",
        "operators are uninterpreted in the theorems; the algebra's rewriting (C01) is compared up to value on probe states",
    ]
    ck.trusted += ["harness/map_real.py canonical dumps, harness/map_ref.py reference semantics, harness/map_isa.py state construction",
                   "compiled Lean driver drv_map", "C08 zone model and its theorems"]
    return ck.finish("IR programs of 1..8 statements in 4 profiles (registers only / concrete addresses / pointers / mixed), both byte orders, "
                     "4 settings, 2+ pointer assignments each; pairs of programs for composition; spec-directed instruction sequences "
                     "(length 1..8) of every ISA module with semantics on 2 concrete states under 4 settings; width-boundary phase "
                     "(1d): every spec of a mnemonic whose semantics hold a shift/rotate operator, its immediates (found by decoding) "
                     "set to 0, 1, width-1, width, width+1, 31, all-ones for the widths of its operands, prefixed variants with other "
                     "operand widths, register-count forms and short chains, from boundary states (sign bit of every 8/16/32/64-bit "
                     "sub-width set, all-ones, mixed with shift counts / only-top-bit / largest positive / 0 / 1); non-trivial = the "
                     "oracle compared a final state")


def replay(path):
    """./check C02 --replay <file>: re-runs the recorded IR case on the current tree and prints what the real
       mapper gives (`concrete >> symbolic`), what the model gives and what the reference execution expects"""
    rec = json.load(open(path))
    case = rec.get("case") or {}
    prog = case.get("prog")
    if not prog or any(s == ["--then--"] for s in prog.get("stmts", [])) or "isa" in case:
        print(json.dumps(rec, indent=1)[:20000])
        print("(recorded case is not a single IR program: shown as recorded)")
        return 0
    noal, mt = case.get("noaliasing", False), case.get("memtrace", True)
    vals = {k: int(v) for k, v in (case.get("pointers") or {}).items()}
    from map_real import Settings, run as run_real
    from map_check import base_state
    print("program:", json.dumps(prog))
    print("shape:", shape(prog), "| setting:", setting_name(noal, mt), "| pointers:", {k: hex(v) for k, v in vals.items()})
    with Settings(noal, mt):
        m, _ = run_real(prog)
        print("real symbolic map:")
        for line in str(m).split("\n"):
            print("   ", line)
    st, d = oracle(prog, noal, mt, vals)
    print("oracle on the real code:", st, d if d else "")
    drv = Driver("drv_map")
    st0 = base_state(vals)
    ref = st0.copy()
    map_ref.run(prog, ref)
    regs = [[nm, map_gen.REGSIZE[nm], st0.reg(nm)] for nm in map_gen.REGSIZE]
    probe = sorted(ref.mem)[:64]
    ap = drv.ask({"op": "map.apply", "prog": prog, "noaliasing": noal, "memtrace": mt, "regs": regs, "probe": probe})
    drv.close()
    names = list(map_gen.REGSIZE)
    print("model  applyMap(symExec):", {n: hex(v) for n, v in zip(names, ap["sym"]["regs"])} if isinstance(ap, dict) else ap)
    print("expected (sequential)   :", {n: hex(ref.reg(n)) for n in names})
    print("expected memory         :", {hex(a): hex(ref.byte(a)) for a in probe})
    if isinstance(ap, dict):
        print("model memory            :", {hex(a): hex(b) for a, b in zip(probe, ap["sym"]["mem"])})
    return 1 if st == "fail" else 0


if __name__ == "__main__":
    sys.exit(main(sys.argv[1] if len(sys.argv) > 1 else "quick"))
