"""
C11 — Decoding has no memory of earlier calls.

Theorems (lean/Amoco/Props/C11.lean) about the model `Amoco.Dis.call` of disassembler.__call__:
pending_none_after_call, call_history_independent, no_prefix_leak (+ the witness that the original,
unrepaired code leaks).  Tie on every run (C): histories of calls on ONE real disassembler object —
real ISA modules with prefix/suffix specs and without, and a synthetic ISA whose hooks raise on
demand — with every `ispec.decode` attempt recorded; the model replays the same attempts outcomes
through `call` on the dumped real tree and must predict the result class, the byte count of the
instruction and the pending state after each call.  Oracle: every call's outcome must equal the outcome
of the same bytes on a disassembler with no history, its bytes must be a prefix of its own input, and
`_disassembler__i` must be None after the call, whatever the exit path.
"""
import sys, types, json, subprocess, os
from common import *
import isa
from amoco.arch import core as acore
from amoco.arch.core import ispec, disassembler, instruction, InstructionError, DecodeError


def synthetic_isa():
    """a small ISA built with the real ispec/disassembler classes: two prefixes, normal specs, a
    variable-length spec, a hook raising InstructionError, hooks raising unrelated exceptions
    (before and after a prefix), an xdata spec whose xdata raises."""
    m = types.ModuleType("verif_synth_spec")
    m.ISPECS = []
    sys.modules[m.__name__] = m
    src = '''
from amoco.arch.core import ispec, InstructionError, type_data_processing
ISPECS = []
@ispec("8>[ {66} ]+", _pfx="opdsz")
def pfx1(obj, _pfx):
    obj.misc[_pfx] = 16
@ispec("8>[ {f3} ]+", _pfx="rep")
def pfx2(obj, _pfx):
    obj.misc[_pfx] = True
@ispec("8>[ {90} ]", mnemonic="NOP")
def nop(obj):
    obj.type = type_data_processing
@ispec("16>[ {0f} imm(8) ]", mnemonic="TWO")
def two(obj, imm):
    obj.operands = [imm]
    obj.type = type_data_processing
@ispec("16>[ {c7} sel(8) ]", mnemonic="BAD")
def bad(obj, sel):
    if sel == 0:
        raise InstructionError(obj)
    if sel == 1:
        raise TypeError("hook failure")
    if sel == 2:
        raise KeyError("hook failure")
    if sel == 3:
        raise RuntimeError("hook failure")
    obj.operands = [sel]
    obj.type = type_data_processing
@ispec("*>[ {e8} ~data(*) ]", mnemonic="VAR")
def var(obj, data):
    if data.size < 16:
        raise InstructionError(obj)
    obj.operands = [data[0:16].int()]
    obj.bytes += bytes([data[0:8].int(), data[8:16].int()])
    obj.type = type_data_processing
@ispec("8>[ {a0} ]&", mnemonic="XD")
def xd(obj):
    obj.type = type_data_processing
    def xdata(i, **k):
        if k.get("boom"):
            raise ValueError("xdata failure")
    obj.xdata = xdata
@ispec("8>[ 1101 r(4) ]", mnemonic="REG")
def reg(obj, r):
    obj.operands = [r]
    obj.type = type_data_processing
@ispec("8>[ 0100 r(4) ]", mnemonic="REG2", __obj=lambda o: o.misc["opdsz"] == 16)
def reg2(obj, r):
    obj.operands = [r]
    obj.type = type_data_processing
'''
    exec(compile(src, "verif_synth_spec.py", "exec"), m.__dict__)
    d = disassembler([m], iclass=type("instruction_synth", (instruction,), {}))
    return m, d


class Holder(object):
    pass


def run_histories(ck, drv, label, d, specs, be, maxlen, r, nhist, hlen, pool, kargs_pool, ties_broken, other=None):
    """histories of decode calls on the single disassembler object d"""
    index = {id(s): k for k, s in enumerate(specs)}
    spk = [isa.speck(k, s) for k, s in enumerate(specs)]
    tree = isa.dump_tree(d.specs[0], index)
    # outcome of each input on a history-free object
    fresh = {}
    for key in pool:
        bs, kw = key
        isa.reset(d)
        res = isa.real_decode(d, bs, **dict(kw))
        fresh[key] = (res[0], isa.fingerprint(res[1]) if res[0] == "ok" else res[1])
        isa.reset(d)
    # second pass over the whole pool in the opposite order: every input is decoded again at a
    # different point of the process history (state kept in spec / helper modules shows here)
    for key in reversed(pool):
        bs, kw = key
        isa.reset(d)
        res = isa.real_decode(d, bs, **dict(kw))
        fp = (res[0], isa.fingerprint(res[1]) if res[0] == "ok" else res[1])
        ck.case((label, "again", key), nontrivial=res[0] == "ok")
        if fp != fresh[key]:
            ck.report("C11:%s:history-dependent" % label, "%s: decode(%s) gives %r the first time and %r after the other inputs of the pool were decoded" % (label, bs.hex(), fresh[key], fp),
                      "oracle", "Amoco.Dis.Props11.call_history_independent", case={"isa": label, "history": [[b.hex(), dict(k)] for b, k in pool], "again": bs.hex()},
                      real=fp, expected=fresh[key])
            break
    isa.reset(d)
    if other is not None:
        # the same pool decoded by another process, from pristine modules, in the opposite order
        for key, o in zip(pool, other):
            if json.dumps(fresh[key], default=str) != o:
                ck.report("C11:%s:history-dependent" % label, "%s: decode(%s) gives %s in this process and %s in a process that decoded the pool in the opposite order" % (label, key[0].hex(), json.dumps(fresh[key], default=str)[:300], o[:300]),
                          "oracle", "Amoco.Dis.Props11.call_history_independent", case={"isa": label, "history": [[b.hex(), dict(k)] for b, k in pool], "again": key[0].hex()},
                          real=fresh[key], expected=o)
                break
    for h in range(nhist):
        hist = [r.choice(pool) for _ in range(hlen)]
        isa.reset(d)
        calls = []
        reals = []
        for (bs, kw) in hist:
            with isa.AttemptTrace() as tr:
                try:
                    i = d(bs, **dict(kw))
                    res = ("ok", i) if i is not None else ("none", None)
                except BaseException as ex:
                    res = ("raise", type(ex).__name__)
            pend = d._disassembler__i
            fp = (res[0], isa.fingerprint(res[1]) if res[0] == "ok" else res[1])
            reals.append((fp, None if pend is None else len(pend.bytes)))
            outs = []
            xdr = False
            for (pl, n, s, o) in tr.log:
                outs.append([pl, len(bs) - n, index.get(id(s), -1), o])
            if res[0] == "raise" and tr.log and tr.log[-1][3] == 1:
                xdr = True      # the last decode succeeded and yet the call raised: xdata raised
            calls.append({"bytes": list(bs), "outs": outs, "xdRaises": xdr})
            ck.case((label, tuple(hist[:len(reals)])), nontrivial=len(reals) > 1)
            ck.count("%s.%s" % (label.split("/")[0] if label != "synthetic" else label, res[0]))
            # ---- oracle on the real code ------------------------------------------------------
            where = {"isa": label, "history": [[b.hex(), dict(k)] for b, k in hist[:len(reals)]]}
            if pend is not None:
                ck.report("C11:%s:pending-left:%s" % (label, res[0]), "%s: pending prefix instruction left after a call that ended with %r" % (label, res[0]),
                          "oracle", "Amoco.Dis.Props11.pending_none_after_call", case=where, real=repr(fp))
            if fp != fresh[(bs, kw)]:
                ck.report("C11:%s:history-dependent" % label, "%s: decode(%s) after history gives %r, on a fresh object %r" % (label, bs.hex(), fp, fresh[(bs, kw)]),
                          "oracle", "Amoco.Dis.Props11.call_history_independent", case=where, real=fp, expected=fresh[(bs, kw)])
            if res[0] == "ok" and not bs.startswith(bytes(res[1].bytes)):
                ck.report("C11:%s:prefix-leak" % label, "%s: instruction bytes %s are not a prefix of the input %s" % (label, bytes(res[1].bytes).hex(), bs.hex()),
                          "oracle", "Amoco.Dis.Props11.no_prefix_leak", case=where, real=fp)
        # ---- model replay of the whole history -----------------------------------------------------
        ans = drv.ask({"op": "dis.call", "be": be, "maxlen": maxlen, "specs": spk, "tree": tree, "fixed": True, "calls": calls})
        if isinstance(ans, dict):
            ties_broken.append(("driver error %r" % ans, {"isa": label}, None, ans))
            continue
        for k, ((fp, pend), a) in enumerate(zip(reals, ans)):
            mres = a["res"]
            mclass = mres if isinstance(mres, str) else mres[0]
            rclass = {"ok": "instr", "none": "none", "raise": "raised"}[fp[0]]
            ok = (mclass == rclass) and (a["pending"] == pend)
            if ok and rclass == "instr":
                # byte count: spec-level bytes (hooks may append tail bytes they consumed: ≥)
                ok = len(bytes.fromhex(fp[1][0])) >= mres[1]
            if not ok:
                ties_broken.append(("model `call` predicts %r/pending %r, real %r/pending %r on %s" % (mres, a["pending"], fp[0], pend, label),
                                    {"isa": label, "history": [[b.hex(), dict(kw)] for b, kw in hist[:k + 1]]}, fp, a))
                break
        if h == 0:
            ck.sample({"isa": label, "history": [b.hex() for b, _ in hist[:6]], "real": [x[0][0] for x in reals[:6]], "model": ans[:6]})


def other_process(pools):
    """decode every pool in a fresh interpreter, in the opposite order → {isa: [json fingerprint per pool entry]}"""
    rq = json.dumps({n: [bs.hex() for bs, _ in p] for n, p in pools.items()})
    p = subprocess.run([sys.executable, os.path.abspath(__file__), "--worker"], input=rq, stdout=subprocess.PIPE, stderr=subprocess.PIPE, text=True)
    if p.returncode != 0:
        raise InternalError("C11 worker failed: " + p.stderr[-800:])
    return json.loads(p.stdout)


def worker():
    rq = json.load(sys.stdin)
    isas, bad = isa.load_all(sorted(rq))
    out = {}
    for name in sorted(rq):
        if name not in isas:
            continue
        I = isas[name]
        if I.nsets != 1:
            I.set_mode(0)
        res = []
        for h in reversed(rq[name]):
            isa.reset(I.dis)
            x = isa.real_decode(I.dis, bytes.fromhex(h))
            res.append(json.dumps((x[0], isa.fingerprint(x[1]) if x[0] == "ok" else x[1]), default=str))
        out[name] = res[::-1]
    json.dump(out, sys.stdout)
    return 0


def main(tier):
    ck = Check("C11", tier)
    quick = tier == "quick"
    r = rng("C11")
    broken = ck.build_and_audit(["Amoco.Props.C11", "amoco_driver"])
    drv = Driver()
    ties_broken = []
    # ---- synthetic ISA: every exit path on demand ---------------------------------------------------
    m, d = synthetic_isa()
    specs = m.ISPECS
    pool = []
    nk = ()
    for bs in [b"\x90", b"\x66\x90", b"\xf3\x66\x90", b"\x0f\x12", b"\x66\x0f\x34", b"\x66", b"\xf3\x66", b"", b"\xff",
               b"\xc7\x00", b"\x66\xc7\x00", b"\xc7\x01", b"\x66\xc7\x01\x90", b"\xf3\xc7\x02", b"\x66\xf3\xc7\x03", b"\xc7\x09",
               b"\x66\xc7\x09", b"\xe8\x01\x02\x03", b"\x66\xe8\x01\x02", b"\xe8\x01", b"\x66\xe8", b"\xa0", b"\x66\xa0", b"\xd3",
               b"\x43", b"\x66\x43", b"\xf3\x43", b"\x66\x0f", b"\x0f"]:
        pool.append((bs, nk))
    pool.append((b"\xa0", (("boom", True),)))
    pool.append((b"\x66\xa0", (("boom", True),)))
    run_histories(ck, drv, "synthetic", d, specs, False, d.maxlen, r, 60 if quick else 3000, 12, pool, None, ties_broken)
    # ---- real ISA modules -------------------------------------------------------------------------------
    isas, bad = isa.load_all()
    ck.cov["isa_modules"] = sorted(isas)
    pools = {}
    for name in sorted(isas):
        I = isas[name]
        if I.nsets != 1:
            I.set_mode(0)
        specs = isa.module_specs(I, 0)
        has_pfx = any(s.pfx for s in specs)
        n = (40 if has_pfx else 12) if quick else (600 if has_pfx else 150)
        inputs = isa.gen_inputs(I, specs, r, n, n // 4)
        e = -1 if I.be else 1
        pf = [s for s in specs if s.pfx is True]
        pool = [(bs, ()) for _, bs in inputs]
        for p in pf[:6]:
            pool.append((isa.directed_bytes(p, e, r, tail=0), ()))      # truncated right after a prefix
        # addressing forms: for a few variable-length specs, every value of the first tail byte (ModRM and
        # the like), bare and behind every prefix — helper modules shared by many specs are reached through it
        var = [s for s in specs if s.size == 0 and s.pfx is not True]
        if var:
            pfb = [b""] + [isa.directed_bytes(p, e, r, tail=0) for p in pf]
            chosen = []
            for s in r.sample(var, len(var)):
                head = isa.directed_bytes(s, e, r, tail=0)
                isa.reset(I.dis)
                if isa.real_decode(I.dis, head + bytes(r.getrandbits(8) for _ in range(8)))[0] == "ok":
                    chosen.append((s, head))          # decodes without a mandatory prefix
                if len(chosen) >= (4 if quick else 16):
                    break
            for s, head in chosen:
                for p in pfb:
                    for b in range(256):
                        # the last byte of the fixed part carries the free field bits (ModRM is inside
                        # the spec's fixed size), the first tail byte the SIB / displacement
                        pool.append((p + head[:-1] + bytes([b]) + bytes(r.getrandbits(8) for _ in range(8)), ()))
                        if b % 4 == 0:
                            pool.append((p + head + bytes([b]) + bytes(r.getrandbits(8) for _ in range(8)), ()))
        pools[name] = pool
    others = other_process(pools)
    for name in sorted(isas):
        I = isas[name]
        specs = isa.module_specs(I, 0)
        run_histories(ck, drv, "%s/0" % name, I.dis, specs, I.be, I.maxlen, r, (6 if quick else 60), 10, pools[name], None, ties_broken,
                      other=others.get(name))
    drv.close()
    for b in broken:
        ck.report("C11:proof-obligation", "proof obligation broken: %s" % b[:300], "proof-obligation", b[:2000], failing_input_found=False)
    if ties_broken:
        what, case, real, mod = ties_broken[0]
        ck.report("C11:correspondence", "%d tie failures without a failing input (first: %s)" % (len(ties_broken), what),
                  "correspondence", "correspondence Amoco.Dis.call ~ disassembler.__call__: " + what, case=case, real=real, model=mod,
                  failing_input_found=False)
    ck.oblige("correspondence call state machine", not ties_broken, "%d" % len(ties_broken))
    ck.assumptions += ["per-spec decode outcomes are taken from the recorded real attempts (the model is parametric in them)"]
    ck.trusted += ["harness/isa.py AttemptTrace (wrapping ispec.decode)", "compiled Lean driver"]
    return ck.finish("histories of 10-12 calls on one disassembler object drawn from a pool of valid / invalid / truncated-after-prefix / "
                     "exception-raising inputs (synthetic ISA with raising hooks + every importable ISA module); distinct by history prefix")




def replay(path):
    import json
    return isa.replay_decode_case(json.load(open(path)))

if __name__ == "__main__":
    if sys.argv[1:] == ["--worker"]:
        sys.exit(worker())
    sys.exit(main(sys.argv[1] if len(sys.argv) > 1 else "quick"))
