"""
oracle_spec.py — an independent Python reading of the ispec format language *documentation*
(DESIGN.md §8 C03 "Reading of the documentation").  Used only to decide, when model and code
disagree, whether the real code violates the property on a concrete input.
Does not import amoco.
"""
import re

TOK = re.compile(r"""\s*(?:
    (?P<byte>\{[0-9a-fA-F]{2}\})
  | (?P<fix>[01])
  | (?P<skip>-)
  | (?P<dir>(?P<opt>[.~\#=])?\s*(?P<sym>[A-Za-z_][A-Za-z0-9_]*)(?:\s*\(\s*(?P<len>[1-9][0-9]*|[01]|\*)\s*\))?)
)""", re.X)
HEAD = re.compile(r"\s*(?P<len>[1-9][0-9]*|[01]|\*)\s*(?P<dir>[<>])?\s*\[")
TAIL = re.compile(r"\s*\]\s*(?P<pfx>\+)?\s*(?P<xd>&)?\s*$")


class FormatError(Exception):
    pass


def parse(fmt):
    m = HEAD.match(fmt)
    if not m:
        raise FormatError("head")
    size = None if m.group("len") == "*" else int(m.group("len"))
    direction = m.group("dir") or "<"
    pos = m.end()
    items = []
    while True:
        t = TAIL.match(fmt, pos)
        if t and items:
            return size, direction, items, bool(t.group("pfx")), bool(t.group("xd"))
        m = TOK.match(fmt, pos)
        if not m or m.end() == pos:
            raise FormatError("item at %d" % pos)
        pos = m.end()
        if m.group("byte"):
            items.append(("byte", int(m.group("byte")[1:3], 16)))
        elif m.group("fix"):
            items.append(("bit", int(m.group("fix"))))
        elif m.group("skip"):
            items.append(("skip",))
        else:
            ln = m.group("len")
            ln = 1 if ln is None else ("*" if ln == "*" else int(ln))
            items.append(("field", m.group("opt") or "", m.group("sym"), ln))


def width(it):
    if it[0] in ("bit", "skip"):
        return 1
    if it[0] == "byte":
        return 8
    if it[1] == "=" or it[3] == "*":
        return 0
    return it[3]


def meaning(fmt):
    """documented meaning: dict(size (None for '*'), total, cells [None|0|1] by ascending bit index,
    fields [(to_attr, sym, kind, lo, hi|None, lsb_first)], pfx, xdata, ok (grammar admits), why)"""
    size, direction, items, pfx, xd = parse(fmt)
    ok, why = True, ""
    stars = [k for k, it in enumerate(items) if it[0] == "field" and it[3] == "*"]
    if len(stars) > 1:
        ok, why = False, "several (*)"
    if stars:
        # must be last in processing order
        want = len(items) - 1 if direction == ">" else 0
        if stars[0] != want:
            ok, why = False, "(*) not last in processing order"
        if items[stars[0]][1] == "=":
            ok, why = False, "=(*)"
    written = sum(width(it) for it in items)
    if size is None:
        total = written
    else:
        total = size
        if stars:
            if written > size:
                ok, why = False, "too wide"
        elif written != size:
            ok, why = False, "size mismatch"
    if total % 8:
        ok, why = False, "length not a multiple of 8"
    cells = [None] * total
    fields = []
    pos = 0
    seenA, seenF = set(), set()
    # a (*) directive takes the bits no other directive claims (none when LEN is '*': it then
    # extends over the input's trailing bytes)
    star_w = max(0, total - written)
    for it in items:
        w = width(it)
        if it[0] == "field" and it[3] == "*":
            w = star_w
        if direction == ">":
            lo = pos
        else:
            lo = total - pos - w
        if it[0] == "bit":
            if 0 <= lo < total:
                cells[lo] = it[1]
        elif it[0] == "byte":
            for j in range(8):
                if 0 <= lo + j < total:
                    cells[lo + j] = (it[1] >> j) & 1
        elif it[0] == "field":
            opt, sym, ln = it[1], it[2], it[3]
            kind = {"~": "bits", "#": "str"}.get(opt, "int")
            to_attr = opt == "."
            seen = seenA if to_attr else seenF
            if sym in seen:
                ok, why = False, "symbol redefined"
            seen.add(sym)
            if ln == "*":
                f = (to_attr, sym, kind, lo, None, direction == ">")
            elif opt == "=":
                # the ln bits written immediately before
                if ln > pos:
                    ok, why = False, "= before enough bits"
                if direction == ">":
                    f = (to_attr, sym, kind, pos - ln, pos, True)
                else:
                    f = (to_attr, sym, kind, total - pos, total - pos + ln, False)
            else:
                f = (to_attr, sym, kind, lo, lo + ln, direction == ">")
            fields.append(f)
        pos += w
    if direction == "<":
        fields = fields[::-1]       # the code creates extractors in processing order
    return dict(size=size, total=total, cells=cells, fields=fields, pfx=pfx, xdata=xd, ok=ok, why=why,
                direction=direction)


def fix_mask(cells):
    fix = sum((1 << k) for k, c in enumerate(cells) if c == 1)
    mask = sum((1 << k) for k, c in enumerate(cells) if c is not None)
    return fix, mask


def decode(mean, bs, endian):
    """expected outcome of decoding bytes `bs` with fetch endianness ±1:
    None (reject) or list of (to_attr, sym, value) with value int | (ival,size) | str"""
    total = mean["total"]
    blen = total // 8
    if len(bs) < blen:
        return None
    head = bs[:blen][::endian]
    word = int.from_bytes(head, "little")
    fix, mask = fix_mask(mean["cells"])
    if word & mask != fix:
        return None
    n = total
    if mean["size"] is None:
        tail = bs[blen:]
        word |= int.from_bytes(tail, "little") << total
        n = total + 8 * len(tail)
    out = []
    for (to_attr, sym, kind, lo, hi, lsbf) in mean["fields"]:
        if hi is None or hi > n:
            hi = n
        lo = min(lo, hi)
        v = (word >> lo) & ((1 << (hi - lo)) - 1)
        if kind == "int":
            out.append((to_attr, sym, v))
        elif kind == "bits":
            out.append((to_attr, sym, (v, hi - lo)))
        else:
            s = "".join(str((v >> j) & 1) for j in range(hi - lo))
            out.append((to_attr, sym, s if lsbf else s[::-1]))
    return out
