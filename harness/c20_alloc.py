"""
C20 — allocation bound of the line-oriented readers on the REAL objects.

Theorems (Props/C20.lean): hex_alloc_bounded, srec_alloc_bounded, hex_decode_bounded — whatever the
model constructors accept holds at most one record per input byte and one data byte per two input
characters.  The models are tied to HEX/SREC by the correspondence of c14/c20; here the same bound is
measured on the real objects (records kept, data bytes kept, bytes handed to the loader by decode),
on well-formed streams and on streams whose count / length fields lie.
"""
from common import *
import fmt_real as R, fmt_gen as G


def lying_streams(r):
    """streams whose count fields promise much more than the line holds (rejected or not, the bound must hold)"""
    out = []
    for cnt in (0, 1, 0x10, 0xfe, 0xff):
        d = bytes(r.getrandbits(8) for _ in range(r.choice([0, 1, 4])))
        out.append(("hex", G.hex_line(cnt, r.getrandbits(16), 0, d) + b"\n"))
        out.append(("srec", G.srec_line(r.choice([1, 2, 3]), 0x100, d, count=cnt) + b"\n"))
    return out


def measure(kind, data):
    res = R.real_hexfile(data) if kind == "hex" else R.real_srecfile(data)
    if "ok" not in res:
        return None
    o = res["ok"]
    nrec = len(o["lines"])
    kept = sum(len(bytes.fromhex(l["data"])) if isinstance(l.get("data"), str) else len(l.get("data") or b"") for l in o["lines"])
    dec = sum(len(bytes.fromhex(d)) for (_, d) in o["decode"])
    return nrec, kept, dec


def run(ck, tier):
    r = rng("C20.alloc")
    n = 60 if tier == "quick" else 1500
    streams = []
    for _ in range(n):
        streams.append(("hex", G.hex_stream(r, G.gen_hex_records(r, mix=True))))
        streams.append(("srec", G.srec_stream(r, G.gen_srec_records(r))))
    streams += lying_streams(r)
    for kind, data in streams:
        if data is None:
            continue
        m = measure(kind, data)
        ck.count("alloc.%s.%s" % (kind, "accepted" if m else "rejected"))
        ck.case(("alloc", kind, data), nontrivial=m is not None)
        if m is None:
            continue
        nrec, kept, dec = m
        if nrec > len(data) or 2 * kept > len(data) or 2 * dec > len(data):
            ck.report("C20:%s:allocation" % kind, "%s object built from %d input bytes keeps %d records, %d data bytes and decodes %d bytes"
                      % (kind.upper(), len(data), nrec, kept, dec), "oracle",
                      "Amoco.Fmt.Props20.%s_alloc_bounded" % kind, case={"kind": kind, "data": data.hex()}, real=[nrec, kept, dec],
                      expected="records <= len, 2*data bytes <= len")
