"""
C07 — x86/x64 instruction boundaries agree with reference disassemblers.

The property is agreement with two external programs, so the deciding comparison is differential
and the claim is PARTIAL.  The Lean contribution is the length model `x86len` (Amoco/Model/X86Len.lean,
written from the SDM) as the hub of the comparison, and its theorems (Amoco/Props/C07.lean):
prefix-freeness (a boundary depends only on the bytes consumed, so a sweep that agrees with the
reference at one boundary agrees at the next), the ModRM/SIB/displacement table, the decoding of
relative displacements.

Ties, re-established on every run against the current /repo:
  (1) correspondence amoco ~ model: `instruction.length` and the relative displacement operand of
      cpu_x86 / cpu_x64 .disassemble  vs  `x86dec`, on encodings generated from every shipped x86/x64
      spec (random legal prefixes, structured ModRM/SIB, displacements, immediates), random strings,
      an exhaustive ModRM sweep and windows of instruction streams — both modes;
  (2) reference validation of the model: `x86dec` vs objdump AND llvm-mc on the same strings.
Oracle (the property itself): for every string that objdump and llvm-mc both decode as a valid
instruction of the same length (and, for relative branches, the same displacement) and that amoco
decodes at all, amoco must report that length and that displacement.  amoco decoding what the
references reject, and amoco returning None, are not violations.

A vendored table of reference answers (corpus/c07_table.json, made by x86len_table.py) is run first
and is all there is when a tool is missing.
"""
import sys, os, json, collections
from common import *
import isa
import x86len_refs as R
import x86len_gen as G

TABLE = os.path.join(ROOT, "corpus", "c07_table.json")


# ---------------------------------------------------------------------------------------
# features of a byte string, for narrow signatures
# ---------------------------------------------------------------------------------------

def split_prefixes(mode, bs):
    """(prefix bytes, rest) as the architecture reads them"""
    k = 0
    while k < len(bs):
        x = bs[k]
        if x in (0x66, 0x67, 0xF2, 0xF3, 0xF0, 0x26, 0x2E, 0x36, 0x3E, 0x64, 0x65) or (mode == 64 and 0x40 <= x <= 0x4F):
            k += 1
        else:
            break
    return bs[:k], bs[k:]


def pfx_class(mode, bs):
    p, rest = split_prefixes(mode, bs)
    f = []
    if 0x66 in p:
        f.append("66")
    if 0x67 in p:
        f.append("67")
    if mode == 64 and p and 0x40 <= p[-1] <= 0x4F and p[-1] & 8:
        f.append("rexw")
    return "+".join(f) or "nopfx"


def modrm_class(mode, bs, spec):
    """Mod/RM/SIB class of the string when its amoco spec has a ModRM byte"""
    if spec is None or not G.has_modrm(spec):
        return "nomodrm"
    p, rest = split_prefixes(mode, bs)
    n = spec.fix.size // 8
    if len(rest) < n:
        return "nomodrm"
    x = rest[n - 1]
    mod, rm = x >> 6, x & 7
    if mod == 3:
        return "reg"
    a16 = mode == 32 and 0x67 in p
    if a16:
        return "a16-mod%d%s" % (mod, "-rm6" if rm == 6 else "")
    if rm == 4:
        base5 = len(rest) > n and (rest[n] & 7) == 5
        return "mod%d-sib%s" % (mod, "-base5" if base5 else "")
    return "mod%d%s" % (mod, "-rm5" if rm == 5 else "")


def signature(mode, aspect, spec, bs):
    key = G.spec_key(spec) if spec is not None else "?"
    return "C07:x%d:%s:%s:%s:%s" % (mode if mode == 64 else 86, aspect, key, pfx_class(mode, bs), modrm_class(mode, bs, spec))


# ---------------------------------------------------------------------------------------
# reference answers
# ---------------------------------------------------------------------------------------

def refs_verdict(mode, k, o, l):
    """→ ("agree", n, rel|None) | ("invalid",) | ("differ",)
    rel is the displacement both references give (llvm-mc prints it, objdump's target must match)."""
    if o is None and l is None:
        return ("invalid",)
    if o is None or l is None or o[0] != l[0]:
        return ("differ",)
    n = o[0]
    orel, lrel = o[1], l[1]
    if (orel is None) != (lrel is None):
        return ("differ",)
    if lrel is None:
        return ("agree", n, None)
    d = lrel[1]
    if orel[0] == "disp":
        ok = orel[1] == d
    else:
        ok = R.objdump_rel_agrees(mode, R.slot_addr(k), n, orel[1], d)
    return ("agree", n, d) if ok else ("differ",)


def canon_ref(mode, k, x):
    """reference answer in table form: None | [n, None | disp]  (objdump target → displacement)"""
    if x is None:
        return None
    n, rel = x
    if rel is None:
        return [n, None]
    if rel[0] == "disp":
        return [n, rel[1]]
    # objdump: recover a displacement congruent to the target (mod 2^32; 16-bit forms mod 2^16)
    t = rel[1]
    full = (t - (R.BASE + R.slot_addr(k)) - n) % (1 << 32)
    if t < 0x10000:
        full = (t - ((R.BASE + R.slot_addr(k) + n) & 0xFFFF)) % (1 << 16)
        return [n, full - (1 << 16) if full >> 15 else full]
    return [n, full - (1 << 32) if full >> 31 else full]


def table_verdict(o, l):
    if o is None and l is None:
        return ("invalid",)
    if o is None or l is None or o[0] != l[0] or o[1] != l[1]:
        return ("differ",)
    return ("agree", o[0], o[1])


# ---------------------------------------------------------------------------------------
# generation
# ---------------------------------------------------------------------------------------

PFX_STATES_32 = [b"", b"\x66", b"\x67", b"\xf2", b"\xf3", b"\x66\x67", b"\x2e", b"\xf0"]
PFX_STATES_64 = [b"", b"\x66", b"\x67", b"\xf3", b"\x48", b"\x66\x48", b"\x67\x41", b"\xf2\x4c"]


def gen_cases(cpu, r, tier):
    """list of (bytes, origin)"""
    mode = cpu.mode
    quick = tier == "quick"
    out = []
    per_random = 2 if quick else 60
    states = PFX_STATES_64 if mode == 64 else PFX_STATES_32
    for s in cpu.insn_specs:
        # systematic: every prefix state that changes operand / address size, on a structured ModRM
        for p in states * (1 if quick else 4):
            b = G.gen_from_spec(s, r, 32)            # mode 32: no REX added by the generator
            _, rest = split_prefixes(32, b)
            out.append(((p + rest)[:15], "spec-pfx"))
        for _ in range(per_random):
            out.append((G.gen_from_spec(s, r, mode), "spec"))
    for _ in range(1500 if quick else 40000):
        out.append((G.gen_random(r, mode), "random"))
    # ModRM sweep: opcode 8B (MOV Gv,Ev) and one random ModRM opcode of the shipped specs
    sibs = [0x00, 0x05, 0x25, 0x64, 0x8D, 0xE5, 0xBF, 0x2C] if quick else list(range(256))
    sweep_pfx = [b"", b"\x67"] + ([b"\x41", b"\x67\x42"] if mode == 64 else [])     # REX.B / REX.X extend base / index
    for a67 in sweep_pfx:
        for modrm in range(256):
            for sib in sibs:
                tail = bytes(r.getrandbits(8) for _ in range(10))
                out.append(((a67 + bytes([0x8B, modrm, sib]) + tail)[:15], "modrm-sweep"))
    return out


def gen_streams(pool, r, count):
    """instruction streams from strings both references accept (truncated to their length)"""
    streams = []
    if not pool:
        return streams
    for _ in range(count):
        k = r.randint(3, 8)
        parts = [r.choice(pool) for _ in range(k)]
        streams.append(parts)
    return streams


# ---------------------------------------------------------------------------------------

def main(tier):
    ck = Check("C07", tier)
    quick = tier == "quick"
    broken = ck.build_and_audit(["Amoco.Props.C07", "drv_x86len"])
    drv = Driver("drv_x86len")
    tools = R.have_tools()
    live_refs = all(tools.values())
    ck.cov["tools"] = R.tool_versions()
    ck.cov["live_references"] = live_refs
    cpus = {32: G.Cpu(32), 64: G.Cpu(64)}
    ck.cov["specs"] = {"x86": len(cpus[32].insn_specs), "x64": len(cpus[64].insn_specs)}

    MAXV = 40               # distinct violation signatures reported in full; further ones are counted
    suppressed = collections.Counter()

    def report(sig, *a, **k):
        if sig not in ck.known and len(ck.violations) >= MAXV and not any(v["signature"] == sig for v in ck.violations):
            suppressed[sig] += 1
            return True
        return ck.report(sig, *a, **k)

    model_bad = []          # model disagrees with both references  (tie 2 broken)
    corr_bad = []           # amoco disagrees with the model and no reference verdict is available (tie 1)
    unjudged = collections.Counter()

    def model_ask(mode, strs):
        return drv.ask_many([{"op": "len", "mode": mode, "bytes": list(b)} for b in strs])

    def judge(mode, b, verdict, a, m, origin, texts=None):
        """one byte string: reference verdict, amoco's answer, the model's answer"""
        tag = "x%d" % (mode if mode == 64 else 86)
        ck.count("%s.origin.%s" % (tag, origin))
        ck.count("%s.refs.%s" % (tag, verdict[0]))
        ck.count("%s.amoco.%s" % (tag, a[0]))
        ck.count("%s.model.%s" % (tag, "some" if m is not None else "none"))
        nontrivial = verdict[0] == "agree" and a[0] == "ok"
        ck.case((mode, b), nontrivial=nontrivial)
        spec = None
        if a[0] == "ok":
            spec = a[5]
        if verdict[0] == "agree":
            n, d = verdict[1], verdict[2]
            ck.count("%s.len.%d" % (tag, n))
            if d is not None:
                ck.count("%s.relative-branch" % tag)
            # tie 2: the model against the references
            if m is None:
                ck.count("%s.model.unmodelled-but-valid" % tag)
            elif m[0] != n or (d is not None and m[1] != d):
                model_bad.append({"mode": mode, "bytes": b.hex(), "model": m, "references": [n, d], "text": texts})
            # the property
            if a[0] == "ok" and (a[1] != n or (d is not None and a[2] != d)):
                # shrink: the references read only the first n bytes; keep what amoco needs to repeat its answer
                bmin = b[: max(n, a[1])]
                amin = cpus[mode].decode(bmin)
                if amin[0] == "ok" and amin[1:3] == a[1:3]:
                    b = bmin
            if a[0] == "ok":
                if a[1] != n:
                    report(signature(mode, "len", spec, b),
                              "%s %s: amoco decodes %s (%s) with length %d, objdump and llvm-mc agree on %d%s"
                              % (tag, b.hex(), a[3], a[4].strip(), a[1], n, (" [%s]" % texts[0]) if texts else ""),
                              "oracle", "correspondence amoco ~ Amoco.X86Len.x86len (validated against objdump + llvm-mc)",
                              case={"mode": mode, "bytes": b.hex(), "origin": origin}, real=list(a[1:5]), model=m, expected=[n, d])
                elif d is not None and a[2] != d:
                    report(signature(mode, "rel", spec, b),
                              "%s %s: amoco decodes %s with displacement %r, objdump and llvm-mc agree on %d"
                              % (tag, b.hex(), a[3], a[2], d),
                              "oracle", "correspondence amoco ~ Amoco.X86Len.x86rel (validated against objdump + llvm-mc)",
                              case={"mode": mode, "bytes": b.hex(), "origin": origin}, real=list(a[1:5]), model=m, expected=[n, d])
        # tie 1: amoco against the model
        if a[0] == "ok" and m is not None:
            same = a[1] == m[0] and (m[1] is None or a[2] is None or a[2] == m[1])
            ck.count("%s.corr.%s" % (tag, "same" if same else "differ"))
            if not same and verdict[0] != "agree":
                cls = "%s %s (%s)" % (tag, G.spec_key(spec), a[3])
                if verdict[0] == "unknown" and not G.spec_key(spec).startswith("9b "):
                    corr_bad.append({"mode": mode, "bytes": b.hex(), "amoco": list(a[1:5]), "model": m})
                else:
                    unjudged[cls] += 1
        return nontrivial

    def amoco_all(mode, strs):
        return [cpus[mode].decode(b) for b in strs]

    # ---- 0. vendored table -----------------------------------------------------------------
    table = []
    try:
        table = json.load(open(TABLE))["entries"]
    except (OSError, ValueError, KeyError):
        ck.oblige("vendored reference table present", False, TABLE)
    drift = 0
    pool = {32: [], 64: []}
    for mode in (32, 64):
        ent = [e for e in table if e[0] == mode]
        strs = [bytes.fromhex(e[1]) for e in ent]
        am = amoco_all(mode, strs)
        mo = model_ask(mode, strs)
        if live_refs and strs:
            od, odt = R.run_objdump(mode, strs)
            ll, llt = R.run_llvm(mode, strs)
            if not quick:
                lin = R.llvm_length_linear(mode, strs)
                mism = sum(1 for x, y in zip(ll, lin) if (x is None) != (y is None) or (x is not None and x[0] != y[0]))
                ck.cov["llvm_bisection_vs_exhaustive_mismatches_x%d" % mode] = mism
                ll = [None if y is None else (y[0], y[1]) for y in lin]
        for k, (e, b) in enumerate(zip(ent, strs)):
            v = table_verdict(e[2], e[3])
            if live_refs:
                cur = (canon_ref(mode, k, od[k]), canon_ref(mode, k, ll[k]))
                if cur != (e[2], e[3]):
                    drift += 1
            judge(mode, b, v, am[k], mo[k], "table")
            if v[0] == "agree":
                pool[mode].append(b[: v[1]])
    ck.cov["table_entries"] = len(table)
    ck.cov["table_drift_vs_installed_tools"] = drift if live_refs else None
    if table:
        ck.sample({"table": table[0]})

    # ---- 1. live generation -------------------------------------------------------------------
    r = rng("C07")
    for mode in (32, 64):
        cases = gen_cases(cpus[mode], r, tier)
        strs = [b for b, _ in cases]
        am = amoco_all(mode, strs)
        mo = model_ask(mode, strs)
        if live_refs:
            od, odt = R.run_objdump(mode, strs)
            ll, llt = R.run_llvm(mode, strs)
        for k, (b, origin) in enumerate(cases):
            if live_refs:
                v = refs_verdict(mode, k, od[k], ll[k])
                texts = (odt[k], llt[k])
            else:
                v, texts = ("unknown",), None
            judge(mode, b, v, am[k], mo[k], origin, texts)
            if v[0] == "agree":
                pool[mode].append(b[: v[1]])
        if cases:
            k = len(cases) // 2
            ck.sample({"live": {"mode": mode, "bytes": strs[k].hex(), "origin": cases[k][1],
                                "objdump": (od[k], odt[k]) if live_refs else None,
                                "llvm-mc": (ll[k], llt[k]) if live_refs else None,
                                "amoco": list(am[k][:5]), "model": mo[k]}})

    # ---- 2. streams: amoco's sweep, the model's sweep, the reference boundaries ---------------------
    nstreams = 300 if quick else 5000
    for mode in (32, 64):
        streams = gen_streams(pool[mode], r, nstreams)
        blobs = [b"".join(p) for p in streams]
        sw = drv.ask_many([{"op": "sweep", "mode": mode, "bytes": list(b)} for b in blobs])
        tag = "x%d" % (mode if mode == 64 else 86)
        for parts, blob, msw in zip(streams, blobs, sw):
            exp = [len(p) for p in parts]
            ck.count("%s.streams" % tag)
            # model: its sweep must reproduce the reference boundaries wherever it covers the instructions
            if msw != exp[: len(msw)] or (len(msw) < len(exp) and model_ask(mode, [blob[sum(exp[: len(msw)]):][:15]])[0] is not None):
                model_bad.append({"mode": mode, "stream": blob.hex(), "model_sweep": msw, "references": exp})
            off = 0
            for idx, n in enumerate(exp):
                a = cpus[mode].decode(blob[off: off + 15])
                if a[0] != "ok":
                    ck.count("%s.streams.amoco-stops" % tag)
                    break
                if a[1] != n:
                    win = blob[off: off + 15]
                    a2 = amoco_all(mode, [win])[0]
                    report(signature(mode, "len", a2[5], win),
                              "%s stream %s: at reference boundary %d amoco decodes %s with length %d, the references have %d: "
                              "amoco places the next boundary where the references do not"
                              % (tag, blob.hex(), off, a[3], a[1], n),
                              "oracle", "Amoco.X86Len.Props.sweep_next_boundary / correspondence amoco ~ x86len",
                              case={"mode": mode, "stream": blob.hex(), "offset": off, "bytes": win.hex()},
                              real=list(a[1:5]), model=msw, expected=exp)
                    break
                off += n
            else:
                ck.count("%s.streams.amoco-complete" % tag)
            ck.case((mode, "stream", blob), nontrivial=True)
        if blobs:
            ck.sample({"stream": {"mode": mode, "bytes": blobs[0].hex(), "boundaries": [len(p) for p in streams[0]], "model_sweep": sw[0]}})

    # ---- 3. the ModRM table of the model, exhaustively, against its reader ---------------------------
    #  (the theorem `rdModRM_run` says so for all inputs; this runs the compiled definitions as a sanity check)
    reqs, exp = [], []
    for a16 in (False, True):
        for x in range(256):
            for sib in (0, 5, 0x25, 0xFF):
                reqs.append({"op": "modrm", "a16": a16, "modrm": x, "sib": sib})
                mod, rm = x >> 6, x & 7
                if mod == 3:
                    e = 0
                elif a16:
                    e = {0: 2 if rm == 6 else 0, 1: 1, 2: 2}[mod]
                else:
                    base = (sib & 7) if rm == 4 else rm
                    e = (1 if rm == 4 else 0) + {0: 4 if base == 5 else 0, 1: 1, 2: 4}[mod]
                exp.append(e)
    ans = drv.ask_many(reqs)
    bad = [(q, a, e) for q, a, e in zip(reqs, ans, exp) if a != e]
    ck.oblige("model ModRM table = SDM tables 2-1/2-2/2-3 (2048 rows)", not bad, str(bad[:3]))
    if bad:
        model_bad.append({"modrm": bad[:5]})
    drv.close()

    # ---- broken ties ---------------------------------------------------------------------------------
    for bmsg in broken:
        ck.report("C07:proof-obligation", "proof obligation broken: %s" % bmsg[:300], "proof-obligation", bmsg[:2000],
                  failing_input_found=False)
    if model_bad:
        ck.report("C07:model-vs-references",
                  "the length model disagrees with both reference disassemblers on %d strings (first: %s)" % (len(model_bad), json.dumps(model_bad[0])[:300]),
                  "correspondence", "reference validation of Amoco.X86Len.x86dec against objdump and llvm-mc",
                  case=model_bad[0], model=model_bad[:20], failing_input_found=False)
    if corr_bad:
        ck.report("C07:correspondence",
                  "amoco and the length model disagree on %d strings and no reference disassembler is installed to judge (first: %s)"
                  % (len(corr_bad), json.dumps(corr_bad[0])[:300]),
                  "correspondence", "correspondence amoco instruction.length ~ Amoco.X86Len.x86dec",
                  case=corr_bad[0], real=corr_bad[:20], failing_input_found=False)
    ck.oblige("reference validation: x86dec = objdump = llvm-mc wherever both accept", not model_bad, "%d disagreements" % len(model_bad))
    ck.oblige("correspondence amoco ~ x86dec (differences only where the references reject or differ)", not corr_bad,
              "%d unexplained" % len(corr_bad))
    ck.oblige("both reference disassemblers available (else vendored table only)", True,
              "" if live_refs else "missing: %s" % [k for k, v in tools.items() if not v])
    ck.cov["unjudged_amoco_vs_model"] = dict(unjudged.most_common(40))
    if suppressed:
        ck.cov["violation_signatures_not_listed"] = len(suppressed)
        print("(+ %d further distinct violation signatures, %d strings, not listed)" % (len(suppressed), sum(suppressed.values())))
    ck.assumptions += [
        "PARTIAL: the property is agreement with two external binaries (objdump %s, llvm-mc %s); it is decided by differential comparison on generated strings, not by a theorem"
        % (ck.cov["tools"].get("objdump", "absent"), ck.cov["tools"].get("llvm-mc", "absent")),
        "the Lean theorems are about the length model (prefix-freeness, ModRM table, displacement decoding); the model is validated against both references on every run",
        "strings the two references decode differently (e.g. 9B-fused x87 mnemonics, lone prefixes, 66-prefixed branches on Intel vs AMD) are outside the property",
        "llvm-mc prints re-encoded bytes; its consumed length is found by bisection over atomic blocks (thorough tier: same)",
    ]
    ck.trusted += ["objdump and llvm-mc as the references the property names; harness/x86len_refs.py parsing of their output",
                   "harness/x86len_gen.py reading of instruction.length / operands[0] of amoco's decoders",
                   "compiled Lean driver drv_x86len (evaluation of the model definitions)",
                   "my reading of the SDM encoding chapter in Amoco/Model/X86Len.lean (validated against both references each run)"]
    return ck.finish("strings: vendored table; for every shipped x86/x64 spec, prefix states x structured ModRM/SIB + random "
                     "prefixes/tails/truncations; random strings; ModRM sweep over opcode 8B; windows of instruction streams. "
                     "non-trivial = both references accept with the same length and amoco decodes it",
                     explanation="partial: differential agreement with objdump and llvm-mc through a Lean length model")


def replay(path):
    rec = json.load(open(path))
    case = rec.get("case") or {}
    mode = case.get("mode")
    b = bytes.fromhex(case.get("bytes", ""))
    cpu = G.Cpu(mode)
    a = cpu.decode(b)
    drv = Driver("drv_x86len")
    m = drv.ask({"op": "len", "mode": mode, "bytes": list(b)})
    drv.close()
    out = {"amoco": list(a[:5]), "model": m}
    if all(R.have_tools().values()):
        od, odt = R.run_objdump(mode, [b]); ll, llt = R.run_llvm(mode, [b])
        out["objdump"] = [od[0], odt[0]]; out["llvm-mc"] = [ll[0], llt[0]]
        v = refs_verdict(mode, 0, od[0], ll[0])
        out["references"] = list(v)
        bad = v[0] == "agree" and a[0] == "ok" and (a[1] != v[1] or (v[2] is not None and a[2] != v[2]))
    else:
        bad = rec.get("expected") is not None and a[0] == "ok" and a[1] != rec["expected"][0]
    print(json.dumps(out, default=repr))
    print("VIOLATION property=C07 replay=%s" % path if bad else "no violation on this tree")
    return 1 if bad else 0


if __name__ == "__main__":
    if len(sys.argv) > 2 and sys.argv[1] == "--replay":
        sys.exit(replay(sys.argv[2]))
    sys.exit(main(sys.argv[1] if len(sys.argv) > 1 else "quick"))
