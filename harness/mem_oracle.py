"""
mem_oracle.py — the property-level oracle of C08: a plain byte store, independent of amoco and of the
Lean model.  zone key -> { address -> (descriptor, endianness of the write, serial of the write) }.
A descriptor is ["r", byte] or ["s", register id, value-byte index] (see mem_gen.value_bytes).
"""
import itertools
from mem_gen import mem_bytes, resolve, value_len

_SER = itertools.count(1)     # serial numbers of writes (only used to classify overlaps)


class Store(object):
    def __init__(self):
        self.z = {None: {}}
        self.serial = 0
        self.last_class = None

    def copy(self):
        s = Store()
        s.z = {k: dict(v) for k, v in self.z.items()}
        s.serial = self.serial
        return s

    # -- classification of a write against the current content (for the evidence histogram) ------
    def classify(self, key, off, n):
        d = self.z.get(key, {})
        if not d:
            return "first-in-zone"
        lo, hi = min(d), max(d) + 1
        cov = [d.get(a) for a in range(off, off + n)]
        hit = [c for c in cov if c is not None]
        if not hit:
            if off + n <= lo:
                return "before-first-touching" if off + n == lo else "before-first"
            if off >= hi:
                return "after-last-touching" if off == hi else "after-last"
            if (off - 1) in d or (off + n) in d:
                return "gap-touching"
            return "gap"
        serials = []
        for c in hit:
            if c[2] not in serials:
                serials.append(c[2])
        sym = any(c[0][0] == "s" for c in hit)
        if len(serials) >= 2:
            return "spanning-several" + ("-expr" if sym else "")
        s = serials[0]
        whole = [a for a, c in d.items() if c[2] == s]
        covered_all = all(off <= a < off + n for a in whole)
        if covered_all:
            return "covers-one" + ("-expr" if sym else "")
        if len(hit) == n and min(whole) < off and max(whole) >= off + n:
            return "inside-one" + ("-expr" if sym else "")
        return "partial-over-one" + ("-expr" if sym else "")

    # -- operations ----------------------------------------------------------------------------
    def apply(self, op):
        """returns the expected result: "ok" | "MemoryError" | "KeyError" | ("bytes", [desc|None,...]) |
        ("nozone", n)."""
        k = op["k"]
        if k == "write":
            loc = resolve(op["addr"])
            if loc is None:
                return "MemoryError"
            key, off = loc
            mb = mem_bytes(op["val"], op["en"])
            self.last_class = self.classify(key, off, len(mb))
            ser = next(_SER)
            d = self.z.setdefault(key, {})
            for i, b in enumerate(mb):
                d[off + i] = (b, op["en"], ser)
            return "ok"
        if k == "read":
            loc = resolve(op["addr"])
            if loc is None:
                return "MemoryError"
            key, off = loc
            if key not in self.z:
                return ("nozone", op["n"])
            d = self.z[key]
            return ("bytes", [d[a][0] if a in d else None for a in range(off, off + op["n"])])
        if k in ("restruct", "copy"):
            return "ok"
        if k == "shift":
            if op["zone"] not in self.z:
                return "KeyError"
            d = self.z[op["zone"]]
            self.z[op["zone"]] = {a + op["off"]: v for a, v in d.items()}
            return "ok"
        if k == "merge":
            other = Store()
            for o in op["ops"]:
                other.apply(o)
            for key, d in other.z.items():
                self.z.setdefault(key, {}).update(d)
            return "ok"
        raise ValueError(op)

    # -- judging what the real code returned ----------------------------------------------------
    def flatten_items(self, op, items):
        """memory-order descriptors of a real read result (list of canonical items)."""
        loc = resolve(op["addr"])
        key, cur = loc
        d = self.z.get(key, {})
        out = []
        for it in items:
            if it[0] == "raw":
                out += [["r", b] for b in it[1]]
                cur += len(it[1])
            elif it[0] == "bot":
                out += [None] * it[1]
                cur += it[1]
            elif it[0] == "ex":
                # a part keeps the endianness of the write it comes from (the list does not say which)
                en = d[cur][1] if cur in d else 1
                vb = it[1]
                out += vb if en == 1 else vb[::-1]
                cur += len(vb)
            else:
                out.append(("?", it))
        return out

    def judge(self, op, expected, real):
        """True when the real result is what the byte store expects."""
        if isinstance(expected, str):
            return real == expected
        if expected[0] == "nozone":
            # a zone never written: MemoryError (turned into bottom by the mapper) or all-bottom
            if real == "MemoryError":
                return True
            return isinstance(real, dict) and self.flatten_items(op, real["items"]) == [None] * expected[1]
        if not isinstance(real, dict):
            return False
        return self.flatten_items(op, real["items"]) == expected[1]

    def state_ok(self, zones):
        """does the dumped real state ([[key, objs, cache],...]) hold exactly the stored bytes?"""
        if not isinstance(zones, list):
            return False
        seen = {}
        for key, objs, cache in zones:
            d = {}
            for vaddr, val, en in objs:
                if val[0] == "raw":
                    mb = [["r", b] for b in val[1]]
                else:
                    mb = val[1] if en == 1 else val[1][::-1]
                for i, b in enumerate(mb):
                    if vaddr + i in d:
                        return False
                    d[vaddr + i] = b
            seen[key] = d
        if set(seen) != set(self.z):
            return False
        for key, d in self.z.items():
            if {a: v[0] for a, v in d.items()} != seen[key]:
                return False
        return True

    def extent(self, key):
        d = self.z.get(key, {})
        if not d:
            return None
        return min(d), max(d) + 1


class Workspace(object):
    """one byte store per live map; `fork` duplicates a store, nothing else couples them."""

    def __init__(self):
        self.s = [Store()]

    def apply(self, op):
        m = op.get("m", 0)
        if m >= len(self.s):
            return "nomap"
        k = op["k"]
        if k == "fork":
            self.s.append(self.s[m].copy())
            return "ok"
        if k == "mergecopy":
            if op["src"] >= len(self.s):
                return "nomap"
            for key, d in self.s[op["src"]].z.items():
                self.s[m].z.setdefault(key, {}).update(d)
            return "ok"
        return self.s[m].apply(op)

    def judge(self, op, expected, real):
        m = op.get("m", 0)
        if m >= len(self.s):
            return real == expected
        return self.s[m].judge(op, expected, real)

    def state_ok(self, maps):
        return isinstance(maps, list) and len(maps) == len(self.s) and all(s.state_ok(z) for s, z in zip(self.s, maps))

    def last_class(self, op):
        m = op.get("m", 0)
        return self.s[m].last_class if m < len(self.s) else None
