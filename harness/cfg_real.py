"""
cfg_real.py — access to the real sweep / block / cfg code of amoco for the C18 check:
programs from raw buffers for many ISAs, from the samples, instruction dumps, reader tables,
real `lsweep.sequence/iterblocks/getblock`, real `cfg.graph` insertion histories.
"""
import os, sys, importlib, itertools
from common import fresh_amoco, REPO

fresh_amoco()
import amoco
from amoco.system.core import DataIO, shellcode
from amoco.system.raw import RawExec
from amoco.sa.lsweep import lsweep
from amoco import cfg, code
from amoco.arch.core import type_control_flow

# (name, cpu module) — ISAs for which `RawExec(shellcode(bytes), cpu)` gives a task for raw code
RAW_ISAS = [
    ("x86", "amoco.arch.x86.cpu_x86"),
    ("x64", "amoco.arch.x64.cpu_x64"),
    ("armv7", "amoco.arch.arm.cpu_armv7"),
    ("armv8", "amoco.arch.arm.cpu_armv8"),
    ("msp430", "amoco.arch.msp430.cpu"),
    ("w65c02", "amoco.arch.w65c02.cpu"),
    ("mips", "amoco.arch.mips.cpu_r3000"),
    ("mipsLE", "amoco.arch.mips.cpu_r3000LE"),
    ("sparc", "amoco.arch.sparc.cpu_v8"),
    ("sh2", "amoco.arch.superh.cpu_sh2"),
    ("pic18", "amoco.arch.pic.cpu_pic18f46k22"),
    ("ppc32", "amoco.arch.ppc32.cpu"),
    ("gb", "amoco.arch.z80.cpu_gb"),
    ("z80", "amoco.arch.z80.cpu_z80"),
    ("tricore", "amoco.arch.tricore.cpu"),
    ("v850", "amoco.arch.v850.cpu_v850e2s"),
    ("rv32i", "amoco.arch.riscv.cpu_rv32i"),
    ("rv64i", "amoco.arch.riscv.cpu_rv64i"),
    ("dwarf", "amoco.arch.dwarf.cpu"),
    ("bpf", "amoco.arch.eBPF.cpu_bpf"),
]

SAMPLES = [
    "x86/flow.elf", "x86/loop_simple.elf", "x86/test_full.elf", "x86/prefixes.elf", "x86/test_pie.elf",
    "x64/flow.elf64", "x64/loop_simple.elf64", "x64/merge.elf64", "x64/cxx.elf64", "x64/toc.osx",
    "x86/CoST.exe", "x86/puttygen.exe",
    "arm/hw", "sparc/solaris-sed.elf", "sparc/saverestore", "riscv/TA.elf.signed",
]


def load_cpus():
    ok, bad = {}, {}
    for name, mod in RAW_ISAS:
        try:
            ok[name] = importlib.import_module(mod)
        except BaseException as e:
            bad[name] = "%s: %s" % (type(e).__name__, e)
    return ok, bad


def flatten(tree):
    f, l = tree
    if f == 0:
        return list(l)
    out = []
    for k, sub in l.items():
        out.extend(flatten(sub))
    return out


def reset(cpu):
    try:
        cpu.disassemble._disassembler__i = None
    except Exception:
        pass


class SpecSource(object):
    """spec-directed byte generation for one ISA, restricted to specs whose directed word decodes
    (without raising) to an instruction of exactly the generated size."""

    def __init__(self, cpu, r):
        self.cpu = cpu
        d = cpu.disassemble
        self.e = d.endian() if callable(getattr(d, "endian", None)) else 1
        self.specs = flatten(d.specs[0])
        self.r = r
        self.good = {}

    def word(self, s):
        r = self.r
        n = s.fix.size
        w = (s.fix.ival | (r.getrandbits(n) & ~s.mask.ival & ((1 << n) - 1))) if n else 0
        bs = w.to_bytes(n // 8, "little")[:: self.e]
        if s.size == 0:
            bs += bytes(r.getrandbits(8) for _ in range(r.choice([0, 0, 1, 2, 4, 8])))
        return bs

    def instr_bytes(self, want_cf=None, tries=40):
        """bytes of one instruction that decodes cleanly on its own (or None)."""
        for _ in range(tries):
            s = self.r.choice(self.specs)
            if self.good.get(id(s)) is False:
                continue
            bs = self.word(s)
            reset(self.cpu)
            try:
                i = self.cpu.disassemble(bs + b"\0" * 16)
            except BaseException:
                self.good[id(s)] = False
                reset(self.cpu)
                continue
            if i is None or i.length == 0 or i.length > len(bs) + 16:
                continue
            if want_cf is not None and (i.type == type_control_flow) != want_cf:
                continue
            return (bs + b"\0" * 16)[: i.length]
        return None

    def buffer(self, n, cf_rate=0.25, junk_rate=0.0):
        out = b""
        for _ in range(n):
            if self.r.random() < junk_rate:
                out += bytes(self.r.getrandbits(8) for _ in range(self.r.randint(1, 4)))
                continue
            b = self.instr_bytes(want_cf=True if self.r.random() < cf_rate else None)
            if b is None:
                b = bytes(self.r.getrandbits(8) for _ in range(2))
            out += b
        return out


def raw_task(buf, cpu):
    reset(cpu)
    return RawExec(shellcode(DataIO(buf)), cpu)


def sample_task(rel):
    path = os.path.join(REPO, "tests", "samples", rel)
    return amoco.load_program(path)


def ival(x):
    """int value of an address (cst or int)"""
    if x is None:
        return None
    if isinstance(x, int):
        return x
    return int(x.value) if hasattr(x, "value") else int(x)


def dump_instr(i, with_bytes=True):
    return [ival(i.address), list(i.bytes) if with_bytes else i.length,
            i.type == type_control_flow, bool(i.misc.get("delayed", False))]


def is_instr(i):
    return hasattr(i, "bytes") and hasattr(i, "misc") and hasattr(i, "type") and hasattr(i, "length")


def reader_table(p, addrs):
    """independent calls of prog.read_instruction at every address: addr -> dump | 'none' | 'raise' | 'other'"""
    tab = {}
    for a in addrs:
        reset(p.cpu)
        try:
            i = p.read_instruction(a)
        except BaseException as e:
            tab[a] = "raise"
            reset(p.cpu)
            continue
        if i is None:
            tab[a] = "none"
        elif not is_instr(i):
            tab[a] = "other"
        else:
            d = dump_instr(i)
            d[0] = a
            tab[a] = d
    return tab


def real_sequence(p, loc, limit):
    reset(p.cpu)
    z = lsweep(p)
    out = []
    for i in itertools.islice(z.sequence(loc), limit):
        if not is_instr(i):
            return None
        out.append(i)
    return out


def real_iterblocks(p, loc, limit_instr):
    """blocks of the real iterblocks until `limit_instr` instructions have been seen
    (returns list of blocks (lists of instruction objects), complete:bool)"""
    reset(p.cpu)
    z = lsweep(p)
    out, n = [], 0
    it = z.iterblocks(loc)
    complete = True
    for b in it:
        n += len(b.instr)
        if n > limit_instr:
            complete = False
            it.close()
            break
        out.append(b)
    return out, complete


def mk_node(instrs):
    return cfg.node(code.block(list(instrs)))


def dump_graph(g):
    sup = []
    for m in g.support._map:
        n = m.data.val
        sup.append([ival(m.vaddr), len(n), [ival(i.address) for i in n.data.instr]])
    edges = sorted([ival(e.v[0].data.address) if e.v[0].data.instr else None,
                    ival(e.v[1].data.address) if e.v[1].data.instr else None] for e in g.E())
    ov = None if g.overlay is None else [[ival(m.vaddr), len(m.data.val)] for m in g.overlay._map]
    verts = sorted((ival(v.data.address) if v.data.instr else -1) for v in g.V())
    return {"support": sup, "edges": edges, "overlay": ov, "vertices": verts}


def run_history(stream, hist, reinsert=()):
    """insert node(block(stream[s:e])) for each (s,e) of hist into a fresh cfg.graph.
    returns list of per-step dicts: {"res": "ok", "ret": addr, support, edges, ...} or
    {"res": "raise", "exc": name, "msg": ...}; stops at the first exception.
    `reinsert`: step indices after which the node just returned is inserted a second time
    (same Python object)."""
    g = cfg.graph()
    steps = []
    for k, (s, e) in enumerate(hist):
        n = mk_node(stream[s:e])
        try:
            r = g.add_vertex(n)
            if k in reinsert:
                r2 = g.add_vertex(r)
                if r2 is not r:
                    steps.append({"res": "raise", "exc": "ReinsertNotIdentity", "msg": ""})
                    break
        except BaseException as ex:
            import traceback
            tb = traceback.extract_tb(ex.__traceback__)
            site = [(f.name, f.lineno) for f in tb if "amoco" in f.filename][-3:]
            steps.append({"res": "raise", "exc": type(ex).__name__, "msg": str(ex)[:80], "site": site})
            break
        d = dump_graph(g)
        d["res"] = "ok"
        d["ret"] = ival(r.data.address) if r.data.instr else None
        steps.append(d)
    return g, steps


# ---------------------------------------------------------------------------------------
# histories on ONE long-lived lsweep object, interleaved with graph insertions
# ---------------------------------------------------------------------------------------

def table_path(p, start, n):
    """the instruction stream from `start` as given by independent `read_instruction` calls (at most
    n instructions).  returns (dumps, status): 'complete' (the reader gives nothing after the last
    one), 'open' (n reached), 'unmodelled' (the reader raises or yields a non-instruction)."""
    out, a = [], start
    for _ in range(n):
        t = reader_table(p, [a])[a]
        if t == "none":
            return out, "complete"
        if not isinstance(t, list):
            return out, "unmodelled"
        out.append(t)
        a += len(t[1])
    t = reader_table(p, [a])[a]
    return out, ("complete" if t == "none" else "open")


def run_sweep_history(p, ops):
    """run `ops` on one lsweep object `z` of program p and on graphs named by the ops
    (0, 1, ... fresh cfg.graph objects, "G" the analysis' own graph z.G):
      ["gb", loc, as_cst, g]            b = z.getblock(loc); if g is not None: graph(g).add_vertex(cfg.node(b))
      ["gbcut", loc, as_cst, addr]      b = z.getblock(loc); b.cut(addr)      (the caller trims its own block)
      ["ib", loc, as_cst, n, ins]       the first n blocks of z.iterblocks(loc); for [k, g] in ins: insert block k in graph g
    Every handed-out block is used for at most one insertion.  returns one record per op:
    {"res": "ok", "blocks": [dumps], "props": [[support, length, raw]], "exhausted": bool,
     "cut_before": an earlier handed-out block with this start address was cut since,
     "ins": [{"g", "first", "n", + dump_graph}]}  or {"res": "raise", ...}; stops at the first exception."""
    cpu = p.cpu
    pcsize = cpu.PC().size
    reset(cpu)
    z = lsweep(p)
    graphs = {}
    handed = []          # (block, start, number of instructions when handed out)
    steps = []

    def graph(g):
        if g == "G":
            return z.G
        if g not in graphs:
            graphs[g] = cfg.graph()
        return graphs[g]

    for op in ops:
        st = {"res": "ok", "blocks": [], "props": [], "ins": [], "exhausted": False}
        try:
            kind, loc, as_cst = op[0], op[1], op[2]
            arg = cpu.cst(loc, pcsize) if as_cst else loc
            st["cut_before"] = any(a == loc and len(b.instr) != n0 for (b, a, n0) in handed)
            st["repeat"] = any(a == loc for (b, a, n0) in handed)
            if kind in ("gb", "gbcut"):
                b = z.getblock(arg)
                blocks = [] if b is None else [b]
                ins = [[0, op[3]]] if (kind == "gb" and op[3] is not None) else []
            else:
                it = z.iterblocks(arg)
                blocks = list(itertools.islice(it, op[3]))
                st["exhausted"] = len(blocks) < op[3]
                it.close()
                ins = op[4]
            for b in blocks:
                if not (hasattr(b, "instr") and all(is_instr(i) for i in b.instr)):
                    st["res"] = "unmodelled"
                    break
                st["blocks"].append([dump_instr(i) for i in b.instr])
                sup = b.support
                st["props"].append([[ival(sup[0]), ival(sup[1])] if b.instr else None, b.length, list(b.raw())])
                handed.append((b, ival(b.instr[0].address) if b.instr else None, len(b.instr)))
            if st["res"] != "ok":
                steps.append(st)
                break
            if kind == "gbcut" and blocks and blocks[0].instr:
                a0 = blocks[0].instr[0].address
                st["nl"] = blocks[0].cut(a0 + (op[3] - ival(a0)))
            for (k, g) in ins:
                if k >= len(blocks) or not blocks[k].instr:
                    continue
                b = blocks[k]
                rec = {"g": g, "first": ival(b.instr[0].address), "n": len(b.instr)}
                graph(g).add_vertex(cfg.node(b))
                rec.update(dump_graph(graph(g)))
                st["ins"].append(rec)
        except BaseException as ex:
            import traceback
            tb = traceback.extract_tb(ex.__traceback__)
            site = [(f.name, f.lineno) for f in tb if "amoco" in f.filename][-3:]
            st = {"res": "raise", "exc": type(ex).__name__, "msg": str(ex)[:80], "site": site}
            steps.append(st)
            reset(cpu)
            break
        steps.append(st)
    return steps
