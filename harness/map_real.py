"""
map_real.py — the real side of the mapper checks (C02, C09): IR programs (map_gen.py) executed on the real
`amoco.cas.mapper.mapper` statement by statement (`m[loc] = m(e)`, as an `i_XXX` body does), composition
with a concrete state (`concrete >> symbolic`), canonical dumps of the ordered map / zones / lastw / mods,
and an evaluator of real expression trees that interprets a remaining `mem`-with-mods by replaying its
mods (independent of amoco's own `eval`).
"""
import common
common.fresh_amoco()
from amoco.cas.expressions import exp, cst, reg, slc, comp, mem, ptr, op as eop, uop, composer, oper
from amoco.cas.mapper import mapper
from amoco.config import conf
import map_ref
from map_gen import size_of


class Settings(object):
    """context manager for conf.Cas.noaliasing / memtrace"""

    def __init__(self, noaliasing, memtrace):
        self.new = (noaliasing, memtrace)

    def __enter__(self):
        self.old = (conf.Cas.noaliasing, conf.Cas.memtrace)
        conf.Cas.noaliasing, conf.Cas.memtrace = self.new
        return self

    def __exit__(self, *a):
        conf.Cas.noaliasing, conf.Cas.memtrace = self.old
        return False


# ---------------------------------------------------------------------------------------------------
# IR -> amoco objects (fresh leaf objects for every program: semantics functions mutate `sf` in place)
# ---------------------------------------------------------------------------------------------------

class Builder(object):
    def __init__(self, be):
        self.endian = -1 if be else 1
        self.regs = {}

    def reg(self, name, size):
        k = (name, size)
        if k not in self.regs:
            self.regs[k] = reg(name, size)
        return self.regs[k]

    def expr(self, e):
        k = e[0]
        if k == "cst":
            return cst(e[1], e[2])
        if k == "reg":
            return self.reg(e[1], e[2])
        if k == "slc":
            x = self.expr(e[1])
            return x[e[2]:e[2] + e[3]]
        if k == "cat":
            return composer([self.expr(x) for x in e[1]])
        if k == "addc":
            x = self.expr(e[1])
            return (x + e[2]) if e[2] >= 0 else (x - (-e[2]))
        if k == "op":
            return oper(e[1], self.expr(e[2]), self.expr(e[3]))
        if k == "load":
            return self.mem(e[1], e[2])
        raise ValueError(e)

    def mem(self, addr, size):
        base, disp = addr
        return mem(self.expr(base), size, disp=disp, endian=self.endian)

    def lhs(self, stmt):
        if stmt[0] == "set":
            _, name, rs, pos, size, _ = stmt
            r_ = self.reg(name, rs)
            return r_ if (pos == 0 and size == rs) else slc(r_, pos, size)
        return self.mem(stmt[1], stmt[2])


def _mems(e, out):
    """the mem nodes of a real expression, innermost first"""
    if e._is_mem:
        _mems(e.a.base, out)
        out.append(e)
    elif e._is_slc:
        _mems(e.x, out)
    elif e._is_cmp:
        for p in e.parts.values():
            _mems(p, out)
    elif e._is_eqn:
        if e.l is not None:
            _mems(e.l, out)
        _mems(e.r, out)
    elif e._is_ptr:
        _mems(e.base, out)


def run(prog, trace=None, accesses=None):
    """symbolic execution of the program on a fresh real mapper under the current conf settings.
       trace: list receiving the dump of the map after every statement;
       accesses: list receiving (symbolic pointer, nbytes) of every load and store as the map sees it
       (the pointer is an expression over the *initial* registers)."""
    b = Builder(prog["be"])
    m = mapper()
    for s in prog["stmts"]:
        rhs = b.expr(s[-1])
        lhs = b.lhs(s)
        if accesses is not None:
            ms = []
            _mems(rhs, ms)
            if lhs._is_mem:
                _mems(lhs.a.base, ms)
            for x in ms:
                accesses.append((x.a.eval(m), x.size // 8))
            if lhs._is_mem:
                accesses.append((lhs.a.eval(m), lhs.size // 8))
        v = m(rhs)
        m[lhs] = v
        if trace is not None:
            trace.append(dump_map(m))
    return m, b


def zone_key(p):
    """the zone a pointer falls into, as MemoryMap.reference sees it"""
    return "None" if p.base._is_cst else str(p.base)


def windows(accesses, pad=8):
    """disjoint address ranges covering every access (address, nbytes) with some padding"""
    spans = sorted((max(a - pad, 0), a + n + pad) for a, n in accesses)
    out = []
    for lo, hi in spans:
        if out and lo <= out[-1][1]:
            out[-1][1] = max(out[-1][1], hi)
        else:
            out.append([lo, hi])
    return out


def concrete_mapper(st, accesses=()):
    """a mapper that *is* the concrete state: every register a constant, raw bytes around every access"""
    c = mapper()
    for n, size in st.regsize.items():
        c[reg(n, size)] = cst(st.reg(n), size)
    for lo, hi in windows(accesses):
        c.mmap.write(lo, bytes(st.byte(a) for a in range(lo, hi)))
    return c


# ---------------------------------------------------------------------------------------------------
# replay interpretation of real expression trees under a concrete state (regs, memory)
# ---------------------------------------------------------------------------------------------------

class Unknown(Exception):
    pass


def eval_real(e, st):
    """value (int) of the real expression e under the reference state st (map_ref.State): a `mem` is read
       from st's memory after replaying its mods, in order, on a private copy."""
    if e._is_cst:
        return e.v & e.mask
    if e._is_slc:
        return (eval_real(e.x, st) >> e.pos) & e.mask
    if e._is_reg:
        if e._is_ext:
            raise Unknown(str(e))
        return st.reg(e.ref) & e.mask
    if e._is_cmp:
        v = 0
        for (lo, hi), p in e.parts.items():
            v |= (eval_real(p, st) & ((1 << (hi - lo)) - 1)) << lo
        return v & e.mask
    if e._is_ptr:
        return (eval_real(e.base, st) + e.disp) & e.mask
    if e._is_mem:
        s2 = st
        if e.mods:
            s2 = st.copy()
            for mod in e.mods:
                loc, v = mod[0], mod[1]
                endian = mod[2] if len(mod) > 2 else 1
                if loc._is_ptr:
                    s2.write(eval_real(loc, st), v.size // 8, eval_real(v, st), endian == -1)
                else:
                    raise Unknown("register mod")
        a = eval_real(e.a, st)
        return s2.read(a, e.size // 8, e.endian == -1)
    if e._is_eqn:
        if e.op.unary:
            f = map_ref.UOPSEM.get(e.op.symbol)
            if f is None:
                raise Unknown(e.op.symbol)
            return f(eval_real(e.r, st), e.mask)
        f = map_ref.OPSEM.get(e.op.symbol)
        if f is None:
            raise Unknown(e.op.symbol)
        return f(eval_real(e.l, st), eval_real(e.r, st), e.mask)
    raise Unknown(str(e))


# ---------------------------------------------------------------------------------------------------
# canonical dumps
# ---------------------------------------------------------------------------------------------------

def _merge(parts):
    """parts: list of canonical parts low → high; merges adjacent constants and adjacent slices of one leaf"""
    out = []
    for p in parts:
        if out:
            q = out[-1]
            if p[0] == "c" and q[0] == "c":
                out[-1] = ["c", q[1] | (p[1] << q[2]), q[2] + p[2]]
                continue
            if p[0] == "s" and q[0] == "s" and p[1] == q[1] and p[2] == q[2] + q[3]:
                out[-1] = ["s", q[1], q[2], q[3] + p[3]]
                continue
            if p[0] == "s" and q[0] == "s" and p[1][0] == "l" and q[1][0] == "l":
                j = _join_loads(q, p)
                if j is not None:
                    out[-1] = j
                    continue
        out.append(p)
    return out


def _join_loads(q, p):
    """two whole loads that are adjacent in memory and in significance are one load"""
    lq, lp = q[1], p[1]
    if q[2] != 0 or p[2] != 0 or q[3] != lq[3] or p[3] != lp[3]:
        return None
    if lq[1] != lp[1] or lq[4] != lp[4] or lq[5] != lp[5]:
        return None
    nq, np_ = lq[3] // 8, lp[3] // 8
    if not lq[4] and lp[2] == lq[2] + nq:            # little endian: p (more significant) follows q in memory
        return ["s", ["l", lq[1], lq[2], lq[3] + lp[3], lq[4], lq[5]], 0, lq[3] + lp[3]]
    if lq[4] and lq[2] == lp[2] + np_:                # big endian: p (more significant) precedes q in memory
        return ["s", ["l", lp[1], lp[2], lq[3] + lp[3], lq[4], lq[5]], 0, lq[3] + lp[3]]
    return None


def canon(e):
    """canonical flat form of a real expression: list of parts low → high, each
         ["c", value, width]                                   constant bits
         ["s", leaf, lo, width]                                bits [lo, lo+width) of a leaf
       leaf = ["r", name, size] | ["l", canon(base), disp, size, be, mods] | ["o", sym, canon(l), canon(r), size]
            | ["a", canon(x), c, size]  (x + constant)         | ["u", sym, canon(r), size] | ["?", str, size]
       mods = [[canon(base), disp, canon(value), be], ...]"""
    return _merge(_flat(e, 0, e.size))


def _leaf_load(e):
    mods = []
    for mod in e.mods:
        loc, v = mod[0], mod[1]
        endian = mod[2] if len(mod) > 2 else 1
        if loc._is_ptr:
            mods.append([canon(loc.base), int(loc.disp), canon(v), endian == -1])
        else:
            mods.append(["reg-mod", str(loc), canon(v)])
    return ["l", canon(e.a.base), int(e.a.disp), e.size, e.endian == -1, mods]


def _flat(e, lo, width):
    """canonical parts of bits [lo, lo+width) of e"""
    if width <= 0:
        return []
    if e._is_cst:
        return [["c", ((e.v & e.mask) >> lo) & ((1 << width) - 1), width]]
    if e._is_slc:
        return _flat(e.x, e.pos + lo, width)
    if e._is_cmp:
        out = []
        for (plo, phi) in sorted(e.parts.keys()):
            a, b = max(plo, lo), min(phi, lo + width)
            if a < b:
                out.extend(_flat(e.parts[(plo, phi)], a - plo, b - a))
        return out
    if e._is_reg and not e._is_ext:
        return [["s", ["r", e.ref, e.size], lo, width]]
    if e._is_mem:
        # the smallest byte-aligned load containing the bits
        b1, r1 = divmod(lo, 8)
        b2 = (lo + width + 7) // 8
        n = e.size // 8
        if (b1, b2) != (0, n) and e.size % 8 == 0:
            L = _leaf_load(e)
            disp = L[2] + (b1 if not L[4] else n - b2)
            L = ["l", L[1], disp, (b2 - b1) * 8, L[4], L[5]]
            return [["s", L, r1, width]]
        return [["s", _leaf_load(e), lo, width]]
    if e._is_eqn:
        if e.op.unary:
            return [["s", ["u", e.op.symbol, canon(e.r), e.size], lo, width]]
        if e.op.symbol == "+" and e.r._is_cst:
            return [["s", ["a", canon(e.l), int(e.r.value), e.size], lo, width]]
        if e.op.symbol == "-" and e.r._is_cst:
            return [["s", ["a", canon(e.l), -int(e.r.value), e.size], lo, width]]
        return [["s", ["o", e.op.symbol, canon(e.l), canon(e.r), e.size], lo, width]]
    if e._is_ptr:
        return [["s", ["a", canon(e.base), int(e.disp), e.size], lo, width]]
    return [["s", ["?", str(e), e.size], lo, width]]


def dump_map(m):
    """ordered map: [["r", name, size, canon(value)] | ["p", canon(base), disp, canon(value), be], ...], lastw"""
    g = m.generation()
    out = []
    for loc, v in m:
        if loc._is_ptr:
            en = getattr(g, "endian", {}).get(loc, 1)
            out.append(["p", canon(loc.base), int(loc.disp), canon(v), en == -1])
        else:
            out.append(["r", str(loc), loc.size, canon(v)])
    return {"entries": out, "lastw": g.lastw}


def dump_zones(m):
    """zones byte by byte: {zone key: [[offset, byte descriptor], ...]} with byte descriptor the canonical
       8-bit expression stored at that offset (a raw byte is ["c", b, 8])."""
    out = {}
    for key, z in m.mmap._zones.items():
        bytes_ = []
        for o in z._map:
            val, en = o.data.val, o.data.endian
            n = len(o.data)
            for k in range(n):
                if o.data._is_raw:
                    bytes_.append([o.vaddr + k, [["c", val[k], 8]]])
                else:
                    j = k if en == 1 else n - 1 - k
                    bytes_.append([o.vaddr + k, _merge(_flat(val, 8 * j, 8))])
        kk = "None" if key is None else repr_canon(canon(key))
        out[kk] = bytes_
    return out


def repr_canon(c):
    import json
    return json.dumps(c, sort_keys=True)
