"""
x86len_gen.py — byte-string generation and the amoco side of property C07.

Strings are generated from every shipped x86 / x64 specification (the fixed bits of the spec, random
free bits), with random legal prefixes (legacy groups 1-4 in any order, REX in 64-bit mode), a
structured choice of ModRM / SIB (every Mod × RM class, SIB with and without base=5), random
displacement / immediate bytes, plus truncated variants and purely random strings.
"""
import isa

LEGACY = [0x66] * 6 + [0x67] * 4 + [0xF2, 0xF3] * 2 + [0xF0] * 2 + [0x26, 0x2E, 0x36, 0x3E, 0x64, 0x65]

REL_MNEMONICS = {"JMP", "CALL", "Jcc", "LOOP", "LOOPE", "LOOPNE", "JECXZ", "JCXZ", "JRCXZ", "XBEGIN"}


class Cpu(object):
    """one of amoco's two x86 decoders"""

    def __init__(self, mode):
        import importlib
        self.mode = mode
        self.mod = importlib.import_module("amoco.arch.x64.cpu_x64" if mode == 64 else "amoco.arch.x86.cpu_x86")
        self.dis = self.mod.disassemble
        self.specs = [s for s in isa.flatten(self.dis.specs[0])]
        self.insn_specs = [s for s in self.specs if s.pfx is not True]
        self.pfx_specs = [s for s in self.specs if s.pfx is True]

    def decode(self, bs):
        """→ ("ok", length, rel|None, mnemonic, spec format, spec) | ("none",) | ("raise", exception name)"""
        try:
            i = self.dis(bs)
        except Exception as e:           # hooks that raise are C17's business; the decoder state is C11's
            try:
                self.dis._disassembler__i = None
            except Exception:
                pass
            return ("raise", type(e).__name__)
        if i is None:
            return ("none",)
        rel = None
        try:
            if i.mnemonic in REL_MNEMONICS and i.operands and getattr(i.operands[0], "_is_cst", False) \
                    and not i.misc["absolute"]:
                op = i.operands[0]
                v = int(op.v) & ((1 << op.size) - 1)
                rel = v - (1 << op.size) if v >> (op.size - 1) else v
        except Exception:
            rel = None
        return ("ok", i.length, rel, i.mnemonic, i.spec.format, i.spec)


def spec_key(s):
    """opcode bytes of a spec as written (fixed bytes before the first non-fixed byte), for signatures"""
    n = s.fix.size // 8
    fix = s.fix.ival.to_bytes(n, "little") if n else b""
    mask = s.mask.ival.to_bytes(n, "little") if n else b""
    out = []
    for f, m in zip(fix, mask):
        if m == 0xFF:
            out.append("%02x" % f)
        else:
            out.append("%02x/%02x" % (f, m))
    while out and out[-1].endswith("/00"):        # bytes without fixed bits (ModRM of /r, immediates)
        out.pop()
    return " ".join(out)


def has_modrm(s):
    return "Mod(2)" in s.format


MODRM_CLASSES = [(mod, rm) for mod in range(4) for rm in range(8)]


def gen_prefixes(r, mode):
    k = r.choices([0, 1, 2, 3, 5], weights=[45, 33, 14, 6, 2])[0]
    p = [r.choice(LEGACY) for _ in range(k)]
    if mode == 64 and r.random() < 0.4:
        rex = r.choice([0x48, 0x48, 0x48, 0x40, 0x41, 0x44, 0x49, 0x4C, 0x4F, r.randrange(0x40, 0x50)])
        if p and r.random() < 0.06:
            p.insert(r.randrange(len(p)), rex)     # misplaced REX (ignored by hardware)
        else:
            p.append(rex)
    return bytes(p)


def gen_from_spec(s, r, mode):
    """one byte string whose opcode bytes match spec s"""
    n = s.fix.size // 8
    core = bytearray(isa.directed_bytes(s, 1, r, tail=0))
    if has_modrm(s) and n >= 1 and r.random() < 0.6:
        mod, rm = r.choice(MODRM_CLASSES)
        cand = (mod << 6) | rm
        mk = (s.mask.ival >> (8 * (n - 1))) & 0xFF
        core[n - 1] = (core[n - 1] & (mk | 0x38)) | (cand & ~mk & 0xC7)
    tail = bytearray(r.getrandbits(8) for _ in range(15))
    if has_modrm(s) and r.random() < 0.3:
        tail[0] = (tail[0] & 0xF8) | 5                 # SIB base = 5 (no base / disp32 when mod = 0)
    c = r.random()
    if c < 0.15:
        for k in range(1, 15):                      # small displacement / immediate bytes
            tail[k] = r.choice([0, 0, 0xFF, 0x80, 0x7F, 1])
    pfx = gen_prefixes(r, mode)
    bs = bytes(pfx) + bytes(core) + bytes(tail)
    bs = bs[:15]
    if r.random() < 0.05:
        bs = bs[: r.randint(1, 14)]
    return bs


def gen_random(r, mode):
    n = r.choice([1, 2, 3, 4, 6, 8, 11, 15, 15, 15])
    b = bytes(r.getrandbits(8) for _ in range(n))
    if r.random() < 0.3:
        b = (gen_prefixes(r, mode) + b)[:15]
    return b
