"""macho_main.py — runner of the Mach-O half of C14 / C20 (harness/macho_check.py) for the builder's own testing.
usage: [AMOCO_REPO=<worktree>] [MACHO_SKIP_BUILD=1] python harness/macho_main.py quick|thorough"""
import sys, time
import common
from common import *
if common.SCRATCH == "":
    common.SCRATCH = "_scratch"      # this runner never overwrites evidence/ and replays/ of the full C14 / C20 checks
import macho_check


def main(tier):
    rc = 0
    for pid, fn, rule in (("C14", macho_check.run_c14, "Mach-O: generated 32/64-bit images (0..6 load commands: segments with 0..4 sections, fixed-size known commands, unknown commands), "
                           "mutation classes (cmdsize/ncmds/sizeofcmds/nsects boundaries, truncations, single fields), magics, shipped samples and their corruptions; "
                           "non-trivial = model accepts with >= 1 command or rejects after the header"),
                          ("C20", macho_check.run_c20, "Mach-O: the same generator biased to malformed input, random words after the magics, every prefix of one image, "
                           "prefixes of the samples; non-trivial as for C14")):
        ck, corr, t = Check(pid, tier), [], time.time()
        fn(ck, tier, corr)
        r = ck.finish(rule=rule)
        print("%s macho: rc=%d, %d disagreements, %.1fs" % (pid, r, len(corr), time.time() - t))
        for c in corr[:5]:
            print("   ", c)
        rc |= r
    return rc


if __name__ == "__main__":
    sys.exit(main(sys.argv[1] if len(sys.argv) > 1 else "quick"))
