"""
map_gen.py — generator of IR programs for the mapper checks (C02, C09).

An IR program is what an `i_XXX` semantics body does to its `fmap`: a list of statements `loc := e` whose
right-hand side is evaluated in the current map (`fmap[loc] = fmap(e)`).

  prog  = {"be": bool, "stmts": [stmt, ...]}
  stmt  = ["set", name, rsize, pos, size, expr]     register name (rsize bits), bits [pos, pos+size) := expr
        | ["store", addr, size, expr]               size-bit store at addr (endianness of the program)
  addr  = [base, disp]        base: ["reg", name, 32] | ["cst", v, 32];  disp: small integer
  expr  = ["cst", v, size] | ["reg", name, size] | ["slc", expr, pos, size] | ["cat", [expr low → high]]
        | ["addc", expr, c]                         expr + constant c (pointer arithmetic), same size
        | ["op", sym, expr, expr]                   binary operator (+ - ^ & |), size of the operands
        | ["load", addr, size]                      size-bit load (endianness of the program)

Registers: pointers p q s t (32 bits), data a b c d (32 bits), x y (64 bits).
All sizes are right by construction (`size_of`).
"""

PTRS = ["p", "q", "s", "t"]
DATA32 = ["a", "b", "c", "d"]
DATA64 = ["x", "y"]
REGSIZE = dict([(n, 32) for n in PTRS + DATA32] + [(n, 64) for n in DATA64])
OPS = ["+", "-", "^", "&", "|"]


def size_of(e):
    k = e[0]
    if k in ("cst", "reg"):
        return e[2]
    if k == "slc":
        return e[3]
    if k == "cat":
        return sum(size_of(x) for x in e[1])
    if k == "addc":
        return size_of(e[1])
    if k == "op":
        return size_of(e[2])
    if k == "load":
        return e[2]
    raise ValueError(e)


def fit(r, e, size):
    """an expression of exactly `size` bits made from e (slice or zero/constant extension)"""
    s = size_of(e)
    if s == size:
        return e
    if s > size:
        pos = r.choice([0, 0, s - size] + ([8] if s - size >= 8 else []))
        return ["slc", e, pos, size]
    return ["cat", [e, ["cst", r.choice([0, 0, r.getrandbits(size - s)]), size - s]]]


class Gen(object):
    """profile: which statement forms appear.
       regs   : registers and sub-register slices only
       conc   : + loads/stores at concrete addresses
       ptr    : + loads/stores through pointer registers (+ pointer arithmetic)
       mixed  : everything"""

    def __init__(self, r, profile="mixed", be=False, nptr=3):
        self.r = r
        self.profile = profile
        self.be = be
        self.ptrs = PTRS[:nptr]

    # -- addresses -------------------------------------------------------------------------------
    def addr(self):
        r = self.r
        if self.profile == "conc" or (self.profile == "mixed" and r.random() < 0.25):
            return [["cst", 0x1000 + 4 * r.randrange(0, 6), 32], r.choice([0, 0, 1, 2, 4, -4])]
        p = r.choice(self.ptrs)
        return [["reg", p, 32], r.choice([0, 0, 0, 1, 2, 3, 4, 4, 6, 8, -1, -2, -4, -8])]

    def accsize(self):
        return self.r.choice([8, 8, 16, 32, 32, 64])

    # -- expressions ------------------------------------------------------------------------------
    def leaf(self, size=None):
        r = self.r
        k = r.random()
        mem_ok = self.profile != "regs"
        if mem_ok and k < 0.3:
            return ["load", self.addr(), size if size in (8, 16, 32, 64) else self.accsize()]
        if k < 0.5:
            s = size or r.choice([8, 16, 32, 64])
            v = r.choice([0, 1, 0x11, 0xff, (1 << s) - 1, r.getrandbits(s), 0xaabbccdd99887766 & ((1 << s) - 1)])
            return ["cst", v & ((1 << s) - 1), s]
        n = r.choice(DATA32 + DATA32 + DATA64 + (self.ptrs if self.profile in ("ptr", "mixed") else []))
        e = ["reg", n, REGSIZE[n]]
        if r.random() < 0.3:
            w = r.choice([8, 16] + ([32] if REGSIZE[n] == 64 else []))
            pos = r.choice([0, 8, REGSIZE[n] - w])
            e = ["slc", e, pos, w]
        return e

    def expr(self, size, depth=1):
        r = self.r
        k = r.random()
        if depth > 0 and k < 0.22:
            sym = r.choice(OPS)
            return ["op", sym, self.expr(size, depth - 1), self.expr(size, depth - 1)]
        if depth > 0 and k < 0.32 and size >= 16:
            lo = r.choice([8, size // 2])
            return ["cat", [self.expr(lo, 0), self.expr(size - lo, 0)]]
        return fit(r, self.leaf(size if r.random() < 0.7 else None), size)

    def ptr_expr(self):
        """right-hand sides for pointer registers: other pointer ± constant, constant, sometimes a loaded value"""
        r = self.r
        k = r.random()
        if k < 0.6:
            return ["addc", ["reg", r.choice(self.ptrs), 32], r.choice([4, 8, -4, -8, 2, 12, -12])]
        if k < 0.75:
            return ["reg", r.choice(self.ptrs), 32]
        if k < 0.85:
            return ["cst", 0x1000 + 4 * r.randrange(0, 6), 32]
        # a pointer read from memory or taken from a whole data register; no operator and no slice here: the
        # algebra's rewriting (`x | 0 -> x`, operand ordering, slices pushed into operators) would change the
        # identity of the zone, which is C01's business
        if r.random() < 0.5:
            return ["load", self.addr(), 32]
        return ["reg", r.choice(DATA32), 32]

    # -- statements ---------------------------------------------------------------------------------
    def stmt(self):
        r = self.r
        k = r.random()
        if self.profile != "regs" and k < 0.45:
            size = self.accsize()
            return ["store", self.addr(), size, self.expr(size)]
        if self.profile in ("ptr", "mixed") and k < 0.55:
            p = r.choice(self.ptrs)
            return ["set", p, 32, 0, 32, self.ptr_expr()]
        n = r.choice(DATA32 + DATA32 + DATA64)
        rs = REGSIZE[n]
        if r.random() < 0.4:
            w = r.choice([8, 16] + ([32] if rs == 64 else []))
            pos = r.choice([0, 8, rs - w, rs - w - 8 if rs - w - 8 >= 0 else 0])
            return ["set", n, rs, pos, w, self.expr(w)]
        return ["set", n, rs, 0, rs, self.expr(rs)]

    def program(self, n=None):
        n = n or self.r.randint(1, 8)
        return {"be": self.be, "stmts": [self.stmt() for _ in range(n)]}


def shaped_alias_program(r, be=False):
    """store/load programs over two or three pointers built from the shapes that matter for aliasing:
       wide store, narrower re-store at the same / a shifted address, store through another base in
       between, loads wider / narrower than the last store."""
    g = Gen(r, "ptr", be)
    ptrs = g.ptrs
    stmts = []
    n = r.randint(2, 7)
    for i in range(n):
        p = r.choice(ptrs[:2] if r.random() < 0.8 else ptrs)
        d = r.choice([0, 0, 0, 1, 2, 4, -4])
        size = r.choice([8, 16, 32, 32, 64])
        k = r.random()
        if k < 0.6 or i == 0:
            if r.random() < 0.5:
                v = ["cst", r.getrandbits(size), size]
            else:
                v = g.expr(size, 0)
            stmts.append(["store", [["reg", p, 32], d], size, v])
        else:
            dst = r.choice(DATA32 if size <= 32 else DATA64)
            rs = REGSIZE[dst]
            e = ["load", [["reg", p, 32], d], size]
            if size == rs:
                stmts.append(["set", dst, rs, 0, rs, e])
            elif size < rs:
                if r.random() < 0.5:
                    stmts.append(["set", dst, rs, 0, size, e])
                else:
                    stmts.append(["set", dst, rs, 0, rs, ["cat", [e, ["cst", 0, rs - size]]]])
            else:
                stmts.append(["set", dst, rs, 0, rs, ["slc", e, 0, rs]])
    # always end by loading every pointer's cell so that the final memory is observed through loads too
    for j, p in enumerate(ptrs[:2]):
        stmts.append(["set", DATA64[j], 64, 0, 64, ["load", [["reg", p, 32], 0], 64]])
    return {"be": be, "stmts": stmts}


def pointer_assignments(r, ptrs, k):
    """k assignments of concrete values to the pointer registers: equal, overlapping by 1..7 bytes, disjoint,
       always far from wrap-around"""
    out = []
    for _ in range(k):
        base = 0x2000 + 16 * r.randrange(0, 8)
        kind = r.choice(["equal", "overlap", "overlap", "disjoint", "mixed"])
        vals = {}
        for i, p in enumerate(ptrs):
            if kind == "equal":
                vals[p] = base
            elif kind == "overlap":
                vals[p] = base + r.choice([0, 1, 2, 3, 4, 5, 7, -1, -2, -4])
            elif kind == "disjoint":
                vals[p] = base + 0x100 * (i + 1)
            else:
                vals[p] = base + r.choice([0, 1, 4, 0x100 * (i + 1)])
        out.append((kind, vals))
    return out


def distinct_bases_overlap(prog_accesses, vals):
    """do two accesses through different bases touch a common byte under this assignment?
       prog_accesses: list of (base-key, offset, nbytes) with base-key a rendering of the symbolic base."""
    spans = []
    for key, conc, n in prog_accesses:
        spans.append((key, conc, conc + n))
    for i in range(len(spans)):
        for j in range(i + 1, len(spans)):
            a, b = spans[i], spans[j]
            if a[0] != b[0] and a[1] < b[2] and b[1] < a[2]:
                return True
    return False
