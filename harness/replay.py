"""./check Cxx --replay <file>: re-run the recorded case on the current tree when the property's
harness provides `replay(path)`; otherwise print the recorded case (input, real/model/expected values)."""
import sys, json, importlib, os
sys.path.insert(0, os.path.dirname(os.path.abspath(__file__)))
pid, path = sys.argv[1], sys.argv[2]
mod = importlib.import_module(pid.lower())
if hasattr(mod, "replay"):
    sys.exit(mod.replay(path) or 0)
rec = json.load(open(path))
print(json.dumps(rec, indent=1)[:20000])
print("(no automatic replay for %s: re-run `./check %s` with VERIF_SEED=%s to regenerate this case)" % (pid, pid, rec.get("seed")))
