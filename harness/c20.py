"""
C20 — Program identification is total and reports only format errors.

Theorems (lean/Amoco/Props/C20.lean): `read_program_total`, `constructors_raise_only_format_errors`,
`magic_disjoint` about the model `Amoco.Fmt.readProgram` (ELF / HEX / SREC constructors in full,
PE / Mach-O / COFF at header level).  Tie (correspondence + property oracle) on every run:
  random data, prefix truncations and header/table corruptions of the shipped samples, synthesised
  ELF images (valid, truncated, corrupted), generated HEX / SREC streams (valid, corrupted), crafted
  adversarial headers, valid HEX / SREC images of many sizes and structure-aware corruptions of text records (c20_extra.py: every
  character of every record over the alphabet of its field, count / type / address at boundary values with a consistent checksum),
  structure-aware corruptions (every field of the header chains, load commands,
  import / export / relocation / symbol / dynamic tables and bind-opcode streams of the samples and of
  synthesised images set to boundary values, one at a time) → real `amoco.system.core.read_program(bytes)` outcome (class of the object /
  escaping exception class + raising function / wall time) vs the model:
     - ELF, HEX, SREC: the model decides acceptance exactly;
     - PE, Mach-O, COFF: an object of that class is only possible when the header predicate holds;
  property oracle: an outcome must be an object; a file valid by construction must get its own class;
  a call must come back within a time bound.
A signature is  C20:<format module>:<exception class>:<raising function>  — a new class or a new
raising site is a new signature.
"""
import sys, os, glob, json, struct, traceback
from common import *
import fmt_real as R, fmt_gen as G, fmt_oracle as O
import c20_extra as X

TIME_LIMIT = 8.0          # seconds per call; the samples take milliseconds


def sample_files():
    root = os.path.join(REPO, "tests", "samples")
    return sorted(f for f in glob.glob(os.path.join(root, "**", "*"), recursive=True) if os.path.isfile(f))


ALLOC = []
ADDRESS_SPACE = 2 << 30


def install_alloc_watch():
    """Bound the address space of this process (what it uses now + 2 GiB) and watch the format error classes: when one of them is
    constructed while a MemoryError is being handled (the constructors' catch-all turns it into the
    format's error, read_program then swallows it) the file made the parser request gigabytes."""
    import resource
    from amoco.system import elf, pe, macho, coff
    from amoco.system.structs import HEX, SREC
    vm = 0
    for line in open("/proc/self/status"):
        if line.startswith("VmSize:"):
            vm = int(line.split()[1]) * 1024
    soft, hard = resource.getrlimit(resource.RLIMIT_AS)
    install_alloc_watch.saved = (soft, hard)
    resource.setrlimit(resource.RLIMIT_AS, (vm + ADDRESS_SPACE, hard))
    for mod, name in ((elf, "ElfError"), (pe, "PEError"), (macho, "MachOError"), (coff, "COFFError")):
        cls = getattr(mod, name)
        orig = cls.__init__

        def init(self, message, _orig=orig):
            et, ev, tb = sys.exc_info()
            if et is not None and issubclass(et, MemoryError):
                ALLOC.append(frames(ev))
            _orig(self, message)
        cls.__init__ = init


def real_outcome(data):
    """{"ok": class} | {"exn": class, "fmt": module that was parsing, "site": innermost amoco function}"""
    import time, signal
    from amoco.system.core import read_program
    t0 = time.time()
    try:
        p = R.with_timeout(TIME_LIMIT, read_program, data)
        out = {"ok": type(p).__name__}
    except R.Timeout as e:
        out = dict(exn="timeout", **frames(e))
        if ALLOC and out["loop"].endswith(":__init__"):
            # the timer fired inside the constructor's catch-all, right after a MemoryError: name the stage that allocated
            out["loop"] = ALLOC[0]["loop"]
            out["fmt"] = ALLOC[0]["fmt"]      # … and the format that was being parsed then, not the one probed when the timer fired
    except Exception as e:
        out = dict(exn=R.exn_name(e), **frames(e))
    out["t"] = time.time() - t0
    if ALLOC:
        out["alloc"] = ALLOC[0]
        del ALLOC[:]
    return out


def frames(e):
    tb = traceback.extract_tb(e.__traceback__)
    fr = [f for f in tb if "/amoco/" in f.filename]
    fmt = "?"
    for f in fr:
        b = os.path.basename(f.filename)
        if b in ("elf.py", "pe.py", "macho.py", "coff.py", "HEX.py", "SREC.py"):
            fmt = b[:-3]
            break
    site = "%s:%s" % (os.path.basename(fr[-1].filename), fr[-1].name) if fr else "?"
    # for a timeout the innermost frame is wherever the timer fired: name the loop instead, i.e. the deepest
    # stage of the constructor (its direct callee in the format's own module) that does not return
    own = [f for f in fr if os.path.basename(f.filename)[:-3] == fmt]
    body = [f for f in own if f.name not in ("__init__", "__parse")]
    pick = body[0] if body else (own[-1] if own else None)      # the constructor's direct callee the time is spent in
    loop = "%s:%s" % (os.path.basename(pick.filename), pick.name) if pick else site
    return {"fmt": fmt, "site": site, "loop": loop}


def crafted():
    out = []
    out.append(("empty", b"", None))
    out.append(("blank", b"\n", None))
    out.append(("blank", b" \r\n\t\n", None))
    # Mach-O: load command of size 0 (never advances), unterminated bind symbol, huge ULEB repeat count
    for magic, hl in ((0xFEEDFACE, 28), (0xFEEDFACF, 32)):
        hdr = struct.pack("<IiiIIII", magic, 7, 3, 2, 1, 8, 0) + (b"\0" * 4 if hl == 32 else b"")
        out.append(("macho-cmdsize0", hdr + struct.pack("<II", 0xdeadbeef, 0) + b"\0" * 64, None))
        out.append(("macho-cmdsize4", hdr + struct.pack("<II", 0x1b, 4) + b"\0" * 64, None))
        dy = struct.pack("<II", 0x22, 48) + struct.pack("<10I", 0, 0, hl + 48, 4, 0, 0, 0, 0, 0, 0)
        hdr2 = struct.pack("<IiiIIII", magic, 7, 3, 2, 1, 48, 0) + (b"\0" * 4 if hl == 32 else b"")
        out.append(("macho-bind-unterminated", hdr2 + dy + b"\x40AAA", None))
    # ELF: section tables with degenerate entry sizes / counts
    for x64 in (False, True):
        w = G.W(x64, False)
        def mk(sh):
            e = dict(e_type=2, e_machine=3, e_version=1, e_entry=0, e_phoff=0, e_shoff=w.ehsize, e_flags=0, e_ehsize=w.ehsize,
                     e_phentsize=w.phsize, e_phnum=0, e_shentsize=w.shsize, e_shnum=len(sh), e_shstrndx=1)
            tab = b"\0.shstrtab\0.symtab\0.strtab\0"
            off = w.ehsize + w.shsize * len(sh)
            for s in sh:
                if s.get("_tab"):
                    s["sh_offset"], s["sh_size"] = off, len(tab)
            return w.ehdr(e) + b"".join(w.shdr({k: v for k, v in s.items() if k != "_tab"}) for s in sh) + tab
        z = dict(sh_name=0, sh_type=0, sh_flags=0, sh_addr=0, sh_offset=0, sh_size=0, sh_link=0, sh_info=0, sh_addralign=0, sh_entsize=0)
        shstr = dict(z, sh_name=1, sh_type=3, _tab=True)
        strtab = dict(z, sh_name=19, sh_type=3, _tab=True)
        out.append(("elf-entsize0", mk([z, shstr, dict(z, sh_name=11, sh_type=2, sh_offset=0, sh_size=48, sh_entsize=0), strtab]), None))
        out.append(("elf-entsize-mismatch", mk([z, shstr, dict(z, sh_name=11, sh_type=2, sh_offset=0, sh_size=50, sh_entsize=16), strtab]), None))
        out.append(("elf-symtab-beyond-eof", mk([z, shstr, dict(z, sh_name=11, sh_type=2, sh_offset=0x100000, sh_size=3000 * w.symsize, sh_entsize=w.symsize), strtab]), None))
        out.append(("elf-symtab-raw", mk([z, shstr, dict(z, sh_name=11, sh_type=1, sh_offset=0, sh_size=16, sh_entsize=0), strtab]), None))
    return out


def build_corpus(r, quick):
    for k, d, e in crafted():
        yield (k, d, e)
    # random data, some with a magic in front
    for _ in range(500 if quick else 4000):
        n = r.choice([1, 2, 4, 16, 20, 28, 32, 52, 64, 100, 300, 1000])
        d = bytes(r.getrandbits(8) for _ in range(n))
        m = r.random()
        if m < 0.5:
            d = r.choice([b"\x7fELF", b"\x7fELF\x01\x01\x01", b"\x7fELF\x02\x02\x01", b"MZ", b"\xce\xfa\xed\xfe", b"\xcf\xfa\xed\xfe",
                          b"\xca\xfe\xba\xbe", b":", b"S1", b"S0", b"\x4c\x01", b":00000001FF\n", b" "]) + d
        yield ("random", d, None)
    # samples: intact, truncated, corrupted
    for f in sample_files():
        b = open(f, "rb").read()
        if len(b) > (1 << 18):
            continue
        kind = "elf" if b[:4] == b"\x7fELF" else "pe" if b[:2] == b"MZ" else "macho" if b[:4] in (b"\xcf\xfa\xed\xfe", b"\xce\xfa\xed\xfe") else \
               "hex" if f.endswith(".hex") else "other"
        exp = {"elf": "Elf", "pe": "PE", "macho": "MachO", "hex": "HEX"}.get(kind)
        yield ("sample:" + kind, b, exp)
        n = len(b)
        if quick:
            cuts = sorted(set(list(range(0, min(n, 100))) + [r.randrange(n) for _ in range(30)]))
            if n > 20000:
                cuts = cuts[::3]
        else:
            cuts = sorted(set(list(range(0, min(n, 2048))) + list(range(2048, n, max(1, n // 600))) + [r.randrange(n) for _ in range(300)]))
        for c in cuts:
            yield ("trunc:" + kind, b[:c], None)
        for _ in range(30 if quick else 400):
            yield ("corrupt:" + kind, G.corrupt_bytes(r, b), None)
    # structure-aware corruptions: one field of one real table at a time, boundary values
    def struct_aware(tag, b, fmt, budget):
        # cost estimate of one read_program call from the size of the file (deterministic, so that the corpus depends on the seed only)
        dt = 0.002 + len(b) * {"pe": 2e-6, "macho": 1.2e-5, "elf": 3e-7}[fmt]
        walker = {"pe": G.walk_pe, "macho": G.walk_macho, "elf": G.walk_elf}[fmt]
        F = walker(b)
        nlab = max(1, len(set(f[0] for f in F)))
        full = sum(len(G.boundary_values(b, o, sz, kd, fmt == "elf" and b[5:6] == b"\x02")) for (_, o, sz, kd) in F)
        quota = None if (not quick and full * dt <= budget) else max(1, min(24 if quick else 400, int(budget / dt / nlab)))
        for lab, desc, mut in G.structure_corruptions(r, b, fmt, quota=quota):
            yield ("struct:%s:%s" % (fmt, lab), mut, None)
    for f in sample_files():
        b = open(f, "rb").read()
        if len(b) > (1 << 18):
            continue
        fmt = "elf" if b[:4] == b"\x7fELF" else "pe" if b[:2] == b"MZ" else "macho" if b[:4] in (b"\xcf\xfa\xed\xfe", b"\xce\xfa\xed\xfe") else None
        if fmt:
            yield from struct_aware(f, b, fmt, {"elf": 0.15, "pe": 2.0, "macho": 5.0}[fmt] if quick else 140.0)
    for i in range(8 if quick else 40):
        b, meta = G.synth_pe_imports(r)
        yield ("synth-pe-imports", b, "PE")
        yield from struct_aware("synth-pe", b, "pe", 0.6 if quick else 30.0)
    for i in range(4 if quick else 25):
        b, meta = G.synth_macho(r)
        yield ("synth-macho", b, "MachO")
        yield from struct_aware("synth-macho", b, "macho", 0.3 if quick else 20.0)
    for i in range(6 if quick else 40):
        b, meta = G.synth_elf(r, quirks=())
        yield from struct_aware("synth-elf", b, "elf", 0.3 if quick else 20.0)
    # synthesised ELF: valid, truncated, corrupted (the fully modelled format)
    for i in range(220 if quick else 2500):
        q = G.pick_quirks(r)
        x64, be = [(False, False), (False, True), (True, False), (True, True)][i % 4]
        b, meta = G.synth_elf(r, x64=x64, be=be, quirks=q)
        yield ("synth-elf", b, "Elf" if not q or set(q) <= {"bigent", "dupaddr", "utf8", "nostrndx", "noph", "unknown_pt", "unknown_sht", "nosh"} else None)
        for _ in range(3 if quick else 8):
            yield ("synth-elf-trunc", b[:r.randrange(len(b))], None)
        for _ in range(3 if quick else 8):
            yield ("synth-elf-corrupt", G.corrupt_bytes(r, b, region=len(b)), None)
    # HEX / SREC streams
    for _ in range(200 if quick else 2000):
        recs = G.gen_hex_records(r)
        d = G.hex_stream(r, recs)
        yield ("hex", d, "HEX")
        ls = d.split(b"\n")
        i = r.randrange(len(ls))
        if ls[i].strip():
            k, ls[i] = G.corrupt_line(r, ls[i].rstrip(b"\r"), "hex")
            yield ("hex-corrupt", b"\n".join(ls), None)
        # type-specific length violations (the asserts of HEXline.set)
        t = r.choice([2, 3, 4, 5])
        n = r.choice([0, 1, 2, 3, 4, 5])
        yield ("hex-extlen", G.hex_line(n, 0, t, bytes(r.getrandbits(8) for _ in range(n))) + b"\n", None)
        yield ("hex-extshort", G.hex_line(r.choice([2, 4]), 0, t, b"") [:-2] + b"%02X\n" % ((-(r.choice([2, 4]) + t)) & 0xff), None)
        recs = G.gen_srec_records(r)
        if recs:
            d = G.srec_stream(r, recs)
            yield ("srec", d, "SREC")
            ls = d.split(b"\n")
            i = r.randrange(len(ls))
            if ls[i].strip():
                k, ls[i] = G.corrupt_line(r, ls[i].rstrip(b"\r"), "srec")
                yield ("srec-corrupt", b"\n".join(ls), None)
    # valid HEX / SREC images of many sizes (the magic-less formats tried before them must reject text whatever its length),
    # smallest first so that the replay case of a failure is the smallest one met
    rx = rng("C20.text")
    for k, d, e in sorted(X.valid_images(rx, 110 if quick else 1000, hi=38000 if quick else 90000), key=lambda x: len(x[1])):
        yield (k, d, e)
    # structure-aware corruptions of text records: every character of every record of streams holding every record type over the
    # alphabet of its field, count / type / address fields at boundary values with the checksum recomputed, one at a time
    for k, d in X.line_corruptions(rx, quota=6 if quick else None, data_positions=8 if quick else None):
        yield (k, d, None)


def allowed(mod):
    """classes the model allows for read_program's result"""
    if mod["elf"] == "ok":
        return {"Elf"}
    a = set()
    if mod["pe"]:
        a.add("PE")
    if mod["macho"]:
        a.add("MachO")
    if mod["coff"]:
        a.add("COFF")
    a.add(mod["definite"])
    return a


def main(tier):
    ck = Check("C20", tier)
    quick = tier == "quick"
    r = rng("C20")
    broken = ck.build_and_audit(["Amoco.Props.C20", "drv_struct"])
    if tier != "quick":
        # independent kernel re-check of the compiled property modules
        import subprocess
        p = subprocess.run(["lake", "env", "leanchecker"] + ["Amoco.Props.C20", "Amoco.Proofs.Fmt"], cwd=LEAN, stdout=subprocess.PIPE, stderr=subprocess.STDOUT, text=True)
        ck.oblige("leanchecker " + " ".join(["Amoco.Props.C20", "Amoco.Proofs.Fmt"]), p.returncode == 0, p.stdout[-1500:])
        if p.returncode != 0:
            broken.append("leanchecker failed: " + p.stdout[-1500:])
    corr = []
    slow = []
    if os.path.exists(os.path.join(LEAN, ".lake", "build", "bin", "drv_struct")):
        drv = Driver("drv_struct")
        env = R.elf_env()
        install_alloc_watch()

        def for_model(d):
            # PE / Mach-O are modelled at header level: the first 64 KiB decide everything the model says about them
            # (ELF rejects them by the magic, HEX / SREC by the first character)
            if len(d) > 65536 and (d[:2] == b"MZ" or d[:4] in (b"\xcf\xfa\xed\xfe", b"\xce\xfa\xed\xfe")):
                return d[:65536]
            return d
        first = last = None

        def batches(gen, n=1500):
            buf = []
            for x in gen:
                buf.append(x)
                if len(buf) >= n:
                    yield buf
                    buf = []
            if buf:
                yield buf
        for C in batches(build_corpus(r, quick)):
            ans = drv.ask_many([{"op": "fmt.readprogram", "data": for_model(d).hex(), "pt": env["pt"], "sht": env["sht"]} for (k, d, e) in C])
            if first is None:
                first = (C[0], ans[0])
            last = (C[-1], ans[-1])
            for (kind, data, exp), mod in zip(C, ans):
                real = real_outcome(data)
                ck.case(("P", data), nontrivial="ok" in real and real["ok"] != "shellcode")
                ck.count("in." + kind)
                ck.count("out." + (real.get("ok") or "raise:" + real["exn"]))
                if "err" in mod:
                    ck.count("model-error")
                    continue
                if mod.get("elfraw") == "NotImplementedError":
                    ck.count("model-unmodelled(big table)")
                    mod_ok = False
                else:
                    mod_ok = True
                case = {"kind": kind, "data": data.hex() if len(data) <= 65536 or kind.endswith("-image") else data[:65536].hex() + "...", "len": len(data)}
                # ---- property oracle -----------------------------------------------------------------
                if "exn" in real:
                    sig = "C20:%s:%s:%s" % (real["fmt"], real["exn"], real["loop"] if real["exn"] == "timeout" else real["site"])
                    what = "read_program does not come back within %.0f s (in %s)" % (TIME_LIMIT, real["loop"]) if real["exn"] == "timeout" else \
                           "%s escapes read_program (raised in %s while trying %s)" % (real["exn"], real["site"], real["fmt"])
                    ck.report(sig, what, "oracle", "Amoco.Fmt.Props20.read_program_total", case=case, real=real, model=mod,
                              expected="a format object or the raw fallback")
                    continue
                if "alloc" in real:
                    a = real["alloc"]
                    ck.report("C20:%s:alloc:%s" % (a["fmt"], a["loop"]), "a size field of the file makes read_program request more than %d GiB of memory (in %s)"
                              % (ADDRESS_SPACE >> 30, a["loop"]), "oracle", "Amoco.Fmt.Props20.read_program_total (allocation)", case=case, real=real, model=mod,
                              expected="allocations bounded by the size of the input")
                if real["t"] > 2.0:
                    slow.append((real["t"], kind, len(data)))
                if exp is not None and real["ok"] != exp:
                    ck.report("C20:claimed:%s-as-%s" % (exp, real["ok"]), "a valid %s file is identified as %s" % (exp, real["ok"]), "oracle",
                              "Amoco.Fmt.Props20.magic_disjoint", case=case, real=real, model=mod, expected=exp)
                    continue
                # ---- correspondence -------------------------------------------------------------------
                if not mod_ok:
                    continue
                if real["ok"] not in allowed(mod):
                    corr.append(("outcome", case, real["ok"], mod))
                elif mod["elf"] != "ok" and real["ok"] == "Elf":
                    corr.append(("elf-accept", case, real["ok"], mod))
        drv.close()
        ck.cov["slowest_calls"] = sorted(slow, reverse=True)[:5]
        if first:
            ck.sample({"in": [first[0][0], first[0][1].hex()[:64]], "model": first[1]})
            ck.sample({"in": [last[0][0], last[0][1][:48].decode("latin1")], "model": last[1]})
    # PE / Mach-O header stages: Lean models (Model/Pe.lean, Model/Macho.lean; pe_ctor_total, pe_sections_bounded, macho_walker_total ...),
    # each tied by its own correspondence; HEX / SREC allocation bounds measured on the real objects (hex_alloc_bounded, srec_alloc_bounded)
    import pe_check, macho_check, c20_alloc
    from c14 import audit_extra
    if getattr(install_alloc_watch, "saved", None):
        # the address-space bound of the allocation watch is inherited by child processes: the model drivers started below
        # (Lean runtime reserves thread stacks) need the original limit back; allocation stays watched through the error classes
        import resource
        resource.setrlimit(resource.RLIMIT_AS, install_alloc_watch.saved)
    corr_pe, corr_macho = [], []
    pe_check.run_c20(ck, tier, corr_pe)
    macho_check.run_c20(ck, tier, corr_macho)
    audit_extra(ck, "C14Macho")
    c20_alloc.run(ck, tier)
    for name, cl in (("pe", corr_pe), ("macho", corr_macho)):
        ck.oblige("correspondence %s constructor (header stage) ~ Lean model" % name, not cl, "%d disagreements" % len(cl))
    for b in broken:
        ck.report("C20:proof-obligation", "proof obligation broken: %s" % b[:300], "proof-obligation", b[:2000], failing_input_found=False)
    if corr:
        name, case, real, mod = corr[0]
        ck.report("C20:correspondence:" + name, "model and code disagree on %d inputs (first: %s %s → real %s, model %s)"
                  % (len(corr), case["kind"], case["len"], real, {k: mod[k] for k in ("elf", "pe", "macho", "coff", "hex", "srec", "definite")}),
                  "correspondence", "correspondence Amoco.Fmt.readProgram ~ amoco.system.core.read_program", case=case, real=real, model=mod,
                  failing_input_found=False)
    ck.oblige("correspondence read_program outcome class", not corr, "%d disagreements" % len(corr))
    ck.assumptions += ["PE / Mach-O / COFF beyond the header are not modelled: an object of these classes is accepted whenever the header predicate holds; "
                       "that their constructors raise only their own error type is observed (fuzzing), not proved",
                       "allocation is not measured; wall time per call is bounded by %.0f s" % TIME_LIMIT]
    ck.trusted += ["harness/fmt_real.py / c20.py outcome classification (traceback → format module, raising function)",
                   "compiled Lean driver drv_struct (evaluation of the model definitions)"]
    return ck.finish("random data (half with a format magic in front), every short prefix and sampled long prefixes of each shipped sample, random byte corruptions of "
                     "the samples (70% in the first 1 KiB), synthesised ELF images valid / truncated / corrupted, generated HEX and SREC streams valid / corrupted, "
                     "crafted degenerate headers; valid Intel-HEX and S-record images of many sizes (64 B .. 38 KB of data in quick, .. 90 KB in thorough: log-uniform sizes, "
                     "powers of two and their neighbours, runs of consecutive sizes; LF / CRLF, 1..255 bytes per record, S1/S2/S3, with and without header / count / "
                     "start records) that must be identified as HEX / SREC and not claimed by a magic-less format tried earlier; structure-aware corruptions of text "
                     "records (streams holding every record type; every character of every record over the alphabet of its field - start code, type digit 0-9, hex "
                     "digits and characters outside the alphabet - exhaustive for start / type, sampled per field for count / address / data / checksum in quick; "
                     "count, type and address fields at boundary values with the checksum recomputed; truncated and extended records; each both inside its stream and "
                     "as a lone first line); non-trivial = identified as a format other than the raw fallback")


if __name__ == "__main__":
    sys.exit(main(sys.argv[1] if len(sys.argv) > 1 else "quick"))
