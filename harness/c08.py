"""
C08 — Abstract memory behaves as a last-write-wins byte store.

Theorems (lean/Amoco/Props/C08.lean) are about the model `Amoco.Memory` (lean/Amoco/Model/Memory.lean).
This harness ties the model to /repo's amoco/system/memory.py on every run:
  C  generated histories (mem_gen.py: writes of raw bytes / cst / reg / slices / comp, both
     endiannesses, sizes 1..16, explicit overlap classes, reads of arbitrary ranges, restruct / copy /
     shift / merge interleaved, concrete zone and symbol-relative zones, a small workspace of live maps:
     `fork` keeps the original next to its copy, later operations address any of them) run on the real
     MemoryMap/MemoryZone in-process (mem_real.py) and on the compiled model (drv_mem); after every
     operation the zone dictionaries of ALL live maps (key order, objects: address / raw bytes or per-byte
     canonical expression descriptor / endianness, cache) and every read result are compared;
  K  the proved-sound checker `Zone.check` (⇒ ZoneWF, theorem `check_sound`) is evaluated on the zone
     dumped from the real code after every step;
  O  an independent byte-store oracle (mem_oracle.py, one store per live map) judges every real read
     result and the flattened dump of every live map; when anything breaks it is used to search for, and shrink, a replayable
     failing history on the real code.
`python c08.py replay <file>` re-runs a replay file.
"""
import sys, os, json
from common import *
import mem_gen, mem_oracle


def op_shape(op):
    k = op["k"]
    pre = "m%d:" % op["m"] if op.get("m", 0) else ""
    if k == "write":
        return pre + "write.%s.%s%s" % (op["val"][0], "le" if op["en"] == 1 else "be", "" if mem_gen.resolve(op["addr"]) else ".badaddr")
    if k == "merge":
        return pre + "merge(%s)" % ",".join(op_shape(o) for o in op["ops"])
    if k == "fork":
        return pre + "fork->m%d" % op["to"]
    if k == "mergecopy":
        return pre + "mergecopy(m%d)" % op["src"]
    return pre + k


def shape(ops):
    return "/".join(op_shape(o) for o in ops)


# ---------------------------------------------------------------------------------------------
# hand-written corpus: one history per overlap case of addtomap (run first, every run)
# ---------------------------------------------------------------------------------------------

def W(a, v, en=1):
    return {"k": "write", "addr": a if isinstance(a, list) else ["int", a], "val": v, "en": en}


def R(a, n):
    return {"k": "read", "addr": a if isinstance(a, list) else ["int", a], "n": n}


def corpus():
    raw = lambda n, b=0x41: ["raw", bytes([(b + i) & 0xff for i in range(n)]).hex()]
    H = []
    for en in (1, -1):
        # inside an expression / inside raw
        H.append([W(0x10, ["reg", 1, 8], en), W(0x12, raw(2), en), R(0x0e, 12), R(0x11, 3)])
        H.append([W(0x10, raw(8), en), W(0x12, ["reg", 1, 4], en), R(0x10, 8), {"k": "restruct"}, R(0x10, 8)])
        # spanning several, first and last partially
        H.append([W(0x10, ["reg", 1, 4], en), W(0x14, raw(4), en), W(0x1a, ["reg", 2, 4], -en),
                  W(0x12, ["reg", 3, 10], en), R(0x0f, 18)])
        # spanning several exactly to the end of the last (delete all)
        H.append([W(0x10, ["reg", 1, 4], en), W(0x14, raw(4), en), W(0x18, ["reg", 2, 4], en),
                  W(0x10, ["reg", 3, 12], en), R(0x10, 12)])
        # touching ends
        H.append([W(0x10, raw(4), en), W(0x14, raw(4, 0x61), -en), W(0x0c, raw(4, 0x30), en), R(0x0c, 12),
                  {"k": "restruct"}, R(0x0c, 12)])
        H.append([W(0x10, ["reg", 1, 4], en), W(0x14, ["reg", 2, 4], en), W(0x0c, ["reg", 3, 4], en), R(0x0a, 16)])
        # before first / after last with gaps
        H.append([W(0x20, raw(4), en), W(0x10, ["reg", 1, 2], en), W(0x30, ["cst", 0x11223344, 4], en), R(0x0e, 0x28)])
        # new object ends exactly at the start of an existing one and starts in a gap
        H.append([W(0x10, raw(4), en), W(0x20, raw(4), en), W(0x18, ["reg", 1, 8], en), R(0x10, 0x14)])
        # extends over the end of the object it starts in, into a gap
        H.append([W(0x10, ["reg", 1, 4], en), W(0x20, raw(4), en), W(0x12, ["reg", 2, 6], en), R(0x10, 0x14)])
        # comp values: partial overwrite leaves a constant part / a register part
        H.append([W(0x10, ["comp", [["reg", 1, 2], ["cst", 0xbeef, 2], ["slc", 2, 4, 1, 2]]], en),
                  W(0x10, raw(2), en), R(0x10, 6), W(0x14, raw(1), en), R(0x10, 6), {"k": "copy"}, R(0x10, 6)])
        H.append([W(0x10, ["comp", [["cst", 0x11, 1], ["reg", 1, 2], ["cst", 0x2233, 2]]], en),
                  W(0x11, raw(2), en), R(0x10, 5), {"k": "copy"}, R(0x10, 5), {"k": "restruct"}, R(0x0f, 7)])
        # symbolic zones, negative offsets, merge
        H.append([W(["ptrs", "esp", -4], ["reg", 1, 4], en), W(["ptrs", "esp", -8], raw(4), en),
                  W(["ptrs", "esp", -6], ["cst", 0xaabb, 2], en), R(["ptrs", "esp", -10], 12),
                  {"k": "merge", "ops": [W(["ptrs", "esp", -5], ["reg", 9, 2], en), W(["ptrs", "ebx", 0], raw(3), en),
                                         W(0x100, raw(2), en)]},
                  R(["ptrs", "esp", -10], 12), R(["ptrs", "ebx", -1], 5), R(0x100, 2),
                  {"k": "shift", "zone": "esp", "off": 8}, R(["ptrs", "esp", -2], 12)])
        # constant-base pointers incl. wrap-around, cst addresses, ext symbol
        H.append([W(["ptrc", 0xfffffffc, 32, 8], raw(4), en), R(["cst", 4, 32], 4), R(2, 8),
                  W(["ext", "errno"], ["reg", 1, 4], en), R(["ext", "errno"], 4), R(["ptrs", "rsi", 0], 4),
                  R(["other"], 1), W(["ptrtop", 0], raw(1), en)])
        # the original stays alive next to its copy: (a) adjacent unmerged raw objects, copy, write into the
        # upper one of the ORIGINAL; (b) head-trimming write to the copy / to the original, read the other one
        H.append([W(0x14, raw(4, 0x42), en), W(0x10, raw(4), en), {"k": "fork", "m": 0, "to": 1},
                  W(0x15, raw(1, 0x58), en), R(0x10, 8), dict(R(0x10, 8), m=1)])
        H.append([W(["ptrs", "esp", -4], raw(4, 0x42), en), W(["ptrs", "esp", -8], raw(4), en), {"k": "copy"},
                  {"k": "fork", "m": 0, "to": 1}, W(["ptrs", "esp", -3], raw(1, 0x58), en), R(["ptrs", "esp", -8], 8)])
        H.append([W(0x10, ["reg", 1, 4], en), {"k": "fork", "m": 0, "to": 1}, dict(W(0x0e, raw(4, 0x5a), en), m=1),
                  R(0x10, 4), dict(R(0x0e, 6), m=1), W(0x0e, ["reg", 2, 3], en), dict(R(0x0e, 6), m=1), R(0x0e, 6),
                  {"k": "mergecopy", "m": 1, "src": 0}, dict(R(0x0e, 6), m=1), {"k": "restruct", "m": 1}, R(0x0e, 6)])
    return H


# ---------------------------------------------------------------------------------------------

class Runner(object):
    """histories are lists of ops that address live maps by id ("m"; see mem_gen).  Everything below
    normalizes a history first (ops on maps that are not live are dropped), so any sub-sequence of a
    history is again a history."""

    def __init__(self, ck, drv):
        self.ck, self.drv = ck, drv
        import mem_real
        self.real = mem_real
        self.corr_broken = []     # (name, case, real, model) without failing input
        self.nhist = 0

    # -- oracle-driven search for a failing input on the real code ---------------------------------
    def fails(self, ops):
        """does the last op of `ops`, run on the real code, return something the byte store rejects?"""
        nops, pos = mem_gen.normalize(ops)
        if not pos or pos[-1] != len(ops) - 1:
            return False, None, None
        st = mem_oracle.Workspace()
        exp = None
        for o in nops:
            exp = st.apply(o)
        out, _ = self.real.run(nops)
        return not st.judge(nops[-1], exp, out[-1]["res"]), exp, out[-1]["res"]

    def first_bad_step(self, ops):
        nops, pos = mem_gen.normalize(ops)
        st = mem_oracle.Workspace()
        out, _ = self.real.run(nops)
        for n, o in enumerate(nops):
            exp = st.apply(o)
            if not st.judge(o, exp, out[n]["res"]):
                return pos[n]
        return None

    def probe(self, ops, light=False):
        """after `ops`, read every range (light: the whole extent and every single byte) of every zone of
        EVERY live map on the real code; returns the first read the map's own byte store rejects."""
        nops, pos = mem_gen.normalize(ops)
        ids = [0] + [ops[p]["to"] for p in pos if ops[p]["k"] == "fork"]
        st = mem_oracle.Workspace()
        for o in nops:
            st.apply(o)
        out, ws = self.real.run(nops)
        for mi, store in enumerate(st.s):
            for key in list(store.z.keys()):
                ext = store.extent(key)
                if ext is None or (key is not None and key.startswith("@")):
                    rng_ = [(0, n) for n in range(0, 20)]
                elif light:
                    lo, hi = ext
                    rng_ = [(lo - 1, hi - lo + 2)] + [(a, 1) for a in range(lo, hi)]
                else:
                    lo, hi = ext
                    rng_ = [(a, n) for a in range(lo - 2, hi + 2) for n in range(0, hi - a + 3)]
                for a, n in rng_:
                    ad = ["int", a] if key is None else (["ext", key[1:]] if key.startswith("@") else ["ptrs", key, a])
                    rop = {"k": "read", "m": mi, "addr": ad, "n": n}
                    exp = st.apply(rop)
                    res = self.real.ws_step(ws, rop)
                    if not st.judge(rop, exp, res):
                        return dict(rop, m=ids[mi])
        return None

    def shrink(self, ops):
        ops = list(ops)
        changed = True
        while changed:
            changed = False
            for n in range(len(ops) - 1):
                cand = ops[:n] + ops[n + 1:]
                try:
                    if self.fails(cand)[0]:
                        ops, changed = cand, True
                        break
                except Exception:
                    pass
            if not changed:
                # shrink nested merges
                for n, o in enumerate(ops[:-1]):
                    if o["k"] == "merge" and len(o["ops"]) > 1:
                        for m in range(len(o["ops"])):
                            cand = ops[:n] + [dict(o, ops=o["ops"][:m] + o["ops"][m + 1:])] + ops[n + 1:]
                            if self.fails(cand)[0]:
                                ops, changed = cand, True
                                break
                    if changed:
                        break
        return ops

    def probe_writes(self, ops):
        """a latent corruption (e.g. two objects of the real zone overlapping after a copy) may need one
        more write before a read shows it: try a 1-byte write at every address of every zone of every
        live map, then the light probe."""
        nops, pos = mem_gen.normalize(ops)
        ids = [0] + [ops[p]["to"] for p in pos if ops[p]["k"] == "fork"]
        st = mem_oracle.Workspace()
        for o in nops:
            st.apply(o)
        for mi, store in enumerate(st.s):
            for key in list(store.z.keys()):
                ext = store.extent(key)
                if ext is None or (key is not None and key.startswith("@")):
                    continue
                for a in range(ext[0] - 1, ext[1] + 1):
                    ad = ["int", a] if key is None else ["ptrs", key, a]
                    cand = list(ops) + [{"k": "write", "m": ids[mi], "addr": ad, "val": ["raw", "58"], "en": 1}]
                    rop = self.probe(cand, light=True)
                    if rop is not None:
                        return cand + [rop]
        return None

    def find_failing(self, ops):
        n = self.first_bad_step(ops)
        if n is not None:
            return self.shrink(ops[:n + 1])
        for cut in range(1, len(ops) + 1):
            rop = self.probe(ops[:cut])
            if rop is not None:
                return self.shrink(ops[:cut] + [rop])
        return None

    # -- one history -------------------------------------------------------------------------------
    def diff(self, what, ops, step, real, model, tie):
        """something broke at `step` of `ops`: decide with the oracle."""
        ck = self.ck
        prefix = ops[:step + 1]
        bad = self.find_failing(prefix)
        if bad is None and len(ops) > len(prefix):
            bad = self.find_failing(ops)
        if bad is None:
            bad = self.probe_writes(prefix)
            if bad is not None:
                bad = self.shrink(bad)
        if bad is not None:
            f, exp, res = self.fails(bad)
            mod = self.drv.ask({"op": "mem.run", "ops": [mem_gen.model_op(o) for o in mem_gen.normalize(bad)[0]]})
            sig = "C08:%s" % shape(bad)
            ck.report(sig, "history %s: the real memory returns %s, a last-write-wins byte store %s"
                      % (shape(bad), json.dumps(res)[:200], json.dumps(exp)[:200]),
                      "oracle", tie, case={"ops": bad}, real=res, model=mod[-1]["res"] if isinstance(mod, list) else mod,
                      expected=exp)
        else:
            self.corr_broken.append((what, {"ops": prefix, "step": step}, real, model, tie))

    def oracle_only(self, ops):
        """real code vs byte store only (no model): used for inputs outside the modelled fragment."""
        ck = self.ck
        nops, pos = mem_gen.normalize(ops)
        real, _ = self.real.run(nops)
        st = mem_oracle.Workspace()
        for n, op in enumerate(nops):
            exp = st.apply(op)
            if not st.judge(op, exp, real[n]["res"]) or not st.state_ok(real[n]["maps"]):
                return self.diff("oracle-only", ops, pos[n], real[n]["res"], None, "byte-store oracle on histories with zero-length writes")
        ck.count("oracle-only.histories")
        ck.case(("empty", json.dumps(ops, sort_keys=True)), nontrivial=any(o["k"] == "write" and o["val"] == ["raw", ""] for o in ops))

    def history(self, rawops, tag):
        ck, drv = self.ck, self.drv
        self.nhist += 1
        ops, pos = mem_gen.normalize(rawops)
        mops = [mem_gen.model_op(o) for o in ops]
        model = drv.ask({"op": "mem.run", "ops": mops})
        real, _ = self.real.run(ops)
        st = mem_oracle.Workspace()
        if not isinstance(model, list):
            self.corr_broken.append(("driver-error", {"ops": rawops}, None, model, "driver"))
            return
        # K: checker on every dumped real zone of every live map
        zreq, zidx = [], []
        for n, stp in enumerate(real):
            for zones in stp["maps"]:
                if isinstance(zones, list):
                    for key, objs, cache in zones:
                        zreq.append({"map": objs, "cache": cache})
                        zidx.append(n)
        kres = drv.ask({"op": "mem.checks", "zones": zreq}) if zreq else []
        kbad = {}
        for n, ok in zip(zidx, kres):
            if ok is not True:
                kbad.setdefault(n, ok)
        nontrivial = False
        nlive = 1
        for n, op in enumerate(ops):
            exp = st.apply(op)
            r, m = real[n], model[n]
            nlive = len(r["maps"])
            if op["k"] == "write" and exp == "ok":
                cls = st.last_class(op)
                ck.count("ovl." + cls)
                if cls not in ("first-in-zone", "gap", "before-first", "after-last"):
                    nontrivial = True
                if nlive > 1:
                    ck.count("write.with-%d-live-maps" % nlive)
            if op["k"] == "read":
                ck.count("read.result." + ("MemoryError" if isinstance(r["res"], str) else
                                           "parts=%d" % min(len(r["res"]["items"]), 6)))
                if nlive > 1:
                    ck.count("read.with-%d-live-maps" % nlive)
            rn = pos[n]
            mmaps = [[z[:3] for z in zones] for zones in m["maps"]]
            # oracle on the real result and on the real state of every live map
            if not st.judge(op, exp, r["res"]):
                return self.diff("oracle:result", rawops, rn, r["res"], m["res"], "Amoco.Memory.Props.read_refines / history_last_write_wins / workspace_history")
            if not st.state_ok(r["maps"]):
                return self.diff("oracle:state", rawops, rn, r["maps"], mmaps, "Amoco.Memory.Props.abs_addtomap / workspace_history")
            if n in kbad:
                return self.diff("checker", rawops, rn, r["maps"], kbad[n], "K: Zone.check (ZoneWF) on the real zone")
            # correspondence
            mres = m["res"]
            if isinstance(mres, dict):
                if not (isinstance(exp, tuple) and exp[0] == "bytes" and mres["flat"] == exp[1]):
                    return self.diff("model-vs-oracle", rawops, rn, r["res"], mres, "model flatten(read) vs byte store")
                mres = {"items": mres["items"]}
            if mres != r["res"]:
                return self.diff("correspondence:result:" + op["k"], rawops, rn, r["res"], mres, "correspondence Amoco.Memory ~ system/memory.py (result of %s)" % op["k"])
            if mmaps != r["maps"]:
                return self.diff("correspondence:state:" + op["k"], rawops, rn, r["maps"], mmaps, "correspondence Amoco.Memory ~ system/memory.py (all live maps after %s)" % op["k"])
            if not all(z[3] for zones in m["maps"] for z in zones):
                return self.diff("model-wf", rawops, rn, r["maps"], m["maps"], "Amoco.Memory.Props.zoneWF_* (model zone fails its own checker)")
        ck.case((tag, json.dumps(rawops, sort_keys=True)), nontrivial=nontrivial)
        ck.count("hist.len.%02d-%02d" % (len(ops) // 10 * 10, len(ops) // 10 * 10 + 9))
        ck.count("hist.live-maps.%d" % nlive)
        if self.nhist % 97 == 1:
            ck.sample({"ops": rawops[:6], "shape": shape(rawops)[:300], "final_real_maps": real[-1]["maps"] if real else None})


def with_empty_writes(r, ops):
    """turn some writes of a history into zero-length raw writes (outside the theorems' hypothesis
    `0 < v.len`; judged by the oracle on the real code only)."""
    def z(o):
        if o["k"] == "write" and r.random() < 0.15 and mem_gen.resolve(o["addr"]):
            return dict(o, val=["raw", ""])
        if o["k"] == "merge":
            return dict(o, ops=[z(x) for x in o["ops"]])
        return o
    return [z(o) for o in ops]


def main(tier):
    ck = Check("C08", tier)
    quick = tier == "quick"
    broken = ck.build_and_audit(["Amoco.Props.C08", "drv_mem"])
    if not quick:
        # independent re-check of the compiled property modules by the stand-alone kernel
        import subprocess
        try:
            pr = subprocess.run(["lake", "env", "leanchecker", "Amoco.Props.C08", "Amoco.Proofs.Memory", "Amoco.Model.Memory"],
                                cwd=LEAN, stdout=subprocess.PIPE, stderr=subprocess.STDOUT, text=True, timeout=1800)
            okc = pr.returncode == 0
            if not okc:
                broken.append("leanchecker rejected the C08 modules: " + pr.stdout[-1500:])
        except Exception as e:
            okc = False
            broken.append("leanchecker could not run: %r" % (e,))
        ck.oblige("leanchecker Amoco.Props.C08 Amoco.Proofs.Memory Amoco.Model.Memory", okc)
    fresh_amoco()
    try:
        drv = Driver("drv_mem")
    except InternalError as e:
        ck.report("C08:proof-obligation", "driver not built: %s" % e, "proof-obligation", "\n".join(broken)[:2000],
                  failing_input_found=False)
        return ck.finish("no case generated")
    run = Runner(ck, drv)

    for n, h in enumerate(corpus()):
        run.history(h, "corpus%d" % n)
        ck.count("corpus")
    cdir = os.path.join(ROOT, "corpus")
    if os.path.isdir(cdir):
        for fn in sorted(os.listdir(cdir)):
            if fn.startswith("c08") and fn.endswith(".json"):
                for h in json.load(open(os.path.join(cdir, fn))):
                    run.history(h, fn)
                    ck.count("corpus")

    nh = 1200 if quick else 50000
    maxlen = 40 if quick else 80
    for h in range(nh):
        r = rng("C08/%d" % h)
        g = mem_gen.Gen(r, ck)
        ops = g.history(r.randint(1, maxlen))
        run.history(ops, "gen")
        if len(ck.violations) >= 5:
            break
    # oracle-only stream: histories with zero-length writes (the model's theorems assume non-empty writes)
    for h in range(150 if quick else 8000):
        r = rng("C08/empty/%d" % h)
        ops = with_empty_writes(r, mem_gen.Gen(r).history(r.randint(1, maxlen)))
        run.oracle_only(ops)
        if len(ck.violations) >= 5:
            break
    drv.close()

    for b in broken:
        ck.report("C08:proof-obligation", "proof obligation broken: %s" % b[:300], "proof-obligation", b[:2000],
                  failing_input_found=False)
    seen = set()
    for what, case, real, model, tie in run.corr_broken:
        if what in seen:
            continue
        seen.add(what)
        ck.report("C08:" + what, "model and code disagree (%s) on %d histories; no read of the real memory contradicts the byte store"
                  % (what, sum(1 for x in run.corr_broken if x[0] == what)),
                  "correspondence", tie, case=case, real=real, model=model, failing_input_found=False)
    ck.oblige("correspondence zones/read results after every operation", not run.corr_broken, "%d disagreements" % len(run.corr_broken))
    ck.oblige("K: Zone.check accepts every dumped real zone", not any(x[0] == "checker" for x in run.corr_broken))
    ck.assumptions += [
        "expressions are observed through their per-byte descriptors (byte-aligned reg / slc / comp / cst): "
        "amoco's exp.bytes on other expression kinds (mem, op, tst, vec, non byte-aligned comp) is outside the modelled fragment",
        "Python exceptions are not modelled: an exception of the real code on a generated history counts as a disagreement",
        "bisect_left / list / dict / bytes of CPython are modelled by their specification",
        "writes are non-empty (a zero-length write is not a write)"]
    ck.trusted += ["harness/mem_real.py canonical dump of amoco values (canon_exp) and of MemoryZone._map / __cache",
                   "harness/mem_oracle.py byte store used for failing-input search",
                   "compiled Lean driver drv_mem (evaluation of the model definitions and of Zone.check)"]
    return ck.finish("hand-written corpus (one history per overlap case of addtomap, both endiannesses) + seeded random histories "
                     "of 1..%d operations (write 55%% / read 25%% / restruct, copy, shift, merge 20%%), write placement by explicit "
                     "overlap class; a history is one case, non-trivial when at least one write overlaps or touches earlier content; "
                     "every operation of every history is compared (zones + result) and judged by the byte-store oracle; plus an oracle-only "
                     "stream of histories with zero-length writes (real code vs byte store)" % maxlen)


def replay(path):
    rec = json.load(open(path))
    ops = rec["case"]["ops"]
    fresh_amoco()
    import mem_real
    rawops = ops
    ops, _ = mem_gen.normalize(rawops)
    out, _ = mem_real.run(ops)
    st = mem_oracle.Workspace()
    exp = None
    for o in ops:
        exp = st.apply(o)
    drv = Driver("drv_mem")
    mod = drv.ask({"op": "mem.run", "ops": [mem_gen.model_op(o) for o in ops]})
    drv.close()
    print("history :", shape(rawops))
    print("real    :", json.dumps(out[-1]["res"]))
    print("model   :", json.dumps(mod[-1]["res"] if isinstance(mod, list) else mod))
    print("expected:", json.dumps(exp))
    ok = st.judge(ops[-1], exp, out[-1]["res"])
    print("VIOLATION property=C08 replay=%s" % path if not ok else "no violation on the current tree")
    return 0 if ok else 1


if __name__ == "__main__":
    if len(sys.argv) > 2 and sys.argv[1] == "replay":
        sys.exit(replay(sys.argv[2]))
    sys.exit(main(sys.argv[1] if len(sys.argv) > 1 else "quick"))
