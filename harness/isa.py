"""
isa.py — access to amoco's ISA modules for the decoder-stack checks:
cpu modules, their disassembler objects and modes, spec reflection, tree dumps,
spec-directed byte generation.
"""
import importlib, pkgutil, sys, os, types
from common import fresh_amoco, REPO

fresh_amoco()
from amoco.arch import core as acore
from crysp.bits import Bits

# (name, cpu module, list of modes).  A mode is (label, iset index, setter callable or None).
CPU_MODULES = [
    ("x86", "amoco.arch.x86.cpu_x86"),
    ("x64", "amoco.arch.x64.cpu_x64"),
    ("armv7", "amoco.arch.arm.cpu_armv7"),
    ("armv8", "amoco.arch.arm.cpu_armv8"),
    ("avr", "amoco.arch.avr.cpu"),
    ("msp430", "amoco.arch.msp430.cpu"),
    ("w65c02", "amoco.arch.w65c02.cpu"),
    ("wasm", "amoco.arch.wasm.cpu"),
    ("mips", "amoco.arch.mips.cpu_r3000"),
    ("mipsLE", "amoco.arch.mips.cpu_r3000LE"),
    ("sparc", "amoco.arch.sparc.cpu_v8"),
    ("v850", "amoco.arch.v850.cpu_v850e2s"),
    ("tricore", "amoco.arch.tricore.cpu"),
    ("sh4", "amoco.arch.superh.cpu_sh4"),
    ("sh2", "amoco.arch.superh.cpu_sh2"),
    ("pic18", "amoco.arch.pic.cpu_pic18f46k22"),
    ("ppc32", "amoco.arch.ppc32.cpu"),
    ("e200", "amoco.arch.ppc32.cpu_e200"),
    ("eBPF", "amoco.arch.eBPF.cpu"),
    ("bpf", "amoco.arch.eBPF.cpu_bpf"),
    ("gb", "amoco.arch.z80.cpu_gb"),
    ("z80", "amoco.arch.z80.cpu_z80"),
    ("dwarf", "amoco.arch.dwarf.cpu"),
    ("rv32i", "amoco.arch.riscv.cpu_rv32i"),
    ("rv64i", "amoco.arch.riscv.cpu_rv64i"),
]


class Isa(object):
    def __init__(self, name, modname):
        self.name = name
        self.modname = modname
        self.cpu = importlib.import_module(modname)
        self.dis = self.cpu.disassemble
        self.nsets = len(self.dis.specs)
        self._orig_iset = self.dis.iset

    @property
    def be(self):
        return self.dis.endian() == -1

    @property
    def maxlen(self):
        return self.dis.maxlen

    def set_mode(self, idx):
        """select instruction set `idx` (armv7: ARM/Thumb) the way the ISA itself does."""
        if self.name == "armv7":
            self.cpu.internals["isetstate"] = idx
        elif self.nsets > 1:
            self.dis.iset = lambda *a, **k: idx

    def spec_lists(self):
        """per mode: the weight-sorted list of ispec objects (flattened from the tree, ordered
        as the module's ISPECS list which `setup` sorted in place)."""
        out = []
        for t in self.dis.specs:
            out.append(flatten(t))
        return out


def load_all(names=None):
    """returns (dict name->Isa, dict name->import error string)"""
    ok, bad = {}, {}
    for name, mod in CPU_MODULES:
        if names and name not in names:
            continue
        try:
            ok[name] = Isa(name, mod)
        except BaseException as e:  # import-time failures are C17 findings
            bad[name] = "%s: %s" % (type(e).__name__, e)
    return ok, bad


def flatten(tree):
    """all specs of a tree, sorted by descending mask weight, stable w.r.t. tree order.
    NB: used only for enumeration; the *reference scan* order is taken from ISPECS."""
    f, l = tree
    if f == 0:
        return list(l)
    out = []
    for k, sub in l.items():
        out.extend(flatten(sub))
    return out


def module_specs(isa, idx):
    """the ISPECS list (sorted in place by setup) of instruction set idx."""
    # disassembler does not keep the modules: recover from hook modules of the tree's specs
    specs = flatten(isa.dis.specs[idx])
    mods = []
    for s in specs:
        m = sys.modules.get(s.hook.__module__)
        if m is not None and m not in mods:
            mods.append(m)
    # a spec module's ISPECS is the list object that was sorted in place
    cands = [m.ISPECS for m in mods if hasattr(m, "ISPECS")]
    ids = set(id(s) for s in specs)
    for c in cands:
        if set(id(s) for s in c) == ids:
            return c
    # fall back: stable sort of the flattened tree
    return sorted(specs, key=lambda x: -x.mask.hw())


PFX = {False: 0, True: 1, "xdata": 2}


def speck(i, s):
    return [i, s.mask.size, s.mask.ival, s.fix.ival, PFX.get(s.pfx, 0)]


def dump_tree(tree, index):
    f, l = tree
    if f == 0:
        return ["leaf", [index[id(s)] for s in l]]
    return ["node", f, [[k, dump_tree(sub, index)] for k, sub in l.items()]]


def is_extractor(f):
    return (isinstance(f, types.FunctionType) and f.__name__ == "<lambda>"
            and f.__code__.co_filename.replace("\\", "/").endswith("amoco/arch/core.py")
            and f.__defaults__ is not None and len(f.__defaults__) in (2, 3))


def reflect_spec(s):
    """what buildspec computed, as plain data"""
    def exts(D, to_attr):
        out, keys = [], []
        for k, v in D.items():
            if is_extractor(v):
                d = v.__defaults__
                names = v.__code__.co_names
                if len(d) == 3:
                    kind = "str"
                elif "ival" in names:
                    kind = "int"
                else:
                    kind = "bits"
                out.append([to_attr, k, kind, d[0], d[1], (d[2] > 0) if len(d) == 3 else None])
            else:
                keys.append(k)
        return out, keys
    ea, ka = exts(s.iattr, True)
    ef, kf = exts(s.fargs, False)
    return {"format": s.format, "size": s.size, "fixSize": s.fix.size, "fix": s.fix.ival, "mask": s.mask.ival,
            "maskSize": s.mask.size, "pfx": s.pfx is True, "xdata": s.pfx == "xdata",
            "extsA": ea, "extsF": ef, "keysA": ka, "keysF": kf}


def directed_bytes(s, e, r, tail=None):
    """a byte string on which spec s's fixed bits match (fetch endianness e)."""
    n = s.fix.size
    word = s.fix.ival | (r.getrandbits(n) & ~s.mask.ival & ((1 << n) - 1)) if n else 0
    bs = word.to_bytes((n + 7) // 8, "little")[: n // 8][::e]
    if tail is None:
        # variable-length specs get long tails now and then (hooks may consume many bytes: LEB128 …)
        tail = r.choice([0, 0, 1, 2, 4, 8, 11, 11, 17, 24, 40] if s.size == 0 else [0, 0, 1, 2, 4, 8, 11])
    return bs + bytes(r.getrandbits(8) for _ in range(tail))


def structured_bytes(s, e, r, tail=None):
    """words matching spec s whose named fields take coinciding / boundary values (the same register in
    every register slot, zero registers, all-ones fields ...): operand aliasing that random filling of
    the free bits almost never produces.  Returns a list of byte strings."""
    n = s.fix.size
    if not n:
        return []
    rs = reflect_spec(s)
    fields = [(f[3], f[4]) for f in rs["extsA"] + rs["extsF"] if isinstance(f[3], int) and isinstance(f[4], int) and 0 <= f[3] < f[4] <= n]
    if not fields:
        return []
    free = ~s.mask.ival & ((1 << n) - 1)
    def word(val_of):
        w = r.getrandbits(n) & free          # bits outside named fields: random
        for k, (lo, hi) in enumerate(sorted(fields, key=lambda f: f[1] - f[0], reverse=True)):
            m = ((1 << (hi - lo)) - 1) << lo
            w = (w & ~m) | ((val_of(k, hi - lo) << lo) & m)     # narrower fields written last (overlapping '=' fields)
        return s.fix.ival | (w & free)
    v = r.choice([1, 2, 3, 5, 7])
    z = r.randrange(len(fields))
    words = [word(lambda k, w_: 0), word(lambda k, w_: (1 << w_) - 1), word(lambda k, w_: v & ((1 << w_) - 1)),
             word(lambda k, w_: 0 if k == z else v & ((1 << w_) - 1)), word(lambda k, w_: (v & ((1 << w_) - 1)) if k == z else 0)]
    out = []
    for w in dict.fromkeys(words):
        bs = w.to_bytes((n + 7) // 8, "little")[: n // 8][::e]
        t = tail if tail is not None else r.choice([0, 4, 8, 11] if s.size == 0 else [0, 0, 4])
        out.append(bs + bytes(r.getrandbits(8) for _ in range(t)))
    return out


def all_spec_modules():
    """every importable module below amoco.arch that defines ISPECS (name -> module or error)."""
    import amoco.arch
    ok, bad = {}, {}
    for mi in pkgutil.walk_packages(amoco.arch.__path__, "amoco.arch."):
        base = mi.name.rsplit(".", 1)[-1]
        if not base.startswith("spec"):
            continue
        try:
            m = importlib.import_module(mi.name)
        except BaseException as e:
            bad[mi.name] = "%s: %s" % (type(e).__name__, e)
            continue
        if hasattr(m, "ISPECS"):
            ok[mi.name] = m
    return ok, bad


# ---------------------------------------------------------------------------------------
# decoding helpers shared by C04 / C05 / C11 / C17
# ---------------------------------------------------------------------------------------

import re as _re
_ADDR = _re.compile(r" at 0x[0-9a-fA-F]+")


def _canon(v):
    try:
        from amoco.cas.expressions import exp
        if isinstance(v, exp):
            return "exp:%s:%d" % (v, v.size)
    except Exception:
        pass
    return _ADDR.sub("", repr(v))


def fingerprint(i):
    """canonical, comparable description of a decoded instruction (no addresses / ids)."""
    if i is None:
        return None
    try:
        ops = [_ADDR.sub("", str(o)) for o in i.operands]
    except Exception as e:
        ops = ["<str raises %s>" % type(e).__name__]
    misc = sorted((str(k), _canon(v)) for k, v in i.misc.items() if v is not None) if hasattr(i, "misc") else []
    attrs = []
    std = ("bytes", "type", "spec", "mnemonic", "operands", "misc", "address", "formatter", "xdata")
    for k, v in sorted(vars(i).items()):
        if k not in std and not k.startswith("_"):
            attrs.append((k, _canon(v)))
    return [bytes(i.bytes).hex(), i.mnemonic, ops, i.type, misc, sorted(attrs), getattr(i.spec, 'format', None)]


def reset(d):
    d._disassembler__i = None


def real_decode(d, bs, fresh=True, **kargs):
    """d(bs) from a clean pending state (fresh=False: whatever state earlier calls left);
    returns ('ok', instr) | ('none', None) | ('raise', ExcName)"""
    if fresh:
        reset(d)
    try:
        i = d(bs, **kargs)
    except BaseException as e:
        return ("raise", type(e).__name__)
    return ("ok", i) if i is not None else ("none", None)


def ref_scan(d, specs, bs, e, **kargs):
    """most-constrained-first scan over the whole weight-sorted list, with the same pending-prefix
    protocol as disassembler.__call__ — independent of the decision tree."""
    pending = None
    cur = bs
    try:
        while True:
            hit = None
            for s in specs:
                try:
                    i = s.decode(cur, e, i=pending, iclass=d.iclass)
                except (acore.DecodeError, acore.InstructionError):
                    continue
                hit = (s, i)
                break
            if hit is None:
                return ("none", None)
            s, i = hit
            if i.spec.pfx is True:
                pending = i
                cur = cur[s.mask.size // 8:]
                continue
            elif i.spec.pfx == "xdata":
                i.xdata(i, **kargs)
            return ("ok", i)
    except BaseException as ex:
        return ("raise", type(ex).__name__)


class AttemptTrace(object):
    """records every ispec.decode call made while active: (pending byte count, input length, spec, outcome)"""

    def __init__(self):
        self.log = []

    def __enter__(self):
        self.orig = acore.ispec.decode
        log = self.log
        orig = self.orig

        def traced(s, istr, endian=1, i=None, iclass=acore.instruction):
            plen = len(i.bytes) if i is not None else 0
            try:
                r = orig(s, istr, endian, i, iclass)
            except (acore.DecodeError, acore.InstructionError):
                log.append((plen, len(istr), s, 0))
                raise
            except BaseException as ex:
                log.append((plen, len(istr), s, 2))
                raise
            log.append((plen, len(istr), s, 1))
            return r
        acore.ispec.decode = traced
        return self

    def __exit__(self, *a):
        acore.ispec.decode = self.orig
        return False


def gen_inputs(isa_obj, specs, r, n_directed, n_random, prefixes=True):
    """byte strings for one ISA mode: spec-directed (+ mutated / truncated / prefixed) and random."""
    e = -1 if isa_obj.be else 1
    out = []
    pf = [s for s in specs if s.pfx is True]
    # every spec is reached: one sample per spec (three for variable-length specs, whose hooks parse the
    # tail: ModRM/SIB/displacement/immediate/LEB128 forms), then random picks up to n_directed
    order = []
    for s in specs:
        order.extend([s] * (3 if s.size == 0 else 1))
    while len(order) < n_directed:
        order.append(r.choice(specs))
    for s in order:
        bs = directed_bytes(s, e, r)
        k = r.random()
        if k < 0.15 and bs:
            j = r.randrange(len(bs))
            bs = bs[:j] + bytes([bs[j] ^ (1 << r.randrange(8))]) + bs[j + 1:]
        elif k < 0.25:
            bs = bs[: r.randrange(0, len(bs) + 1)]
        if prefixes and pf and r.random() < 0.3:
            for _ in range(r.choice([1, 1, 2, 3])):
                p = r.choice(pf)
                bs = directed_bytes(p, e, r, tail=0) + bs
        out.append(("directed", bs))
    for _ in range(n_random):
        out.append(("random", bytes(r.getrandbits(8) for _ in range(r.randrange(0, isa_obj.maxlen + 5)))))
    return out


# ---------------------------------------------------------------------------------------
# replay helpers (./check Cxx --replay file)
# ---------------------------------------------------------------------------------------

def replay_decode_case(rec):
    """re-run a recorded decoder case on the current tree: real decode vs most-constrained-first scan,
    plus the recorded variant / history if any.  Returns 0 if they agree now, 1 otherwise."""
    import json
    case = rec.get("case") or {}
    label = case.get("isa")
    if not label:
        print(json.dumps(rec, indent=1)[:4000]); return 0
    name = label.split("/")[0]
    ok, bad = load_all([name])
    if name not in ok:
        print("ISA module %s does not import: %s" % (name, bad.get(name))); return 1
    I = ok[name]
    I.set_mode(case.get("mode", 0) or 0)
    specs = module_specs(I, case.get("mode", 0) or 0)
    e = -1 if I.be else 1
    rc = 0
    seqs = []
    if "history" in case:
        seqs = [bytes.fromhex(h[0] if isinstance(h, list) else h) for h in case["history"]]
    else:
        seqs = [bytes.fromhex(case["bytes"])] + ([bytes.fromhex(case["variant"])] if case.get("variant") else [])
    reset(I.dis)
    for bs in seqs:
        real = real_decode(I.dis, bs, fresh="history" not in case)
        ref = ref_scan(I.dis, specs, bs, e)
        rf = (real[0], fingerprint(real[1]) if real[0] == "ok" else real[1])
        sf = (ref[0], fingerprint(ref[1]) if ref[0] == "ok" else ref[1])
        print("%s  decode(%s)\n   real: %r\n   scan: %r\n   pending after call: %r" % (label, bs.hex(), rf, sf, I.dis._disassembler__i))
        if rf != sf or I.dis._disassembler__i is not None:
            rc = 1
    print("recorded: %s" % rec.get("what", "")[:400])
    return rc
