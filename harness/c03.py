"""
C03 — Instruction specifications mean what the format language says.

Theorems (lean/Amoco/Props/C03.lean) are about the model `Amoco.Spec`; this harness ties the
model to /repo on every run:
  T  every registered @ispec of every importable spec module: format string → model `buildspec`
     must reproduce the reflected size / fix / mask / pfx / extractor ranges;
  M  every literal format string with a `/r` `/digit` macro in the x86/x64 spec sources (python ast)
     → model `expandIa32` vs `ispec_ia32`;
  C  `ispec.decode` on spec-directed and random words, both fetch endiannesses, with recording hooks
     vs model `decode`;
  S  synthetic formats from the grammar (all directive kinds, both directions, `=` overlaps, `(*)`)
     through real `ispec(...)` objects vs model;
and runs the independent documentation oracle (oracle_spec.py) on the same cases to turn a
disagreement into a replayable failing input.
"""
import sys, os, ast, json
from common import *
import isa, oracle_spec
import c03_extra as hx
from amoco.arch import core as acore
from amoco.arch.core import ispec, instruction, DecodeError, InstructionError
from crysp.bits import Bits


class Recorder(object):
    def __init__(self):
        self.kargs = None

    def __call__(self, obj, **kargs):
        self.kargs = kargs


def real_decode(s, bs, e):
    """run the real ispec.decode with a recording hook; returns None or list of (to_attr,sym,val)"""
    rec = Recorder()
    hook, precond = s.hook, s.precond
    s.hook, s.precond = rec, None
    try:
        try:
            i = s.decode(bs, e, iclass=instruction)
        except (DecodeError, InstructionError):
            return None
        out = []
        for k, v in s.iattr.items():
            if isa.is_extractor(v):
                out.append((True, k, canon(getattr(i, k))))
        for k, v in s.fargs.items():
            if isa.is_extractor(v):
                out.append((False, k, canon(rec.kargs[k])))
        return out
    finally:
        s.hook, s.precond = hook, precond


def canon(v):
    if isinstance(v, Bits):
        return ["bits", v.ival, v.size]
    if isinstance(v, str):
        return ["str", v]
    return ["int", int(v)]


def canon_oracle(v):
    if isinstance(v, tuple):
        return ["bits", v[0], v[1]]
    if isinstance(v, str):
        return ["str", v]
    return ["int", v]


def split_exts(exts):
    """model exts (creation order) → per-dict lists like reflect_spec"""
    a = [[e[0], e[1], e[2], e[3], e[4], e[5] if e[2] == "str" else None] for e in exts if e[0]]
    f = [[e[0], e[1], e[2], e[3], e[4], e[5] if e[2] == "str" else None] for e in exts if not e[0]]
    return a, f


def compare_build(refl, mod):
    """list of differing aspects between reflected real spec and model answer"""
    if "err" in mod:
        return ["model:" + mod["err"]]
    if "berr" in mod:
        return ["model-berr:" + mod["berr"]]
    d = []
    for k in ("size", "fixSize", "fix", "mask", "pfx", "xdata"):
        if refl[k] != mod[k]:
            d.append(k)
    a, f = split_exts(mod["exts"])
    if a != refl["extsA"]:
        d.append("extsA")
    if f != refl["extsF"]:
        d.append("extsF")
    return d


def compare_oracle_build(refl, fmt):
    """does the real spec object deviate from the documentation oracle? returns list of aspects
    (empty = agrees), or None if the documentation does not judge this format."""
    try:
        m = oracle_spec.meaning(fmt)
    except oracle_spec.FormatError:
        return None
    if not m["ok"]:
        return None
    d = []
    fix, mask = oracle_spec.fix_mask(m["cells"])
    if (refl["fix"], refl["mask"], refl["fixSize"]) != (fix, mask, m["total"]):
        d.append("fix/mask")
    if refl["size"] != (m["size"] or 0):
        d.append("size")
    if (refl["pfx"], refl["xdata"]) != (m["pfx"] and not m["xdata"], m["xdata"]):
        d.append("pfx")
    fa = [[t, s, k, lo, hi, (l if k == "str" else None)] for (t, s, k, lo, hi, l) in m["fields"] if t]
    ff = [[t, s, k, lo, hi, (l if k == "str" else None)] for (t, s, k, lo, hi, l) in m["fields"] if not t]
    if fa != refl["extsA"]:
        d.append("fieldsA")
    if ff != refl["extsF"]:
        d.append("fieldsF")
    return d


# ---------------------------------------------------------------------------------------
# synthetic formats
# ---------------------------------------------------------------------------------------

def gen_format(r, valid=True):
    """a random format string the grammar admits (valid=True: also GrammarOK)."""
    nbytes = r.choice([1, 1, 2, 2, 3, 4, 4, 6, 8])
    size = 8 * nbytes
    direction = r.choice(["<", ">", ""])
    star_len = r.random() < 0.15
    items, used, names = [], 0, 0
    target = size
    if star_len or r.random() < 0.15:
        has_star = True
        target = 8 * r.randint(1, nbytes)
    else:
        has_star = False
    while used < target:
        room = target - used
        c = r.random()
        if c < 0.18 and room >= 8 and used % 1 == 0:
            items.append("{%02x}" % r.getrandbits(8)); used += 8
        elif c < 0.45:
            items.append(r.choice("01")); used += 1
        elif c < 0.55:
            items.append("-"); used += 1
        else:
            ln = min(room, r.choice([1, 1, 2, 3, 4, 5, 8, 12, 16]))
            opt = r.choice(["", "", ".", "~", "#"])
            names += 1
            sym = "%s%d" % (r.choice(["a", "Rd", "imm", "_x", "b0"]), names)
            loc = "" if (ln == 1 and r.random() < 0.5) else "(%d)" % ln
            items.append(opt + sym + loc); used += ln
            if r.random() < 0.2 and used >= 1:
                # overlapping field ending here: re-reads the k bits written just before
                k = r.randint(1, min(used, 6))
                names += 1
                items.append("=ov%d(%d)" % (names, k))
    if has_star:
        names += 1
        st = r.choice(["~", "", "#"]) + "tail%d(*)" % names
        eff = direction or "<"
        if not valid and r.random() < 0.5:
            items.insert(r.randint(0, len(items)), st)
        elif eff == ">":
            items.append(st)
        else:
            items.insert(0, st)
    if not valid:
        k = r.random()
        if k < 0.3 and items:
            items.pop(r.randrange(len(items)))
        elif k < 0.6:
            items.append(r.choice(["0", "-", "z(3)"]))
    sep = lambda: r.choice([" ", " ", "", "  "])
    body = ""
    for it in items:
        # items that start with a symbol char need a separator after a symbol/number-like token
        body += (" " if (body and (body[-1].isalnum() or body[-1] == "_") and (it[0].isalnum() or it[0] == "_")) else sep()) + it
    ln = "*" if star_len else str(size)
    tail = r.choice(["", "", "", "+", "&"])
    return "%s%s[%s ]%s" % (ln, direction, body, tail)


# ---------------------------------------------------------------------------------------

def main(tier):
    ck = Check("C03", tier)
    quick = tier == "quick"
    r = rng("C03")
    broken = ck.build_and_audit(["Amoco.Props.C03", "amoco_driver"])
    drv = Driver()
    corr_broken = []           # correspondences that no longer check, without failing input so far

    def judge(kind, name, fmt, refl, mod, case):
        """model and code disagree on `case`: decide by the documentation oracle."""
        od = compare_oracle_build(refl, fmt) if refl is not None else None
        if od:
            ck.report("C03:%s" % name, "spec %r deviates from the documented meaning (%s)" % (fmt, ",".join(od)),
                      kind, "Amoco.Spec.buildspec_meaning / correspondence buildspec", case=case, real=refl, model=mod)
        else:
            corr_broken.append((name, case, refl, mod))

    # ---- T: every shipped spec --------------------------------------------------------
    mods, badm = isa.all_spec_modules()
    ck.cov["spec_modules"] = sorted(mods)
    ck.cov["spec_modules_not_importable"] = badm
    allspecs = []
    for mn, m in sorted(mods.items()):
        for s in m.ISPECS:
            allspecs.append((mn, s))
    reqs = []
    refls = []
    for mn, s in allspecs:
        rf = isa.reflect_spec(s)
        refls.append(rf)
        reqs.append({"op": "spec.build", "fmt": rf["format"], "keysA": rf["keysA"], "keysF": rf["keysF"]})
    answers = drv.ask_many(reqs)
    n_out = 0
    for (mn, s), rf, mod in zip(allspecs, refls, answers):
        ck.case(("T", mn, rf["format"], tuple(rf["keysA"])), nontrivial=True)
        ck.count("T.specs")
        ck.count("T.dir" + (">" if ">" in rf["format"].split("[")[0] else "<"))
        if rf["size"] == 0:
            ck.count("T.variable-length")
        if "berr" in mod or "err" in mod or not mod.get("grammarOK", False):
            # outside GrammarOK: the documentation does not judge; count and show
            n_out += 1
            ck.count("T.outside-GrammarOK")
            ck.cov.setdefault("outside_GrammarOK", [])
            if len(ck.cov["outside_GrammarOK"]) < 40:
                ck.cov["outside_GrammarOK"].append([mn, rf["format"], mod.get("berr") or mod.get("err") or "grammarOK=false"])
            if "berr" in mod or "err" in mod:
                continue
        d = compare_build(rf, mod)
        # theorem instance, evaluated: model == reference meaning
        a, f = split_exts(mod["exts"])
        ra, rfd = split_exts(mod["refFields"])
        if mod.get("grammarOK") and (mod["fix"], mod["mask"], mod["fixSize"], a, f) != (mod["refFix"], mod["refMask"], mod["refLen"], ra, rfd):
            d.append("model!=ref")
        od = compare_oracle_build(rf, rf["format"])
        if od:
            ck.report("C03:%s:%s" % (mn, rf["format"]), "shipped spec %r deviates from the documented meaning (%s)" % (rf["format"], ",".join(od)),
                      "oracle", "Amoco.Spec.buildspec_meaning", case={"module": mn, "format": rf["format"]}, real=rf, model=mod)
        elif d:
            judge("correspondence", "%s:%s" % (mn, rf["format"]), rf["format"], rf, mod, {"module": mn, "format": rf["format"], "diff": d})
    ck.sample({"T": [allspecs[0][0], refls[0]["format"], answers[0]]})

    # ---- M: ia32 macro ------------------------------------------------------------------
    from amoco.arch.x86.utils import ispec_ia32 as mac86
    from amoco.arch.x64.utils import ispec_ia32 as mac64
    lits = set()
    for sub in ("x86", "x64"):
        d = os.path.join(REPO, "amoco", "arch", sub)
        for fn in sorted(os.listdir(d)):
            if fn.startswith("spec") and fn.endswith(".py"):
                tree = ast.parse(open(os.path.join(d, fn)).read())
                for node in ast.walk(tree):
                    if isinstance(node, ast.Call) and getattr(node.func, "id", "") == "ispec" and node.args \
                            and isinstance(node.args[0], ast.Constant) and isinstance(node.args[0].value, str):
                        lits.add(node.args[0].value)
    lits = sorted(lits)
    extra = ["8>[ {90} ]", "*>[ {0f} /7 ]", "*>[ {80} /0 ib(8) ]", "16>[ /r ]", "*>[ {c7} /8 ]", "*>[ {c7} /", "/r"]
    ans = drv.ask_many([{"op": "spec.macro", "fmt": f} for f in lits + extra])
    for f, a in zip(lits + extra, ans):
        ck.count("M.formats")
        ck.case(("M", f), nontrivial="/" in f)
        for mac in (mac86, mac64):
            cap = []
            orig = acore.ispec.__init__
            acore.ispec.__init__ = lambda self, fmt, **k: cap.append(fmt)
            try:
                mac(f)
                real = cap[0]
            except Exception as e:
                real = None
            finally:
                acore.ispec.__init__ = orig
            if real != a:
                # oracle: the documented expansion
                exp = f
                n = f.find("/")
                if 0 < n < len(f) - 1 and f[n + 1] == "r":
                    exp = f.replace("/r", "RM(3) REG(3) Mod(2) ~data(*)")
                elif 0 < n < len(f) - 1 and f[n + 1] in "01234567":
                    dgt = int(f[n + 1])
                    exp = f.replace("/" + f[n + 1], "RM(3) %s Mod(2) ~data(*)" % "".join(str((dgt >> j) & 1) for j in range(3)))
                if real is not None and real != exp and "/" in f[1:-1]:
                    ck.report("C03:macro:%s" % f, "ispec_ia32 expands %r to %r, documented %r" % (f, real, exp), "oracle",
                              "Amoco.Spec.modrm_macro", case={"format": f}, real=real, model=a, expected=exp)
                elif real is not None or a is not None:
                    corr_broken.append(("macro:" + f, {"format": f}, real, a))
    ck.sample({"M": [lits[0] if lits else None, ans[0] if ans else None]})

    # ---- C: decode of shipped specs -----------------------------------------------------
    per = 2 if quick else 24
    pick = allspecs if not quick else [allspecs[k] for k in sorted(r.sample(range(len(allspecs)), min(1500, len(allspecs))))]
    cases = []
    for mn, s in pick:
        if not reqs:
            break
        for _ in range(per):
            e = r.choice([1, -1]) if s.size != 0 else 1
            kind = r.random()
            if kind < 0.7:
                bs = isa.directed_bytes(s, e, r)
            elif kind < 0.85:
                bs = isa.directed_bytes(s, e, r)
                k = r.randrange(max(1, s.fix.size // 8))
                bs = bs[:k] + bytes([bs[k] ^ (1 << r.randrange(8))]) + bs[k + 1:] if bs else bs
            elif kind < 0.93:
                bs = isa.directed_bytes(s, e, r, tail=0)[: r.randrange(0, max(1, s.fix.size // 8) + 1)]
            else:
                bs = bytes(r.getrandbits(8) for _ in range(r.randrange(0, 10)))
            cases.append((mn, s, bs, e))
    rfmap = {id(s): rf for (mn, s), rf in zip(allspecs, refls)}
    dreq = []
    for mn, s, bs, e in cases:
        rf = rfmap[id(s)]
        dreq.append({"op": "spec.decode", "fmt": rf["format"], "keysA": rf["keysA"], "keysF": rf["keysF"],
                     "bytes": list(bs), "be": e == -1})
    dans = drv.ask_many(dreq)
    for (mn, s, bs, e), a in zip(cases, dans):
        fmt = s.format
        if isinstance(a, dict) and "err" in a:
            ck.count("C.model-outside-fragment")
            continue
        try:
            real = real_decode(s, bs, e)
        except Exception as ex:
            real = "raise:" + type(ex).__name__
        modelv = None if a is None else [(t, k, v) for (t, k, v) in a]
        realv = real if not isinstance(real, list) else [(t, k, v) for (t, k, v) in real]
        # model delivers in creation order; real is reported iattr first then fargs
        key = lambda x: (not x[0],)
        if modelv is not None:
            modelv = sorted(modelv, key=key)
        ck.case(("C", fmt, bs, e), nontrivial=real is not None)
        ck.count("C.accept" if isinstance(real, list) else "C.reject")
        try:
            m = oracle_spec.meaning(fmt)
            exp = oracle_spec.decode(m, bs, e) if m["ok"] else "n/a"
        except oracle_spec.FormatError:
            exp = "n/a"
        if exp != "n/a":
            expv = None if exp is None else sorted([(t, k, canon_oracle(v)) for (t, k, v) in exp], key=key)
            if expv != realv:
                ck.report("C03:decode:%s:%s" % (mn, fmt), "decode of %s (endian %d) by %r: delivered %r, documented %r" % (bs.hex(), e, fmt, realv, expv),
                          "oracle", "Amoco.Spec.decode_accepts_iff / decode_fields", case={"module": mn, "format": fmt, "bytes": bs.hex(), "endian": e},
                          real=realv, model=modelv, expected=expv)
                continue
        if modelv != realv:
            corr_broken.append(("decode:%s:%s" % (mn, fmt), {"module": mn, "format": fmt, "bytes": bs.hex(), "endian": e}, realv, modelv))
    if cases:
        ck.sample({"C": [cases[0][0], cases[0][1].format, cases[0][2].hex(), cases[0][3], dans[0]]})

    # ---- S: synthetic formats -------------------------------------------------------------
    nsyn = 400 if quick else 20000
    syn = []
    for k in range(nsyn):
        valid = r.random() < 0.85
        syn.append((gen_format(r, valid), valid))
    sreq = [{"op": "spec.build", "fmt": f, "keysA": ["mnemonic"], "keysF": []} for f, _ in syn]
    sans = drv.ask_many(sreq)
    dec_cases = []
    good_syn = []              # synthetic specs on which code, model and documentation agree (pool of phase H)
    for (f, valid), mod in zip(syn, sans):
        ck.count("S.formats")
        try:
            s = ispec(f, mnemonic="X")
            rf = isa.reflect_spec(s)
        except Exception as ex:
            s, rf = None, None
        model_ok = "err" not in mod and "berr" not in mod and mod.get("grammarOK")
        ck.case(("S", f), nontrivial=bool(model_ok))
        if model_ok:
            ck.count("S.GrammarOK")
            if "=" in f:
                ck.count("S.with-overlap")
            if "(*)" in f:
                ck.count("S.with-star")
        else:
            ck.count("S.outside-GrammarOK")
            continue        # the documentation does not judge these; the code only logs
        if rf is None:
            judge("correspondence", "synthetic:raise", f, None, mod, {"format": f})
            ck.report("C03:synthetic:raise", "ispec(%r) raises although the grammar admits the format" % f, "oracle",
                      "Amoco.Spec.buildspec_meaning", case={"format": f}, real="exception", model=mod)
            continue
        od = compare_oracle_build(rf, f)
        d = compare_build(rf, mod)
        if od:
            ck.report("C03:synthetic:%s" % ",".join(od), "synthetic format %r deviates from documented meaning (%s)" % (f, ",".join(od)),
                      "oracle", "Amoco.Spec.buildspec_meaning", case={"format": f}, real=rf, model=mod)
        elif d:
            corr_broken.append(("synthetic-build", {"format": f, "diff": d}, rf, mod))
        else:
            good_syn.append((["synthetic", f], s))
            for _ in range(2 if quick else 4):
                e = r.choice([1, -1]) if s.size != 0 else 1
                bs = isa.directed_bytes(s, e, r) if r.random() < 0.8 else bytes(r.getrandbits(8) for _ in range(r.randrange(0, 10)))
                dec_cases.append((f, s, bs, e))
    dreq = [{"op": "spec.decode", "fmt": f, "keysA": ["mnemonic"], "keysF": [], "bytes": list(bs), "be": e == -1}
            for f, s, bs, e in dec_cases]
    dans = drv.ask_many(dreq)
    for (f, s, bs, e), a in zip(dec_cases, dans):
        s.hook = None
        try:
            real = real_decode(s, bs, e)
        except Exception as ex:
            real = "raise:" + type(ex).__name__
        key = lambda x: (not x[0],)
        modelv = None if a is None else sorted([(t, k, v) for (t, k, v) in a], key=key)
        m = oracle_spec.meaning(f)
        exp = oracle_spec.decode(m, bs, e)
        expv = None if exp is None else sorted([(t, k, canon_oracle(v)) for (t, k, v) in exp], key=key)
        ck.case(("SD", f, bs, e), nontrivial=real is not None)
        ck.count("S.decode.accept" if isinstance(real, list) else "S.decode.reject")
        if expv != real:
            ck.report("C03:synthetic-decode", "decode of %s (endian %d) by synthetic %r: delivered %r, documented %r" % (bs.hex(), e, f, real, expv),
                      "oracle", "Amoco.Spec.decode_fields", case={"format": f, "bytes": bs.hex(), "endian": e}, real=real, model=modelv, expected=expv)
        elif modelv != real:
            corr_broken.append(("synthetic-decode", {"format": f, "bytes": bs.hex(), "endian": e}, real, modelv))
    if syn:
        ck.sample({"S": [syn[0][0], sans[0]]})

    # ---- H: decode histories ----------------------------------------------------------------
    # the documented meaning of decode is a function of (format, bytes, endian): run related decodes back
    # to back (c03_extra.gen_history) and judge every step by the history-free oracle.
    for f, s in good_syn:
        s.hook = None
    modidx = {}
    for mn, m in mods.items():
        for k, s in enumerate(m.ISPECS):
            modidx[(mn, id(s))] = k
    ship_pool = [(["shipped", mn, modidx[(mn, id(s))], s.format], s) for mn, s in pick]
    means = {}

    def mean_of(fmt):
        if fmt not in means:
            try:
                m = oracle_spec.meaning(fmt)
                means[fmt] = m if m["ok"] else None
            except oracle_spec.FormatError:
                means[fmt] = None
        return means[fmt]
    pools = []
    for pl in (ship_pool, good_syn):
        if pl:
            bsz = {}
            for k, (l, s) in enumerate(pl):
                bsz.setdefault(s.fix.size, []).append(k)
            pools.append((pl, bsz))
    nhist = (1500 if quick else 100000) if pools else 0
    hists = []
    for _ in range(nhist):
        pl, bsz = pools[0] if (len(pools) == 1 or r.random() < 0.6) else pools[1]
        hists.append(hx.gen_history(r, pl, bsz))
    flush = ispec("24<[ {a5} x(16) ]", mnemonic="F")
    flush.hook = None
    keyso = lambda x: (not x[0],)

    def keys_of(l, s):
        rf = rfmap.get(id(s))
        return (rf["keysA"], rf["keysF"]) if rf is not None else (["mnemonic"], [])

    def run_step(st):
        try:
            return real_decode(st[1], st[2], st[3])
        except Exception as ex:
            return "raise:" + type(ex).__name__

    def isolated(st):
        run_step((None, flush, b"\x5a\x5a\x5a\x5a", 1))
        run_step((None, flush, b"\x01\x02\xa5", 1))
        return run_step(st)

    def documented(st):
        m = mean_of(st[1].format)
        if m is None:
            return "n/a"
        exp = oracle_spec.decode(m, st[2], st[3])
        return None if exp is None else sorted([(t, k, canon_oracle(v)) for (t, k, v) in exp], key=keyso)

    def show(steps):
        return [[st[0], st[2].hex(), st[3]] for st in steps]

    last = None
    hreq, hkeys, hwhere = [], {}, []
    for kind, steps in hists:
        reals = [run_step(st) for st in steps]          # back to back: nothing of amoco runs in between
        exps = [documented(st) for st in steps]
        ck.count("H.histories")
        ck.count("H.kind." + kind)
        ck.case(("H", tuple((st[1].format, st[2], st[3]) for st in steps)), nontrivial=hx.distinguishing(steps, exps))
        prev = last
        for k, (st, real, exp) in enumerate(zip(steps, reals, exps)):
            ck.count("H.steps")
            ck.count("H.step." + ("accept" if isinstance(real, list) else "reject"))
            rel = hx.relation(prev, st)
            ck.count("H.rel." + rel)
            prev = st
            case = {"history-kind": kind, "history": show(steps), "failing_step": k, "relation_to_previous_decode": rel}
            if exp == "n/a":
                ck.count("H.step.documentation-does-not-judge")
                iso = isolated(st)
                run_step(st)
                if iso != real:
                    ck.report("C03:decode-history:%s" % rel,
                              "decode of %s (endian %d) by %r delivers %r right after the decode of %s, but %r in isolation: the outcome depends on what was decoded before"
                              % (st[2].hex(), st[3], st[1].format, real, show(steps[:k])[-1:] or "the previous history", iso),
                              "oracle", "Amoco.Spec.decode_accepts_iff / decode_fields (decode is a function of format, bytes, endian)",
                              case=case, real=real, expected=iso)
                    break
                continue
            if real != exp:
                iso = isolated(st)
                if iso == exp:
                    ck.report("C03:decode-history:%s" % rel,
                              "decode of %s (endian %d) by %r delivers %r right after the decode of %s; documented (and delivered in isolation) %r"
                              % (st[2].hex(), st[3], st[1].format, real, show(steps[:k])[-1:] or "the previous history", exp),
                              "oracle", "Amoco.Spec.decode_accepts_iff / decode_fields (decode is a function of format, bytes, endian)",
                              case=case, real=real, expected=exp)
                elif st[0][0] == "shipped":
                    ck.report("C03:decode:%s:%s" % (st[0][1], st[1].format), "decode of %s (endian %d) by %r: delivered %r, documented %r" % (st[2].hex(), st[3], st[1].format, real, exp),
                              "oracle", "Amoco.Spec.decode_accepts_iff / decode_fields", case={"module": st[0][1], "format": st[1].format, "bytes": st[2].hex(), "endian": st[3]},
                              real=real, expected=exp)
                else:
                    ck.report("C03:synthetic-decode", "decode of %s (endian %d) by synthetic %r: delivered %r, documented %r" % (st[2].hex(), st[3], st[1].format, real, exp),
                              "oracle", "Amoco.Spec.decode_fields", case={"format": st[1].format, "bytes": st[2].hex(), "endian": st[3]}, real=real, expected=exp)
                break
            key = (st[1].format, tuple(map(tuple, keys_of(*st[:2]))), st[2], st[3])
            if key not in hkeys:
                hkeys[key] = real
                ka, kf = keys_of(*st[:2])
                hreq.append({"op": "spec.decode", "fmt": st[1].format, "keysA": ka, "keysF": kf, "bytes": list(st[2]), "be": st[3] == -1})
                hwhere.append((st, real))
        last = steps[-1]
    # the model's decode (the function the theorems are about) on every distinct step of the histories
    hcap = 2500 if quick else 100000
    if len(hreq) > hcap:
        sel = sorted(r.sample(range(len(hreq)), hcap))
        hreq, hwhere = [hreq[k] for k in sel], [hwhere[k] for k in sel]
    for (st, real), a in zip(hwhere, drv.ask_many(hreq)):
        if isinstance(a, dict) and "err" in a:
            ck.count("H.model-outside-fragment")
            continue
        ck.count("H.model-compared")
        modelv = None if a is None else sorted([(t, k, v) for (t, k, v) in a], key=keyso)
        if modelv != real:
            corr_broken.append(("history-decode:%s" % st[1].format, {"label": st[0], "bytes": st[2].hex(), "endian": st[3]}, real, modelv))
    if hists:
        ck.sample({"H": [hists[0][0], show(hists[0][1])]})
    drv.close()

    # ---- broken ties without failing input --------------------------------------------------
    for b in broken:
        ck.report("C03:proof-obligation", "proof obligation broken: %s" % b[:300], "proof-obligation", b[:2000],
                  failing_input_found=False)
    if corr_broken:
        name, case, real, mod = corr_broken[0]
        ck.report("C03:correspondence", "model and code disagree on %d cases (first: %s) but the documentation oracle sides with the code" % (len(corr_broken), name),
                  "correspondence", "correspondence Amoco.Spec ~ arch/core.py ispec (%s)" % name, case=case, real=real, model=mod,
                  failing_input_found=False)
    ck.oblige("correspondence buildspec/decode/macro", not corr_broken, "%d disagreements" % len(corr_broken))
    ck.assumptions += ["pyparsing tokenisation and crysp.Bits are modelled, not verified",
                       "formats outside GrammarOK (size mismatch, out-of-bound, misplaced (*)) are not judged: the documentation is contradictory there"]
    ck.trusted += ["harness/isa.py reflection of ispec objects (closure defaults of extractor lambdas)",
                   "harness/oracle_spec.py (independent reading of the ispec docstring) for failing-input search",
                   "compiled Lean driver (evaluation of the model definitions)"]
    return ck.finish("T: every registered ispec of every importable spec module (distinct by module+format+kargs); "
                     "M: every literal format of x86/x64 spec sources; C: spec-directed/mutated/truncated/random words, "
                     "non-trivial = accepted by the real spec; S: random grammar-admitted formats, non-trivial = GrammarOK; "
                     "H: decode histories run back to back on shipped and synthetic specs (same bytes under the other fetch "
                     "endianness in both orders, another spec of the same / of a different bit length on the same bytes or an "
                     "equal copy, shared heads, different variable-length tails, byte-reversed heads, repeats, random walks over "
                     "a small pool of specs x byte strings x endiannesses), every step judged by the history-free documentation "
                     "oracle (and by the isolated decode where the documentation does not judge), non-trivial = the documented "
                     "outcomes of the steps are not all the same reject")


def replay(path):
    """./check C03 --replay <file>: re-run a recorded decode history on the current tree."""
    rec = json.load(open(path))
    case = rec.get("case") or {}
    if "history" not in case:
        print(json.dumps(rec, indent=1)[:20000])
        print("(no automatic replay for this kind of C03 case)")
        return 0
    import importlib
    specs, bad = {}, 0
    for k, (label, hexbytes, e) in enumerate(case["history"]):
        key = json.dumps(label)
        if key not in specs:
            if label[0] == "shipped":
                s = importlib.import_module(label[1]).ISPECS[label[2]]
                assert s.format == label[3], "ISPECS[%d] of %s is now %r" % (label[2], label[1], s.format)
            else:
                s = ispec(label[1], mnemonic="X")
                s.hook = None
            specs[key] = s
        s = specs[key]
        bs = bytes.fromhex(hexbytes)
        try:
            real = real_decode(s, bs, e)
        except Exception as ex:
            real = "raise:" + type(ex).__name__
        try:
            m = oracle_spec.meaning(s.format)
            exp = oracle_spec.decode(m, bs, e) if m["ok"] else "n/a"
        except oracle_spec.FormatError:
            exp = "n/a"
        if exp != "n/a":
            exp = None if exp is None else sorted([(t, n, canon_oracle(v)) for (t, n, v) in exp], key=lambda x: (not x[0],))
        ok = exp == "n/a" or exp == real
        bad += not ok
        print("step %d: %r decode(%s, endian=%d) -> %r   documented %r   %s" % (k, s.format, hexbytes, e, real, exp, "ok" if ok else "WRONG"))
    print("REPLAY C03: %s" % ("violation reproduced" if bad else "history decodes as documented on this tree"))
    return 1 if bad else 0


if __name__ == "__main__":
    sys.exit(main(sys.argv[1] if len(sys.argv) > 1 else "quick"))
