"""
rv_x86flags.py — correspondence (tie C) between the x86 helper formulas of amoco and their Lean
model Amoco/Model/Flags.lean (driver ops flags.*):

  AddWithCarry / SubWithBorrow (cas/utils.py)            result, carry, overflow on constants, widths 8..64
  parity8, halfcarry, halfborrow (x64/asm.py, x86/asm.py) all 256 bytes / nibble operands
  _r32_zx64 + register write                              via a real mapper write of an 8/16/32/64-bit register
  ROL/ROR, ROLWithCarry/RORWithCarry                      on constants, counts below the width
  CONDITION_CODES (x86/utils.py, x64/utils.py)            the complete 16 × 32 table, evaluated under a real mapper
  CF selection of SHL/SHR/SAR                             through the real i_SHL/i_SHR/i_SAR on `op eax, imm8`
  CMP → flags                                             through the real i_CMP

A disagreement is decided by an independent big-integer oracle written from the SDM definitions.
"""
from common import *

WIDTHS = [8, 16, 32, 64]


def bvals(r, n):
    top = 1 << n
    pool = [0, 1, 2, top - 1, top - 2, top >> 1, (top >> 1) - 1, (top >> 1) + 1, 0x0F, 0x10, 0xF0, 0x7F, 0x80, 0xFF]
    return (r.choice(pool) if r.random() < 0.5 else r.getrandbits(n)) % top


def s_of(v, n):
    return v - (1 << n) if v >> (n - 1) else v


def cval(e):
    """int value of a constant amoco expression (or None)"""
    try:
        e = e.simplify()
    except Exception:
        pass
    if e._is_cst:
        return e.v
    if e._is_cmp:
        v = 0
        for (lo, hi), p in e.parts.items():
            pv = cval(p)
            if pv is None:
                return None
            v |= (pv & ((1 << (hi - lo)) - 1)) << lo
        return v
    return None


def helpers_part(ck, drv, tier, r, corr_broken, machinery):
    fresh_amoco()
    from amoco.cas.expressions import cst, bit0, bit1, composer
    from amoco.cas import utils as cu
    from amoco.cas.mapper import mapper
    quick = tier == "quick"
    N = 150 if quick else 5000

    def judge(name, sig, case, real, model, expected):
        """model and real disagree on `case`"""
        if real != expected:
            ck.report(sig, "%s on %s: amoco gives %r, the architecture defines %r" % (name, case, real, expected), "oracle",
                      "correspondence Amoco.Flags.%s / theorem about it" % name, case=case, real=real, model=model, expected=expected)
        else:
            corr_broken.append(("x86 helper " + name, case, real, model))

    # ---- AddWithCarry / SubWithBorrow --------------------------------------------------------
    reqs, cases = [], []
    for _ in range(N):
        n = r.choice(WIDTHS + [1, 4, 7, 33])
        x, y, c, sub = bvals(r, n), bvals(r, n), r.random() < 0.5, r.random() < 0.5
        cases.append((n, x, y, c, sub))
        reqs.append({"op": "flags.awc", "n": n, "x": x, "y": y, "c": c, "sub": sub})
    for (n, x, y, c, sub), mod in zip(cases, drv.ask_many(reqs)):
        f = cu.SubWithBorrow if sub else cu.AddWithCarry
        name = "subWithBorrow" if sub else "addWithCarry"
        case = {"n": n, "x": x, "y": y, "c": c}
        try:
            res, carry, ovf = f(cst(x, n), cst(y, n), cst(1 if c else 0, 1))
            real = [cval(res), bool(cval(carry)), bool(cval(ovf))]
        except Exception as e:
            real = "raise:" + type(e).__name__
        ci = 1 if c else 0
        full = x - y - ci if sub else x + y + ci
        sfull = s_of(x, n) - s_of(y, n) - ci if sub else s_of(x, n) + s_of(y, n) + ci
        exp = [full % (1 << n), (full < 0) if sub else (full >> n) != 0, not (-(1 << (n - 1)) <= sfull < (1 << (n - 1)))]
        ck.case(("awc", n, x, y, c, sub), nontrivial=True)
        ck.count("x86.helper." + name)
        if mod != exp:
            machinery.append(("flags model vs SDM oracle " + name, case, mod, exp))
        elif real != mod:
            judge(name, "C06:x86:%s" % name, case, real, mod, exp)

    # ---- parity8 : all 256 bytes -----------------------------------------------------------------
    for mode in ("x64", "x86"):
        asm = __import__("amoco.arch.%s.asm" % mode, fromlist=["parity8"])
        mods = drv.ask_many([{"op": "flags.parity8", "x": x} for x in range(256)])
        for x in range(256):
            real = bool(cval(asm.parity8(cst(x, 8))))
            exp = bin(x).count("1") % 2 == 0
            ck.case(("parity8", mode, x), nontrivial=True)
            ck.count("x86.helper.parity8")
            if mods[x] != [exp, exp]:
                machinery.append(("parity8 model", x, mods[x], exp))
            elif real != exp:
                judge("parity8", "C06:%s:parity8:pf" % mode, {"mode": mode, "byte": x}, real, mods[x][0], exp)
        # halfcarry / halfborrow
        reqs, cases = [], []
        for _ in range(N // 2):
            n = r.choice(WIDTHS)
            x, y, c, sub = bvals(r, n), bvals(r, n), r.random() < 0.5, r.random() < 0.5
            cases.append((n, x, y, c, sub))
            reqs.append({"op": "flags.half", "n": n, "x": x, "y": y, "c": c, "sub": sub})
        for (n, x, y, c, sub), mod in zip(cases, drv.ask_many(reqs)):
            f = asm.halfborrow if sub else asm.halfcarry
            name = "halfborrow" if sub else "halfcarry"
            try:
                real = bool(cval(f(cst(x, n), cst(y, n), cst(1 if c else 0, 1))))
            except Exception as e:
                real = "raise:" + type(e).__name__
            ci = 1 if c else 0
            exp = ((x & 15) < (y & 15) + ci) if sub else ((x & 15) + (y & 15) + ci > 15)
            ck.case((name, mode, n, x, y, c), nontrivial=True)
            ck.count("x86.helper." + name)
            if mod != exp:
                machinery.append((name + " model", (n, x, y, c), mod, exp))
            elif real != exp:
                judge(name, "C06:%s:%s:af" % (mode, name), {"mode": mode, "n": n, "x": x, "y": y, "c": c}, real, mod, exp)

    # ---- CONDITION_CODES : the complete table -----------------------------------------------------
    from amoco.arch.x64 import env as env64
    from amoco.arch.x64.utils import CONDITION_CODES as CC64
    from amoco.arch.x86.utils import CONDITION_CODES as CC86
    from amoco.arch.x86 import env as env86
    for mode, CC, env, flagreg, w in (("x64", CC64, env64, "rflags", 64), ("x86", CC86, env86, "eflags", 32)):
        reqs, cases = [], []
        for cc in range(16):
            for bits in range(32):
                f = {"cf": bool(bits & 1), "pf": bool(bits & 2), "zf": bool(bits & 4), "sf": bool(bits & 8), "of": bool(bits & 16)}
                cases.append((cc, f))
                reqs.append(dict(f, op="flags.cond", cc=cc))
        for (cc, f), mod in zip(cases, drv.ask_many(reqs)):
            m = mapper()
            v = (f["cf"] << 0) | (f["pf"] << 2) | (f["zf"] << 6) | (f["sf"] << 7) | (f["of"] << 11) | 2
            m[getattr(env, flagreg)] = cst(v, w)
            try:
                real = bool(cval(m(CC[cc][1])))
            except Exception as e:
                real = "raise:" + type(e).__name__
            sdm = [f["of"], not f["of"], f["cf"], not f["cf"], f["zf"], not f["zf"], f["cf"] or f["zf"], not (f["cf"] or f["zf"]),
                   f["sf"], not f["sf"], f["pf"], not f["pf"], f["sf"] != f["of"], f["sf"] == f["of"],
                   f["zf"] or f["sf"] != f["of"], not f["zf"] and f["sf"] == f["of"]][cc]
            ck.case(("cc", mode, cc, v), nontrivial=True)
            ck.count("x86.helper.CONDITION_CODES")
            if mod != sdm:
                machinery.append(("cond model", (cc, f), mod, sdm))
            elif real != sdm:
                judge("cond", "C06:%s:CONDITION_CODES:%x" % (mode, cc), {"mode": mode, "cc": cc, "flags": f}, real, mod, sdm)

    # ---- _r32_zx64 and sub-register writes ---------------------------------------------------------
    from amoco.arch.x64 import asm as asm64
    regs = {8: env64.al, 16: env64.ax, 32: env64.eax, 64: env64.rax}
    reqs, cases = [], []
    for _ in range(N // 2):
        size = r.choice(WIDTHS)
        old, v = bvals(r, 64), bvals(r, size)
        cases.append((size, old, v))
        reqs.append({"op": "flags.writereg", "old": old, "size": size, "v": v})
    for (size, old, v), mod in zip(cases, drv.ask_many(reqs)):
        m = mapper()
        m[env64.rax] = cst(old, 64)
        op1, x = asm64._r32_zx64(regs[size], cst(v, size))
        m[op1] = x
        real = cval(m(env64.rax))
        exp = v if size in (32, 64) else (old & ~((1 << size) - 1)) | v
        ck.case(("writereg", size, old, v), nontrivial=True)
        ck.count("x86.helper._r32_zx64")
        if mod != exp:
            machinery.append(("writeReg model", (size, old, v), mod, exp))
        elif real != exp:
            judge("writeReg", "C06:x64:_r32_zx64:%d" % size, {"size": size, "old": old, "v": v}, real, mod, exp)

    # ---- rotations ------------------------------------------------------------------------------------
    reqs, cases = [], []
    for _ in range(N // 2):
        n = r.choice(WIDTHS)
        x, k, left, wc, c = bvals(r, n), r.randrange(0, n), r.random() < 0.5, r.random() < 0.5, r.random() < 0.5
        if not wc and k == 0:
            k = 1
        cases.append((n, x, k, left, wc, c))
        reqs.append({"op": "flags.rot", "n": n, "x": x, "k": k, "left": left, "withcarry": wc, "c": c})
    for (n, x, k, left, wc, c), mod in zip(cases, drv.ask_many(reqs)):
        name = ("ROL" if left else "ROR") + ("WithCarry" if wc else "")
        case = {"n": n, "x": x, "k": k, "c": c}
        try:
            if wc:
                a, b = (cu.ROLWithCarry if left else cu.RORWithCarry)(cst(x, n), cst(k, n + 1), cst(1 if c else 0, 1))
                real = [cval(a), bool(cval(b))]
            else:
                real = [cval((cu.ROL if left else cu.ROR)(cst(x, n), cst(k, n)))]
        except Exception as e:
            real = "raise:" + type(e).__name__
        if wc:
            y, w = x | ((1 if c else 0) << n), n + 1
        else:
            y, w = x, n
        kk = k % w
        ry = ((y << kk) | (y >> (w - kk))) if left else ((y >> kk) | (y << (w - kk)))
        ry &= (1 << w) - 1
        exp = [ry & ((1 << n) - 1), bool(ry >> n)] if wc else [ry]
        ck.case(("rot", n, x, k, left, wc, c), nontrivial=True)
        ck.count("x86.helper." + name)
        if mod != exp:
            machinery.append(("rot model", case, mod, exp))
        elif real != exp:
            judge(name, "C06:x86:%s" % name, case, real, mod, exp)

    # ---- CF selection of the shifts and the flags of CMP, through the real instruction bodies ------------
    from amoco.arch.x64 import cpu_x64
    reqs, cases = [], []
    for kind in ("shl", "shr", "sar"):
        for size in (8, 16, 32):
            top = 1 << size
            for cnt in sorted(set(c for c in (1, 2, size - 1, size, size + 1, 31, r.randrange(1, 32)) if 1 <= c <= 31)):   # imm8 is masked to 5 bits
                for a in (top - 1, top >> 1, (top >> 1) - 1, 1, (top >> 1) | 1, bvals(r, size), bvals(r, size)):
                    cases.append((kind, size, a, cnt))
                    reqs.append({"op": "flags.shcf", "n": size, "a": a, "count": cnt, "kind": kind})
    for (kind, size, a, cnt), mod in zip(cases, drv.ask_many(reqs)):
        digit = {"shl": 4, "shr": 5, "sar": 7}[kind]
        code = (b"\x66" if size == 16 else b"") + bytes([0xC0 if size == 8 else 0xC1, 0xC0 | (digit << 3), cnt])   # op al/ax/eax, imm8
        i = cpu_x64.disassemble(code)
        m = mapper()
        m[env64.rax] = cst(a, 64)
        m[env64.rflags] = cst(2, 64)
        m[env64.rip] = cst(0x1000, 64)
        try:
            i(m)
            real = cval(m(env64.cf))
            real = bool(real) if real is not None else "top"
        except Exception as e:
            real = "raise:" + type(e).__name__
        if kind == "shl":
            exp = bool((a >> (size - cnt)) & 1) if cnt <= size else None
        elif kind == "shr":
            exp = bool((a >> (cnt - 1)) & 1) if cnt <= size else None
        else:
            exp = bool((s_of(a, size) >> (cnt - 1)) & 1)
        ck.case(("shcf", kind, size, a, cnt), nontrivial=True)
        ck.count("x86.helper.shift-CF")
        if exp is None:          # count > size: CF architecturally undefined
            continue
        if mod != exp:
            machinery.append(("shift CF model", (kind, size, a, cnt), mod, exp))
        elif real != exp:
            judge(kind + "CF", "C06:x64:%s:cf" % kind.upper(), {"kind": kind, "size": size, "a": a, "count": cnt}, real, mod, exp)

    reqs, cases = [], []
    for _ in range(N // 3):
        n = r.choice([8, 32, 64])
        a, b = bvals(r, n), bvals(r, n)
        if r.random() < 0.15:
            b = a
        cases.append((n, a, b))
        reqs.append({"op": "flags.cmp", "n": n, "a": a, "b": b})
    for (n, a, b), mod in zip(cases, drv.ask_many(reqs)):
        code = {8: b"\x38\xC8", 32: b"\x39\xC8", 64: b"\x48\x39\xC8"}[n]       # cmp al/eax/rax, cl/ecx/rcx
        i = cpu_x64.disassemble(code)
        m = mapper()
        m[env64.rax], m[env64.rcx] = cst(a, 64), cst(b, 64)
        m[env64.rflags] = cst(2, 64)
        m[env64.rip] = cst(0x1000, 64)
        try:
            i(m)
            real = [bool(cval(m(getattr(env64, k)))) for k in ("cf", "pf", "zf", "sf", "of")]
        except Exception as e:
            real = "raise:" + type(e).__name__
        d = (a - b) % (1 << n)
        sd = s_of(a, n) - s_of(b, n)
        exp = [a < b, bin(d & 0xFF).count("1") % 2 == 0, d == 0, bool(d >> (n - 1)), not (-(1 << (n - 1)) <= sd < (1 << (n - 1)))]
        ck.case(("cmp", n, a, b), nontrivial=True)
        ck.count("x86.helper.CMP-flags")
        if mod != exp:
            machinery.append(("cmpFlags model", (n, a, b), mod, exp))
        elif real != exp:
            which = [k for k, x, y in zip(("cf", "pf", "zf", "sf", "of"), real, exp) if x != y] if isinstance(real, list) else [real]
            judge("cmpFlags", "C06:x64:CMP:" + "+".join(which), {"n": n, "a": a, "b": b}, real, mod, exp)
