"""
C15 — A loaded program's memory image equals the file's mapping.

Theorems (lean/Amoco/Props/C15.lean) are about the model `Amoco.Loader` (lean/Amoco/Model/Loader.lean):
`Elf.loadsegment` page arithmetic, the OS loaders' write lists into the C08 memory zone, relocation
slots, entry point, `read_instruction`'s fetch window; PE / Mach-O / HEX / SREC / raw write lists.
This harness ties the model to /repo's loaders on every run:
  C  synthesised ELF images (load_gen.py: both classes, both byte orders, every machine with an OS
     loader, page sizes 16 … 64K and odd ones set through conf.System.pagesize; unaligned, adjacent,
     page-sharing, bss, clobbering and malformed layouts; REL/RELA relocation sections) and every file
     under tests/samples are loaded by the real `amoco.system.core.load_program` (load_real.py) and by
     the compiled model (drv_load, ops load.*) fed with the tables an *independent* reader (load_oracle.py,
     Python struct, no amoco) extracts from the same bytes; compared: the object list of the memory
     zone (address, raw bytes / symbol bytes, endianness), its cache, the program counter, the bytes of
     every segment's page-rounded extent read back through `mmap.read`, and the fetch window
     handed to the disassembler by `read_instruction` (observed with a recording `cpu.disassemble`) at sampled
     addresses.  PE, Mach-O, Intel-HEX, S-record and raw inputs likewise (synthesised + samples), plus
     `RawExec.relocate`.  A few ELF cases run with conf.System.aslr set.
  O  the independent reader computes the mapping the file declares (file bytes, zero fill, slots,
     entry point) and judges what the real memory returns whenever the image satisfies the theorem's
     hypothesis (evaluated independently in Python and by the model's decidable `LoadableOK`).
  S  sweep over every ELF loader amoco registers (DefineLoader.LOADERS tables "elf" and "elf-baremetal", read at run time
     after load_program has imported its loader packages): images with isolated segments and zero-filled tails that end
     inside the last file-backed page, at its end, or run over several further pages are loaded through each usable
     loader (load_program, or the registered fallback loader itself when an OS loader shadows it) and judged by the
     independent reader alone: bytes, zero fill, pc, fetch windows.  Loaders that build no task for a plain image
     are skipped and counted.
  K  `Zone.check` (⇒ ZoneWF) on the model zone; the real zone equals it object for object.
  R  the independent reader's PT_LOAD table is cross-checked against `readelf -lW` (samples + synthesised files).
A disagreement between code and model on an image outside the theorem's hypothesis, where the code behaves
exactly like the model of the *unrepaired* code (`fix: none`), is attributed to the defects for which the oracle
reports failing inputs in the same run (and reported on its own when the run has none).
`python c15.py replay <file>` re-runs a replay file.
"""
import sys, os, json, glob
from common import *
import load_gen, load_oracle as O, load_real as R

ELF_TARGETS = {3: (4, 0x7FFFFFFF, "linux32/x86"), 62: (8, 0x00007FFFFFFFFFFF, "linux64/x64"),
               40: (4, 0x7FFFFFFF, "linux32/arm"), 2: (4, 0x7FFFFFFF, "linux32/sparc"),
               243: (4, 0x7FFFFFFF, "linux32/riscv")}
RANGE_CAP = 0x48000


def elf_target(e):
    if e.machine == 8:
        return (4, 0x7FFFFFFF, "linux32/mips" if e.be else "linux32/mips_le")
    return ELF_TARGETS.get(e.machine)


def page_base(ps, v):
    return v - (v & (ps - 1))


def short(x, n=240):
    s = json.dumps(x, default=repr)
    return s if len(s) <= n else s[:n] + "…"


class Runner(object):
    def __init__(self, ck, drv):
        self.ck, self.drv = ck, drv
        self.corr = []            # (what, case, real, model, tie)  correspondence breaks without failing input
        self.unrepaired = []      # same, where the real code behaves as the model of the unrepaired code
        self.nviol = 0            # failing inputs found by the oracle (before de-duplication by signature)
        self.n = 0
        self.ptr = 4
        self.per_loader = False
        self.route_state = {}     # (table, machine, x64, be) -> None (usable) | reason it is skipped
        import amoco.arch.x86.cpu_x86 as cpu_x86
        self.cpu_x86 = cpu_x86

    # -- reporting -----------------------------------------------------------------------------------
    def violation(self, fmt, aspect, loader, what, case, real, model, expected, theorem):
        # the byte-level aspects are decided by the format's loadsegment, shared by its OS loaders
        shared = "C15:%s:%s" % (fmt, aspect)
        if aspect in ("zero-fill", "file-bytes", "fetch-window", "fetch-instruction") and \
                (not self.per_loader or shared in self.ck.known_hit or any(v["signature"] == shared for v in self.ck.violations)):
            sig = shared
        else:
            # (in the sweep over all registered loaders the loader is part of the signature, unless the run has
            # attributed the aspect to the format's loadsegment already)
            sig = "C15:%s:%s:%s" % (fmt, aspect, loader)
        self.nviol += 1
        self.ck.report(sig, what, "oracle", theorem, case=case, real=real, model=model, expected=expected)

    def broken(self, what, case, real, model, tie):
        self.corr.append((what, case, real, model, tie))

    # -- shared comparison ---------------------------------------------------------------------------
    def compare(self, fmt, loader, case, L, names, model, ranges, fetch, facts, entry, pcbits, loadable, theorem,
                later_wins=False, req=None):
        """real task vs model vs declared mapping; a disagreement between the real code and the model that the
        oracle cannot turn into a failing input on this case (image outside the theorem's hypothesis) is set aside
        when the real code agrees with the model of the *unrepaired* code: then it is the defect for which
        failing inputs are reported on other cases of the run."""
        n0, v0 = len(self.corr), self.nviol
        ok = self.compare_(fmt, loader, case, L, names, model, ranges, fetch, facts, entry, pcbits, loadable, theorem, later_wins)
        new = self.corr[n0:]
        if new and req is not None:
            if self.nviol > v0:
                del self.corr[n0:]            # the oracle produced a failing input on this very case
                self.ck.count("disagreement.with-failing-input")
            else:
                old = self.drv.ask(dict(req, fix="none"))
                n1 = len(self.corr)
                if isinstance(old, dict) and old.get("task") and not old.get("empty"):
                    self.compare_(fmt, loader, case, L, names, old, ranges, fetch, None, None, pcbits, False, theorem, later_wins)
                    agrees = len(self.corr) == n1
                    del self.corr[n1:]
                    if agrees:
                        self.unrepaired += self.corr[n0:]
                        del self.corr[n0:]
                        self.ck.count("disagreement.real-code-is-the-unrepaired-model")
                elif isinstance(old, dict) and old.get("empty") and not model.get("empty"):
                    # without the repair a segment without file part writes nothing (an empty write, outside the memory model)
                    self.unrepaired += self.corr[n0:]
                    del self.corr[n0:]
                    self.ck.count("disagreement.unrepaired-model-writes-nothing")
        return ok

    def compare_(self, fmt, loader, case, L, names, model, ranges, fetch, facts, entry, pcbits, loadable, theorem,
                 later_wins=False):
        """real task `L` vs model result vs the declared mapping. returns True when all agree."""
        ck = self.ck
        ok = True
        task = model["task"]
        if model.get("empty"):
            ck.count("unmodelled.empty-write")
        else:
            robj = L.objects(names)
            if robj != task["zone"]:
                ok = False
                self.broken("zone-objects:" + fmt, case, [[o[0], o[1][0], len(o[1][1])] for o in robj][:12],
                            [[o[0], o[1][0], len(o[1][1])] for o in task["zone"]][:12],
                            "correspondence Amoco.Loader ~ %s loader (memory zone objects)" % fmt)
            elif L.cache() != task["cache"]:
                ok = False
                self.broken("zone-cache:" + fmt, case, L.cache()[:12], task["cache"][:12], "correspondence (zone cache)")
            if not task["wf"]:
                ok = False
                self.broken("model-wf:" + fmt, case, None, None, "Amoco.Loader.Props.*_wf (model zone fails Zone.check)")
            for (a, n), mch in zip(ranges, model["image"]):
                rch = L.chunks(a, n, names)
                if rch != mch:
                    ok = False
                    self.broken("image-read:" + fmt, dict(case, range=[a, n]), short(rch), short(mch),
                                "correspondence (mmap.read over a segment extent)")
                    break
            for (a, n), mf in zip(fetch, model["fetch"]):
                if mf and mf[0] == "ex" and mf[1] and (mf[1][0][2] != 0 or len(mf[1]) != self.ptr):
                    # an address inside a bound slot / a slot partly overwritten by another one: not an instruction address
                    ck.count("fetch.partial-slot-skipped")
                    continue
                rw = L.window(a, names, n)
                if rw != mf:
                    ok = False
                    self.broken("fetch-window:" + fmt, dict(case, fetch=[a, n]), short(rw), short(mf),
                                "correspondence (read_instruction fetch window)")
                    break
        rpc = L.pc()
        if entry is None:
            pass                      # the file declares no entry point (e.g. a dylib): the register stays symbolic
        elif rpc != task["pc"]:
            ok = False
            # is it the code or the model? the file's entry point decides (below)
            if not (entry is not None and entry < (1 << pcbits) and rpc != entry):
                self.broken("pc:" + fmt, case, rpc, task["pc"], "correspondence (program counter)")
        # ---- oracle -----------------------------------------------------------------------------------
        if entry is not None and entry < (1 << pcbits) and rpc != entry:
            ok = False
            self.violation(fmt, "pc", loader, "%s: the program counter after loading is %s, the file's entry point is %#x"
                           % (loader, hex(rpc) if isinstance(rpc, int) else rpc, entry), case, rpc, task["pc"], entry,
                           theorem + " (pc = entry)")
        # what reaches the disassembler must be a prefix of what the memory holds at a, a+1, … (theorem fetch_window):
        # nothing behind a relocation slot or an unmapped byte may be glued to the bytes before it
        for (a, n) in fetch:
            w = L.window(a, names, n)
            if not (w and w[0] == "raw"):
                continue
            wb = bytes.fromhex(w[1])
            mem = R.unchunk(L.chunks(a, max(n, len(wb)), names))
            if len(wb) > n or any(mem[k] != wb[k] for k in range(len(wb))):
                ok = False
                k = next((k for k in range(min(len(wb), len(mem))) if mem[k] != wb[k]), n)
                self.violation(fmt, "fetch-window", loader,
                               "%s: read_instruction(%#x) hands %s to the disassembler, but the memory at %#x holds %s "
                               "(byte %d of the window is not the byte at %#x)"
                               % (loader, a, wb.hex(), a, short(mem[:len(wb) + 1], 120), k, a + k),
                               dict(case, address=a), wb.hex(), None, short(mem[:len(wb) + 1]), "Amoco.Loader.Props.fetch_window")
                break
        if loadable and facts is not None:
            img = O.Image(facts)
            if not self.judge_bytes(fmt, loader, case, L, names, img, theorem, later_wins, model, ranges):
                ok = False
            # the model must satisfy the declared mapping too (the theorem's reading of the property)
            if not model.get("empty"):
                for (a, n), mch in zip(ranges, model["image"]):
                    exp = img.expected(a, n) if not later_wins else img.expected_later_wins(a, n)
                    bad = O.judge(exp, R.unchunk(mch), _ModelNames(names))
                    if bad is not None:
                        ok = False
                        self.broken("model-vs-oracle:" + fmt, dict(case, address=a + bad[0]), None, short(bad),
                                    theorem + " (model image differs from the declared mapping)")
                        break
            # fetch windows against the declared mapping
            maxlen = None
            for (a, n) in fetch:
                exp = img.expected(a, n) if not later_wins else img.expected_later_wins(a, n)
                if not exp or exp[0] is None or exp[0][0] not in "bz":
                    continue
                run = 0
                while run < n and exp[run] is not None and exp[run][0] in "bz":
                    run += 1
                w = L.window(a, names, n)
                want = bytes(x[1] for x in exp[:run])
                if w is None or w[0] != "raw" or not w[1] or not want.startswith(bytes.fromhex(w[1])[:run]) \
                        or len(w[1]) // 2 < run:
                    ok = False
                    self.violation(fmt, "fetch-window", loader,
                                   "%s: the fetch window at %#x is %s, the file places %s there" % (loader, a, short(w, 80), want.hex()),
                                   dict(case, address=a), w, None, want.hex(), "Amoco.Loader.Props.fetch_window")
                    break
                ins = L.instruction(a)
                if isinstance(ins, tuple) and isinstance(ins[0], bytes):
                    ck.count("fetch.decoded")
                    if not want.startswith(ins[0][:run]) and len(ins[0]) <= run:
                        ok = False
                        self.violation(fmt, "fetch-instruction", loader,
                                       "%s: read_instruction(%#x) decoded bytes %s, the file places %s there"
                                       % (loader, a, ins[0].hex(), want[:len(ins[0])].hex()), dict(case, address=a),
                                       ins[0].hex(), None, want.hex(), "Amoco.Loader.Props.fetch_window")
                        break
                elif ins is None:
                    ck.count("fetch.undecodable")
                else:
                    ck.count("fetch.%s" % (ins[0] if isinstance(ins, tuple) else "other"))
        return ok

    def judge_bytes(self, fmt, loader, case, L, names, img, theorem, later_wins=False, model=None, ranges=()):
        """the real memory against the declared mapping, extent by extent; reports the first contradicting byte."""
        for (va, n, kind) in img.extents():
            if n > RANGE_CAP:
                n = RANGE_CAP
            exp = img.expected(va, n) if not later_wins else img.expected_later_wins(va, n)
            got = R.unchunk(L.chunks(va, n, names))
            bad = O.judge(exp, got, names)
            if bad is not None:
                i, aspect, e_, g_ = bad
                mod = None
                if model is not None and model.get("task") and not model.get("empty"):
                    for (a, n_), mch in zip(ranges, model["image"]):
                        if a <= va + i < a + n_:
                            mod = short(R.unchunk(mch)[max(0, va + i - 4 - a):va + i + 12 - a])
                self.violation(fmt, aspect, loader,
                               "%s: byte at %#x (%s extent at %#x+%d) reads %s, the file's mapping gives %s"
                               % (loader, va + i, kind, va, i, short(g_, 60), short(e_, 60)),
                               dict(case, address=va + i), short(got[max(0, i - 4):i + 12]), mod,
                               short([x[1] if x and x[0] in "bz" else x for x in exp[max(0, i - 4):i + 12]]), theorem)
                return False
        return True

    # -- ELF ---------------------------------------------------------------------------------------------
    def elf(self, data, ps, tag, meta=None, path=None, aslr=False):
        """one ELF case; when it ends with a disagreement between code and model for which the oracle has no failing
        input on the image itself, the search continues on the single-segment variants of the image (all other PT_LOAD
        entries turned into PT_NULL): there every segment is isolated, hence judged by the oracle."""
        n0, v0 = len(self.corr), self.nviol
        self.elf_(data, ps, tag, meta, path, aslr)
        if self.nviol > v0:
            del self.corr[n0:]               # the oracle produced a failing input on this very case
            return
        if len(self.corr) == n0 or tag.endswith(":variant"):
            return
        import struct
        e = O.elf_read(data)
        idx = [k for k, p in enumerate(e.phdrs) if p["type"] == O.PT_LOAD]
        if len(idx) < 2:
            return
        self.ck.count("elf.failing-input-search.variants")
        n1 = len(self.corr)
        for keep in idx[:4]:
            b = bytearray(data)
            for k in idx:
                if k != keep:
                    struct.pack_into(e.o + "I", b, e.phoff + k * e.phentsize, 0)
            self.elf_(bytes(b), ps, "%s:only-segment-%d:variant" % (tag, keep), meta, None, aslr)
            if self.nviol > v0:
                break
        del self.corr[n1:]
        if self.nviol > v0:
            del self.corr[n0:]               # a failing input was found on a variant of this image
            self.ck.count("disagreement.with-failing-input-on-a-variant")

    def elf_(self, data, ps, tag, meta=None, path=None, aslr=False):
        ck, drv = self.ck, self.drv
        self.n += 1
        e = O.elf_read(data)
        tgt = elf_target(e)
        case = {"format": "elf", "ps": ps, "tag": tag, "meta": meta}
        case["file"] = path if path else data.hex()
        if tgt is None:
            L = R.load(path or data, ps)
            ck.count("elf.no-os-loader.%s" % ("task" if L is not None else "none"))
            return
        ptr, top, loader = tgt
        self.ptr = ptr
        names = R.Names()
        try:
            rel = O.elf_relocs_by_sections(data, e)
        except Exception:
            ck.count("elf.unmodelled.bad-symbol-index")
            return
        if aslr and loader == "linux32/sparc":
            aslr = False                  # that loader asks for cpu.esp under aslr and fails over to the bare-metal loader
        if aslr:
            ck.count("elf.aslr")
            case["aslr"] = True
        try:
            L = R.load(path or data, ps, aslr=aslr)
        except Exception as ex:
            self.broken("load_program-raised:elf", case, repr(ex), None, "load_program raised")
            return
        ml = L.maxlen() if L is not None else 16
        m = ps - 1
        L_ = [p for p in e.phdrs if p["type"] == O.PT_LOAD]
        ranges, fetch = [], []
        r = rng("C15/fetch/%s" % tag)
        for p in L_[:6]:
            lo = page_base(ps, p["vaddr"]) - 3
            n = min((p["vaddr"] & m) + max(p["filesz"], p["memsz"]) + 2 * ps + 6, RANGE_CAP)
            ranges.append([lo, n])
            if p["filesz"]:
                for k in range(2):
                    fetch.append([p["vaddr"] + r.randrange(0, p["filesz"]), ml])
                fetch.append([p["vaddr"] + p["filesz"] - 1, ml])
                fetch.append([max(0, p["vaddr"] - 2), ml])
        if L_:
            fetch.append([e.entry, ml])
        for a, nm in rel[:3]:
            # the slot itself and every address less than a window before it
            fetch += [[a, ml]] + [[a - k, ml] for k in range(1, ml) if a - k >= 0]
        for p in L_[:3]:
            for end in {p["vaddr"] + p["filesz"], p["vaddr"] + p["memsz"]}:
                fetch += [[end - k, ml] for k in range(1, ml) if end - k >= p["vaddr"]]
        arm = loader == "linux32/arm"
        req = {"op": "load.elf", "fix": "repaired",
               "cfg": {"ps": ps, "ptr": ptr, "top": top, "aslr": aslr, "bare": False, "thumb": arm},
               "file": data.hex(), "phdrs": [[p["type"], p["offset"], p["vaddr"], p["filesz"], p["memsz"]] for p in e.phdrs],
               "entry": e.entry, "relocs": [[a, names.id(nm)] for a, nm in rel], "ranges": ranges, "fetch": fetch}
        model = drv.ask(req)
        if model == "unmodelled" or "err" in model:
            self.broken("driver:elf", case, None, model, "driver")
            return
        ck.count("elf.loaded" if L is not None else "elf.rejected")
        base = top - (top & m)
        stack = None if aslr else (base - 2 * ps, base)
        if model["task"] is None and e.machine in (243, 2):
            # load_program falls back to the bare-metal ELF loader of the machine (baremetal/riscv.py, leon2.py):
            # page size 4096, stack in a zone of its own, no symbol binding
            ck.count("elf.baremetal-fallback")
            ps, m, stack = 4096, 4095, None
            req["cfg"] = {"ps": 4096, "ptr": 4, "top": top, "aslr": False, "bare": True, "thumb": False}
            req["ranges"] = ranges = [[page_base(ps, p["vaddr"]) - 3, min((p["vaddr"] & m) + max(p["filesz"], p["memsz"]) + 2 * ps + 6, RANGE_CAP)]
                                      for p in L_[:6]]
            rel = []
            model = drv.ask(req)
        # what the independent reader says about the image
        loadable = O.elf_loadable(data, e, ps, stack)
        full = loadable and e.entry < (1 << (8 * ptr))
        if model["loadable"] != full:
            self.broken("LoadableOK:elf", case, full, model["loadable"], "decide LoadableOK vs the independent reading of the hypothesis")
        ck.count("elf.loadable" if loadable else "elf.not-loadable")
        if (L is None) != (model["task"] is None):
            if L is None and loadable:
                self.violation("elf", "rejected", loader, "%s: load_program returns no task for an image a kernel maps" % loader,
                               case, None, "task", "task", "Amoco.Loader.Props.elf_image")
            else:
                if L is not None:
                    # the code maps an image the model rejects: what it mapped must still be what the file says
                    iso = O.elf_isolated(data, e, ps, stack)
                    self.judge_bytes("elf", loader, case, L, names, O.Image(O.elf_facts(data, e, ptr, [], only=iso)),
                                     "Amoco.Loader.Props.elf_image")
                self.broken("accept/reject:elf", case, "task" if L else None, "task" if model["task"] else None,
                            "correspondence (does the loader produce a task)")
            return
        if L is None:
            ck.case(("elf", tag), nontrivial=False)
            return
        binds = O.elf_binds(data, e)
        slots = list(dict(rel).items()) if binds else []
        dyn = O.elf_relocs_by_dynamic(data, e) if path else None
        if dyn is not None and binds:
            if dict(dyn) != dict(rel):
                ck.count("elf.dynamic-table-differs-from-sections")
            else:
                ck.count("elf.dynamic-table-agrees")
        if loadable:
            facts, judged = O.elf_facts(data, e, ptr, slots), True
        else:
            # outside the theorem's hypothesis the segments that no later block and no stack page touches are still
            # determined by the file alone
            iso = O.elf_isolated(data, e, ps, stack)
            facts, judged = O.elf_facts(data, e, ptr, slots, only=iso), bool(iso)
            if iso:
                ck.count("elf.not-loadable.isolated-segments-judged", len(iso))
        # ARM ELF: an odd e_entry is a Thumb entry point at the even address
        entry = (e.entry & ~1) if arm and e.entry < (1 << 32) else e.entry
        ok = self.compare("elf", loader, case, L, names, model, ranges, fetch, facts, entry, 8 * ptr, judged,
                          "Amoco.Loader.Props.elf_image", req=req)
        kinds = (meta or {}).get("kinds", [])
        nontrivial = loadable and (len(L_) > 1 or any(p["memsz"] > p["filesz"] for p in L_) or bool(slots))
        ck.case(("elf", tag, ps), nontrivial=nontrivial)
        if self.n % 41 == 1:
            ck.sample({"format": "elf", "loader": loader, "ps": ps, "kinds": kinds, "loadable": loadable,
                       "phdrs": [[p["type"], p["offset"], p["vaddr"], p["filesz"], p["memsz"]] for p in L_],
                       "slots": len(slots), "objects": len(L.zone._map), "agree": ok})

    # -- every registered ELF loader (OS / bare-metal fallback / …), judged by the oracle alone ---------------------
    def route_probe(self, table, machine, x64, be):
        """can the loader registered as LOADERS[table][machine] build a readable task for the plainest image of the
        family (one page-aligned segment without zero-filled part)?  Loaders that cannot (for reasons that have
        nothing to do with the mapping: missing modules, old task interfaces) are skipped and counted."""
        key = (table, machine, x64, be)
        if key in self.route_state:
            return self.route_state[key]
        data, _ = load_gen.bss_tail_image(rng("C15/sweep/probe/%s/%d/%d/%d" % key), machine, x64, be, 4096, None, probe=True)
        why = None
        try:
            L, how = R.load_route(data, table, machine, 4096)
            if L is None:
                why = "no-task"
            else:
                e = O.elf_read(data)
                p = [q for q in e.phdrs if q["type"] == O.PT_LOAD][0]
                got = R.unchunk(L.chunks(p["vaddr"], p["filesz"], R.Names()))
                L.pc()
                if got != list(data[p["offset"]:p["offset"] + p["filesz"]]):
                    why = "plain-image-not-mapped"          # not a loader of PT_LOAD images (judged on the formats it is one for)
        except Exception as ex:
            why = "raises-" + type(ex).__name__
        self.route_state[key] = why
        self.ck.count("sweep.route.%s.%d.%s%s.%s" % (table, machine, "64" if x64 else "32", "be" if be else "le",
                                                     "usable" if why is None else "skipped:" + why))
        return why

    def route_case(self, table, machine, data, ps, tag, meta=None):
        """one image through one registered loader; the task memory is judged byte by byte against the file's mapping
        (file bytes, zero fill), the program counter against e_entry, fetch windows / decoded instruction bytes against
        the bytes the file places at the address."""
        ck = self.ck
        self.n += 1
        e = O.elf_read(data)
        case = {"format": "elf", "route": [table, machine], "ps": ps, "tag": tag, "meta": meta, "file": data.hex()}
        theorem = "Amoco.Loader.Props.elf_image (every loader: file bytes, zero fill, pc = entry)"
        self.per_loader = True
        try:
            try:
                L, how = R.load_route(data, table, machine, ps)
            except Exception as ex:
                self.broken("load_program-raised:elf", case, repr(ex), None, "load_program raised")
                return False
            case["how"] = how
            label = "%s[%d]" % (table, machine)
            if L is None:
                # the plain image of the same family was loaded by this loader (route_probe)
                self.violation("elf", "rejected", label, "%s: the loader builds no task for an image with isolated, page-congruent "
                               "segments (%s), while it loads the same image without zero-filled tails"
                               % (label, ", ".join((meta or {}).get("kinds", []))), case, None, None, "task", theorem)
                return False
            loader = R.loader_name(L)
            ck.count("sweep.loaded.%s" % loader)
            names = R.Names()
            img = O.Image(O.elf_facts(data, e, 4, []))
            ok = self.judge_bytes("elf", loader, case, L, names, img, theorem)
            rpc = L.pc()
            if rpc != e.entry:
                ok = False
                self.violation("elf", "pc", loader, "%s: the program counter after loading is %s, the file's entry point is %#x"
                               % (loader, hex(rpc) if isinstance(rpc, int) else rpc, e.entry), case, rpc, None, e.entry, theorem)
            if not ok:
                return False              # the fetch windows over a wrong byte would only repeat the finding
            # fetch: entry, the last file byte (window runs into the zero fill), the first zero byte, the first byte
            # of every kind of further page, the last bytes of the segment
            ml = L.maxlen()
            addrs = [e.entry]
            for p in [q for q in e.phdrs if q["type"] == O.PT_LOAD]:
                fe, me = p["vaddr"] + p["filesz"], p["vaddr"] + p["memsz"]
                if p["filesz"]:
                    addrs.append(fe - 1)
                if me > fe:
                    addrs.append(fe)
                    for u in {ps, 4096}:
                        a = -(-fe // u) * u
                        if a < me:
                            addrs.append(a)
                    addrs.append(max(fe, me - ml))
            for a in addrs:
                exp = img.expected(a, ml)
                run = 0
                while run < ml and exp[run] is not None and exp[run][0] in "bz":
                    run += 1
                if not run:
                    continue
                want = bytes(x[1] for x in exp[:run])
                w = L.window(a, names, ml)
                ck.count("sweep.fetch")
                if w is None or w[0] != "raw" or len(w[1]) // 2 < run or bytes.fromhex(w[1])[:run] != want:
                    ok = False
                    self.violation("elf", "fetch-window", loader, "%s: the fetch window at %#x is %s, the file places %s there"
                                   % (loader, a, short(w, 80), want.hex()), dict(case, address=a), w, None, want.hex(),
                                   "Amoco.Loader.Props.fetch_window")
                    break
                if a == e.entry:
                    ins = L.instruction(a)
                    if isinstance(ins, tuple) and isinstance(ins[0], bytes):
                        ck.count("sweep.fetch.decoded")
                        if len(ins[0]) <= run and ins[0] != want[:len(ins[0])]:
                            ok = False
                            self.violation("elf", "fetch-instruction", loader, "%s: read_instruction(%#x) decoded bytes %s, the file places %s there"
                                           % (loader, a, ins[0].hex(), want[:len(ins[0])].hex()), dict(case, address=a),
                                           ins[0].hex(), None, want.hex(), "Amoco.Loader.Props.fetch_window")
            nontrivial = bool((meta or {}).get("multi_page_tail"))
            ck.case(("elf-route", table, machine, tag, ps), nontrivial=nontrivial)
            if self.n % 41 == 1:
                ck.sample({"format": "elf", "route": [table, machine], "loader": loader, "how": how, "ps": ps,
                           "kinds": (meta or {}).get("kinds"), "agree": ok,
                           "phdrs": [[p["offset"], p["vaddr"], p["filesz"], p["memsz"]] for p in e.phdrs if p["type"] == O.PT_LOAD]})
            return ok
        finally:
            self.per_loader = False

    def sweep(self, quick):
        """every (table, e_machine) in the loader registry × class / byte order × page sizes × bss-tail layouts."""
        ck = self.ck
        routes = R.elf_routes()
        ck.count("sweep.routes", len(routes))
        variants = [(False, False), (False, True), (True, False)] + ([] if quick else [(True, True)])
        per = 6 if quick else 60
        for (table, machine) in routes:
            for (x64, be) in variants:
                if self.route_probe(table, machine, x64, be) is not None:
                    continue
                for n in range(per):
                    tag = "sweep:%s:%d:%d%s:%d" % (table, machine, 64 if x64 else 32, "be" if be else "le", n)
                    r = rng("C15/" + tag)
                    ps = r.choice([4096, 4096, 256, 64, 0x10000] if quick else [4096, 4096, 256, 64, 16, 1024, 0x4000, 0x10000])
                    data, meta = load_gen.bss_tail_image(r, machine, x64, be, ps, ck, light=quick)
                    self.route_case(table, machine, data, ps, tag, meta)
        usable = sorted({"%s[%d]" % (k[0], k[1]) for k, v in self.route_state.items() if v is None})
        skipped = sorted({"%s[%d]" % (k[0], k[1]) for k, v in self.route_state.items() if v is not None} - set(usable))
        return routes, usable, skipped

    # -- PE ----------------------------------------------------------------------------------------------
    def pe(self, data, tag, meta=None, path=None, ps=4096):
        ck, drv = self.ck, self.drv
        self.n += 1
        p = O.pe_read(data)
        case = {"format": "pe", "tag": tag, "meta": meta, "file": path if path else data.hex()}
        if p.machine == 0x14c:
            ptr, top, loader = 4, 0x7FFFFFFF, "win32/x86"
        elif p.machine == 0x8664:
            ptr, top, loader = 8, 0x00007FFFFFFFFFFF, "win64/x64"
        else:
            ck.count("pe.no-os-loader")
            return
        names = R.Names()
        self.ptr = ptr
        imports = O.pe_imports(data, p)
        try:
            L = R.load(path or data, ps)
        except Exception as ex:
            self.broken("load_program-raised:pe", case, repr(ex), None, "load_program raised")
            return
        ml = L.maxlen() if L is not None else 16
        ranges, fetch = [], []
        r = rng("C15/fetch/%s" % tag)
        for s in p.sections[:8]:
            a = p.base + s["rva"]
            ranges.append([a - 3, min(max(s["vsize"], s["rawsize"], p.salign) + 6 + p.salign, RANGE_CAP)])
            if s["rawsize"] and s["ch"] != 0x800:
                fetch.append([a + r.randrange(0, min(s["rawsize"], max(1, s["vsize"]))), ml])
        for a, nm in imports[:2]:
            fetch += [[a, ml]] + [[a - k, ml] for k in range(1, ml) if a - k >= 0]
        fetch.append([p.base + p.entry_rva, ml])
        req = {"op": "load.pe", "fix": "repaired", "cfg": {"ps": ps, "ptr": ptr, "top": top, "aslr": False, "bare": False},
               "file": data.hex(), "base": p.base, "salign": p.salign,
               "sections": [[s["rva"], s["vsize"], s["rawptr"], s["rawsize"], s["ch"] == 0x800] for s in p.sections],
               "entry": p.entry_rva, "stack": p.stack_reserve, "iat": [[a, names.id(nm)] for a, nm in imports],
               "ranges": ranges, "fetch": fetch}
        model = drv.ask(req)
        if model == "unmodelled" or "err" in model:
            self.broken("driver:pe", case, None, model, "driver")
            return
        if (L is None) != (model["task"] is None):
            self.broken("accept/reject:pe", case, "task" if L else None, "task" if model["task"] else None,
                        "correspondence (does the loader produce a task)")
            return
        if L is None:
            ck.count("pe.rejected")           # a section with Characteristics == IMAGE_SCN_LNK_REMOVE: PE.loadsegment raises
            return
        ck.count("pe.loaded")
        base = top - (top & (ps - 1))
        loadable = O.pe_loadable(p, (base - p.stack_reserve, base))
        ck.count("pe.loadable" if loadable else "pe.not-loadable")
        # the headers (SizeOfHeaders bytes at ImageBase) are part of the image the Windows loader maps; amoco's OS loaders
        # map sections only.  Observable when the entry point lies in the headers (no section holds it):
        erva = p.entry_rva
        if erva < p.size_headers and not any(s["rva"] <= erva < s["rva"] + max(s["vsize"], s["rawsize"]) for s in p.sections) \
                and erva < len(data):
            w = L.window(p.base + erva, names)
            want = data[erva:min(p.size_headers, erva + L.maxlen())]
            if not (w and w[0] == "raw" and want.startswith(bytes.fromhex(w[1])) and w[1]):
                self.violation("pe", "entry-in-headers-unmapped", loader,
                               "%s: the entry point %#x lies in the PE headers (SizeOfHeaders %#x), which are not mapped: fetch gives %s, "
                               "the file places %s there" % (loader, p.base + erva, p.size_headers, short(w, 60), want.hex()),
                               dict(case, address=p.base + erva), w, None, want.hex(), "Amoco.Loader.Props.block_present")
        facts = O.pe_facts(data, p, ptr, list(dict(imports).items()))
        self.compare("pe", loader, case, L, names, model, ranges, fetch, facts, (p.base + p.entry_rva), 8 * ptr, loadable,
                     "Amoco.Loader.Props.block_present / pe_section_bytes", req=req)
        ck.case(("pe", tag), nontrivial=loadable and any(s["vsize"] != s["rawsize"] for s in p.sections))
        if self.n % 41 == 1:
            ck.sample({"format": "pe", "loader": loader, "sections": [[s["rva"], s["vsize"], s["rawptr"], s["rawsize"]] for s in p.sections],
                       "imports": len(imports), "loadable": loadable})

    # -- Mach-O --------------------------------------------------------------------------------------------
    def macho(self, data, tag, meta=None, path=None, ps=4096):
        ck, drv = self.ck, self.drv
        self.n += 1
        mm = O.macho_read(data)
        case = {"format": "macho", "tag": tag, "meta": meta, "file": path if path else data.hex()}
        try:
            L = R.load(path or data, ps)
        except Exception as ex:
            self.broken("load_program-raised:macho", case, repr(ex), None, "load_program raised")
            return
        if L is None:
            ck.count("macho.rejected")      # e.g. no LC_LOAD_DYLIB: MachO.dynamic is never set and the loader raises
            return
        ck.count("macho.loaded")
        names = R.Names()
        self.ptr = 8
        top = 0x00007FFFFFFFFFFF
        # stack: LC_UNIXTHREAD → 2 pages; LC_MAIN with stacksize → stacksize
        stack = None
        if mm.entryoff is not None:
            stack = mm.stacksize or None
        if mm.unixthread:
            stack = 2 * ps
        # lazy-pointer slots: addresses come from the file (sections of type S_LAZY_SYMBOL_POINTERS), the names from the
        # real memory (the bind opcode stream is not re-implemented here)
        lazy = set(O.macho_lazy_slots(mm))
        slots = []
        for o in L.zone._map:
            if not isinstance(o.data.val, (bytes, bytearray)):
                slots.append((o.vaddr, R.Names.norm(getattr(o.data.val, "ref", str(o.data.val)))))
        unexpected = [a for a, _ in slots if a not in lazy]
        if unexpected:
            self.violation("macho", "slot", "osx/x64", "a symbol is bound at %#x, which is not a lazy symbol pointer slot of the file"
                           % unexpected[0], case, unexpected[:4], None, sorted(lazy)[:8], "Amoco.Loader.Props.block_present / macho_segment_bytes")
        ranges, fetch = [], []
        r = rng("C15/fetch/%s" % tag)
        for s in mm.segs:
            if s["name"].startswith(b"__PAGEZERO\0"):
                continue
            ranges.append([s["vmaddr"] - 3, min(max(s["vmsize"], s["filesize"]) + 6, RANGE_CAP)])
            if s["filesize"]:
                fetch.append([s["vmaddr"] + r.randrange(0, s["filesize"]), L.maxlen()])
        entry = O.macho_entry(mm)
        req = {"op": "load.macho", "fix": "repaired", "cfg": {"ps": ps, "ptr": 8, "top": top, "aslr": False, "bare": False}, "file": data.hex(),
               "segs": [[s["vmaddr"], s["vmsize"], s["fileoff"], s["filesize"], s["name"].startswith(b"__PAGEZERO\0")] for s in mm.segs],
               "stack": stack, "slots": [[a, names.id(nm)] for a, nm in slots], "entry": entry or 0, "ranges": ranges, "fetch": fetch}
        model = drv.ask(req)
        if model == "unmodelled" or "err" in model:
            self.broken("driver:macho", case, None, model, "driver")
            return
        loadable = O.macho_loadable(mm)
        facts = O.macho_facts(data, mm) + [("slot", a, 8, nm) for a, nm in slots]
        self.compare("macho", "osx/x64", case, L, names, model, ranges, fetch, facts, entry, 64, loadable,
                     "Amoco.Loader.Props.block_present / macho_segment_bytes", req=req)
        ck.case(("macho", tag), nontrivial=loadable and any(s["vmsize"] > s["filesize"] > 0 for s in mm.segs))
        if self.n % 41 == 1:
            ck.sample({"format": "macho", "segments": [[s["vmaddr"], s["vmsize"], s["fileoff"], s["filesize"]] for s in mm.segs],
                       "slots": len(slots), "loadable": loadable})

    # -- HEX / SREC / raw ---------------------------------------------------------------------------------
    def records(self, fmt, data, tag, meta=None, path=None):
        ck, drv = self.ck, self.drv
        self.n += 1
        case = {"format": fmt, "tag": tag, "meta": meta, "file": path if path else data.hex()}
        entry = 0
        aspect_entry = None
        if fmt == "hex":
            recs, ent = O.hex_read(data)
            if ent is not None:
                entry = ent[1] if ent[0] == "lin" else ent[1] * 16 + ent[2]
                aspect_entry = ent[0]
        elif fmt == "srec":
            recs, ent = O.srec_read(data)
            entry = ent or 0
        else:
            recs = [(0, data)]
        recs = [(a, b) for a, b in recs]
        try:
            L = R.load(path or data, 4096, cpu=self.cpu_x86)
        except Exception as ex:
            if fmt == "raw":
                ck.count("raw.read_program-raised")      # a format parser raised on arbitrary bytes: C20's subject
                return
            self.broken("load_program-raised:" + fmt, case, repr(ex), None, "load_program raised")
            return
        if L is None or type(L.t).__name__ != "RawExec":
            ck.count("%s.other-loader" % fmt)
            return
        want = {"hex": "HEX", "srec": "SREC", "raw": "shellcode"}[fmt]
        if type(L.t.bin).__name__ != want:
            # e.g. a blob of white-space bytes is identified as an S-record file without records (identification is C20's subject)
            ck.count("%s.identified-as-%s" % (fmt, type(L.t.bin).__name__))
            return
        names = R.Names()
        lo = min(a for a, b in recs) if recs else 0
        hi = max(a + len(b) for a, b in recs) if recs else 0
        ranges = [[lo - 3, min(hi - lo + 6, RANGE_CAP)]]
        r = rng("C15/fetch/%s" % tag)
        fetch = [[a + r.randrange(0, len(b)), L.maxlen()] for a, b in recs[:6] if b]
        fetch += [[a, L.maxlen()] for a, b in recs if 0 < len(b) < 4][:8]          # tiny records: windows spanning several objects
        req = {"op": "load.records", "fix": "repaired", "records": [[a, b.hex()] for a, b in recs], "entry": entry, "pcbits": 32,
               "ranges": ranges, "fetch": fetch}
        model = drv.ask(req)
        if model == "unmodelled" or "err" in model:
            self.broken("driver:" + fmt, case, None, model, "driver")
            return
        ck.count("%s.loaded" % fmt)
        loader = {"seg": "start-segment-address", "lin": "start-linear-address"}.get(aspect_entry, "raw")
        self.compare(fmt, loader, case, L, names, model, ranges, fetch, O.records_facts(recs), entry, 32,
                     all(len(b) for a, b in recs), "Amoco.Loader.Props.loader_image", later_wins=True, req=req)
        # RawExec.relocate(v): the image moves as a whole, pc = v
        if all(len(b) for a, b in recs) and not model.get("empty"):
            v = r.choice([0, 0x1000, r.randrange(0, 1 << 31)])
            m2 = drv.ask(dict(req, relocate=v, ranges=[], fetch=[]))
            try:
                L.t.relocate(v)
                robj, rpc = L.objects(names), L.pc()
            except Exception as ex:
                robj, rpc = repr(ex), None
            ck.count("relocate")
            # oracle: the records moved by v - (lowest record address), pc = v
            judged = False
            if recs and not isinstance(robj, str):
                lo2 = min(a for a, b in recs)
                exp = O.Image(O.records_facts([(a - lo2 + v, b) for a, b in recs])).expected_later_wins(v - 1, min(hi - lo + 2, RANGE_CAP))
                bad = O.judge(exp, R.unchunk(L.chunks(v - 1, min(hi - lo + 2, RANGE_CAP), names)), names)
                if bad is not None or rpc != v % (1 << 32):
                    judged = True
                    self.violation(fmt, "relocate", "raw", "after relocate(%#x) of records starting at %#x: %s"
                                   % (v, lo2, ("byte at %#x reads %s, expected %s" % (v - 1 + bad[0], short(bad[3], 40), short(bad[2], 40)))
                                      if bad else "pc = %s" % rpc),
                                   dict(case, relocate=v), short(bad), None, None, "Amoco.Loader.Props.relocate_image")
            if not judged and (not isinstance(m2, dict) or robj != m2["task"]["zone"] or L.cache() != m2["task"]["cache"]
                               or rpc != m2["task"]["pc"]):
                self.broken("relocate:" + fmt, dict(case, relocate=v), [rpc, short(robj)],
                            [m2["task"]["pc"], short(m2["task"]["zone"])] if isinstance(m2, dict) else m2,
                            "correspondence RawExec.relocate ~ Amoco.Loader.relocate")
        overl = any(a1 < a2 + len(b2) and a2 < a1 + len(b1) for i, (a1, b1) in enumerate(recs) for (a2, b2) in recs[:i])
        ck.case((fmt, tag), nontrivial=overl or len(recs) > 1)
        if self.n % 41 == 1:
            ck.sample({"format": fmt, "records": [[a, len(b)] for a, b in recs][:8], "entry": entry})

    # -- dispatch on content (samples) -----------------------------------------------------------------------
    def any_file(self, path, ps_list):
        data = open(path, "rb").read()
        tag = "sample:" + os.path.relpath(path, REPO)
        self.ck.count("samples")
        if data[:4] == b"\x7fELF":
            for ps in ps_list:
                self.elf(data, ps, tag + "@%d" % ps, path=path)
        elif data[:2] == b"MZ":
            try:
                O.pe_read(data)
            except Exception:
                self.ck.count("samples.skipped")
                return
            self.pe(data, tag, path=path)
        elif data[:4] == b"\xcf\xfa\xed\xfe":
            self.macho(data, tag, path=path)
        elif data[:1] == b":":
            self.records("hex", data, tag, path=path)
        else:
            # amoco's COFF detection takes files whose first bytes happen to look like a COFF header; not raw input
            R.setup()
            from amoco.system.core import read_program
            try:
                kind = type(read_program(path)).__name__
            except Exception:
                kind = "raise"
            if kind == "shellcode":
                self.records("raw", data, tag, path=path)
            else:
                self.ck.count("samples.skipped.%s" % kind)


class _ModelNames(object):
    """symbol ids of the model are the ids of `names`."""

    def __init__(self, names):
        self.names = names

    def name(self, i):
        return self.names.name(i)


def _expected_later_wins(self, a, n):
    out = [None] * n
    for f in self.facts:
        if f[0] == "bytes":
            va, bs = f[1], f[2]
            for x in range(max(a, va), min(a + n, va + len(bs))):
                out[x - a] = ("b", bs[x - va])
    return out


O.Image.expected_later_wins = _expected_later_wins


def corpus(run):
    """hand-written layouts run first on every run: one per proof case of `elf_image`."""
    import struct
    G = load_gen

    def elf(machine, x64, be, ps, segs, entry=None, extra=b""):
        ehsz, phsz = (64, 56) if x64 else (52, 32)
        n = max([p["offset"] + p["filesz"] for p in segs] + [ehsz + phsz * len(segs)]) + 64
        body = bytearray((7 * i + 1) & 0xff or 1 for i in range(n))
        head = G.ehdr(x64, be, machine, entry if entry is not None else segs[0]["vaddr"], ehsz, len(segs), 0, 0, 0) + \
            b"".join(G.phdr(x64, be, dict(p, type=1)) for p in segs)
        body[:len(head)] = head
        return bytes(body) + extra
    C = []
    for (machine, x64, be) in ((3, False, False), (62, True, False), (2, False, True), (8, False, True)):
        for ps in (64, 4096):
            u = ps
            # text + data with bss inside one page and across pages
            C.append((elf(machine, x64, be, ps, [dict(offset=0, vaddr=4 * u, filesz=u + 9, memsz=u + 9),
                                                  dict(offset=u + 16, vaddr=8 * u + 16, filesz=20, memsz=20 + 7)]), ps, "bss-in-page"))
            C.append((elf(machine, x64, be, ps, [dict(offset=0, vaddr=4 * u, filesz=u // 2, memsz=u // 2),
                                                  dict(offset=u + 5, vaddr=8 * u + 5, filesz=11, memsz=3 * u)]), ps, "bss-across-pages"))
            # page-sharing segments mapped from one contiguous file range
            C.append((elf(machine, x64, be, ps, [dict(offset=0, vaddr=4 * u, filesz=u // 2, memsz=u // 2),
                                                  dict(offset=u // 2 + 3, vaddr=4 * u + u // 2 + 3, filesz=9, memsz=9 + u)]), ps, "page-sharing"))
            # adjacent: second starts at the byte after the first / at the next page
            C.append((elf(machine, x64, be, ps, [dict(offset=0, vaddr=4 * u, filesz=u - 4, memsz=u - 4),
                                                  dict(offset=u - 4, vaddr=5 * u - 4, filesz=u, memsz=u)]), ps, "adjacent-byte"))
            C.append((elf(machine, x64, be, ps, [dict(offset=0, vaddr=4 * u, filesz=u, memsz=u),
                                                  dict(offset=u, vaddr=5 * u, filesz=7, memsz=7)]), ps, "adjacent-page"))
            # clobbering layout (later page start inside the earlier segment, other file page): not LoadableOK
            C.append((elf(machine, x64, be, ps, [dict(offset=0, vaddr=4 * u, filesz=u // 2, memsz=u // 2),
                                                  dict(offset=2 * u + u // 2 + 3, vaddr=4 * u + u // 2 + 3, filesz=9, memsz=9)]), ps, "clobber"))
            # unaligned segment (p_align 1): file offset and address differ modulo the page; with a zero-filled tail,
            # and one whose in-page address offset is larger than that of the file offset
            C.append((elf(machine, x64, be, ps, [dict(offset=0, vaddr=4 * u, filesz=u // 2, memsz=u // 2),
                                                  dict(offset=u + 0x15, vaddr=8 * u + 0x13, filesz=0x21, memsz=0x30, align=1)]), ps, "unaligned-offset"))
            C.append((elf(machine, x64, be, ps, [dict(offset=2 * u + 5, vaddr=6 * u + 0x2b, filesz=u + 3, memsz=u + 3, align=1)]), ps, "unaligned-offset-2"))
            # pure bss segment; unaligned first segment
            C.append((elf(machine, x64, be, ps, [dict(offset=3, vaddr=4 * u + 3, filesz=u // 4, memsz=u // 4),
                                                  dict(offset=u, vaddr=9 * u, filesz=0, memsz=u + 1)]), ps, "pure-bss"))
    return C


def main(tier):
    ck = Check("C15", tier)
    quick = tier == "quick"
    broken = ck.build_and_audit(["Amoco.Props.C15", "drv_load"])
    fresh_amoco()
    R.setup()
    try:
        drv = Driver("drv_load")
    except InternalError as e:
        ck.report("C15:proof-obligation", "driver not built: %s" % e, "proof-obligation", "\n".join(broken)[:2000],
                  failing_input_found=False)
        return ck.finish("no case generated")
    run = Runner(ck, drv)

    # page arithmetic on its own (any page size, any address)
    r = rng("C15/page")
    bad_page = None
    for n in range(400 if quick else 20000):
        ps = r.choice([1, 2, 3, 16, 24, 64, 1000, 4096, 4097, 0x10000, r.randrange(1, 1 << 20)])
        v = r.choice([0, ps - 1, ps, ps + 1, r.randrange(0, 1 << 20), r.randrange(0, 1 << 48)])
        exp = [v & (ps - 1), v & ~(ps - 1), (v + ps - 1) & ~(ps - 1)]
        got = drv.ask({"op": "load.page", "ps": ps, "v": v})
        if got != exp:
            bad_page = (ps, v, got, exp)
    ck.oblige("correspondence PAGEOFFSET/PAGESTART/PAGEALIGN (Python int expressions of Elf.loadsegment)", bad_page is None, repr(bad_page))
    if bad_page:
        run.broken("page-arithmetic", {"ps": bad_page[0], "v": bad_page[1]}, bad_page[3], bad_page[2], "pageOffset/pageStart/pageAlign")

    for n, (data, ps, name) in enumerate(corpus(run)):
        run.elf(data, ps, "corpus:%s:%d" % (name, n), meta={"kinds": [name]})
        ck.count("corpus")

    # shipped samples
    sdir = os.path.join(REPO, "tests", "samples")
    files = sorted(f for f in glob.glob(os.path.join(sdir, "**", "*"), recursive=True) if os.path.isfile(f))
    for f in files:
        run.any_file(f, [4096, 256] if quick else [4096, 256, 16, 0x10000, 1000])

    # the independent reader itself is cross-checked against binutils' readelf
    import tempfile, shutil
    bad_re, nre = None, 0
    if shutil.which("readelf"):
        tmpd = tempfile.mkdtemp(prefix="c15-readelf-")
        cands = [(f, open(f, "rb").read()) for f in files if open(f, "rb").read(4) == b"\x7fELF"]
        gg = load_gen.ElfGen(None, None)
        for n in range(25 if quick else 400):
            gg.r = rng("C15/readelf/%d" % n)
            d_, _m = gg.image()
            fn = os.path.join(tmpd, "g%d.elf" % n)
            open(fn, "wb").write(d_)
            cands.append((fn, d_))
        for fn, d_ in cands:
            got = O.readelf_loads(fn)
            if got is None:
                continue
            e_ = O.elf_read(d_)
            mine = [(p["offset"], p["vaddr"], p["filesz"], p["memsz"]) for p in e_.phdrs if p["type"] == O.PT_LOAD]
            nre += 1
            if got != mine:
                bad_re = (fn, got[:4], mine[:4])
        shutil.rmtree(tmpd, ignore_errors=True)
        ck.oblige("oracle cross-check: PT_LOAD table of load_oracle.elf_read = readelf -lW on %d files" % nre, bad_re is None, repr(bad_re))
        if bad_re:
            run.broken("oracle-vs-readelf", {"file": bad_re[0]}, bad_re[1], bad_re[2], "load_oracle.elf_read vs readelf -lW")
        ck.count("readelf.cross-checked", nre)

    g = load_gen.ElfGen(None, ck)
    nelf = 380 if quick else 8000
    for n in range(nelf):
        r = rng("C15/elf/%d" % n)
        g.r = r
        data, meta = g.image()
        run.elf(data, meta["ps"], "gen:%d" % n, meta=meta, aslr=r.random() < 0.06)
        if len(ck.violations) >= 6:
            break
    # every loader load_program can route an ELF to (registry read at run time), bss tails over further pages
    routes, usable, skipped = run.sweep(quick)
    ck.oblige("registered ELF loaders enumerated from DefineLoader.LOADERS: %d routes, judged %s, skipped (no task for the plain image) %s"
              % (len(routes), usable, skipped), len(usable) > 0, "no registered ELF loader builds a task")
    for n in range(80 if quick else 1500):
        r = rng("C15/pe/%d" % n)
        data, meta = load_gen.pe_image(r, ck)
        run.pe(data, "gen:%d" % n, meta=meta)
    for n in range(60 if quick else 1000):
        r = rng("C15/macho/%d" % n)
        data, meta = load_gen.macho_image(r, ck)
        run.macho(data, "gen:%d" % n, meta=meta)
    for n in range(100 if quick else 2500):
        r = rng("C15/hex/%d" % n)
        data, meta = load_gen.hex_stream(r, ck)
        run.records("hex", data, "gen:%d" % n, meta=meta)
    for n in range(100 if quick else 2500):
        r = rng("C15/srec/%d" % n)
        data, meta = load_gen.srec_stream(r, ck)
        run.records("srec", data, "gen:%d" % n, meta=meta)
    for n in range(12 if quick else 200):
        r = rng("C15/raw/%d" % n)
        data, meta = load_gen.raw_blob(r, ck)
        run.records("raw", data, "gen:%d" % n, meta=meta)
    drv.close()

    for b in broken:
        ck.report("C15:proof-obligation", "proof obligation broken: %s" % b[:300], "proof-obligation", b[:2000],
                  failing_input_found=False)
    # failing-input search over the whole run: a disagreement between the real code and the model of one format's
    # loader, for which the image itself (and its single-segment variants) gives the oracle nothing to judge, is
    # reported through the failing inputs the oracle found for that format's loader elsewhere in this run
    with_input = {v["signature"].split(":")[1] for v in ck.violations if v["failing_input_found"]}
    code_kinds = ("zone-objects", "zone-cache", "image-read", "fetch-window", "pc", "accept/reject", "relocate", "load_program-raised")
    kept, folded = [], 0
    for item in run.corr:
        kind, _, f_ = item[0].rpartition(":")
        if kind in code_kinds and f_ in with_input:
            folded += 1
            ck.count("disagreement.reported-through-failing-inputs-of-the-run.%s" % f_)
        else:
            kept.append(item)
    run.corr = kept
    if run.unrepaired and not ck.violations:
        # the real code behaves like the unrepaired model somewhere, yet no failing input was found anywhere in the run
        run.corr += run.unrepaired
    seen = set()
    for what, case, real, model, tie in run.corr:
        if what in seen:
            continue
        seen.add(what)
        ck.report("C15:" + what, "model and code disagree (%s) on %d inputs; the independent reader found no byte of the real "
                  "memory that contradicts the file's mapping" % (what, sum(1 for x in run.corr if x[0] == what)),
                  "correspondence", tie, case=case, real=real, model=model, failing_input_found=False)
    ck.oblige("correspondence zone objects / cache / pc / segment reads / fetch windows (ELF, PE, Mach-O, HEX, SREC, raw)",
              not run.corr and not folded, "%d disagreements" % (len(run.corr) + folded))
    ck.assumptions += [
        "the model is fed with the program-header / section / import tables read by harness/load_oracle.py (independent of amoco); "
        "amoco's own parsing of those tables is compared only through the resulting memory image",
        "Mach-O lazy-binding slots: addresses are checked against the file's lazy-pointer sections, symbol names are taken from the real memory",
        "loaders that raise (negative seek, bad tables) are modelled as 'no task'; other Python exceptions are not modelled",
        "writes are non-empty in the theorems (an image with a PT_LOAD that writes no byte is compared by the oracle only)",
        "memory beyond 0x48000 bytes per extent is not read back (large samples are compared on their first 288 KiB per extent; "
        "the zone object lists are compared in full)"]
    ck.trusted += ["harness/load_oracle.py (independent ELF / PE / Mach-O / HEX / SREC readers; declared mapping and LoadableOK re-stated in Python)",
                   "harness/load_real.py canonical dump of the task's MemoryZone",
                   "compiled Lean driver drv_load (evaluation of Amoco.Loader definitions, Zone.check, decide LoadableOK)"]
    return ck.finish("hand-written ELF corpus (one layout per proof case × 4 class/byte-order/machine combinations × 2 page sizes) + every file under "
                     "tests/samples (ELF with several configured page sizes) + seeded synthesised ELF images (1..4 PT_LOAD, placement classes "
                     "far / next-page / adjacent-byte / share-page / unaligned / overlap / descending, file offsets congruent / same-delta / "
                     "incongruent / beyond EOF, bss sizes below and above a page, 35% with PT_INTERP and REL/RELA sections, 7 usual + 5 odd "
                     "class/byte-order/machine targets, page sizes 16..64K and non powers of two) + a sweep over every ELF loader "
                     "registered in DefineLoader.LOADERS at run time (tables elf and elf-baremetal: OS loaders through load_program, "
                     "fallback loaders through load_program when they are the first loader of the machine and through the registered "
                     "function otherwise; ELF32 LE/BE and ELF64; loaders that build no task for a plain one-segment image are skipped "
                     "and counted) with isolated segments whose zero-filled tails end inside / at the end of the last file-backed "
                     "page or run over 1..13 further pages, judged by the independent reader alone (bytes, zero fill, pc, fetch "
                     "windows) + synthesised PE32/PE32+ (VirtualSize <,=,> "
                     "SizeOfRawData, removed sections, import tables), Mach-O 64 (filesize <,= vmsize, LC_MAIN / LC_UNIXTHREAD), Intel-HEX and "
                     "S-record streams with overlapping records, raw blobs; one case per (file, page size); non-trivial = satisfies the "
                     "theorem's hypothesis and has several segments / a zero-filled part / bound slots / overlapping records")


def replay(path):
    rec = json.load(open(path))
    case = rec["case"]
    fresh_amoco()
    R.setup()
    ck = Check("C15", "replay")
    import tempfile
    ck.replay_path = lambda: os.path.join(tempfile.mkdtemp(prefix="c15-replay-"), "again.json")
    drv = Driver("drv_load")
    run = Runner(ck, drv)
    f = case["file"]
    if os.path.exists(f):
        data, p = open(f, "rb").read(), f
    else:
        data, p = bytes.fromhex(f), None
    fmt = case["format"]
    if fmt == "elf" and case.get("route"):
        table, machine = case["route"]
        R.elf_routes()
        run.route_case(table, machine, data, case["ps"], "replay", meta=case.get("meta"))
    elif fmt == "elf":
        run.elf(data, case["ps"], "replay", meta=case.get("meta"), path=p, aslr=bool(case.get("aslr")))
    elif fmt == "pe":
        run.pe(data, "replay", path=p)
    elif fmt == "macho":
        run.macho(data, "replay", path=p)
    else:
        run.records(fmt, data, "replay", path=p)
    drv.close()
    print("recorded  :", rec.get("what"))
    for v in ck.violations:
        print("real      :", short(v.get("real"), 400))
        print("model     :", short(v.get("model"), 400))
        print("expected  :", short(v.get("expected"), 400))
        print("VIOLATION property=C15 replay=%s   %s" % (path, v["what"]))
    for what, case_, real, model, tie in run.corr:
        print("correspondence broken (%s): real %s model %s" % (what, short(real), short(model)))
    for sig, what in ck.known_hit.items():
        print("KNOWN-FINDING: property=C15 %s [%s]" % (what, sig))
    if not ck.violations and not run.corr and not ck.known_hit:
        print("no violation on the current tree")
    return 1 if ck.violations else 0


if __name__ == "__main__":
    if len(sys.argv) > 2 and sys.argv[1] == "replay":
        sys.exit(replay(sys.argv[2]))
    sys.exit(main(sys.argv[1] if len(sys.argv) > 1 else "quick"))
