"""
expr_check.py — shared machinery of the C01 / C12 checks (expression algebra).

Tie (C, correspondence): tree-shaped build scripts (expr_gen) are executed on real amoco (expr_real) and on
the Lean model (driver `drv_expr`, op expr.run); compared: full tree dump (kind, size, sf, attributes, comp
parts in dict order), rendering, size — after construction, after `.simplify()` with each option, after
evaluation under total constant valuations (16 per tree) and under partial/symbolic environments; both
settings of the complexity threshold.
Tie (K): every comp met in a real result is sent to the Lean `CompWF` checker (expr.compwf), with the real
`smask`.
Oracle (independent of amoco): expr_ref big-int evaluation of the INPUT script; widths dictated by
construction.
"""
import sys, os, json, time
from common import *
import expr_real as R, expr_ref as F, expr_gen as G

SHARERS = ("sext", "rorh", "rolh", "ror", "rol", "pow", "simpb")     # APIs that put one object at two places

# regression corpus: minimal inputs of the defects found so far (run first, every tier)
CORPUS = [
    # (name, script, complexity, valuation)
    ("setpart-straddle", [["reg", "a", 16], ["reg", "b", 16], ["rawcomp", 2], ["reg", "v", 16], ["setpart", 8, 24]], 0,
     [["a", 16, 0x1234], ["b", 16, 0x5678], ["v", 16, 0xffff]]),
    ("setpart-hop", [["reg", "a", 16], ["reg", "k", 4], ["reg", "b", 12], ["rawcomp", 3], ["reg", "v", 16], ["setpart", 10, 26]], 0,
     [["a", 16, 0x1234], ["k", 4, 5], ["b", 12, 0x678], ["v", 16, 0xffff]]),
    ("setpart-noncomp", [["reg", "a", 32], ["reg", "v", 16], ["setpart", 8, 24], ["reg", "u", 8], ["setpart", 4, 12]], 0,
     [["a", 32, 0x12345678], ["v", 16, 0xffff], ["u", 8, 0]]),
    ("mem-slice-unaligned-byte", [["mem", "p_x", 32, 0, 1, 32], ["slice", 4, 12]], 0, [["p_x", 32, 0x1000]]),
    ("mem-slice-unaligned-be", [["mem", "p_x", 32, 4, -1, 64], ["slice", 4, 28]], 0, [["p_x", 64, 0x1000]]),
    ("mem-and-mask", [["mem", "p_x", 32, 0, 1, 32], ["cst", 0xff0, 32], ["and"]], 0, [["p_x", 32, 0x1000]]),
    ("mem-in-comp", [["mem", "p_x", 32, 0, 1, 32], ["slice", 12, 28], ["reg", "a", 16], ["compose", 2], ["slice", 1, 9]], 0,
     [["p_x", 32, 0x1000], ["a", 16, 3]]),
    ("raw-shl-over-bitslice", [["reg", "a", 32], ["cst", 40, 32], ["rawop", "shl"]], 0, [["a", 32, 5]]),
    ("raw-shr-over-bitslice", [["reg", "h", 16], ["cst", 200, 8], ["rawop", "shr"]], 0, [["h", 16, 0xffff]]),
    ("raw-shl-at-width", [["reg", "a", 32], ["cst", 32, 32], ["rawop", "shl"]], 0, [["a", 32, 5]]),
    ("raw-shl-over-in-comp", [["reg", "a", 32], ["cst", 33, 32], ["rawop", "shl"], ["reg", "b", 32], ["rawcomp", 2]], 0,
     [["a", 32, 5], ["b", 32, 7]]),
    ("raw-neg-neg-cst", [["cst", 5, 8], ["rawuop", "neg"], ["rawuop", "neg"], ["reg", "a", 8], ["rawop", "add"]], 0, [["a", 8, 3]]),
    ("raw-slc-of-cst", [["cst", 0xabcd, 16], ["rawslc", 4, 8], ["reg", "a", 8], ["rawop", "xor"]], 0, [["a", 8, 3]]),
    ("neq-bit0", [["reg", "a", 32], ["reg", "b", 32], ["lt"], ["cst", 0, 1], ["ne"]], 0, [["a", 32, 1], ["b", 32, 2]]),
    ("neq-bit0-b", [["reg", "a", 32], ["reg", "b", 32], ["lt"], ["cst", 0, 1], ["ne"]], 0, [["a", 32, 2], ["b", 32, 1]]),
    ("ltu-const", [["cst", 0x80000000, 32], ["cst", 1, 32], ["ltu"]], 0, []),
    ("geu-const", [["cst", 0x80000000, 32], ["cst", 1, 32], ["geu"]], 0, []),
    ("ltu-eval", [["reg", "a", 32], ["cst", 1, 32], ["ltuh"]], 0, [["a", 32, 0x80000000]]),
    ("shl-width", [["reg", "a", 32], ["cst", 32, 32], ["shl"]], 0, [["a", 32, 5]]),
    ("shr-over", [["reg", "a", 32], ["cst", 33, 32], ["shr"]], 0, [["a", 32, 5]]),
    ("shl-neg-amount", [["cst", 1, 64], ["cst", -1, 64], ["shl"]], 0, []),
    ("shl-eval-over", [["reg", "a", 32], ["reg", "n", 8], ["shl"]], 0, [["a", 32, 5], ["n", 8, 200]]),
    ("shr-signed-amount", [["reg", "a", 32], ["cst", -1, 2], ["shr"]], 0, [["a", 32, 0xf0]]),
    ("pow-one", [["reg", "a", 32], ["cst", 1, 32], ["pow"]], 0, [["a", 32, 7]]),
    ("pow-top", [["top", 8], ["reg", "a", 8], ["pow"]], 0, [["a", 8, 7]]),
    ("bitslice-lt", [["reg", "a", 32], ["cst", 5, 32], ["lt"], ["simpb"]], 0, [["a", 32, 3]]),
    ("bitslice-gt", [["reg", "a", 32], ["cst", 5, 32], ["gt"], ["simpb"]], 0, [["a", 32, 9]]),
    ("bitslice-shl", [["reg", "a", 8], ["cst", 3, 8], ["shl"], ["simpb"]], 0, [["a", 8, 0xff]]),
    ("eval-alias", [["reg", "b", 8], ["signed"], ["reg", "b", 8], ["signed"], ["cst", -1, 8], ["or"], ["signed"], ["pow"]], 0, [["b", 8, 255]]),
    ("comp-eval-sf", [["cst", 31, 5], ["signed"], ["reg", "b", 5], ["signed"], ["reg", "c", 6], ["signed"], ["compose", 3], ["signed"],
                      ["cst", 16, 15], ["signed"], ["reg", "z", 1], ["signed"], ["compose", 2], ["signed"], ["div"]], 0,
     [["b", 5, 31], ["c", 6, 63], ["z", 1, 1]]),
    ("ror-narrow-amount", [["reg", "x", 128], ["cst", 31, 5], ["ror"]], 0, [["x", 128, 1]]),
    ("rol-narrow-amount", [["reg", "x", 64], ["cst", 3, 2], ["rol"]], 0, [["x", 64, 1]]),
    ("bitslice-keeps-sf", [["reg", "b", 16], ["signed"], ["cst", 26657, 16], ["signed"], ["xor"], ["signed"], ["reg", "b", 16], ["signed"],
                           ["pow"], ["simpb"]], 0, [["b", 16, 65535]]),
    ("mask-to-slice", [["reg", "a", 32], ["cst", 0xff00, 32], ["and"]], 0, [["a", 32, 0x12345678]]),
    ("reassoc", [["reg", "a", 32], ["cst", 5, 32], ["sub"], ["reg", "b", 32], ["cst", 7, 32], ["add"], ["sub"], ["neg"]], 0,
     [["a", 32, 100], ["b", 32, 0xffffffff]]),
    ("asr-over", [["reg", "a", 16], ["signed"], ["cst", 40, 16], ["asr"]], 0, [["a", 16, 0x8000]]),
    ("logic-call-clobbers-sf", [["reg", "B", 1], ["signed"], ["cst", 1, 1], ["signed"], ["reg", "r", 1], ["signed"], ["and"], ["pow"]], 0,
     [["B", 1, 1], ["r", 1, 1]]),
    ("slice-of-xor-keeps-sf", [["reg", "t", 33], ["signed"], ["reg", "u", 33], ["signed"], ["xor"], ["slice", 0, 32], ["reg", "y", 32], ["signed"],
                               ["mod"]], 0, [["t", 33, 4171687552], ["u", 33, 0], ["y", 32, 2908375879]]),
    ("top-hash-equality", [["cst", 2, 2], ["cst", 15, 4], ["reg", "_t", 2], ["cst", 3, 2], ["lt"], ["compose", 3], ["cst", 0, 7], ["lt"],
                           ["cst", 0, 1], ["and"], ["cst", 16, 11], ["reg", "zf", 1], ["reg", "_t", 2], ["cst", 2, 2], ["compose", 4],
                           ["sext", 128], ["cst", 64, 128], ["rol"], ["cst", 0, 128], ["eq"], ["not"], ["ne"]], 10, [["_t", 2, 1], ["zf", 1, 1]]),
    ("eq-signed-bit1", [["cst", 3, 2], ["signed"], ["reg", "c", 2], ["signed"], ["lt"], ["cst", 1, 1], ["signed"], ["eq"]], 0, [["c", 2, 0]]),
    ("rot-symbolic-narrow-amount", [["cst", 32, 33], ["reg", "n", 5], ["rorh"]], 0, [["n", 5, 1]]),
    ("x-op-x", [["reg", "a", 32], ["reg", "b", 32], ["add"], ["reg", "a", 32], ["reg", "b", 32], ["add"], ["xor"]], 0, [["a", 32, 3], ["b", 32, 4]]),
]


def valmap(val):
    return {n: v for n, s, v in val}


class Run(object):
    """one generated (or corpus) script with everything observed on it."""
    pass


def actions_for(g, r, quick, nval):
    vals = g.valuations(nval)
    acts = [["build"], ["simplify", ""], ["simplify", "bitslice"], ["simplify", "widening"]]
    acts += [["eval", v] for v in vals]
    k = 3 if quick else 6
    acts += [["simpeval", "", v] for v in vals[5:5 + k]]
    acts += [["simpeval", "bitslice", v] for v in vals[1:1 + k]]
    # partial / symbolic environments: some registers bound to constants, some to expressions, some unbound
    regs = sorted(g.regs.items())
    for j in range(2):
        b = []
        for name, (size, _) in regs:
            q = r.random()
            if q < 0.4:
                b.append([name, size, [["cst", r.getrandbits(size), size]]])
            elif q < 0.75:
                other = "p%d_%s" % (j, name)
                sc = [["reg", other, size]]
                if r.random() < 0.5:
                    sc += [["cst", r.choice([0, 1, 3, (1 << size) - 1]), size], [r.choice(["add", "xor", "and", "sub"])]]
                if r.random() < 0.2 and size > 1:
                    k1 = r.randint(1, size - 1)
                    sc = [["reg", other + "l", k1], ["reg", other + "h", size - k1], ["compose", 2]]
                b.append([name, size, sc])
        b.append(["zz_", 8, [["cst", 0, 8]]])
        acts.append(["evalx", b])
    return acts, vals


def same(real, model, script, action=None):
    """'same' | 'drift' (equal up to sf flags of inner nodes, tolerated only when amoco itself shares
    objects; with an environment that binds a register to a compound expression the objects of that
    expression are shared by every evaluated occurrence — and possibly the result itself —, there the
    comparison is up to all sf flags) | 'diff'"""
    if real[0] != "ok" or not isinstance(model, list) or model[0] != "ok":
        return "same" if real[:2] == (model[:2] if isinstance(model, list) else None) else "diff"
    rd = R.strip_smask(real[1])
    if rd == model[1] and real[2] == model[2] and real[3] == model[3]:
        return "same"
    if real[2] == model[2] and real[3] == model[3] and R.strip_sf(rd) == R.strip_sf(model[1]):
        if real[4] or any(i[0] in SHARERS for i in script):
            return "drift"
    if action is not None and action[0] == "evalx" and any(len(b[2]) > 1 for b in action[1]):
        if real[2] == model[2] and real[3] == model[3] and R.strip_sf(rd, False) == R.strip_sf(model[1], False):
            return "drift"
    return "diff"


def part_keys(d):
    return sorted((p[0], p[1]) for p in d[3]) if isinstance(d, list) and d and d[0] == "comp" else None


def same_width(real, model):
    """the C12 view of the tie: outcome class, width of the result, and the part keys when it is a comp."""
    if real[0] != "ok" or not isinstance(model, list) or model[0] != "ok":
        return "same" if real[0] == (model[0] if isinstance(model, list) else None) else "diff"
    if real[3] == model[3] and part_keys(real[1]) == part_keys(model[1]):
        return "same"
    return "diff"


def has_vec(d):
    if isinstance(d, list):
        if d and d[0] in ("vec", "vecw"):
            return True
        return any(has_vec(x) for x in d)
    return False


# ---------------------------------------------------------------------------------------
# shrinking of failing scripts (for narrow signatures and readable replay files)
# ---------------------------------------------------------------------------------------

ARITY = {"cst": 0, "reg": 0, "ext": 0, "top": 0, "mem": 0, "signed": 1, "unsigned": 1, "neg": 1, "not": 1, "slice": 1, "bit": 1,
         "zext": 1, "sext": 1, "simp": 1, "simpb": 1, "tst": 3, "rawuop": 1, "rawslc": 1}


def arity(ins):
    if ins[0] in ("compose", "rawcomp"):
        return ins[1]
    return ARITY.get(ins[0], 2)


def spans(script):
    """for every instruction index k the start index of the sub-script that computes its result."""
    st = []
    start = [0] * len(script)
    for k, ins in enumerate(script):
        a = arity(ins)
        s = k
        for _ in range(a):
            s = st.pop()
        start[k] = s
        st.append(s)
    return start


def shrink(script, fails, rho, budget=150):
    """greedy: replace sub-scripts by a constant of their reference value / by one of their operands /
    drop modifiers, as long as `fails(script)` stays true."""
    cur = [list(i) for i in script]
    n = 0
    progress = True
    while progress and n < budget:
        progress = False
        start = spans(cur)
        order = sorted(range(len(cur)), key=lambda k: -(k - start[k]))
        for k in order:
            if n >= budget:
                break
            s = start[k]
            sub = cur[s:k + 1]
            if len(sub) == 1 and sub[0][0] in ("cst", "reg"):
                continue
            cands = []
            w = F.width(sub)
            if cur[k][0] in ("signed", "unsigned", "simp", "simpb"):
                cands.append(cur[s:k])
            if w is not None:
                rv = None
                try:
                    rv = F.evaluate(sub, [], rho)
                except Exception:
                    rv = None
                if rv is not None and len(rv[1]) == 1:
                    cands.append([["cst", list(rv[1])[0], w]])
                # operands of the same width
                a = arity(cur[k])
                e = k
                for _ in range(a):
                    ss = start[e - 1] if e - 1 >= 0 else 0
                    opnd = cur[ss:e]
                    if F.width(opnd) == w:
                        cands.append(opnd)
                    e = ss
            for c in cands:
                if len(c) >= len(sub):
                    continue
                trial = cur[:s] + [list(i) for i in c] + cur[k + 1:]
                n += 1
                try:
                    ok = fails(trial)
                except Exception:
                    ok = False
                if ok:
                    cur = trial
                    progress = True
                    break
            if progress:
                break
    return cur


def shape(script):
    """abstract shape of a (shrunk) script: operator names, leaves abstracted, constants classified."""
    out = []
    for ins in script:
        o = ins[0]
        if o == "cst":
            v, w = ins[1], ins[2]
            u = v & ((1 << w) - 1)
            if u == 0:
                c = "0"
            elif u == 1:
                c = "1"
            elif u == (1 << w) - 1:
                c = "-1"
            elif u >= w:
                c = "big"
            else:
                c = "k"
            out.append("c" + c + ("s" if v < 0 else ""))
        elif o in ("reg", "ext"):
            out.append("r")
        elif o == "mem":
            out.append("m" + ("be" if ins[4] == -1 else ""))
        elif o in ("slice", "bit", "zext", "sext", "compose", "rawslc", "rawcomp"):
            out.append(o)
        elif o in ("rawop", "rawuop"):
            out.append("raw-" + ins[1])
        else:
            out.append(o)
    return " ".join(out)


# ---------------------------------------------------------------------------------------

def run_check(prop, tier):
    ck = Check(prop, tier)
    quick = tier == "quick"
    want_c01 = prop == "C01"
    r = rng("expr")          # C01 and C12 look at the same generated population
    targets = ["Amoco.Props.%s" % prop, "drv_expr"]
    if prop == "C01":
        targets.insert(1, "Amoco.Props.C01Ext")      # soundness on the wider fragments (rotations, top results, root comparisons)
    broken = ck.build_and_audit(targets)
    if not quick and not broken:
        # independent kernel re-check of the compiled property modules and of the proof modules they rest on
        mods = ["Amoco.Props.%s" % prop, "Amoco.Proofs.ExprComp", "Amoco.Proofs.ExprWidth", "Amoco.Proofs.ExprEvalWidth"]
        if want_c01:
            mods += ["Amoco.Proofs.ExprBits", "Amoco.Proofs.ExprArith", "Amoco.Proofs.ExprCst", "Amoco.Proofs.ExprCompSem",
                     "Amoco.Proofs.ExprEvalSound", "Amoco.Proofs.ExprTableSem", "Amoco.Proofs.ExprSoundBase",
                     "Amoco.Proofs.ExprTablePres", "Amoco.Proofs.ExprSound", "Amoco.Proofs.ExprSoundOps",
                     "Amoco.Proofs.ExprSoundSlice", "Amoco.Proofs.ExprSoundBitslice", "Amoco.Proofs.ExprSoundEqn", "Amoco.Proofs.ExprSoundSimp"]
        p = subprocess.run(["lake", "env", "leanchecker"] + mods, cwd=LEAN, stdout=subprocess.PIPE, stderr=subprocess.STDOUT,
                           text=True, timeout=1800)
        ck.oblige("leanchecker " + " ".join(mods), p.returncode == 0, p.stdout[-1500:])
        if p.returncode != 0:
            broken.append("leanchecker failed: " + p.stdout[-1500:])
    drv = Driver("drv_expr")
    R.limit_memory()
    t_budget = (110 if quick else 1500)
    t0 = time.time()
    corr_broken = []
    nshrunk = [0]

    def report_oracle(kind, script, cx, action, real, model, expected, rho, decl, fails):
        """a failing input on the real code: shrink, sign, report."""
        small = script
        act = action[0] + ("." + action[1] if action[0] in ("simplify", "simpeval") and action[1] else "")
        shrunk = False
        if nshrunk[0] < (25 if quick else 100) and F.width(script) is not None:
            nshrunk[0] += 1
            try:
                small = shrink(script, fails, rho)
                shrunk = True
            except Exception:
                small = script
        # beyond the shrinking budget failing inputs are still reported, one line per kind and action
        sig = "%s:%s:%s:%s" % (prop, kind, act, shape(small) if shrunk or len(script) <= 6 else "(not shrunk)")
        if len(sig) > 300:
            sig = sig[:300]
        out2, d2, _ = R.run(small, action, cx)
        if kind in ("value", "raise") and rho:
            try:
                rv2 = F.evaluate(small, d2, rho)
                if rv2 is not None:
                    expected = "value in %s (width %d)" % (sorted(rv2[1])[:3], rv2[0])
            except Exception:
                pass
        theorem = {"value": "Amoco.C01.simplify_sound / eval_sound (correspondence + reference evaluator)",
                   "raise": "Amoco.C01.simplify_sound / eval_sound: the real code raises where the reference defines a value",
                   "width": "Amoco.C12.width_simplify / width_eval",
                   "compwf": "Amoco.C12.compWF_* (K-tie: Lean CompWF checker on the real comp)"}[kind]
        ck.report(sig, "%s on %s after %s (complexity %d): real %s, expected %s" %
                  (kind, json.dumps(small)[:400], json.dumps(action)[:120], cx, json.dumps(out2[:1] + out2[2:4])[:160], str(expected)[:120]),
                  "oracle", theorem, case={"script": small, "original": script, "action": action, "complexity": cx},
                  real=out2, model=model, expected=str(expected))

    def judge(script, cx, action, real, decl, model, vals, w):
        """property oracle on the real outcome.  returns True when a violation was reported."""
        if real[0] == "timeout":
            ck.count("real.timeout")
            return False
        if action[0] in ("eval", "simpeval"):
            rhos = [valmap(action[-1])]
        elif action[0] == "evalx":
            rhos = []
        else:
            rhos = [valmap(v) for v in vals]
        refs = []
        for rho in rhos:
            try:
                refs.append((rho, F.evaluate(script, decl, rho)))
            except Exception:
                refs.append((rho, None))
        for rho, rv in refs:
            ck.count("oracle.judged" if rv is not None else "oracle.not-judged")
        viol = False
        if want_c01 and action[0] == "simplify" and action[1] == "widening":
            # widening produces vec / vecw (C19's fragment): only widths are judged on it (C12)
            return False
        if want_c01:
            if real[0] == "raise":
                for rho, rv in refs:
                    if rv is not None:
                        if cx > 0 and isinstance(model, list) and model[0] == "raise":
                            # the same shortcut can decide a divisor: (T >= T) is bit1, ~bit1 is 0, x / 0 raises
                            m2 = drv.ask({"op": "expr.run", "script": script, "action": action, "cplx": cx, "topeq": False})
                            if isinstance(m2, list) and m2[0] == "ok":
                                ck.report("C01:value:top-hash-equality",
                                          "with the complexity threshold on, a comparison of two `top` operands is decided by "
                                          "hash(str)+size equality; here it makes a divisor 0 (script %s, complexity %d: real %s, reference %s)"
                                          % (json.dumps(script)[:300], cx, real, sorted(rv[1])[:2]),
                                          "oracle", "Amoco.C01 (apiExp hash-equality shortcut on `top`)",
                                          case={"script": script, "action": action, "complexity": cx}, real=real, model=model,
                                          expected=str(sorted(rv[1])[:2]))
                                viol = True
                                break
                        def fails(s2, rho=rho):
                            o2, d2, _ = R.run(s2, action, cx)
                            return o2[0] == "raise" and F.evaluate(s2, d2, rho) is not None
                        report_oracle("raise", script, cx, action, real, model, "value %s" % sorted(rv[1])[:2], rho, decl, fails)
                        viol = True
                        break
            elif real[0] == "ok" and real[1][0] == "cst":
                for rho, rv in refs:
                    if rv is not None and real[1][1] not in rv[1]:
                        if cx > 0 and isinstance(model, list) and model[0] == "ok" and R.strip_smask(real[1]) == model[1]:
                            # attribute to the hash-equality shortcut on two `top` operands: the model reproduces the
                            # wrong constant, and no longer does when that shortcut is switched off for tops
                            m2 = drv.ask({"op": "expr.run", "script": script, "action": action, "cplx": cx, "topeq": False})
                            if isinstance(m2, list) and m2[0] == "ok" and (m2[1][0] != "cst" or m2[1][1] in rv[1]):
                                ck.report("C01:value:top-hash-equality",
                                          "with the complexity threshold on, a comparison of two `top` operands is decided by "
                                          "hash(str)+size equality: e.g. (T1 != T1) is bit0 although the two unknowns differ "
                                          "(script %s, complexity %d: real %s, reference %s)"
                                          % (json.dumps(script)[:300], cx, real[2], sorted(rv[1])[:2]),
                                          "oracle", "Amoco.C01 (apiExp hash-equality shortcut on `top`)",
                                          case={"script": script, "action": action, "complexity": cx}, real=real, model=model,
                                          expected=str(sorted(rv[1])[:2]))
                                viol = True
                                break
                        def fails(s2, rho=rho):
                            o2, d2, _ = R.run(s2, action, cx)
                            rv2 = F.evaluate(s2, d2, rho)
                            return o2[0] == "ok" and o2[1][0] == "cst" and rv2 is not None and o2[1][1] not in rv2[1]
                        report_oracle("value", script, cx, action, real, model, sorted(rv[1])[:2], rho, decl, fails)
                        viol = True
                        break
        else:
            if real[0] == "ok" and w is not None and real[3] != w:
                def fails(s2):
                    o2, d2, _ = R.run(s2, action, cx)
                    w2 = F.width(s2)
                    return o2[0] == "ok" and w2 is not None and o2[3] != w2
                report_oracle("width", script, cx, action, real, model, "width %d" % w, {}, decl, fails)
                viol = True
        return viol

    def other_property_explains(script, cx, action, real, decl, vals, w):
        """a tie difference that the *other* property's oracle explains (C01 ⇄ C12) is left to that check."""
        if want_c01:
            return real[0] == "ok" and w is not None and real[3] != w
        if real[0] == "raise":
            # C01 reports a raise where the reference defines a value; where it defines none (memory leaves …) the
            # disagreement stays here
            for val in vals[:3]:
                try:
                    if F.evaluate(script, decl, valmap(val)) is not None:
                        return True
                except Exception:
                    pass
            return False
        return False

    compq = []   # (dump, script, action, cx) for the K-tie
    ktie = {"n": 0}

    def flush_ktie():
        """K-tie: the compiled checker `compWF` (sound: Amoco.C12.compWF_sound) on the comps of real results;
        done in batches so that a thorough run does not keep every dump in memory."""
        if not compq:
            return
        reqs = [{"op": "expr.compwf", "dump": d} for d, _, _, _ in compq]
        for (d, script, a, cx), ans in zip(compq, drv.ask_many(reqs)):
            ktie["n"] += ans.get("comps", 0)
            if ans.get("problems") and F.width(script) is None:
                # an ill-sized tree (a raw slice reaching beyond its operand …) is outside the property's
                # quantifier ("well-sized expression trees"): whatever it turns into is not judged
                ck.count("ktie.ill-sized-script-not-judged")
                continue
            if ans.get("problems"):
                sig = "C12:compwf:%s:%s" % (a[0], shape(script)[:200])
                ck.report(sig, "comp of a real result violates CompWF: %s (script %s)" % (ans["problems"][0], json.dumps(script)[:300]),
                          "checker", "Amoco.C12.compWF_sound (K-tie)", case={"script": script, "action": a, "complexity": cx},
                          real=d, model=ans)
        del compq[:]

    def process(script, cx, acts, vals, tag):
        w = F.width(script)
        reqs = [dict({"op": "expr.run", "script": script, "action": a, "cplx": cx},
                     **({"ideals": vals[:6]} if a[0] in ("build", "simplify") and a[-1] != "widening" else {})) for a in acts]
        models = drv.ask_many(reqs)
        nontriv = False
        timeouts = 0
        for a, m in zip(acts, models):
            if timeouts >= 2 or time.time() - t0 > t_budget + 40:
                ck.count("real.skipped-after-timeouts")
                continue
            real, decl, dirty = R.run(script, a, cx)
            if real[0] == "timeout":
                timeouts += 1
            ck.count("act.%s" % a[0] + ("." + a[1] if a[0] in ("simplify", "simpeval") and a[1] else ""))
            ck.count("real.%s" % (real[0] if real[0] != "ok" else "ok." + real[1][0]))
            if real[0] == "ok" and real[1][0] not in ("cst", "reg"):
                nontriv = True
            if dirty:
                ck.count("real.global-bit-singleton-mutated")
            v = judge(script, cx, a, real, decl, m, vals, w)
            if not want_c01:
                for dmid in R.last_mid:
                    compq.append((dmid, script, ["setpart-then-" + a[0]], cx))
            if real[0] == "ok" and not want_c01:
                if not want_c01:
                    compq.append((real[1], script, a, cx))
                    if len(compq) >= 400:
                        flush_ktie()
            if isinstance(m, str):
                ck.count("model." + m)
                continue
            if real[0] == "timeout":
                continue
            # second reference implementation: the Lean `ideal` of the model's result vs the Python reference of the script
            if want_c01 and isinstance(m, list) and m[0] == "ok" and len(m) > 4 and isinstance(m[4], list) and w is not None:
                for val, iv in zip(vals[:6], m[4]):
                    try:
                        rv = F.evaluate(script, decl, valmap(val))
                    except Exception:
                        rv = None
                    if rv is not None and iv is not None:
                        ck.count("lean-ideal.compared")
                        if iv not in rv[1]:
                            ck.count("lean-ideal.mismatch")
                            if not v and cx > 0:
                                m2 = drv.ask({"op": "expr.run", "script": script, "action": a, "cplx": cx, "topeq": False,
                                              "ideals": [val]})
                                if isinstance(m2, list) and m2[0] == "ok" and (m2[4] is None or m2[4][0] in rv[1]):
                                    ck.report("C01:value:top-hash-equality",
                                              "with the complexity threshold on, a comparison of two `top` operands is decided by "
                                              "hash(str)+size equality (script %s, complexity %d: result %s, reference %s)"
                                              % (json.dumps(script)[:300], cx, real[2] if real[0] == "ok" else real, sorted(rv[1])[:2]),
                                              "oracle", "Amoco.C01 (apiExp hash-equality shortcut on `top`)",
                                              case={"script": script, "action": a, "complexity": cx}, real=real, model=m,
                                              expected=str(sorted(rv[1])[:2]))
                                    v = True
                            if not v:
                                corr_broken.append((script, cx, a, real, m, "Lean ideal of the model result %r not among the reference values %r" % (iv, sorted(rv[1])[:2])))
                            break
            if a[0] == "simplify" and a[1] == "widening" or (real[0] == "ok" and has_vec(real[1])):
                # vec / vecw results are C19's fragment: only outcome class and size are compared here
                ok = (real[0] == m[0]) and (real[0] != "ok" or real[3] == m[3])
                ck.count("tie.widening-size-only")
                if not ok and not v and not dirty:
                    corr_broken.append((script, cx, a, real, m, "widening"))
                continue
            if want_c01:
                s = same(real, m, script, a)
            else:
                s = same_width(real, m)
            if s == "diff" and not v and real[0] == "ok" and isinstance(m, list) \
                    and ((m[0] == "ok" and real[3] == m[3]) or m[:2] == ["raise", "div0"]) \
                    and any(i[0].startswith("raw") for i in script):
                # a RAW node is not a fixpoint of simplify, and the real code simplifies operand OBJECTS in place
                # (op.simplify assigns self.l/self.r; `t == bit1` inside tst.simplify, extend, ... re-simplify an
                # object that is also held elsewhere): the real result can be MORE simplified than the functional
                # model's.  There the tie is semantic: same width, the real result judged by the reference
                # evaluator (above) and the Lean ideal value of the model result checked against it (above).
                # (The extra simplification can also remove a division — a sub-tree turned into `top` by the
                # threshold, `0 & (a/b)` folded on the second pass —, so that the model's evaluation divides by zero
                # where the real one does not.)
                s = "raw-inplace"
            ck.count("tie." + s)
            if s == "diff" and not v:
                if dirty:
                    ck.count("tie.diff-with-mutated-global-bit")
                elif other_property_explains(script, cx, a, real, decl, vals, w):
                    ck.count("tie.diff-explained-by-%s" % ("C12" if want_c01 else "C01"))
                else:
                    corr_broken.append((script, cx, a, real, m, tag))
        ck.case((script, cx), nontrivial=nontriv)

    # ---- corpus -------------------------------------------------------------------------------
    for name, script, cx, val in CORPUS:
        val = val + [["zz_", 8, 0]]
        acts = [["build"], ["simplify", ""], ["simplify", "bitslice"], ["eval", val], ["simpeval", "", val], ["simpeval", "bitslice", val]]
        process(script, cx, acts, [val], "corpus:" + name)
        ck.count("corpus")
    ck.sample({"corpus": CORPUS[0][1]})

    # ---- generated ----------------------------------------------------------------------------
    n = 0
    target = 2600 if quick else 80000
    while n < target and time.time() - t0 < t_budget:
        n += 1
        g = G.Gen(r, malformed=(r.random() < 0.03))
        script = g.script()
        cx = r.choice([0, 0, 0, 0, 10, 30, 5, 60])
        acts, vals = actions_for(g, r, quick, 16)
        ck.count("gen.mode-" + g.mode)
        ck.count("gen.complexity-%s" % ("off" if cx == 0 else "small"))
        ck.count("gen.len-%s" % ("<10" if len(script) < 10 else "<40" if len(script) < 40 else ">=40"))
        if F.width(script) is None:
            ck.count("gen.ill-sized")
        for ins in script:
            ck.count("op." + ins[0])
        process(script, cx, acts, vals, "gen")
        if n <= 3:
            ck.sample({"script": script, "complexity": cx})
    ck.cov["scripts"] = n

    # ---- K-tie: CompWF of real comps (C12) -------------------------------------------------------
    if not want_c01:
        flush_ktie()
        ck.cov["real_comps_checked"] = ktie["n"]
        ck.oblige("K-tie CompWF on %d real comps" % ktie["n"], True)
    drv.close()

    for b in broken:
        ck.report("%s:proof-obligation" % prop, "proof obligation broken: %s" % b[:300], "proof-obligation", b[:2000],
                  failing_input_found=False)
    if corr_broken:
        script, cx, a, real, m, tag = min(corr_broken, key=lambda c: len(c[0]))
        ck.report("%s:correspondence" % prop,
                  "model and code disagree on %d runs (smallest: %s after %s) and the property oracle finds no failing input there"
                  % (len(corr_broken), json.dumps(script)[:300], json.dumps(a)[:80]),
                  "correspondence", "correspondence Amoco.Model.Simplify/Eval ~ cas/expressions.py (%s)" % tag,
                  case={"script": script, "action": a, "complexity": cx}, real=real, model=m, failing_input_found=False)
    ck.oblige("correspondence model ~ real on build/simplify/eval", not corr_broken, "%d disagreements" % len(corr_broken))
    ck.assumptions += [
        "the Lean ideal value of a model result is compared with the reference evaluator only when the result is SignOK (both operands of every sign-dependent operator carry one flag): the real operators read each operand with its own flag, `ideal` reads both with the left one",
        "string-hash collisions of CPython are not modelled (exp.__eq__ compares hash(str)+size)",
        "object identity is not modelled: where amoco itself places one object at two positions (extend, rol, bitslice) results are compared up to the sf flags of inner nodes (counted as tie.drift); likewise, under an environment that binds a register to a compound expression, eval hands out the stored objects (a C09 concern) and results are compared up to sf flags",
        "raw (constructor-built, unsimplified) nodes are simplified in place by the real code, also as a side effect of comparisons inside simplify; when such an object is held at two places the real result can be more simplified than the functional model's: on scripts with raw nodes a structural difference with equal width and passing value oracles is counted as tie.raw-inplace",
        "memory leaves mem(reg+disp, size, endian): memory stays symbolic, scripts containing them are judged on widths only (no value oracle); simplify / slicing of them is tied by full-dump correspondence, eval (mapper memory reads: C02/C09) by the width oracle only",
        "vec/vecw results (widening) are compared by outcome class and size only (C19's fragment)",
        "shift amounts between 2^16 and 2^60 are not generated: the real code would compute `int << n` literally",
        "signed `/` and `%`: the oracle accepts floor and truncate; sign-dependent operators are judged only when every leaf below both operands carries the declared signedness",
    ]
    ck.trusted += ["harness/expr_real.py (dump of amoco objects)", "harness/expr_ref.py (reference semantics, independent of amoco)",
                   "compiled Lean driver drv_expr (evaluation of the model definitions; Float for complexity())"]
    return ck.finish("tree-shaped build scripts (expr_gen: widths {1,2,7,8,16,31,32,33,64,128}, <=5 registers, depth<=6, biased constants, "
                     "3 signedness modes, 3% ill-sized) x {build, simplify, simplify(bitslice), simplify(widening), eval under 16 total "
                     "valuations, simplify+eval, eval under 2 partial/symbolic environments}; distinct = script+complexity; "
                     "non-trivial = some result is neither a constant nor a register")
