"""one-off helper (never run by a check): keep in known_findings.d/<Cxx>.json only the entries that
runs on the unchanged /repo actually hit (KNOWN-FINDING lines of the given output files); entries for
defects that were repaired since, or that came from another tree, are dropped.
usage: audit_findings.py Cxx out1 out2 ...   (--dry to only print)"""
import sys, os, json, re
root = os.path.dirname(os.path.dirname(os.path.dirname(os.path.abspath(__file__))))
args = [a for a in sys.argv[1:] if a != "--dry"]
dry = "--dry" in sys.argv
prop, outs = args[0], args[1:]
hits = set()
for o in outs:
    for line in open(o, errors="replace"):
        if line.startswith("KNOWN-FINDING: property=%s " % prop):
            m = re.search(r"\[([^\[\]]*(?:\[[^\]]*\][^\[\]]*)*)\]\s*$", line.rstrip("\n"))
            if m:
                hits.add(m.group(1))
p = os.path.join(root, "known_findings.d", prop + ".json")
d = json.load(open(p))
keep = [e for e in d["findings"] if e["signature"] in hits]
drop = [e["signature"] for e in d["findings"] if e["signature"] not in hits]
print("%s: %d entries, %d hit in %d runs, %d dropped" % (prop, len(d["findings"]), len(keep), len(outs), len(drop)))
for s in drop[:400]:
    print("  drop", s[:150])
unknown = hits - {e["signature"] for e in d["findings"]}
if unknown:
    print("  (hit but listed elsewhere: %d)" % len(unknown))
if not dry:
    d["findings"] = keep
    json.dump(d, open(p, "w"), indent=1)
