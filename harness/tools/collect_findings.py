"""one-off helper (never run by a check): turn replay files of triaged genuine defects into
known_findings entries.  usage: collect_findings.py Cxx 'signature-regex' out.json "class description" """
import sys, os, json, re, glob
prop, rx, out, desc = sys.argv[1:5]
ALL = len(sys.argv) > 5 and sys.argv[5] == "--all"   # also entries whose evidence is a measured state change, not a diverging result
root = os.path.dirname(os.path.dirname(os.path.dirname(os.path.abspath(__file__))))
sys.path.insert(0, os.path.join(root, "harness"))
import common
NOW = common.tree_id()
assert NOW["repo"] == "/repo" and not NOW["modified"], "collect only from the unchanged /repo: %r" % (NOW,)
ent = {}
if os.path.exists(out):
    for f in json.load(open(out))["findings"]:
        ent[f["signature"]] = f
for p in sorted(glob.glob(os.path.join(root, "replays", prop + "-*.json"))):
    r = json.load(open(p))
    if r.get("tree") != NOW:
        continue        # produced on another tree (a seeded worktree, an older HEAD) or before trees were recorded
    if (r.get("failing_input_found") or ALL) and re.search(rx, r["signature"]) and r["signature"] not in ent:
        ent[r["signature"]] = {"property": prop, "signature": r["signature"], "class": desc, "what": r["what"][:400], "input": r.get("case")}
json.dump({"findings": [ent[k] for k in sorted(ent)]}, open(out, "w"), indent=1)
print(len(ent), "entries")
