#!/usr/bin/env python3
"""save_seed.py <prop> <out dir> <k> <new index> <try log> [caught_by]  — file a confirmed seeded change under seeded/<prop>_<index>/"""
import sys, os, re, json, shutil
prop, out, k, idx, log = sys.argv[1:6]
caught_by = sys.argv[6] if len(sys.argv) > 6 else prop
d = os.path.join(os.path.dirname(os.path.abspath(__file__)), "..", "..", "seeded", "%s_%s" % (prop, idx))
d = os.path.normpath(d)
os.makedirs(d, exist_ok=True)
for src, dst in (("patch%s.diff" % k, "patch.diff"), ("demo%s.py" % k, "demo.py"), ("notes%s.md" % k, "notes.md")):
    shutil.copy(os.path.join(out, src), os.path.join(d, dst))
t = open(log).read()
tests = re.search(r"(\d+ passed[^\n]*?) in ", t)
demo0 = re.search(r"== demo on unchanged tree:\nexit (\d+)", t)
demo1 = re.search(r"== demo with change:\n(.*?)\nexit", t, re.S)
viol = re.findall(r"VIOLATION[^\n]*\n\s+([^\n]*)", t)
summ = re.search(r"^C\d\d (quick|thorough):[^\n]*", t, re.M)
meta = {
    "property": prop,
    "origin": "independent sub-agent given only the property text, a list of earlier seeds to avoid, and a scratch worktree of /repo",
    "what_it_needs": "see notes.md (written by the seeding agent)",
    "confirmed_by_integrator": {
        "applies": "does not apply" not in t,
        "test_suite_with_change": tests.group(1) if tests else None,
        "demo_without_change": "PASS (exit %s)" % demo0.group(1) if demo0 else None,
        "demo_with_change": ("FAIL: " + demo1.group(1).strip().splitlines()[-1][:300]) if demo1 else None,
    },
    "ran": "harness/tools/try_seed.sh %s %s %s" % (caught_by, out, k),
    "caught_by": caught_by if viol else None,
    "how": ("quick; " + " | ".join(v[:240] for v in viol[:3])) if viol else "MISSED",
    "check_summary": summ.group(0) if summ else None,
}
json.dump(meta, open(os.path.join(d, "meta.json"), "w"), indent=1)
print(d, "caught" if viol else "MISSED", "(no-failing-input-found)" if "no-failing-input-found" in t and len(viol) == t.count("no-failing-input-found") else "")
