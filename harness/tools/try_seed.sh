#!/bin/sh
# usage: try_seed.sh <property id> <out dir> <k> [tier]   — confirm a seeded change and run our check against it
ID=$1; OUT=$2; K=$3; TIER=${4:-quick}
P=$OUT/patch$K.diff; D=$OUT/demo$K.py
test -f $OUT/patch.diff && { P=$OUT/patch.diff; D=$OUT/demo.py; }
WT=/tmp/int/seedwt_${ID}_$K
rm -rf $WT; git -C /repo worktree prune; git -C /repo worktree add -q $WT HEAD || exit 2
cd $WT
echo "== demo on unchanged tree:"; PYTHONPATH=$WT /venv/bin/python $D >/dev/null 2>&1; echo "exit $?"
git apply $P || { echo "patch does not apply"; exit 2; }
echo "== tests with change:"; PYTHONPATH=$WT /venv/bin/python -m pytest -q -p no:cacheprovider tests 2>&1 | tail -1
echo "== demo with change:"; PYTHONPATH=$WT /venv/bin/python $D 2>&1 | tail -2; echo "exit $?"
echo "== our check:"; cd /verif; AMOCO_REPO=$WT ./check $ID --tier $TIER 2>&1 | grep -E "VIOLATION|quick:|thorough:|^   " | cut -c1-260 | head -12
git -C /repo worktree remove --force $WT
# the translator-based checks regenerate lean/Generated from the tree they ran against: put the committed
# (unchanged /repo) version back
git -C /verif checkout -- lean/Generated 2>/dev/null
