"""
C19 — Merging two maps over-approximates both.

Theorems (lean/Amoco/Props/C19.lean): vecSimplify_covers (vec.simplify never loses an alternative,
for every widening flag / complexity threshold), merge_entry_covers / merge_covers (every entry of
merge(m1, m2) covers the value of the location in both maps — the written value or the untouched
input —, flags become top), merge_keys (exactly the locations written by either map).
Tie (correspondence, every run): random pairs of maps over registers (plain and flag registers, values:
constants, registers, small operator trees, slices, vectors from earlier merges), with and without
path conditions, merged by the real `amoco.cas.mapper.merge` under every widening / complexity setting
vs the model on canonical dumps (leaves = renderings, complexity scaled exactly); `vec.simplify` alone
on random child lists.  Pointer (memory) locations are covered by the oracle only (partial); store-size
asymmetries between the two maps on the ordinary-pointer and the vector-pointer paths of merge are driven
systematically and judged byte by byte by harness/c19_extra.py.
Oracle (property-level, independent of the model): for random concrete states, the value each map gives
a location must be among the evaluated alternatives of the merged value, or the merged value is
unknown (top / widened); locations written by neither map must be absent.
"""
import sys
from fractions import Fraction
from common import *
fresh_amoco()
from amoco.cas.expressions import *
from amoco.cas.expressions import complexity
from amoco.cas.mapper import mapper, merge
from amoco.config import conf
import c19_extra

SCALE = 729
REGS = [reg(n, 32) for n in ("a", "b", "c", "d", "e")]
FLAGS = [is_reg_flags(reg(n, 32)) for n in ("zf", "cf")]
SMALL = [reg(n, 8) for n in ("p", "q")]


def rnd_expr(r, depth=2, size=32):
    k = r.random()
    if depth == 0 or k < 0.25:
        if r.random() < 0.5:
            return cst(r.choice([0, 1, 2, 3, 0x1000, 0xffffffff, r.getrandbits(32)]) & ((1 << size) - 1), size)
        regs = [x for x in REGS + FLAGS if x.size == size] or [reg("t%d" % size, size)]
        return r.choice(regs)
    if k < 0.75:
        o = r.choice(["+", "-", "&", "|", "^", "*"])
        return oper(o, rnd_expr(r, depth - 1, size), rnd_expr(r, depth - 1, size))
    if k < 0.85:
        return ~rnd_expr(r, depth - 1, size)
    if k < 0.93 and size == 32:
        x = rnd_expr(r, depth - 1, 32)
        return composer([x[0:16], rnd_expr(r, 0, 16)])
    return rnd_expr(r, depth - 1, size) >> r.choice([1, 4, 31])


def scaled(x):
    if x != x or x in (float("inf"), float("-inf")):
        return None
    f = Fraction(x).limit_denominator(10 ** 6) * SCALE
    return int(f) if f.denominator == 1 else None


def unwrap(e):
    """the mapper stores a register's value as a one-part composite: look through it"""
    while e._is_cmp and len(e.parts) == 1 and list(e.parts.keys())[0] == (0, e.size):
        e = list(e.parts.values())[0]
    return e


def dump_mv(e):
    """canonical MV of a real (already simplified) value; None if outside the model's fragment"""
    e = unwrap(e)
    if isinstance(e, vecw):
        ls = [dump_leaf(x) for x in e.l]
        return None if any(x is None for x in ls) else ["vecw", ls]
    if e._is_top:
        return ["top"]
    if e._is_vec:
        ls = [dump_leaf(x) for x in e.l]
        return None if any(x is None for x in ls) else ["vec", ls]
    l = dump_leaf(e)
    return None if l is None else ["leaf", l]


def dump_leaf(e):
    if e._is_vec or e._is_top:
        return None
    c = scaled(complexity(e))
    if c is None:
        return None
    # amoco's `==` on constants compares values (cst(-1) == cst(0xffffffff)); otherwise renderings
    return ["%#x" % (e.v & ((1 << e.size) - 1)) if e._is_cst else str(e), c]


def strip(mv):
    """model/real MV without complexities"""
    if mv[0] in ("vec", "vecw"):
        return [mv[0], [x[0] if isinstance(x, list) else x for x in mv[1]]]
    if mv[0] == "leaf":
        return ["leaf", mv[1][0] if isinstance(mv[1], list) else mv[1]]
    return ["top"]


def rnd_map(r, with_vec=True):
    m = mapper()
    locs = r.sample(REGS + FLAGS, r.randint(1, 4))
    for l in locs:
        if with_vec and r.random() < 0.2:
            v = vec([rnd_expr(r, 1), rnd_expr(r, 1), rnd_expr(r, 0)]).simplify()
        else:
            v = rnd_expr(r, r.choice([0, 1, 2]))
        m[l] = v
    # memory locations through pointer registers: overlapping writes, re-writes, and (on top of an
    # earlier merge) a pointer register that is itself a vector of bases
    if r.random() < 0.6:
        bases = [REGS[0], REGS[1]]
        if r.random() < 0.25:
            y = REGS[4]
            m[y] = vec([REGS[0], REGS[1]])
            bases = [y]
        if r.random() < 0.2:
            # write, overlapping write at another address, re-write of the first location
            b = r.choice(bases)
            for d in (0, 2, 0):
                try:
                    m[mem(b, 32, disp=d)] = rnd_expr(r, 0, 32)
                except Exception:
                    pass
        for _ in range(r.choice([1, 2, 3, 3])):
            b = r.choice(bases)
            sz = r.choice([8, 16, 32, 32])
            try:
                m[mem(b, sz, disp=r.choice([0, 0, 2, 4]))] = rnd_expr(r, r.choice([0, 1]), sz)
            except Exception:
                pass
    if r.random() < 0.3:
        x = r.choice(REGS)
        m = m.assume([x == cst(r.choice([0, 3, 7]), 32)] + ([r.choice(REGS) > cst(0, 32)] if r.random() < 0.5 else []))
    return m


def concrete(r):
    st = mapper()
    vals = {}
    for k, x in enumerate(REGS + FLAGS):
        v = r.choice([0, 1, 3, 7, 0x1000, 0x7fffffff, 0xffffffff, r.getrandbits(32)])
        if k < 2:
            v = 0x1000 * (k + 1) + r.choice([0, 0, 2])   # pointer registers: never aliased (the default no-aliasing assumption)
        st[x] = cst(v, 32)
        vals[x.ref] = v
    for base in (0x1000, 0x2000):
        for off in range(0, 16, 4):
            st[mem(cst(base + off, 32), 32)] = cst(r.getrandbits(32), 32)
    return st, vals


def ev(st, e):
    """value of expression e in concrete state st: int, or None if it does not reduce"""
    try:
        v = st(e).simplify() if hasattr(st(e), "simplify") else st(e)
    except Exception:
        return "raise"
    if v._is_cst:
        return v.v & ((1 << v.size) - 1)
    return None


def cands(st, e, limit=256):
    """set of concrete values an (evaluated) expression may take in state st; None = unknown/undecided.
    Vectors are unions, composites of vectors are products of their parts' candidates."""
    import itertools
    e = unwrap(e)
    if not e._is_def:
        return None
    if e._is_vec:
        out = set()
        for x in e.l:
            c = cands(st, x, limit)
            if c is None:
                return None
            out |= c
        return out
    if e._is_cmp:
        parts = []
        for (lo, hi), p in sorted(e.parts.items()):
            c = cands(st, p, limit)
            if c is None:
                return None
            parts.append((lo, hi, c))
        n = 1
        for _, _, c in parts:
            n *= len(c)
        if n > limit:
            return None
        out = set()
        for combo in itertools.product(*[sorted(c) for _, _, c in parts]):
            v = 0
            for (lo, hi, _), pv in zip(parts, combo):
                v |= (pv & ((1 << (hi - lo)) - 1)) << lo
            out.add(v)
        return out
    v = ev(st, e)
    if v is None or v == "raise":
        # maybe a composite/vector appears only after substitution
        try:
            x = st(e)
        except Exception:
            return None
        x = unwrap(x)
        if x is not e and (x._is_vec or x._is_cmp) :
            return cands(st, x, limit)
        return None
    return {v}


def cond_holds(st, m):
    for c in m.conds:
        try:
            cc = st(c)
        except Exception:
            return False
        if not (cc._is_cst and cc.v == 1):
            return False
    return True


def self_check_memory(ck, r, st, which, a1, a2, loc, sub, mval, own, mv, widening, where, mm=None):
    ck.count("merge.oracle.memory-location")
    if own._is_top or mv._is_top:
        return
    wants = cands(st, own)
    got = cands(st, mv)
    if wants is None or got is None:
        ck.count("merge.oracle.memory.undecided")
        return
    for want in sorted(wants):
        if want not in got:
            # classes: widening; the pointer's base register is itself written by a map
            # (the location then moves between the two maps); the two maps write the
            # same pointer with different sizes
            def writes_base(mp):
                return any((not l._is_ptr) and str(l) in str(loc.base) for l, _ in mp)
            def size_of(mp):
                return [v.size for l, v in mp if l._is_ptr and str(l) == str(loc)]
            def vec_store_on_base(mp):
                # a store through a vector-valued pointer one of whose alternatives is this location's base:
                # the map itself treats it as written at every alternative, merge as one of them
                # (alternatives that are not plain registers, or a constant base, may alias it under the state)
                return any(l._is_ptr and l.base._is_vec and l is not loc and
                           any(str(x) == str(loc.base) or not x._is_reg or not loc.base._is_reg for x in l.base.l) for l, _ in mp)
            if vec_store_on_base(a1) or vec_store_on_base(a2):
                ck.count("merge.oracle.memory.vector-pointer-store-may-alias-not-judged")
                return
            if writes_base(a1) or writes_base(a2):
                # the pointer's base register is rewritten by one of the maps: "the same
                # location" is then not the same address in both maps; not judged
                ck.count("merge.oracle.memory.base-rewritten-not-judged")
                return
            cls = []
            undef_near = mm is not None and any(l._is_ptr and str(l.base) == str(loc.base) and not unwrap(v)._is_def for l, v in mm)
            if not unwrap(mval)._is_def or undef_near:
                # merge stored `top` / a widened vector for the location, but memory hands
                # back the untouched input instead of 'unknown'
                cls.append("undefined-value-reads-back-as-untouched-memory")
            else:
                if len(set(size_of(a1) + size_of(a2))) > 1: cls.append("size-mismatch")
                stores1 = any(l._is_ptr for l, _ in a1)
                stores2 = any(l._is_ptr for l, _ in a2)
                if stores1 and stores2:
                    # merge replays the stores location by location, the first map's locations first:
                    # overlapping stores of the two maps may be re-ordered.  The shape of the overlap is
                    # part of the signature, so that a known failure of one shape does not hide another
                    def ivs(mp):
                        out = []
                        for l, v in mp:
                            if l._is_ptr and str(l.base) == str(loc.base) and not l.base._is_vec:
                                out.append((l.disp, l.disp + v.size // 8))
                        return out
                    def ov(x, y):
                        return x[0] < y[1] and y[0] < x[1]
                    i1, i2 = ivs(a1), ivs(a2)
                    selfov = any(ov(x, y) for I in (i1, i2) for k, x in enumerate(I) for y in I[k + 1:])
                    cross = [(x, y) for x in i1 for y in i2 if ov(x, y)]
                    if selfov:
                        shape = "a-map-overlaps-its-own-stores"
                    elif not cross:
                        shape = "disjoint"
                    elif all(x == y for x, y in cross):
                        shape = "same-location"
                    elif all(x[0] == y[0] for x, y in cross):
                        shape = "same-start"
                    elif all((x[0] <= y[0] and y[1] <= x[1]) or (y[0] <= x[0] and x[1] <= y[1]) for x, y in cross):
                        shape = "contained"
                    else:
                        shape = "straddling"
                    cls.append("both-maps-store:" + shape)
                elif any(l._is_ptr and str(l) != str(loc) for mp in (a1, a2) for l, _ in mp):
                    cls.append("one-map-stores")
            ck.report("C19:merge:memory-not-covered:" + ("+".join(cls) or "plain"), "merge(m1,m2)[%s] = %s does not cover map %d's value %#x" % (sub, mv, which, want),
                      "oracle", "Amoco.Merge.Props.merge_entry_covers (memory location: oracle only)", case=dict(where, loc=str(loc)), real=str(mv), expected=want)


def main(tier):
    ck = Check("C19", tier)
    quick = tier == "quick"
    r = rng("C19")
    broken = ck.build_and_audit(["Amoco.Props.C19", "amoco_driver"])
    drv = Driver()
    ties = []
    saved = conf.Cas.complexity
    settings = [(False, 0), (True, 0), (False, 9), (False, 30), (True, 9)]
    n = 250 if quick else 8000
    try:
        # ---- vec.simplify alone --------------------------------------------------------------------
        for t in range(n):
            widening, thr = r.choice(settings)
            conf.Cas.complexity = thr
            kids = []
            for _ in range(r.randint(1, 5)):
                k = r.random()
                if k < 0.6:
                    kids.append(rnd_expr(r, r.choice([0, 1, 2])))
                elif k < 0.8:
                    kids.append(vec([rnd_expr(r, 1), rnd_expr(r, 0)] + [rnd_expr(r, 1) for _ in range(r.choice([0, 0, 1, 2]))]))
                elif k < 0.9:
                    kids.append(top(32))
                else:
                    kids.append(vecw(vec([rnd_expr(r, 0), rnd_expr(r, 1)])))
            if r.random() < 0.3 and kids:
                kids.append(kids[0])      # duplicates
            try:
                # children as the code sees them after `e.simplify()`
                simp_kids = [k.simplify() for k in kids]
                dk = [dump_mv(k) for k in simp_kids]
                real = vec(list(kids)).simplify(widening=widening)
                rd = dump_mv(real)
            except Exception as ex:
                ck.count("vec.raises-%s" % type(ex).__name__)
                continue
            ck.case(("vec", tuple(map(str, kids)), widening, thr), nontrivial=len(kids) > 1)
            ck.count("vec.widening=%s.thr=%s" % (widening, thr))
            if rd is None or any(x is None for x in dk):
                ck.count("vec.outside-fragment")
                continue
            ck.count("vec.result-%s" % rd[0])
            mod = drv.ask({"op": "merge.vec", "children": dk, "thr": thr * SCALE, "widening": widening})
            # oracle: every alternative's value is covered
            st, _ = concrete(r)
            bad = None
            if rd[0] in ("leaf", "vec"):
                alts = [real] if rd[0] == "leaf" else list(real.l)
                got = set(ev(st, a) for a in alts)
                for k in simp_kids:
                    for a in (k.l if (k._is_vec and not k._is_top) else ([k] if k._is_def else [])):
                        v = ev(st, a)
                        if v is not None and v != "raise" and v not in got and None not in got:
                            bad = (str(a), v)
            if any(not k._is_def for k in simp_kids) and real._is_def:
                # an alternative that is 'unknown' (top, or a widened vector) makes the whole value unknown:
                # a definite list of alternatives would exclude values the unknown one stands for
                ck.report("C19:vec.simplify:lost-unknown", "vec(%s).simplify(widening=%s) [threshold %s] = %s is definite although an alternative is unknown" % (
                    [str(k) for k in kids], widening, thr, real), "oracle", "Amoco.Merge.Props.vecSimplify_covers",
                    case={"children": [str(k) for k in kids], "widening": widening, "threshold": thr}, real=str(real), model=mod)
            elif bad:
                ck.report("C19:vec.simplify:lost-alternative", "vec(%s).simplify(widening=%s) [threshold %s] = %s loses alternative %s" % (
                    [str(k) for k in kids], widening, thr, real, bad[0]), "oracle", "Amoco.Merge.Props.vecSimplify_covers",
                    case={"children": [str(k) for k in kids], "widening": widening, "threshold": thr}, real=str(real), model=mod)
            elif strip(mod) != strip(rd):
                ties.append(("vec.simplify", {"children": [str(k) for k in kids], "widening": widening, "threshold": thr}, strip(rd), strip(mod)))
            if t == 0:
                ck.sample({"vec": [str(k) for k in kids], "widening": widening, "threshold": thr, "real": str(real), "model": mod})
        # ---- merge -----------------------------------------------------------------------------------
        for t in range(n):
            widening, thr = r.choice(settings)
            conf.Cas.complexity = thr
            m1, m2 = rnd_map(r), rnd_map(r)
            pat = r.random()
            if pat < 0.15:
                # one map with write / overlapping write elsewhere / re-write, the other registers only
                mA, mB = mapper(), mapper()
                b = r.choice(REGS[:2])
                d0 = r.choice([0, 4])
                for d in (d0, d0 + 2, d0):
                    mA[mem(b, 32, disp=d)] = rnd_expr(r, 0, 32)
                mB[r.choice(REGS[2:4])] = rnd_expr(r, 1)
                m1, m2 = (mA, mB) if r.random() < 0.5 else (mB, mA)
            elif pat < 0.30:
                # a store through a pointer that is itself a vector of bases (as after an earlier merge)
                mA, mB = mapper(), mapper()
                d = r.choice([0, 2, 4, 4])
                if r.random() < 0.7:
                    mA[mem(r.choice(REGS[:2]), 32, disp=d)] = rnd_expr(r, 0, 32)
                else:
                    mA[REGS[2]] = rnd_expr(r, 1)
                y = REGS[4]
                mB[y] = vec([REGS[0], REGS[1]])
                mB[mem(y, 32, disp=d)] = rnd_expr(r, 0, 32)
                m1, m2 = (mA, mB) if r.random() < 0.5 else (mB, mA)
            elif pat < 0.42:
                # the same writes on both paths, under different path conditions (as two branches that
                # rejoin): the conditions are attached the way the engine attaches them
                body = []
                x = r.choice(REGS[2:])
                for l in r.sample(REGS + FLAGS, r.randint(1, 3)):
                    body.append((l, rnd_expr(r, r.choice([0, 1, 2])) + (x if r.random() < 0.7 else 0)))
                if r.random() < 0.6:
                    body.append((mem(r.choice(REGS[:2]), 32, disp=r.choice([0, 4])), rnd_expr(r, 1, 32) ^ x))
                mA, mB = mapper(), mapper()
                for l, v in body:
                    try:
                        mA[l] = v
                        mB[l] = v
                    except Exception:
                        pass
                c1, c2 = r.sample([0, 3, 7, 0x1000, 0xffffffff], 2)
                mA.conds = [x == cst(c1, 32)] if r.random() < 0.8 else [x > cst(5, 32)]
                mB.conds = [x == cst(c2, 32)] if r.random() < 0.8 else [x <= cst(5, 32)]
                m1, m2 = mA, mB
            elif pat < 0.54:
                # stores through the same base that straddle one another (start inside the other map's
                # store and end beyond it), and the other inclusion / adjacency shapes
                mA, mB = mapper(), mapper()
                b = r.choice(REGS[:2])
                sa, sb = r.choice([8, 16, 32]), r.choice([8, 16, 32])
                da = r.choice([0, 2, 4])
                db = da + r.choice([-1, 1, 1, 2, 3, -2, 0])
                if db < 0:
                    db = da + 1
                mA[mem(b, sa, disp=da)] = rnd_expr(r, 0, sa)
                mB[mem(b, sb, disp=db)] = rnd_expr(r, 0, sb)
                if r.random() < 0.3:
                    mB[r.choice(REGS[2:4])] = rnd_expr(r, 1)
                m1, m2 = (mA, mB) if r.random() < 0.5 else (mB, mA)
            try:
                mm = merge(m1, m2, widening=widening)
            except Exception as ex:
                ck.count("merge.raises-%s" % type(ex).__name__)
                continue
            ck.case(("merge", str(m1), str(m2), widening, thr), nontrivial=True)
            ck.count("merge.widening=%s.thr=%s" % (widening, thr))
            where = {"m1": str(m1), "m2": str(m2), "widening": widening, "threshold": thr, "conds": [str(m1.conds), str(m2.conds)]}
            # ---- oracle: coverage under concrete states that satisfy the maps' conditions ---------------
            # the maps' own values are read from the maps themselves; `assume` (which rebuilds a map by
            # replaying its entries) is only used when there are path conditions to apply
            a1 = m1.assume(m1.conds) if m1.conds else m1
            a2 = m2.assume(m2.conds) if m2.conds else m2
            written = set(str(l) for l, _ in a1) | set(str(l) for l, _ in a2)
            got_locs = set(str(l) for l, _ in mm)
            regs_only = lambda S: set(x for x in S if not x.startswith("("))
            if regs_only(got_locs) != regs_only(written):
                ck.report("C19:merge:locations", "merge writes %s, the two maps write %s" % (sorted(got_locs), sorted(written)), "oracle",
                          "Amoco.Merge.Props.merge_keys", case=where, real=sorted(got_locs), expected=sorted(written))
            for k4 in range(4):
                st, _ = concrete(r)
                if k4 < 2:
                    # steer the state into the path of one of the maps (register == constant conditions)
                    for c in (m1.conds, m2.conds)[k4]:
                        if getattr(c, "_is_eqn", False) and c.op.symbol == "==" and c.l._is_reg and c.r._is_cst:
                            st[c.l] = c.r
                for which, a in ((1, a1), (2, a2)):
                    if not cond_holds(st, a):
                        continue
                    # every location of the merged map, and every memory location the map itself wrote
                    # (a store that merge dropped is read back from the merged map all the same)
                    seen = set(str(l) + "/%d" % v.size for l, v in mm if l._is_ptr)
                    extra = [(l, v) for l, v in a if l._is_ptr and (str(l) + "/%d" % v.size) not in seen]
                    for loc, mval in list(mm) + extra:
                        if loc._is_reg and (loc.etype & regtype.FLAGS) and not a.has(loc):
                            continue
                        if loc._is_ptr:
                            if not conf.Cas.noaliasing:
                                continue
                            # a pointer whose base is a vector of bases stands for one location per base
                            sublocs = [mem(l, mval.size, loc.seg, loc.disp) for l in loc.base.l] if loc.base._is_vec else [mem(loc, mval.size)]
                            if loc.base._is_vec and sum(1 for mp in (a1, a2) for l, _ in mp if l._is_ptr and l.base._is_vec) > 1:
                                # several stores through vector-valued pointers: what each map itself holds at the
                                # sub-locations is not well defined (the map's own read-back disagrees with its
                                # store order); only a single such store is judged
                                ck.count("merge.oracle.memory.several-vector-pointer-stores-not-judged")
                                continue
                            for sub in sublocs:
                              try:
                                own = unwrap(a[sub])
                                mv = unwrap(mm[sub])
                              except Exception:
                                continue
                              self_check_memory(ck, r, st, which, a1, a2, loc, sub, mval, own, mv, widening, where, mm)
                            continue
                        if False:
                            try:
                                pass
                            except Exception:
                                continue
                        own = unwrap(a[loc])
                        if own._is_top:
                            continue
                        # every alternative of the map's own value must be covered
                        wants = [ev(st, x) for x in (own.l if own._is_vec else [own])]
                        mv = unwrap(mm[loc])
                        if mv._is_top:
                            continue
                        alts = list(mv.l) if mv._is_vec else [mv]
                        got = set(ev(st, x) for x in alts)
                        for want in wants:
                          if want is not None and want != "raise" and want not in got and None not in got and "raise" not in got:
                            ck.report("C19:merge:not-covered", "merge(m1,m2)[%s] = %s does not cover map %d's value %#x" % (loc, mv, which, want),
                                      "oracle", "Amoco.Merge.Props.merge_entry_covers", case=dict(where, loc=str(loc)), real=str(mv), expected=want)
            # ---- model correspondence on register locations, values pre-simplified by the real code -------
            def dmap(a):
                out = []
                for loc, v in a:
                    if loc._is_ptr:
                        return None
                    d = dump_mv(unwrap(v).simplify(widening=widening))
                    if d is None:
                        return None
                    out.append([str(loc), bool(loc._is_reg and (loc.etype & regtype.FLAGS)), d])
                return out
            try:
                d1, d2 = dmap(a1), dmap(a2)
            except Exception:
                d1 = None
            if d1 is None or d2 is None:
                ck.count("merge.outside-fragment")
                continue
            mod = drv.ask({"op": "merge.map", "m1": d1, "m2": d2, "thr": thr * SCALE, "widening": widening})
            real = []
            ok = True
            for loc, v in mm:
                d = dump_mv(v)
                if d is None:
                    ok = False
                    break
                real.append([str(loc), strip(d)])
            if not ok:
                ck.count("merge.outside-fragment")
                continue
            if isinstance(mod, dict) or [[k, strip(v)] for k, v in mod] != real:
                ties.append(("merge", where, real, mod))
            if t == 0:
                ck.sample({"merge": where, "real": real, "model": mod})
        # ---- store-size asymmetries on the plain-pointer and the vector-pointer paths, byte-wise oracle ----
        c19_extra.explore(ck, rng("C19.store-sizes"), 60 if quick else 3000)
    finally:
        conf.Cas.complexity = saved
    drv.close()
    for b in broken:
        ck.report("C19:proof-obligation", "proof obligation broken: %s" % b[:300], "proof-obligation", b[:2000], failing_input_found=False)
    if ties:
        what, case, real, mod = ties[0]
        ck.report("C19:correspondence", "%d disagreements between model and code without a property failure (first: %s)" % (len(ties), what),
                  "correspondence", "correspondence Amoco.Merge ~ vec.simplify / mapper.merge (%s)" % what, case=case, real=real, model=mod,
                  failing_input_found=False)
    ck.oblige("correspondence vec.simplify / merge", not ties, "%d" % len(ties))
    ck.assumptions += ["simplification of vec-free expressions is sound (C01) and equal renderings mean equal values (hypothesis heq)",
                       "pointer (memory) locations and vector-valued bases in merge: oracle only (partial)"]
    ck.trusted += ["harness/c19.py dumps (renderings as leaves, exact scaled complexity)", "compiled Lean driver"]
    return ck.finish("vec.simplify on random child lists (definite terms, nested vecs, top, widened, duplicates) and merge of random map pairs over 5 registers + 2 flag registers, "
                     "with/without path conditions, under 5 widening/complexity settings; 4 concrete states per pair for the coverage oracle. "
                     "Store-size pass (harness/c19_extra.py, buckets asym.*): one or two stores per map relative to the same pointer — ordinary, a literal vector of bases, "
                     "a register holding a vector of bases — every ordered pair of sizes 8/16/32/64 at the same start and at a shifted start (contained, straddling, adjacent), "
                     "a map overlapping its own earlier store, both argument orders, widening on and off plus a complexity threshold; every byte either map writes "
                     "(and a byte on either side) at every candidate address is read from the merged map and from both maps and compared on a concrete state")


def replay(path):
    rec = json.load(open(path))
    if isinstance(rec.get("case"), dict) and "spec" in rec["case"]:
        return c19_extra.main(path)
    print(json.dumps(rec, indent=1)[:20000])
    print("(no automatic replay for this case: re-run `./check C19` with VERIF_SEED=%s to regenerate it)" % rec.get("seed"))
    return 0


if __name__ == "__main__":
    sys.exit(main(sys.argv[1] if len(sys.argv) > 1 else "quick"))
