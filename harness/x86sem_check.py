"""
x86sem_check.py — C06, x86 half: the bodies of the integer ALU semantics functions of amoco/arch/x64/asm.py and
amoco/arch/x86/asm.py (ADD SUB CMP AND OR XOR TEST INC DEC NEG NOT ADC SBB) inside the Lean model.

    run(ck, tier, corr_broken)      # ck is the common.Check of C06

  T  translate_x86.py regenerates lean/Generated/X86Sem.lean from the current source; `lake build
     Amoco.Props.C06X86 drv_x86sem` re-checks `x86_generated_eq_expected` (kernel decide) and with it
     `x86_generated_correct` (all widths, operands, flags).  A failing build is a broken proof obligation: the
     mnemonics whose generated term is not the expected one are looked up in the driver's table and a failing
     input is searched on the real code (below).
  C  correspondence, validates the translator and the DSL's meaning: real encodings of each mnemonic
     (reg,reg / reg / reg,imm forms of every width, both modes) are decoded by amoco and executed with the real
     `i_XXX` on a mapper with concrete registers and flags; destination register (whole 64/32-bit register),
     the six status flags and rip/eip are compared with the driver's evaluation of the *generated* term on the
     same operand values.
  O  oracle, independent of amoco and of the Lean model: `ref_py` — the SDM instruction pages in Python big
     integers.  real ≠ oracle on a defined flag / the destination / the instruction pointer is a VIOLATION with
     that input; Lean `ref` ≠ `ref_py` is an internal error of the machinery.
"""
from common import *
import translate_x86

GEN_PATH = os.path.join(LEAN, "Generated", "X86Sem.lean")
MNS = translate_x86.MNEMONICS
FLAGN = ("cf", "pf", "af", "zf", "sf", "of")
FLAGBIT = {"cf": 0, "pf": 2, "af": 4, "zf": 6, "sf": 7, "of": 11}
BINOP = {"ADD": 0x00, "OR": 0x08, "ADC": 0x10, "SBB": 0x18, "AND": 0x20, "SUB": 0x28, "XOR": 0x30, "CMP": 0x38, "TEST": 0x84}
GRP1 = {"ADD": 0, "OR": 1, "ADC": 2, "SBB": 3, "AND": 4, "SUB": 5, "XOR": 6, "CMP": 7}      # 80/81/83 /digit
UNOP = {"NOT": (0xF6, 2), "NEG": (0xF6, 3), "INC": (0xFE, 0), "DEC": (0xFE, 1)}
WRITES = {m: m not in ("CMP", "TEST") for m in MNS}
IP0 = 0x401000


# ---------------------------------------------------------------------------------------------------
# independent oracle: Intel SDM vol.2 instruction pages, big integers
# ---------------------------------------------------------------------------------------------------

def s_of(v, n):
    return v - (1 << n) if v >> (n - 1) else v


def ref_py(mn, w, a, b, cf):
    """→ (res|None, {flag: True|False|"unchanged"|"undefined"})"""
    M = (1 << w) - 1
    c = 1 if cf else 0

    def szp(r):
        return {"zf": r == 0, "sf": bool(r >> (w - 1)), "pf": bin(r & 0xFF).count("1") % 2 == 0}

    def add(x, y, ci):
        r = (x + y + ci) & M
        f = szp(r)
        f["cf"] = x + y + ci > M
        f["of"] = not (-(1 << (w - 1)) <= s_of(x, w) + s_of(y, w) + ci < (1 << (w - 1)))
        f["af"] = (x & 15) + (y & 15) + ci > 15
        return r, f

    def sub(x, y, ci):
        r = (x - y - ci) & M
        f = szp(r)
        f["cf"] = x < y + ci
        f["of"] = not (-(1 << (w - 1)) <= s_of(x, w) - s_of(y, w) - ci < (1 << (w - 1)))
        f["af"] = (x & 15) < (y & 15) + ci
        return r, f

    def logic(r):
        f = szp(r)
        f.update(cf=False, of=False, af="undefined")
        return r, f

    if mn == "ADD":
        return add(a, b, 0)
    if mn == "ADC":
        return add(a, b, c)
    if mn == "SUB":
        return sub(a, b, 0)
    if mn == "SBB":
        return sub(a, b, c)
    if mn == "CMP":
        return None, sub(a, b, 0)[1]
    if mn == "INC":
        r, f = add(a, 1, 0); f["cf"] = "unchanged"; return r, f
    if mn == "DEC":
        r, f = sub(a, 1, 0); f["cf"] = "unchanged"; return r, f
    if mn == "NEG":
        r, f = sub(0, a, 0); f["cf"] = a != 0; return r, f
    if mn == "NOT":
        return (~a) & M, {k: "unchanged" for k in FLAGN}
    if mn == "AND":
        return logic(a & b)
    if mn == "OR":
        return logic(a | b)
    if mn == "XOR":
        return logic(a ^ b)
    if mn == "TEST":
        return None, logic(a & b)[1]
    raise ValueError(mn)


def reg_after(arch, w, old, res):
    """whole destination register after writing `res` to its low w bits (SDM vol.1 §3.4.1.1)"""
    if res is None:
        return old
    if arch == "x64" and w == 32:
        return res
    return (old & ~((1 << w) - 1)) | res


# ---------------------------------------------------------------------------------------------------
# real code
# ---------------------------------------------------------------------------------------------------
_AM = {}


def am(arch):
    if arch not in _AM:
        fresh_amoco()
        from amoco.cas.mapper import mapper
        from amoco.cas import expressions as ex
        if arch == "x64":
            from amoco.arch.x64 import cpu_x64 as cpu
            from amoco.arch.x64 import env
            R = [env.rax, env.rcx, env.rdx, env.rbx, env.rsp, env.rbp, env.rsi, env.rdi, env.r8, env.r9, env.r10,
                 env.r11, env.r12, env.r13, env.r14, env.r15]
            _AM[arch] = dict(cpu=cpu, env=env, mapper=mapper, ex=ex, R=R, flags=env.rflags, ip=env.rip, W=64)
        else:
            from amoco.arch.x86 import cpu_x86 as cpu
            from amoco.arch.x86 import env
            R = [env.eax, env.ecx, env.edx, env.ebx, env.esp, env.ebp, env.esi, env.edi]
            _AM[arch] = dict(cpu=cpu, env=env, mapper=mapper, ex=ex, R=R, flags=env.eflags, ip=env.eip, W=32)
    return _AM[arch]


def const_of(e):
    try:
        e = e.simplify()
    except Exception:
        pass
    if e._is_cst:
        return e.v & ((1 << e.size) - 1)
    if e._is_slc:
        b = const_of(e.x)
        return None if b is None else (b >> e.pos) & ((1 << e.size) - 1)
    if e._is_cmp:
        v = 0
        for (lo, hi), p in e.parts.items():
            pv = const_of(p)
            if pv is None:
                return None
            v |= (pv & ((1 << (hi - lo)) - 1)) << lo
        return v
    return None


def encode(arch, mn, w, form, dst, src, imm):
    """bytes of `mn` on registers number dst/src (form rr), dst (form r) or dst, imm (forms i8 = 83 /d ib, iw = 80|81 /d imm)"""
    pre = b"\x66" if w == 16 else b""
    rex = 0
    if arch == "x64":
        rex = (0x48 if w == 64 else 0x40) | ((src >> 3) << 2 if form == "rr" else 0) | (dst >> 3)
        if rex == 0x40 and not (w == 8 and (4 <= dst <= 7 or (form == "rr" and 4 <= src <= 7))):
            rex = 0
    wbit = 0 if w == 8 else 1
    if form == "rr":
        body = bytes([BINOP[mn] | wbit, 0xC0 | ((src & 7) << 3) | (dst & 7)])
    elif form == "r":
        op, dig = UNOP[mn]
        body = bytes([op | wbit, 0xC0 | (dig << 3) | (dst & 7)])
    elif form == "i8":
        body = bytes([0x83, 0xC0 | (GRP1[mn] << 3) | (dst & 7), imm & 0xFF])
    else:
        n = 1 if w == 8 else 2 if w == 16 else 4
        if mn == "TEST":
            body = bytes([0xF6 | wbit, 0xC0 | (dst & 7)]) + (imm & ((1 << 8 * n) - 1)).to_bytes(n, "little")
        else:
            body = bytes([0x80 | wbit, 0xC0 | (GRP1[mn] << 3) | (dst & 7)]) + (imm & ((1 << 8 * n) - 1)).to_bytes(n, "little")
    return pre + (bytes([rex]) if rex else b"") + body


def imm_value(w, form, imm):
    """the second operand value the architecture defines for an immediate form (sign-extended to w bits)"""
    n = 8 if (form == "i8" or w == 8) else 16 if w == 16 else 32
    v = imm & ((1 << n) - 1)
    return s_of(v, n) & ((1 << w) - 1)


def real_run(arch, code, regs, flags6):
    """execute the real semantics → dict(regs, flags, ip, mn, len) or {"raise": …}"""
    a = am(arch)
    ex, env, W = a["ex"], a["env"], a["W"]
    d = a["cpu"].disassemble
    try:
        i = d(code)
    except Exception as e:
        try:
            d._disassembler__i = None
        except Exception:
            pass
        return {"raise": "decode:" + type(e).__name__}
    if i is None or i.length != len(code):
        return {"raise": "decode:%s" % (None if i is None else i.length)}
    m = a["mapper"]()
    for r, v in zip(a["R"], regs):
        m[r] = ex.cst(v, W)
    fl = 2
    for k, bit in zip(FLAGN, flags6):
        fl |= (1 if bit else 0) << FLAGBIT[k]
    m[a["flags"]] = ex.cst(fl, W)
    m[a["ip"]] = ex.cst(IP0, W)
    try:
        i(m)
        out = {"mn": i.mnemonic, "len": i.length, "regs": [const_of(m(r)) for r in a["R"]],
               "flags": [const_of(m(getattr(env, k))) for k in FLAGN], "ip": const_of(m(a["ip"]))}
    except Exception as e:
        return {"raise": "exec:" + type(e).__name__ + ":" + str(e)[:60]}
    return out


# ---------------------------------------------------------------------------------------------------
# generation
# ---------------------------------------------------------------------------------------------------

def bvals(r, n):
    top = 1 << n
    pool = [0, 1, 2, top - 1, top - 2, top >> 1, (top >> 1) - 1, (top >> 1) + 1, 0x0F, 0x10, 0xF0, 0x7F, 0x80, 0xFF, 0x0E, 0xEF]
    return (r.choice(pool) if r.random() < 0.55 else r.getrandbits(n)) % top


def gen_cases(r, tier):
    per = 32 if tier == "quick" else 600
    for arch in ("x64", "x86"):
        W = 64 if arch == "x64" else 32
        nreg = 16 if arch == "x64" else 8
        for mn in MNS:
            for w in ((8, 16, 32, 64) if arch == "x64" else (8, 16, 32)):
                forms = ["r"] if mn in UNOP else ["rr", "rr", "rr", "iw"] + (["i8"] if mn in GRP1 and w > 8 else [])
                for n in range(per):
                    form = forms[n % len(forms)]
                    dst, src = r.randrange(nreg), r.randrange(nreg)
                    if arch == "x86" and w == 8:
                        dst, src = dst & 3, src & 3              # al cl dl bl (4..7 are the high bytes)
                    if form == "rr" and r.random() < 0.12:
                        src = dst
                    imm = 0
                    regs = [r.getrandbits(W) for _ in range(nreg)]
                    av, bv = bvals(r, w), bvals(r, w)
                    if r.random() < 0.1:
                        bv = av
                    regs[dst] = (regs[dst] & ~((1 << w) - 1)) | av
                    if form == "rr":
                        if src != dst:
                            regs[src] = (regs[src] & ~((1 << w) - 1)) | bv
                        bv = regs[src] & ((1 << w) - 1)
                    elif form in ("i8", "iw"):
                        imm = bv
                        bv = imm_value(w, form, imm)
                    else:
                        bv = 0
                    flags6 = [r.random() < 0.5 for _ in FLAGN]
                    if n % 7 == 0:
                        flags6 = [n % 2 == 0] * 6
                    yield dict(arch=arch, mn=mn, w=w, form=form, dst=dst, src=src, imm=imm, regs=regs, a=av, b=bv, flags=flags6,
                               code=encode(arch, mn, w, form, dst, src, imm))


# ---------------------------------------------------------------------------------------------------

def _restore_generated():
    """a run against a scratch worktree regenerated lean/Generated/X86Sem.lean from that tree: put the /repo version back"""
    try:
        translate_x86.emit("/repo", GEN_PATH)
    except Exception:
        pass


def brief(c):
    return {"arch": c["arch"], "mn": c["mn"], "w": c["w"], "form": c["form"], "code": c["code"].hex(), "dst": c["dst"], "src": c["src"],
            "a": "%x" % c["a"], "b": "%x" % c["b"], "flags_in": dict(zip(FLAGN, c["flags"])), "dst_reg_in": "%x" % c["regs"][c["dst"]]}


def run(ck, tier, corr_broken):
    if SCRATCH:
        import atexit
        atexit.register(_restore_generated)
    r = rng("C06x86sem")
    # ---- T: translate, build, audit ---------------------------------------------------------------------
    info = translate_x86.emit(REPO, GEN_PATH)
    ck.cov["x86sem_translated"] = {a: {"sha256": d["sha256"][:16], "untranslated": d["untranslated"], "notes": d["notes"]}
                                   for a, d in info.items()}
    ok, out = lake_build(["drv_x86sem"])
    ck.oblige("x86sem: lake build drv_x86sem (regenerated Generated/X86Sem.lean compiles)", ok, out[-2000:] if not ok else "")
    if not ok:
        ck.report("C06:x86sem:translator-output", "Generated/X86Sem.lean does not compile", "proof-obligation", out[-2000:],
                  failing_input_found=False)
        return
    okp, outp = lake_build(["Amoco.Props.C06X86"])
    ck.oblige("x86sem: lake build Amoco.Props.C06X86 (x86_generated_eq_expected re-checked on the regenerated table)", okp,
              outp[-2000:] if not okp else "")
    audit_bad = []
    if okp:
        thms, audit_bad = audit("C06X86")
        for t in thms:
            ck.oblige("theorem " + t, not any(t in b for b in audit_bad))
        for b in audit_bad:
            ck.oblige("x86sem audit", False, b)
    drv = Driver("drv_x86sem")
    table = {a: dict(drv.ask({"op": "x86sem.table", "arch": a})) for a in ("x64", "x86")}
    ck.cov["x86sem_generated_table"] = {a: {m: s for m, s in t.items() if s != "ok"} for a, t in table.items()}
    not_ok = [(a, m, s) for a, t in table.items() for m, s in t.items() if s != "ok"]

    # ---- C + O: the real bodies on concrete states ------------------------------------------------------------
    cases = list(gen_cases(r, tier))
    reqs = []
    for c in cases:
        reqs.append({"op": "x86sem.eval", "which": "generated", "arch": c["arch"], "mn": c["mn"], "w": c["w"], "a": c["a"], "b": c["b"],
                     "flags": c["flags"], "old": c["regs"][c["dst"]]})
        reqs.append({"op": "x86sem.eval", "which": "expected", "arch": c["arch"], "mn": c["mn"], "w": c["w"], "a": c["a"], "b": c["b"],
                     "flags": c["flags"], "old": c["regs"][c["dst"]]})
        reqs.append({"op": "x86sem.ref", "mn": c["mn"], "w": c["w"], "a": c["a"], "b": c["b"], "cf": c["flags"][0]})
    ans = drv.ask_many(reqs)
    drv.close()
    violated, ncorr, nunmod = set(), 0, 0
    for j, c in enumerate(cases):
        gen, exp, lref = ans[3 * j], ans[3 * j + 1], ans[3 * j + 2]
        arch, mn, w = c["arch"], c["mn"], c["w"]
        res, fx = ref_py(mn, w, c["a"], c["b"], c["flags"][0])
        # machinery: the Lean reference and its Python twin, and the theorem instance expected ~ ref
        if lref.get("res") != res or any(lref[k] != fx[k] for k in FLAGN):
            raise InternalError("x86sem: Lean ref and ref_py disagree on %r: %r vs %r" % (brief(c), lref, (res, fx)))
        want_flags = [c["flags"][i] if fx[k] == "unchanged" else fx[k] for i, k in enumerate(FLAGN)]     # "undefined" stays a string
        want_reg = reg_after(arch, w, c["regs"][c["dst"]], res)
        if "err" in exp or exp["reg"] != (want_reg if res is not None else None) or exp["rip"] != 1 or \
                any(wf != "undefined" and wf != ef for wf, ef in zip(want_flags, exp["final"])):
            raise InternalError("x86sem: instance of x86_expected_correct fails on %r: %r" % (brief(c), exp))
        real = real_run(arch, c["code"], c["regs"], c["flags"])
        ck.case((arch, mn, w, c["form"], c["a"], c["b"], tuple(c["flags"])), nontrivial="raise" not in real)
        ck.count("x86sem.%s.%s.%d.%s" % (arch, mn, w, c["form"]))
        ck.sample(brief(c), limit=10)
        # what the real body did, in the oracle's terms
        aspects = []
        if "raise" in real:
            aspects.append(("raise", real["raise"], "executes"))
        else:
            if real["mn"] != mn:
                aspects.append(("decode", real["mn"], mn))
            for i, k in enumerate(FLAGN):
                if want_flags[i] != "undefined" and real["flags"][i] != (1 if want_flags[i] else 0):
                    aspects.append((k, real["flags"][i], int(want_flags[i])))
            if real["regs"][c["dst"]] != want_reg:
                aspects.append(("dst", "%x" % real["regs"][c["dst"]] if real["regs"][c["dst"]] is not None else None, "%x" % want_reg))
            others = [n for n in range(len(c["regs"])) if n != c["dst"] and real["regs"][n] != c["regs"][n]]
            if others:
                aspects.append(("other-register", others, []))
            if real["ip"] != IP0 + len(c["code"]):
                aspects.append(("ip", real["ip"], IP0 + len(c["code"])))
        if aspects:
            k0 = aspects[0][0]
            violated.add((arch, mn))
            ck.report("C06:x86sem:%s:%s:%s" % (arch, mn, k0),
                      "%s %s (%d-bit, %s) a=%x b=%x flags=%s: amoco gives %s = %r, the SDM defines %r"
                      % (arch, mn, w, c["code"].hex(), c["a"], c["b"], "".join(str(int(x)) for x in c["flags"]), k0, aspects[0][1], aspects[0][2]),
                      "oracle", "x86_generated_correct / correspondence i_%s" % mn, case=brief(c),
                      real={"flags": dict(zip(FLAGN, real.get("flags", []))), "dst_reg": real.get("regs", [None] * 16)[c["dst"]],
                            "ip": real.get("ip"), "raise": real.get("raise")},
                      model=gen, expected={"flags": dict(zip(FLAGN, want_flags)), "dst_reg": want_reg, "ip": IP0 + len(c["code"])})
            continue
        # correspondence: the generated term evaluated by the driver vs the real body (which agrees with the oracle here)
        if "err" in gen:
            nunmod += 1
            ck.count("x86sem.unmodelled")
            continue
        rflags = [bool(x) for x in real["flags"]]
        greg = gen["reg"] if gen["reg"] is not None else c["regs"][c["dst"]]
        if gen["final"] != rflags or greg != real["regs"][c["dst"]] or IP0 + gen["rip"] * len(c["code"]) != real["ip"]:
            ncorr += 1
            corr_broken.append(("x86sem generated DSL %s %s" % (arch, mn), brief(c),
                                {"flags": rflags, "dst_reg": real["regs"][c["dst"]], "ip": real["ip"]}, gen))
    ck.oblige("correspondence x86sem generated term ~ real i_XXX (x64, x86)", ncorr == 0, "%d disagreements" % ncorr)
    ck.cov["x86sem_cases"] = {"total": len(cases), "unmodelled": nunmod, "correspondence_diffs": ncorr}

    # ---- broken obligations without an attributed failing input ------------------------------------------------
    for a, m, s in not_ok:
        if (a, m) not in violated:
            ck.report("C06:x86sem:%s:%s:not-expected" % (a, m),
                      "i_%s of %s/asm.py is not the expected body (%s) and no failing input was found" % (m, a, s),
                      "proof-obligation", "x86_generated_eq_expected", case={"arch": a, "mn": m, "status": s}, failing_input_found=False)
    if not okp and not not_ok:
        ck.report("C06:x86sem:proof-obligation", "Amoco.Props.C06X86 does not build although every generated term is the expected one",
                  "proof-obligation", outp[-2000:], failing_input_found=False)
    for b in audit_bad:
        ck.report("C06:x86sem:audit", "audit: %s" % b[:200], "proof-obligation", b[:2000], failing_input_found=False)
    ck.assumptions += ["x86sem: operands of one common width (reg,reg / reg / reg,imm forms; the immediate is compared after the decoder's "
                       "extension); memory operands and the address computation are not in this model (judged by the native differential part)",
                       "x86sem: the helpers AddWithCarry/SubWithBorrow/parity8/halfcarry/halfborrow/_r32_zx64 are DSL primitives meaning their "
                       "models in Model/Flags.lean; the translator checks their source text shape, rv_x86flags.py their behaviour",
                       "x86sem: AF after AND/OR/XOR/TEST is undefined in the SDM and not compared"]
    ck.trusted += ["harness/translate_x86.py (Python ast → DSL; validated by executing the generated term against the real i_XXX)",
                   "my reading of the SDM pages of the 13 mnemonics, written twice (Lean `ref`, Python `ref_py`) and compared on every case"]
