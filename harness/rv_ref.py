"""
rv_ref.py — Python twin of the RISC-V reference interpreter (oracle of C06), written from
"The RISC-V Instruction Set Manual, Volume I: Unprivileged ISA" (20191213), chapters 2, 5, 24,
independently of amoco and of the Lean text (lean/Amoco/Model/RiscvRef.lean).  The harness
requires both references to agree on every case before either is used to judge amoco.

Memory: a dict of explicit bytes over the deterministic background `fill_byte` (same formula as
Driver/Rv.lean).
"""

BASE32 = ["LUI", "AUIPC", "JAL", "JALR", "BEQ", "BNE", "BLT", "BGE", "BLTU", "BGEU", "LB", "LH", "LW", "LBU",
          "LHU", "SB", "SH", "SW", "ADDI", "SLTI", "SLTIU", "XORI", "ORI", "ANDI", "SLLI", "SRLI", "SRAI",
          "ADD", "SUB", "SLL", "SLT", "SLTU", "XOR", "SRL", "SRA", "OR", "AND", "FENCE", "FENCE_I", "ECALL",
          "EBREAK"]
ONLY64 = ["LWU", "LD", "SD", "ADDIW", "SLLIW", "SRLIW", "SRAIW", "ADDW", "SUBW", "SLLW", "SRLW", "SRAW"]


def mnemonics(isa):
    return BASE32 + (ONLY64 if isa == "rv64" else [])


def xlen(isa):
    return 64 if isa == "rv64" else 32


def fill_byte(a):
    return (a * 167 + 13 + (a // 256) * 31) % 256


def bits(w, hi, lo):
    return (w >> lo) & ((1 << (hi - lo + 1)) - 1)


def sx(v, nbits):
    """value of the nbits-bit two's-complement number v"""
    v &= (1 << nbits) - 1
    return v - (1 << nbits) if v >> (nbits - 1) else v


def imm_i(w):
    return sx(bits(w, 31, 20), 12)


def imm_s(w):
    return sx((bits(w, 31, 25) << 5) | bits(w, 11, 7), 12)


def imm_b(w):
    return sx((bits(w, 31, 31) << 12) | (bits(w, 7, 7) << 11) | (bits(w, 30, 25) << 5) | (bits(w, 11, 8) << 1), 13)


def imm_u(w):
    return sx(bits(w, 31, 12) << 12, 32)


def imm_j(w):
    return sx((bits(w, 31, 31) << 20) | (bits(w, 19, 12) << 12) | (bits(w, 20, 20) << 11) | (bits(w, 30, 21) << 1), 21)


def decode(isa, w):
    """mnemonic of the 32-bit word `w`, or None (listing tables of chapter 24)"""
    r64 = isa == "rv64"
    op, f3, f7 = bits(w, 6, 0), bits(w, 14, 12), bits(w, 31, 25)
    if op == 0b0110111:
        return "LUI"
    if op == 0b0010111:
        return "AUIPC"
    if op == 0b1101111:
        return "JAL"
    if op == 0b1100111:
        return "JALR" if f3 == 0 else None
    if op == 0b1100011:
        return {0: "BEQ", 1: "BNE", 4: "BLT", 5: "BGE", 6: "BLTU", 7: "BGEU"}.get(f3)
    if op == 0b0000011:
        t = {0: "LB", 1: "LH", 2: "LW", 4: "LBU", 5: "LHU"}
        if r64:
            t.update({3: "LD", 6: "LWU"})
        return t.get(f3)
    if op == 0b0100011:
        t = {0: "SB", 1: "SH", 2: "SW"}
        if r64:
            t[3] = "SD"
        return t.get(f3)
    if op == 0b0010011:
        if f3 in (1, 5):
            hi = bits(w, 31, 26) << 1 if r64 else f7       # RV64I: shamt has 6 bits, inst[31:26] is fixed
            if f3 == 1:
                return "SLLI" if hi == 0 else None
            return {0: "SRLI", 0b0100000: "SRAI"}.get(hi)
        return {0: "ADDI", 2: "SLTI", 3: "SLTIU", 4: "XORI", 6: "ORI", 7: "ANDI"}[f3]
    if op == 0b0110011:
        if f7 == 0:
            return ["ADD", "SLL", "SLT", "SLTU", "XOR", "SRL", "OR", "AND"][f3]
        if f7 == 0b0100000:
            return {0: "SUB", 5: "SRA"}.get(f3)
        return None
    if op == 0b0001111:
        return {0: "FENCE", 1: "FENCE_I"}.get(f3)
    if op == 0b1110011:
        return {0x00000073: "ECALL", 0x00100073: "EBREAK"}.get(w)
    if op == 0b0011011 and r64:
        if f3 == 0:
            return "ADDIW"
        if f3 == 1:
            return "SLLIW" if f7 == 0 else None
        if f3 == 5:
            return {0: "SRLIW", 0b0100000: "SRAIW"}.get(f7)
        return None
    if op == 0b0111011 and r64:
        if f7 == 0:
            return {0: "ADDW", 1: "SLLW", 5: "SRLW"}.get(f3)
        if f7 == 0b0100000:
            return {0: "SUBW", 5: "SRAW"}.get(f3)
        return None
    return None


class Memory(object):
    def __init__(self, explicit=None):
        self.b = dict(explicit or {})
        self.read, self.written = [], []

    def get(self, a):
        return self.b[a] if a in self.b else fill_byte(a)

    def load(self, a, k, mask):
        v = 0
        for i in range(k):
            ad = (a + i) & mask
            self.read.append(ad)
            v |= self.get(ad) << (8 * i)
        return v

    def store(self, a, k, v, mask):
        for i in range(k):
            ad = (a + i) & mask
            self.written.append(ad)
            self.b[ad] = (v >> (8 * i)) & 0xFF


def effective_address(isa, w, regs):
    """address and size (bytes) accessed by a load/store word, else None"""
    mn = decode(isa, w)
    n = xlen(isa)
    mask = (1 << n) - 1
    size = {"LB": 1, "LBU": 1, "SB": 1, "LH": 2, "LHU": 2, "SH": 2, "LW": 4, "LWU": 4, "SW": 4, "LD": 8, "SD": 8}.get(mn)
    if size is None:
        return None
    imm = imm_s(w) if mn[0] == "S" else imm_i(w)
    rs1 = bits(w, 19, 15)
    base = regs[rs1] if rs1 else 0
    return ((base + imm) & mask, size)


def step(isa, w, regs, pc, mem):
    """one instruction.  regs: list of 32 ints (regs[0] ignored); returns (mnemonic, regs', pc', defined_pc)
    and updates `mem` (a Memory).  defined_pc is False for ECALL/EBREAK (the environment decides)."""
    n = xlen(isa)
    mask = (1 << n) - 1
    mn = decode(isa, w)
    if mn is None:
        return None
    x = list(regs)
    x[0] = 0
    rd, rs1, rs2 = bits(w, 11, 7), bits(w, 19, 15), bits(w, 24, 20)
    a, b = x[rs1] & mask, x[rs2] & mask
    sa, sb = sx(a, n), sx(b, n)
    npc = (pc + 4) & mask
    res = None
    sh_bits = 6 if n == 64 else 5
    shamt = bits(w, 20 + sh_bits - 1, 20)

    def w32(v):     # result of a *W operation: low 32 bits, sign-extended
        return sx(v & 0xFFFFFFFF, 32) & mask

    if mn == "LUI":
        res = imm_u(w)
    elif mn == "AUIPC":
        res = pc + imm_u(w)
    elif mn == "JAL":
        res, npc = pc + 4, pc + imm_j(w)
    elif mn == "JALR":
        res, npc = pc + 4, (a + imm_i(w)) & ~1
    elif mn in ("BEQ", "BNE", "BLT", "BGE", "BLTU", "BGEU"):
        taken = {"BEQ": a == b, "BNE": a != b, "BLT": sa < sb, "BGE": sa >= sb, "BLTU": a < b, "BGEU": a >= b}[mn]
        if taken:
            npc = pc + imm_b(w)
    elif mn in ("LB", "LH", "LW", "LD", "LBU", "LHU", "LWU"):
        k = {"B": 1, "H": 2, "W": 4, "D": 8}[mn[1]]
        v = mem.load((a + imm_i(w)) & mask, k, mask)
        res = v if mn.endswith("U") else sx(v, 8 * k)
    elif mn in ("SB", "SH", "SW", "SD"):
        k = {"B": 1, "H": 2, "W": 4, "D": 8}[mn[1]]
        mem.store((a + imm_s(w)) & mask, k, b, mask)
    elif mn == "ADDI":
        res = a + imm_i(w)
    elif mn == "SLTI":
        res = 1 if sa < imm_i(w) else 0
    elif mn == "SLTIU":
        res = 1 if a < (imm_i(w) & mask) else 0
    elif mn == "XORI":
        res = a ^ (imm_i(w) & mask)
    elif mn == "ORI":
        res = a | (imm_i(w) & mask)
    elif mn == "ANDI":
        res = a & (imm_i(w) & mask)
    elif mn == "SLLI":
        res = a << shamt
    elif mn == "SRLI":
        res = a >> shamt
    elif mn == "SRAI":
        res = sa >> shamt
    elif mn == "ADD":
        res = a + b
    elif mn == "SUB":
        res = a - b
    elif mn == "SLL":
        res = a << (b & (n - 1))
    elif mn == "SLT":
        res = 1 if sa < sb else 0
    elif mn == "SLTU":
        res = 1 if a < b else 0
    elif mn == "XOR":
        res = a ^ b
    elif mn == "SRL":
        res = a >> (b & (n - 1))
    elif mn == "SRA":
        res = sa >> (b & (n - 1))
    elif mn == "OR":
        res = a | b
    elif mn == "AND":
        res = a & b
    elif mn in ("FENCE", "FENCE_I"):
        pass
    elif mn in ("ECALL", "EBREAK"):
        return (mn, x, pc, False)
    elif mn == "ADDIW":
        res = w32(a + imm_i(w))
    elif mn == "SLLIW":
        res = w32(a << bits(w, 24, 20))
    elif mn == "SRLIW":
        res = w32((a & 0xFFFFFFFF) >> bits(w, 24, 20))
    elif mn == "SRAIW":
        res = w32(sx(a, 32) >> bits(w, 24, 20))
    elif mn == "ADDW":
        res = w32(a + b)
    elif mn == "SUBW":
        res = w32(a - b)
    elif mn == "SLLW":
        res = w32(a << (b & 31))
    elif mn == "SRLW":
        res = w32((a & 0xFFFFFFFF) >> (b & 31))
    elif mn == "SRAW":
        res = w32(sx(a, 32) >> (b & 31))
    else:
        raise AssertionError(mn)
    if res is not None and rd != 0:
        x[rd] = res & mask
    return (mn, x, npc & mask, True)


# ---------------------------------------------------------------------------------------------
# encodings: every base opcode pattern with free fields (for the generator)
# ---------------------------------------------------------------------------------------------

def enc_r(op, f3, f7, rd, rs1, rs2):
    return (f7 << 25) | (rs2 << 20) | (rs1 << 15) | (f3 << 12) | (rd << 7) | op


def enc_i(op, f3, rd, rs1, imm):
    return ((imm & 0xFFF) << 20) | (rs1 << 15) | (f3 << 12) | (rd << 7) | op


def enc_s(op, f3, rs1, rs2, imm):
    return (((imm >> 5) & 0x7F) << 25) | (rs2 << 20) | (rs1 << 15) | (f3 << 12) | ((imm & 0x1F) << 7) | op


def enc_b(op, f3, rs1, rs2, imm):
    return (((imm >> 12) & 1) << 31) | (((imm >> 5) & 0x3F) << 25) | (rs2 << 20) | (rs1 << 15) | (f3 << 12) \
        | (((imm >> 1) & 0xF) << 8) | (((imm >> 11) & 1) << 7) | op


def enc_u(op, rd, imm20):
    return ((imm20 & 0xFFFFF) << 12) | (rd << 7) | op


def enc_j(op, rd, imm):
    return (((imm >> 20) & 1) << 31) | (((imm >> 1) & 0x3FF) << 21) | (((imm >> 11) & 1) << 20) \
        | (((imm >> 12) & 0xFF) << 12) | (rd << 7) | op


def encode(isa, mn, rd, rs1, rs2, imm):
    """a word of mnemonic `mn` with the given fields (imm is taken modulo the field width)"""
    R = {"ADD": (0, 0), "SUB": (0, 0x20), "SLL": (1, 0), "SLT": (2, 0), "SLTU": (3, 0), "XOR": (4, 0), "SRL": (5, 0),
         "SRA": (5, 0x20), "OR": (6, 0), "AND": (7, 0)}
    RW = {"ADDW": (0, 0), "SUBW": (0, 0x20), "SLLW": (1, 0), "SRLW": (5, 0), "SRAW": (5, 0x20)}
    I = {"ADDI": 0, "SLTI": 2, "SLTIU": 3, "XORI": 4, "ORI": 6, "ANDI": 7}
    L = {"LB": 0, "LH": 1, "LW": 2, "LD": 3, "LBU": 4, "LHU": 5, "LWU": 6}
    S = {"SB": 0, "SH": 1, "SW": 2, "SD": 3}
    B = {"BEQ": 0, "BNE": 1, "BLT": 4, "BGE": 5, "BLTU": 6, "BGEU": 7}
    if mn in R:
        return enc_r(0x33, R[mn][0], R[mn][1], rd, rs1, rs2)
    if mn in RW:
        return enc_r(0x3B, RW[mn][0], RW[mn][1], rd, rs1, rs2)
    if mn in I:
        return enc_i(0x13, I[mn], rd, rs1, imm)
    if mn == "ADDIW":
        return enc_i(0x1B, 0, rd, rs1, imm)
    if mn in ("SLLI", "SRLI", "SRAI"):
        sh = imm & (63 if isa == "rv64" else 31)
        return enc_i(0x13, 1 if mn == "SLLI" else 5, rd, rs1, sh | (0x400 if mn == "SRAI" else 0))
    if mn in ("SLLIW", "SRLIW", "SRAIW"):
        return enc_i(0x1B, 1 if mn == "SLLIW" else 5, rd, rs1, (imm & 31) | (0x400 if mn == "SRAIW" else 0))
    if mn in L:
        return enc_i(0x03, L[mn], rd, rs1, imm)
    if mn in S:
        return enc_s(0x23, S[mn], rs1, rs2, imm)
    if mn in B:
        return enc_b(0x63, B[mn], rs1, rs2, imm)
    if mn == "LUI":
        return enc_u(0x37, rd, imm)
    if mn == "AUIPC":
        return enc_u(0x17, rd, imm)
    if mn == "JAL":
        return enc_j(0x6F, rd, imm)
    if mn == "JALR":
        return enc_i(0x67, 0, rd, rs1, imm)
    if mn == "FENCE":
        return enc_i(0x0F, 0, 0, 0, imm & 0xFF)        # fm = 0, pred/succ free, rd = rs1 = 0
    if mn == "FENCE_I":
        return 0x0000100F
    if mn == "ECALL":
        return 0x00000073
    if mn == "EBREAK":
        return 0x00100073
    raise KeyError(mn)
