import Amoco.Basic.Bits
