import Driver.Proto
import Driver.X86Len
open Lean
def main : IO Unit := Driver.run Driver.X86Len.handle
