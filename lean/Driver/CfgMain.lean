import Driver.Proto
import Driver.Cfg
def main : IO Unit := Driver.run Driver.Cfg.handle
