import Driver.Proto
import Driver.Expr

open Lean

def handleAll (j : Json) : Json :=
  match Driver.getStr j "op" with
  | .ok o =>
    if o.startsWith "expr." then Driver.Expr.handle j
    else Driver.jerr s!"unknown op {o}"
  | .error e => Driver.jerr e

def main : IO Unit := Driver.run handleAll
