/-
  Driver.X86Len — ops of the x86 length model (C07).
    {"op":"len","mode":32|64,"bytes":[..]}            → null | [n, disp|null]
    {"op":"modrm","a16":bool,"modrm":n,"sib":n}        → number of bytes after the ModRM byte
    {"op":"sweep","mode":32|64,"bytes":[..]}           → list of instruction lengths
-/
import Driver.Proto
import Amoco.Model.X86Len

open Lean Amoco.X86Len

namespace Driver.X86Len

def getMode (j : Json) : Except String Mode := do
  let n ← getNat j "mode"
  if n == 32 then pure .m32 else if n == 64 then pure .m64 else throw "mode"

def opLen (j : Json) : Json :=
  match (do let m ← getMode j; let b ← getNatList j "bytes"; pure (m, b)) with
  | .error e => jerr e
  | .ok (m, b) =>
    match x86dec m b with
    | none => Json.null
    | some (n, d) => Json.arr #[jnat n, jopt jint d]

def opModrm (j : Json) : Json :=
  match (do let a ← getBool j "a16"; let x ← getNat j "modrm"; let s ← getNat j "sib"; pure (a, x, s)) with
  | .error e => jerr e
  | .ok (a, x, s) => jnat (modrmTail a x s)

def opSweep (j : Json) : Json :=
  match (do let m ← getMode j; let b ← getNatList j "bytes"; pure (m, b)) with
  | .error e => jerr e
  | .ok (m, b) => jlist jnat (sweep m (b.length + 1) b)

def handle (j : Json) : Json :=
  match getStr j "op" with
  | .ok "len" => opLen j
  | .ok "modrm" => opModrm j
  | .ok "sweep" => opSweep j
  | .ok o => jerr s!"unknown op {o}"
  | .error e => jerr e

end Driver.X86Len
