/-
  Driver.Expr — JSON-lines ops of the expression-algebra model (ops prefixed "expr.").
    expr.run     {script, action, cplx, fuel?}  run a build script on the model, then the action
    expr.compwf  {dump}                          K-tie: CompWF (+ smask agreement) of every comp in a dump
    expr.parse   {dump}                          round-trip of a dump (self-test of the parser)
  Later builders add "map." ops in their own file; `Driver.Expr.handle` only serves "expr.".
-/
import Driver.Proto
import Amoco.Model.Eval

open Lean Amoco Amoco.Expr

namespace Driver.Expr

/-! ### complexity oracle with IEEE doubles, as the Python code computes it -/

mutual
partial def depth : Expr → Float
  | .cst .. | .reg .. | .ext .. | .mem .. | .ptr .. => 1.0
  | .top .. | .vecw .. => 1.0 / 0.0
  | .slc x .. => 2.0 * depth x
  | .comp _ _ ps => (sortParts ps).foldl (fun a p => a + depth p.2.2) 0.0
  | .tst t l r _ _ => (depth t + depth l + depth r) / 3.0
  | .op _ l r _ _ _ => depth l + depth r
  | .uop _ r _ _ _ => depth r
  | .vec l s _ => if s == 0 then 0.0 else (l.foldl (fun m e => if depth e > m then depth e else m) 0.0) * l.length.toFloat
end

def complexity (e : Expr) : Float :=
  let factor : Nat := match e with | .op _ _ _ _ _ p => p | .uop _ _ _ _ p => p | _ => 1
  (depth e + (symbolsOf e).length.toFloat) * factor.toFloat

def mkCfg (threshold : Nat) (topHashEq : Bool := true) : Cfg :=
  { cplx := fun e => threshold > 0 && complexity e > threshold.toFloat
    vecCplx := fun l => threshold > 0 && (l.foldl (fun a e => a + complexity e) 0.0) > threshold.toFloat
    topHashEq := topHashEq }

/-! ### JSON ⇄ Expr -/

def jstr (s : String) : Json := Json.str s
def jb (b : Bool) : Json := Json.bool b

partial def dump : Expr → Json
  | .cst v s f => Json.arr #[jstr "cst", jnat v, jnat s, jb f]
  | .reg n s f => Json.arr #[jstr "reg", jstr n, jnat s, jb f]
  | .ext n s f => Json.arr #[jstr "ext", jstr n, jnat s, jb f]
  | .slc x p s f r k => Json.arr #[jstr "slc", dump x, jnat p, jnat s, jb f, jopt jstr r, jnat k]
  | .comp s f ps =>
      Json.arr #[jstr "comp", jnat s, jb f, jlist (fun (p : Part) => Json.arr #[jnat p.1, jnat p.2.1, dump p.2.2]) ps]
  | .tst t l r s f => Json.arr #[jstr "tst", dump t, dump l, dump r, jnat s, jb f]
  | .op o l r s f p => Json.arr #[jstr "op", jstr o.symbol, dump l, dump r, jnat s, jb f, jnat p]
  | .uop o r s f p => Json.arr #[jstr "uop", jstr o.symbol, dump r, jnat s, jb f, jnat p]
  | .ptr b sg d s f => Json.arr #[jstr "ptr", dump b, jopt dump sg, jint d, jnat s, jb f]
  | .mem a s f en ms =>
      Json.arr #[jstr "mem", dump a, jnat s, jb f, jint (if en then -1 else 1),
                 jlist (fun (m : Expr × Expr) => Json.arr #[dump m.1, dump m.2]) ms]
  | .vec l s f => Json.arr #[jstr "vec", jlist dump l, jnat s, jb f]
  | .vecw l s f => Json.arr #[jstr "vecw", jlist dump l, jnat s, jb f]
  | .top s f => Json.arr #[jstr "top", jnat s, jb f]

def arrGet (a : Array Json) (i : Nat) : Except String Json :=
  match a[i]? with | some j => pure j | none => throw "short array"

partial def parse (j : Json) : Except String Expr := do
  let a ← j.getArr?
  let k ← (← arrGet a 0).getStr?
  let nat (i : Nat) : Except String Nat := do (← arrGet a i).getNat?
  let bool (i : Nat) : Except String Bool := do (← arrGet a i).getBool?
  let str (i : Nat) : Except String String := do (← arrGet a i).getStr?
  let sub (i : Nat) : Except String Expr := do parse (← arrGet a i)
  let subs (i : Nat) : Except String (List Expr) := do
    let l ← (← arrGet a i).getArr?
    l.toList.mapM parse
  match k with
  | "cst" => return .cst (← nat 1) (← nat 2) (← bool 3)
  | "reg" => return .reg (← str 1) (← nat 2) (← bool 3)
  | "ext" => return .ext (← str 1) (← nat 2) (← bool 3)
  | "slc" =>
      let r := match (← arrGet a 5).getStr? with | .ok s => some s | .error _ => none
      return .slc (← sub 1) (← nat 2) (← nat 3) (← bool 4) r (← nat 6)
  | "comp" =>
      let ps ← (← arrGet a 3).getArr?
      let parts ← ps.toList.mapM (fun pj => do
        let pa ← pj.getArr?
        let lo ← (← arrGet pa 0).getNat?
        let hi ← (← arrGet pa 1).getNat?
        let e ← parse (← arrGet pa 2)
        pure ((lo, hi, e) : Part))
      return .comp (← nat 1) (← bool 2) parts
  | "tst" => return .tst (← sub 1) (← sub 2) (← sub 3) (← nat 4) (← bool 5)
  | "op" =>
      match Op.ofSymbol? (← str 1) with
      | some o => return .op o (← sub 2) (← sub 3) (← nat 4) (← bool 5) (← nat 6)
      | none => throw "op symbol"
  | "uop" =>
      match Op.ofSymbol? (← str 1) with
      | some o => return .uop o (← sub 2) (← nat 3) (← bool 4) (← nat 5)
      | none => throw "op symbol"
  | "vec" => return .vec (← subs 1) (← nat 2) (← bool 3)
  | "vecw" => return .vecw (← subs 1) (← nat 2) (← bool 3)
  | "top" => return .top (← nat 1) (← bool 2)
  | _ => throw s!"unmodelled kind {k}"

/-! ### build scripts -/

def errStr : Err → String
  | .fuel => "fuel" | .value => "value" | .div0 => "div0" | .assert => "assert" | .type => "type"
  | .attr => "attr" | .overflow => "overflow" | .unmodelled => "unmodelled"

def binPy : String → Option Op
  | "add" => some .add | "sub" => some .sub | "mul" => some .mul | "pow" => some .mul2 | "div" => some .div
  | "mod" => some .mod | "and" => some .and | "or" => some .or | "xor" => some .xor | "shl" => some .lsl
  | "shr" => some .lsr | "asr" => some .asr | "eq" => some .eq | "ne" => some .neq | "lt" => some .lt
  | "le" => some .le | "gt" => some .gt | "ge" => some .ge
  | _ => none

def binOper : String → Option Op
  | "ltu" => some .ltu | "geu" => some .geu | "ror" => some .ror | "rol" => some .rol
  | _ => none

def pop1 (st : List Expr) : R (Expr × List Expr) :=
  match st with | x :: tl => .ok (x, tl) | _ => .error .unmodelled

/-- one instruction of a build script on the stack (top of stack first). -/
def step (cfg : Cfg) (fuel : Nat) (st : List Expr) (ins : Array Json) : R (List Expr) := do
  let o := match ins[0]? with | some (Json.str s) => s | _ => ""
  let natArg (i : Nat) : R Nat := match ins[i]? with
    | some j => (match j.getNat? with | .ok n => pure n | .error _ => throw .unmodelled)
    | none => throw .unmodelled
  let intArg (i : Nat) : R Int := match ins[i]? with
    | some j => (match j.getInt? with | .ok n => pure n | .error _ => throw .unmodelled)
    | none => throw .unmodelled
  let strArg (i : Nat) : R String := match ins[i]? with
    | some (Json.str s) => pure s
    | _ => throw .unmodelled
  match o with
  | "cst" => return mkCst (← intArg 1) (← natArg 2) :: st
  | "reg" => return .reg (← strArg 1) (← natArg 2) false :: st
  | "ext" => return .ext (← strArg 1) (← natArg 2) false :: st
  | "top" => return mkTop (← natArg 1) :: st
  -- ["mem", name, size, disp, endian, basesize]: mem(reg(name, basesize), size, disp=disp, endian=±1)
  | "mem" =>
      let bs ← natArg 5
      let en ← intArg 4
      return Expr.mem (.ptr (.reg (← strArg 1) bs false) none (← intArg 3) bs false) (← natArg 2) false (en == -1) [] :: st
  -- ["setpart", lo, hi]: pops v then c; `c[lo:hi] = v` through comp.__setitem__ (a non-comp `c` is first
  -- wrapped: `cc = comp(c.size); cc[0:c.size] = c`)
  | "setpart" =>
      let (v, tl) ← pop1 st
      let (c, tl) ← pop1 tl
      let c ← (match c with
        | .comp .. => pure c
        | _ => setitem cfg fuel (Expr.comp c.size false []) 0 (c.size : Int) c)
      return (← setitem cfg fuel c (← intArg 1) (← intArg 2) v) :: tl
  | "signed" => let (x, tl) ← pop1 st; return x.setSf true :: tl
  | "unsigned" => let (x, tl) ← pop1 st; return x.setSf false :: tl
  | "neg" => let (x, tl) ← pop1 st; return (← apiNeg cfg fuel x) :: tl
  | "not" => let (x, tl) ← pop1 st; return (← apiNot cfg fuel x) :: tl
  | "slice" =>
      let (x, tl) ← pop1 st
      return (← getitem cfg fuel x (← intArg 1) (← intArg 2)) :: tl
  | "bit" => let (x, tl) ← pop1 st; return (← bitOf cfg fuel x (← natArg 1)) :: tl
  | "compose" =>
      let n ← natArg 1
      if st.length < n then throw .unmodelled
      let parts := (st.take n).reverse
      return (← composer cfg fuel parts) :: st.drop n
  | "tst" =>
      let (r, tl) ← pop1 st
      let (l, tl) ← pop1 tl
      let (t, tl) ← pop1 tl
      return (← mkTst t l r) :: tl
  | "zext" => let (x, tl) ← pop1 st; return (← extend cfg fuel false x (← natArg 1)) :: tl
  | "sext" => let (x, tl) ← pop1 st; return (← extend cfg fuel true x (← natArg 1)) :: tl
  -- RAW constructors: the node is built by the class constructor alone, no construction-time simplification
  | "rawop" =>
      let (r, tl) ← pop1 st
      let (l, tl) ← pop1 tl
      let name ← strArg 1
      match (match binPy name with | some o => some o | none => binOper name) with
      | some bo => return (← mkOp bo l r) :: tl
      | none => throw .unmodelled
  | "rawuop" =>
      let (x, tl) ← pop1 st
      match (← strArg 1) with
      | "neg" => return mkUop .sub x :: tl
      | "not" => return mkUop .not x :: tl
      | _ => throw .unmodelled
  | "rawslc" =>
      let (x, tl) ← pop1 st
      return (← mkSlc cfg fuel x (← natArg 1) (← natArg 2)) :: tl
  | "rawcomp" =>
      -- `c = comp(total); c[pos:pos+p.size] = p` for each part, no simplification
      let n ← natArg 1
      if st.length < n then throw .unmodelled
      let parts := (st.take n).reverse
      let total := parts.foldl (fun a x => a + x.size) 0
      let (c, _) ← parts.foldlM (fun (acc : Expr × Nat) (x : Expr) => do
        let c ← setitem cfg fuel acc.1 (acc.2 : Int) ((acc.2 + x.size : Nat) : Int) x
        pure (c, acc.2 + x.size)) (Expr.comp total false [], 0)
      return c :: st.drop n
  | "simp" => let (x, tl) ← pop1 st; return (← simplify cfg fuel {} x) :: tl
  | "simpb" => let (x, tl) ← pop1 st; return (← simplify cfg fuel { bitslice := true } x) :: tl
  | _ =>
    let (r, tl) ← pop1 st
    let (l, tl) ← pop1 tl
    match binPy o with
    | some bo => return (← api cfg fuel bo l r) :: tl
    | none =>
      match binOper o with
      | some bo => return (← oper cfg fuel bo l r) :: tl
      | none =>
        match o with
        | "ltuh" => return (← helperCmp cfg fuel .ltu l r) :: tl
        | "geuh" => return (← helperCmp cfg fuel .geu l r) :: tl
        | "rorh" => return (← helperRot cfg fuel .ror l r) :: tl
        | "rolh" => return (← helperRot cfg fuel .rol l r) :: tl
        | _ => throw .unmodelled

def build (cfg : Cfg) (fuel : Nat) (script : Array Json) : R Expr := do
  let st ← script.foldlM (fun st ins => match ins with
    | Json.arr a => step cfg fuel st a
    | _ => throw .unmodelled) ([] : List Expr)
  match st with
  | [e] => pure e
  | _ => throw .unmodelled

def parseOpts (j : Json) : Opts :=
  match j with
  | Json.str "bitslice" => { bitslice := true }
  | Json.str "widening" => { widening := true }
  | _ => {}

/-- valuation `[[name,size,value]…]` → environment of constants (what `mapper.__getitem__` returns). -/
def parseVal (j : Json) : Except String Env := do
  let a ← j.getArr?
  a.toList.mapM (fun t => do
    let ta ← t.getArr?
    let n ← (← arrGet ta 0).getStr?
    let s ← (← arrGet ta 1).getNat?
    let v ← (← arrGet ta 2).getInt?
    pure (n, s, mkCst v s))

/-- symbolic environment `[[name,size,script]…]`: `m[reg] = build(script)` stores `comp{[0:size] ↦ v.simplify()}`
    (flattened when `v` is a comp) and `mapper.__getitem__` returns `r[0:size]` of it. -/
def parseEnvX (cfg : Cfg) (fuel : Nat) (j : Json) : Except String (R Env) := do
  let a ← j.getArr?
  let items ← a.toList.mapM (fun t => do
    let ta ← t.getArr?
    let n ← (← arrGet ta 0).getStr?
    let s ← (← arrGet ta 1).getNat?
    let sc ← (← arrGet ta 2).getArr?
    pure (n, s, sc))
  return items.mapM (fun (n, s, sc) => do
    let v ← build cfg fuel sc
    let v ← simplify cfg fuel {} v
    let c ← setitem cfg fuel (.comp s false []) 0 s (.reg n s false)
    let c ← setitem cfg fuel c 0 s v
    let r ← getitem cfg fuel c 0 s
    pure (n, s, r))

/-- does the tree contain a node without a single value (`top`, `vec`, `vecw`, `mem`, `ptr`)? -/
partial def nondet : Expr → Bool
  | .cst .. | .reg .. | .ext .. => false
  | .slc x .. => nondet x
  | .comp _ _ ps => ps.any (fun p => nondet p.2.2)
  | .tst t l r _ _ => nondet t || nondet l || nondet r
  | .op _ l r _ _ _ => nondet l || nondet r
  | .uop _ r _ _ _ => nondet r
  | _ => true

/-- executable `SfIs` (Amoco.Model.Eval): the operand is read with signedness `s` -/
partial def sfIsB (s : Bool) : Expr → Bool
  | .cst v sz f => f == s || !v.testBit (sz - 1)
  | .reg _ _ f | .ext _ _ f | .slc _ _ _ f _ _ | .comp _ f _ | .op _ _ _ _ f _ | .uop _ _ _ f _ => f == s
  | .tst _ l r _ _ => sfIsB s l && sfIsB s r
  | _ => false

/-- executable `SignOK`: every sign-dependent operator has two operands of ONE declared signedness — the trees on
    which `ideal` (one reading per operator, taken from the left operand) is the meaning; the real operators read
    each operand with its own flag, so on other trees `ideal` is not compared with the reference evaluator -/
partial def signOKB : Expr → Bool
  | .slc x .. => signOKB x
  | .comp _ _ ps => ps.all (fun p => signOKB p.2.2)
  | .tst t l r _ _ => signOKB t && signOKB l && signOKB r
  | .op o l r _ _ _ => signOKB l && signOKB r && (!signDep o || (sfIsB l.sf l && sfIsB l.sf r))
  | .uop _ r _ _ _ => signOKB r
  | _ => true

/-- valuations `[[[name,size,value]…]…]` → the Lean reference value `ideal ρ e` for each (null when `e` has no
    single value) -/
def idealsOf (e : Expr) (j : Json) : Json :=
  match j.getArr? with
  | .error _ => Json.null
  | .ok vals =>
    if nondet e || !signOKB e then Json.null else
    Json.arr (vals.map (fun vj =>
      match parseVal vj with
      | .error _ => Json.null
      | .ok env => jnat (ideal (envVal env) e)))

def outcome (r : R Expr) (ideals : Json := Json.null) : Json :=
  match r with
  | .ok e => Json.arr #[jstr "ok", dump e, jstr (render e), jnat e.size, idealsOf e ideals]
  | .error .unmodelled => jstr "unmodelled"
  | .error .fuel => jstr "fuel"
  | .error k => Json.arr #[jstr "raise", jstr (errStr k)]

def opRun (j : Json) : Json :=
  match getArr j "script", getArr j "action" with
  | .ok script, .ok action =>
    let thr := match getNat j "cplx" with | .ok n => n | .error _ => 0
    let fuel := match getNat j "fuel" with | .ok n => n | .error _ => 4000
    let topeq := match getBool j "topeq" with | .ok b => b | .error _ => true
    let cfg := mkCfg thr topeq
    let act := match action[0]? with | some (Json.str s) => s | _ => ""
    let res : R Expr := do
      let e ← build cfg fuel script
      match act with
      | "build" => pure e
      | "simplify" => simplify cfg fuel (parseOpts (action[1]?.getD Json.null)) e
      | "eval" =>
          match parseVal (action[1]?.getD Json.null) with
          | .ok env => eval cfg fuel env e
          | .error _ => throw .unmodelled
      | "simpeval" =>
          match parseVal (action[2]?.getD Json.null) with
          | .ok env => do
              let e ← simplify cfg fuel (parseOpts (action[1]?.getD Json.null)) e
              eval cfg fuel env e
          | .error _ => throw .unmodelled
      | "evalx" =>
          match parseEnvX cfg fuel (action[1]?.getD Json.null) with
          | .ok renv => do
              let env ← renv
              eval cfg fuel env e
          | .error _ => throw .unmodelled
      | _ => throw .unmodelled
    outcome res (match j.getObjVal? "ideals" with | .ok v => v | .error _ => Json.null)
  | _, _ => jerr "args"

/-! ### K-tie: CompWF on dumped comps (with the real `smask`) -/

/-- problems of one comp `["comp", size, sf, parts, smask]`. -/
def compProblems (j : Json) : List String :=
  match j.getArr? with
  | .error _ => ["not an array"]
  | .ok a =>
    match parse (Json.arr (a.extract 0 4)) with
    | .error e => if e.startsWith "unmodelled" then [] else ["parse: " ++ e]
    | .ok (.comp size _ parts) =>
        let p1 := if compWF size parts then [] else ["CompWF fails: parts do not tile [0,size) with their own widths"]
        let p2 := match a[4]? with
          | some (Json.arr sm) =>
              if sm.size != size then ["smask length"] else
              let bad := (List.range size).filter (fun b =>
                let want := match cover b parts with | some (lo, hi, _) => Json.arr #[jnat lo, jnat hi] | none => Json.null
                (sm[b]?.getD Json.null) != want)
              if bad.isEmpty then [] else [s!"smask disagrees with parts at bit {bad.head!}"]
          | _ => []
        p1 ++ p2
    | .ok _ => ["not a comp"]

partial def allComps (j : Json) (acc : Array Json) : Array Json :=
  match j with
  | Json.arr a =>
      let acc := match a[0]? with | some (Json.str "comp") => acc.push j | _ => acc
      a.foldl (fun acc x => allComps x acc) acc
  | _ => acc

def opCompWF (j : Json) : Json :=
  match j.getObjVal? "dump" with
  | .error e => jerr e
  | .ok d =>
    let cs := allComps d #[]
    let probs := cs.toList.flatMap compProblems
    Json.mkObj [("comps", jnat cs.size), ("problems", jlist jstr probs)]

def opParse (j : Json) : Json :=
  match j.getObjVal? "dump" with
  | .error e => jerr e
  | .ok d => match parse d with
    | .ok e => Json.arr #[dump e, jstr (render e)]
    | .error e => jerr e

def handle (j : Json) : Json :=
  match getStr j "op" with
  | .ok "expr.run" => opRun j
  | .ok "expr.compwf" => opCompWF j
  | .ok "expr.parse" => opParse j
  | .ok o => jerr s!"unknown op {o}"
  | .error e => jerr e

end Driver.Expr
