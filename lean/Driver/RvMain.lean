import Driver.Proto
import Driver.Rv
open Lean

def handleAll (j : Json) : Json :=
  match Driver.getStr j "op" with
  | .ok o =>
    if o.startsWith "rv." || o.startsWith "flags." then Driver.Rv.handle j
    else Driver.jerr s!"unknown op {o}"
  | .error e => Driver.jerr e

def main : IO Unit := Driver.run handleAll
