import Driver.Proto
import Amoco.Model.Hist
open Lean Amoco.Hist
namespace Driver.Hist

def opOf (j : Json) : Except String Op := do
  let a ← j.getArr?
  let isa ← a[0]!.getStr?
  let mn ← a[1]!.getStr?
  let ws ← (← a[2]!.getArr?).toList.mapM (fun (x : Json) => do
    let p ← x.getArr?
    pure ((← p[0]!.getNat?), (← p[1]!.getBool?)))
  pure ⟨isa, mn, ws⟩

def handle (j : Json) : Json :=
  match (do let t ← getArr j "table"; t.toList.mapM opOf) with
  | .error e => jerr e
  | .ok tbl =>
    Json.mkObj [("allClean", Json.bool (allClean tbl)),
                ("dirty", jlist (fun (o : Op) => Json.arr #[Json.str o.isa, Json.str o.mnemonic]) (dirty tbl)),
                ("n", jnat tbl.length)]
end Driver.Hist
