/-
  Driver.Map — JSON-lines ops for the mapper model (C02, C09).

  encodings (the IR of harness/map_gen.py)
    expr   : ["cst",v,size] | ["reg",name,size] | ["slc",expr,pos,size] | ["cat",[expr low→high]]
           | ["addc",expr,c] | ["op",sym,expr,expr] | ["load",[base,disp],size]
    stmt   : ["set",name,rs,pos,size,expr] | ["store",[base,disp],size,expr]
    prog   : {"be":bool,"stmts":[stmt,…]}
    canonical expression (output; same form as harness/map_real.py `canon`): list of parts low → high,
             ["c",value,width] | ["s",leaf,lo,width]
      leaf = ["r",name,size] | ["l",canon(base),disp,size,be,mods] | ["o",sym,canon(l),canon(r),size]
           | ["a",canon(x),c,size]            mods = [[canon(base),disp,canon(value),be],…]
  ops
    {"op":"map.run","prog":P,"noaliasing":b,"memtrace":b,"trace":b}
        → {"entries":[["r",name,size,canon]|["p",canon(base),disp,canon,be],…],"lastw":n,
           "zones":[[key,[[offset,canon byte],…]],…]  (key = canonical base or null), "trace":[{entries,lastw},…]}
    {"op":"map.apply","prog":P,"noaliasing":b,"memtrace":b,"regs":[[name,size,value],…],"seed":k,"probe":[addr,…]}
        → {"sym":{"regs":[…values…],"mem":[…bytes…]},"conc":{…same…}}      applyMap σ (symExec P) and concExec P σ
          (σ: the listed registers, every other register 0; memory byte at a = (a*131 + 89 + (a>>8)*7) mod 256)
    {"op":"map.compose","prog1":P1,"prog2":P2,…cfg…,"regs":…,"probe":…}
        → {"entries":…,"lastw":…, "m2ok":MapSt.ok m2 (hypothesis of rcompose_assoc_eval),
           "sym":…(applyMap σ (m1 >> m2)),"seq":…(applyMap (applyMap σ m1) m2)}
    {"op":"map.accesses","prog":P,…cfg…} → [[canon(base),disp,len,zonekey canon|null,zone offset],…]
-/
import Driver.Proto
import Amoco.Model.Mapper

open Lean Amoco.Mapper Amoco.Memory

namespace Driver.Map

/-! ### decoding -/

partial def xOfJson (j : Json) : Except String X := do
  let a ← j.getArr?
  match a.toList with
  | t :: rest =>
    let t ← t.getStr?
    match t, rest with
    | "cst", [v, s] => return .cst (← v.getNat?) (← s.getNat?)
    | "reg", [n, s] => return .reg (← n.getStr?) (← s.getNat?)
    | "slc", [x, p, s] => return .slc (← xOfJson x) (← p.getNat?) (← s.getNat?)
    | "cat", [l] =>
      let xs ← (← l.getArr?).toList.mapM xOfJson
      match xs.reverse with
      | [] => throw "cat"
      | last :: revInit => return revInit.foldl (fun acc x => X.cat x acc) last
    | "addc", [x, c] => return .addc (← xOfJson x) (← c.getInt?)
    | "op", [o, l, r] =>
      let l ← xOfJson l
      return .op (← o.getStr?) l (← xOfJson r) l.size
    | "load", [ad, s] =>
      let ad ← ad.getArr?
      return .load (← xOfJson ad[0]!) (← ad[1]!.getInt?) (← s.getNat?)
    | _, _ => throw s!"expr {t}"
  | _ => throw "expr"

def stmtOfJson (j : Json) : Except String Stmt := do
  let a ← j.getArr?
  match a.toList with
  | t :: rest =>
    let t ← t.getStr?
    match t, rest with
    | "set", [n, rs, pos, size, e] =>
      return .set (← n.getStr?) (← rs.getNat?) (← pos.getNat?) (← size.getNat?) (← xOfJson e)
    | "store", [ad, size, e] =>
      let ad ← ad.getArr?
      return .store (← xOfJson ad[0]!) (← ad[1]!.getInt?) (← size.getNat?) (← xOfJson e)
    | _, _ => throw "stmt"
  | _ => throw "stmt"

def progOfJson (j : Json) : Except String Prog := do
  let be ← getBool j "be"
  let ss ← (← getArr j "stmts").toList.mapM stmtOfJson
  return ⟨be, ss⟩

def cfgOfJson (j : Json) : Except String Cfg := do
  return ⟨← getBool j "noaliasing", ← getBool j "memtrace"⟩

/-! ### canonical form -/

/-- canonical parts are produced directly as JSON; two helper views for merging -/
structure Part where
  isC : Bool
  v : Nat            -- constant value (isC)
  leaf : Json        -- leaf (not isC)
  lo : Nat
  w : Nat

def Part.json (p : Part) : Json :=
  if p.isC then Json.arr #[Json.str "c", jnat p.v, jnat p.w]
  else Json.arr #[Json.str "s", p.leaf, jnat p.lo, jnat p.w]

def leafTag (j : Json) : String :=
  match j.getArr? with
  | .ok a => match a[0]? with
    | some t => (t.getStr?.toOption).getD ""
    | none => ""
  | .error _ => ""

/-- two whole loads adjacent in memory and in significance are one load -/
def joinLoads (q p : Part) : Option Part :=
  match q.leaf.getArr?, p.leaf.getArr? with
  | .ok lq, .ok lp =>
    if lq.size != 6 || lp.size != 6 then none else
    match lq[3]!.getNat?, lp[3]!.getNat?, lq[2]!.getInt?, lp[2]!.getInt?, lq[4]!.getBool?, lp[4]!.getBool? with
    | .ok sq, .ok sp, .ok dq, .ok dp, .ok beq, .ok bep =>
      if q.lo != 0 || p.lo != 0 || q.w != sq || p.w != sp then none
      else if lq[1]!.compress != lp[1]!.compress || beq != bep || lq[5]!.compress != lp[5]!.compress then none
      else if !beq && dp == dq + (sq / 8 : Nat) then
        some ⟨false, 0, Json.arr #[Json.str "l", lq[1]!, jint dq, jnat (sq + sp), Json.bool beq, lq[5]!], 0, sq + sp⟩
      else if beq && dq == dp + (sp / 8 : Nat) then
        some ⟨false, 0, Json.arr #[Json.str "l", lq[1]!, jint dp, jnat (sq + sp), Json.bool beq, lq[5]!], 0, sq + sp⟩
      else none
    | _, _, _, _, _, _ => none
  | _, _ => none

def mergeParts (ps : List Part) : List Part :=
  let step (out : List Part) (p : Part) : List Part :=   -- `out` is reversed
    if p.w == 0 then out else
    match out with
    | [] => [p]
    | q :: rest =>
      if p.isC && q.isC then ⟨true, q.v ||| (p.v <<< q.w), Json.null, 0, q.w + p.w⟩ :: rest
      else if !p.isC && !q.isC && p.leaf.compress == q.leaf.compress && p.lo == q.lo + q.w then
        ⟨false, 0, q.leaf, q.lo, q.w + p.w⟩ :: rest
      else if !p.isC && !q.isC && leafTag p.leaf == "l" && leafTag q.leaf == "l" then
        match joinLoads q p with
        | some j => j :: rest
        | none => p :: out
      else p :: out
  (ps.foldl step []).reverse

mutual
partial def canon (e : E) : Json :=
  Json.arr ((mergeParts (flat e 0 e.size)).map Part.json).toArray

partial def modsJson : Mods → List Json
  | .nil => []
  | .cons b d v be rest => Json.arr #[canon b, jint d, canon v, Json.bool be] :: modsJson rest

/-- canonical parts of bits [lo, lo+width) of e -/
partial def flat (e : E) (lo width : Nat) : List Part :=
  if width == 0 then [] else
  match e with
  | .cst v s => [⟨true, ((v % 2 ^ s) >>> lo) % 2 ^ width, Json.null, 0, width⟩]
  | .slc x p _ => flat x (p + lo) width
  | .cat a b =>
    let sa := a.size
    let la := if lo < sa then flat a lo (min (lo + width) sa - lo) else []
    let lb := if lo + width > sa then
        let blo := if lo > sa then lo - sa else 0
        flat b blo (lo + width - sa - blo) else []
    la ++ lb
  | .reg n s => [⟨false, 0, Json.arr #[Json.str "r", Json.str n, jnat s], lo, width⟩]
  | .addc x c => [⟨false, 0, Json.arr #[Json.str "a", canon x, jint c, jnat x.size], lo, width⟩]
  | .op o l r s => [⟨false, 0, Json.arr #[Json.str "o", Json.str o, canon l, canon r, jnat s], lo, width⟩]
  | .load b d s be ms =>
    let mods := Json.arr (modsJson ms).toArray
    let b1 := lo / 8
    let r1 := lo % 8
    let b2 := (lo + width + 7) / 8
    let n := s / 8
    if (b1 != 0 || b2 != n) && s % 8 == 0 then
      let disp : Int := d + (if be then ((n - b2 : Nat) : Int) else (b1 : Int))
      [⟨false, 0, Json.arr #[Json.str "l", canon b, jint disp, jnat ((b2 - b1) * 8), Json.bool be, mods], r1, width⟩]
    else
      [⟨false, 0, Json.arr #[Json.str "l", canon b, jint d, jnat s, Json.bool be, mods], lo, width⟩]
end

def entryJson (e : Entry) : Json :=
  match e.loc with
  | .reg n s => Json.arr #[Json.str "r", Json.str n, jnat s, canon e.val]
  | .ptr b d => Json.arr #[Json.str "p", canon b, jint d, canon e.val, Json.bool e.be]

def entriesJson (m : MapSt) : Json := Json.arr (m.entries.map entryJson).toArray

def zoneJson (tbl : List E) (kz : ZK × Zone) : Json :=
  let key := match kz.1 with
    | none => Json.null
    | some b => canon b
  let bytes := kz.2.map.flatMap (fun (o : Mo) =>
    let mb := o.data.memBytes
    (List.range mb.length).map (fun (k : Nat) =>
      Json.arr #[jint (o.vaddr + (k : Int)), canon (byteE tbl (mb.getD k (.raw 0)))]))
  Json.arr #[key, Json.arr bytes.toArray]

def mapJson (m : MapSt) : List (String × Json) :=
  [("entries", entriesJson m), ("lastw", jnat m.lastw),
   ("zones", Json.arr (m.zones.map (zoneJson m.tbl)).toArray)]

/-! ### concrete states -/

def sem : OpSem := fun o w a b =>
  match o with
  | "+" => (a + b) % 2 ^ w
  | "-" => wrap w ((a : Int) - (b : Int))
  | "^" => a ^^^ b
  | "&" => a &&& b
  | "|" => a ||| b
  | _ => 0

def initByte (a : Int) : Nat := ((a * 131 + 89 + (a / 256) * 7) % 256).toNat

def stOfJson (j : Json) : Except String (St × List (String × Nat)) := do
  let rs ← (← getArr j "regs").toList.mapM (fun (x : Json) => do
    let a ← x.getArr?
    pure (← a[0]!.getStr?, ← a[1]!.getNat?, ← a[2]!.getNat?))
  let reg : String → Nat → Nat := fun n s =>
    match rs.find? (fun r => r.1 == n && r.2.1 == s) with
    | some r => r.2.2
    | none => 0
  return (⟨reg, initByte⟩, rs.map (fun r => (r.1, r.2.1)))

def obsJson (σ : St) (regs : List (String × Nat)) (probe : List Int) : Json :=
  Json.mkObj [("regs", jlist (fun (r : String × Nat) => jnat (σ.reg r.1 r.2 % 2 ^ r.2)) regs),
              ("mem", jlist (fun (a : Int) => jnat (σ.mem a % 256)) probe)]

def getIntList (j : Json) (k : String) : Except String (List Int) := do
  (← getArr j k).toList.mapM (·.getInt?)

def traceOf (cfg : Cfg) (p : Prog) : List MapSt :=
  (p.stmts.foldl (fun (acc : MapSt × List MapSt) s =>
      let m' := symStep cfg p.be acc.1 s
      (m', m' :: acc.2)) (MapSt.empty, [])).2.reverse

def handle (j : Json) : Json :=
  match getStr j "op" with
  | .ok "map.run" =>
    (match (do pure (← progOfJson (← j.getObjVal? "prog"), ← cfgOfJson j, (getBool j "trace").toOption.getD false)) with
     | .error e => jerr e
     | .ok (p, cfg, tr) =>
       if !p.wf then Json.str "unmodelled" else
       let m := symExec cfg p
       let t := if tr then [("trace", Json.arr ((traceOf cfg p).map (fun m =>
                   Json.mkObj [("entries", entriesJson m), ("lastw", jnat m.lastw)])).toArray)] else []
       Json.mkObj (mapJson m ++ t))
  | .ok "map.apply" =>
    (match (do
        let p ← progOfJson (← j.getObjVal? "prog")
        let cfg ← cfgOfJson j
        let (σ, regs) ← stOfJson j
        pure (p, cfg, σ, regs, ← getIntList j "probe")) with
     | .error e => jerr e
     | .ok (p, cfg, σ, regs, probe) =>
       if !p.wf then Json.str "unmodelled" else
       Json.mkObj [("sym", obsJson (applyMap sem σ (symExec cfg p)) regs probe),
                   ("conc", obsJson (concExec sem p σ) regs probe)])
  | .ok "map.compose" =>
    (match (do
        let p1 ← progOfJson (← j.getObjVal? "prog1")
        let p2 ← progOfJson (← j.getObjVal? "prog2")
        let cfg ← cfgOfJson j
        let (σ, regs) ← stOfJson j
        pure (p1, p2, cfg, σ, regs, ← getIntList j "probe")) with
     | .error e => jerr e
     | .ok (p1, p2, cfg, σ, regs, probe) =>
       if !(p1.wf && p2.wf) then Json.str "unmodelled" else
       let m1 := symExec cfg p1
       let m2 := symExec cfg p2
       let mm := rcompose cfg m2 m1
       Json.mkObj (mapJson mm ++
         [("m2ok", Json.bool (m2.ok p2.be)),
          ("sym", obsJson (applyMap sem σ mm) regs probe),
          ("seq", obsJson (applyMap sem (applyMap sem σ m1) m2) regs probe)]))
  | .ok "map.accesses" =>
    (match (do pure (← progOfJson (← j.getObjVal? "prog"), ← cfgOfJson j)) with
     | .error e => jerr e
     | .ok (p, cfg) =>
       if !p.wf then Json.str "unmodelled" else
       jlist (fun (a : Access) =>
         let r := zref a.base a.disp
         Json.arr #[canon a.base, jint a.disp, jnat a.len,
                    (match r.1 with | none => Json.null | some b => canon b), jint r.2])
         (progAccesses cfg p.be MapSt.empty p.stmts))
  | .ok o => jerr s!"unknown op {o}"
  | .error e => jerr e

end Driver.Map
