/-
  Driver.Proto — JSON-lines protocol shared by the model drivers:
  one JSON object per input line, one JSON value per output line.
-/
import Lean.Data.Json

open Lean

namespace Driver

def jerr (msg : String) : Json := Json.mkObj [("err", Json.str msg)]

def getNat (j : Json) (k : String) : Except String Nat := do
  let v ← j.getObjVal? k
  v.getNat?

def getStr (j : Json) (k : String) : Except String String := do
  let v ← j.getObjVal? k
  v.getStr?

def getBool (j : Json) (k : String) : Except String Bool := do
  let v ← j.getObjVal? k
  v.getBool?

def getArr (j : Json) (k : String) : Except String (Array Json) := do
  let v ← j.getObjVal? k
  v.getArr?

def getNatList (j : Json) (k : String) : Except String (List Nat) := do
  let a ← getArr j k
  a.toList.mapM (·.getNat?)

def getStrList (j : Json) (k : String) : Except String (List String) := do
  let a ← getArr j k
  a.toList.mapM (·.getStr?)

def optStrList (j : Json) (k : String) : List String :=
  match getStrList j k with
  | .ok l => l
  | .error _ => []

def jnat (n : Nat) : Json := Json.num (JsonNumber.fromNat n)
def jint (n : Int) : Json := Json.num (JsonNumber.fromInt n)
def jlist {α} (f : α → Json) (l : List α) : Json := Json.arr (l.map f).toArray
def jopt {α} (f : α → Json) : Option α → Json
  | none => Json.null
  | some x => f x

partial def loop (handle : Json → Json) (hin hout : IO.FS.Stream) : IO Unit := do
  let line ← hin.getLine
  if line.isEmpty then return ()
  let t := line.trimAscii.toString
  if t.isEmpty then
    loop handle hin hout
  else
    let out := match Json.parse t with
      | .error e => jerr s!"parse: {e}"
      | .ok j => handle j
    hout.putStrLn out.compress
    hout.flush
    loop handle hin hout

def run (handle : Json → Json) : IO Unit := do
  loop handle (← IO.getStdin) (← IO.getStdout)

end Driver
