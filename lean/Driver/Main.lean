import Driver.Proto
import Driver.Dec
import Driver.Hist
import Driver.Merge
import Driver.Leb

open Lean

def handleAll (j : Json) : Json :=
  match Driver.getStr j "op" with
  | .ok o =>
    if o.startsWith "spec." || o.startsWith "dis." then Driver.Dec.handle j
    else if o.startsWith "hist." then Driver.Hist.handle j
    else if o.startsWith "merge." then Driver.Merge.handle j
    else if o.startsWith "leb." then Driver.Leb.handle j
    else Driver.jerr s!"unknown op {o}"
  | .error e => Driver.jerr e

def main : IO Unit := Driver.run handleAll
