import Driver.Proto
open Lean
def main : IO Unit := Driver.run (fun _ => Driver.jerr "not implemented")
