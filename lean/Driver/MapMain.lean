import Driver.Proto
import Driver.Map
open Lean
def main : IO Unit := Driver.run Driver.Map.handle
