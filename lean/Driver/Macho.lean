/-
  Driver.Macho — ops "macho.*" of the compiled model driver `drv_macho` (C14, C20 Mach-O half).
  Byte strings travel as lower-case hex strings.
    macho.parse {hex, targets?:[nat]} → {"init":"ok",kind,header,cmds,post,info?,fileoff?} | {"init":<exception class>,"raw":<class before the wrapper>}
    macho.ref   {hex}                 → {"wf":true, kind, header, cmds, post} | {"wf":false}
    macho.walk  {hex, soc, off}       → {"cmds":[…], "end": null | <exception class>, "steps": n}
    macho.table {}                    → [[cmd, need] …] for cmds 0..0x40 with and without LC_REQ_DYLD
    macho.utf8  {hex}                 → bool
-/
import Driver.Proto
import Amoco.Model.Macho

open Lean Amoco.Macho

namespace Driver.Macho

def hexNib (c : Char) : Option Nat :=
  if '0' ≤ c ∧ c ≤ '9' then some (c.toNat - 48)
  else if 'a' ≤ c ∧ c ≤ 'f' then some (c.toNat - 87)
  else if 'A' ≤ c ∧ c ≤ 'F' then some (c.toNat - 55)
  else none

partial def unhexGo : List Char → Array Nat → Option (Array Nat)
  | [], acc => some acc
  | [_], _ => none
  | a :: b :: t, acc =>
    match hexNib a, hexNib b with
    | some x, some y => unhexGo t (acc.push (x * 16 + y))
    | _, _ => none

def unhex (s : String) : Option (List Nat) := (unhexGo s.toList #[]).map Array.toList

def nibChar (n : Nat) : Char := if n < 10 then Char.ofNat (48 + n) else Char.ofNat (87 + n)

def hexStr (bs : List Nat) : String :=
  String.ofList (bs.foldr (fun b acc => nibChar (b / 16 % 16) :: nibChar (b % 16) :: acc) [])

def getBytes (j : Json) (k : String) : Except String (List Nat) := do
  let s ← Driver.getStr j k
  match unhex s with
  | some b => pure b
  | none => throw s!"bad hex in {k}"

def jbytes (b : List Nat) : Json := Json.str (hexStr b)

def exnName : Exn → String
  | .machoError => "MachOError"
  | .structureError => "StructureError"
  | .unicodeDecodeError => "UnicodeDecodeError"
  | .attributeError => "AttributeError"
  | .fuel => "FUEL"

def headerJson (k : Kind) (h : Header) : Json :=
  match k with
  | .fat => Json.mkObj [("magic", jnat h.magic), ("nfat_arch", jnat h.ncmds)]
  | _ =>
    Json.mkObj ([("magic", jnat h.magic), ("cputype", jint h.cputype), ("cpusubtype", jint h.cpusubtype),
                 ("filetype", jnat h.filetype), ("ncmds", jnat h.ncmds), ("sizeofcmds", jnat h.sizeofcmds),
                 ("flags", jnat h.flags)] ++ (if h.is64 then [("reserved", jnat h.reserved)] else []))

def sectJson (is64 : Bool) (s : Sect) : Json :=
  Json.mkObj ([("sectname", jbytes s.sectname), ("segname", jbytes s.segname), ("addr", jnat s.addr), ("size_", jnat s.size),
               ("offset", jnat s.offset), ("align", jnat s.align), ("reloff", jnat s.reloff), ("nreloc", jnat s.nreloc),
               ("ftype", jnat s.ftype), ("fattr", jbytes s.fattr), ("reserved1", jnat s.reserved1),
               ("reserved2", jnat s.reserved2)] ++ (if is64 then [("reserved3", jnat s.reserved3)] else []))

def lcJson (c : LC) : Json :=
  let base := [("off", jnat c.off), ("cmd", jnat c.cmd), ("cmdsize", jnat c.cmdsize), ("extent", jnat c.extent)]
  match c.body with
  | .raw => Json.mkObj (base ++ [("kind", Json.str "raw")])
  | .known n => Json.mkObj (base ++ [("kind", Json.str "known"), ("need", jnat n)])
  | .seg s =>
    Json.mkObj (base ++ [("kind", Json.str "seg"), ("segname", jbytes s.segname), ("vmaddr", jnat s.vmaddr),
      ("vmsize", jnat s.vmsize), ("fileoffset", jnat s.fileoffset), ("filesize", jnat s.filesize),
      ("maxprot", jint s.maxprot), ("initprot", jint s.initprot), ("nsects", jnat s.nsects), ("flags", jnat s.flags),
      ("sections", jlist (sectJson (c.cmd == LC_SEGMENT_64)) s.sections)])

def kindName : Kind → String
  | .macho32 => "macho32"
  | .macho64 => "macho64"
  | .fat => "fat"

def objFields (o : Obj) : List (String × Json) :=
  [("kind", Json.str (kindName o.kind)), ("header", headerJson o.kind o.header),
   ("cmds", match o.kind with | .fat => Json.null | _ => jlist lcJson o.cmds), ("post", Json.bool o.post)]

def infoJson : Info → Json
  | .none => Json.arr #[Json.str "none", jnat 0, jnat 0]
  | .seg ci off base => Json.arr #[Json.str "seg", jnat ci, jnat off, jnat base]
  | .sect ci si off base => Json.arr #[Json.str "sect", jnat ci, jnat si, jnat off, jnat base]

def handle (j : Json) : Json :=
  match Driver.getStr j "op" with
  | .error e => Driver.jerr e
  | .ok op =>
    if op == "macho.parse" then
      match getBytes j "hex" with
      | .error e => Driver.jerr e
      | .ok d =>
        let raw := parseRaw d
        match machoInit d with
        | .error e =>
          Json.mkObj [("init", Json.str (exnName e)),
                      ("raw", Json.str (match raw with | .error r => exnName r | .ok _ => "ok"))]
        | .ok o =>
          let ts := match Driver.getNatList j "targets" with | .ok l => l | .error _ => []
          Json.mkObj ([("init", Json.str "ok")] ++ objFields o ++
            [("info", jlist (fun t => infoJson (getinfo o t)) ts),
             ("fileoff", jlist (fun t => jopt jnat (getfileoffset o t)) ts)])
    else if op == "macho.ref" then
      match getBytes j "hex" with
      | .error e => Driver.jerr e
      | .ok d =>
        match refParse d with
        | none => Json.mkObj [("wf", Json.bool false)]
        | some o => Json.mkObj ([("wf", Json.bool true)] ++ objFields o)
    else if op == "macho.walk" then
      match getBytes j "hex", Driver.getNat j "soc", Driver.getNat j "off" with
      | .ok d, .ok soc, .ok off =>
        let r := walk d soc (d.length + 1) off 0
        Json.mkObj [("cmds", jlist lcJson r.1), ("end", jopt (fun e => Json.str (exnName e)) r.2),
                    ("steps", jnat r.1.length)]
      | _, _, _ => Driver.jerr "macho.walk: hex, soc, off"
    else if op == "macho.table" then
      let cmds := (List.range 0x41) ++ (List.range 0x41).map (· + 0x80000000)
      jlist (fun c => Json.arr #[jnat c, jopt jnat (knownNeed c),
                                 Json.bool (c == LC_SEGMENT || c == LC_SEGMENT_64 || c == LC_BUILD_VERSION),
                                 Json.bool (isPostCmd c)]) cmds
    else if op == "macho.utf8" then
      match getBytes j "hex" with
      | .error e => Driver.jerr e
      | .ok d => Json.bool (utf8Valid d)
    else Driver.jerr s!"unknown op {op}"

end Driver.Macho
