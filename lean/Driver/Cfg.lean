/-
  Driver.Cfg — ops for sweep / blocks / cfg (C18).
    sweep : reader table + start → model `sequence` and `iterblocks`
    blk   : a block and a list of `support/length/raw/getitem/cut` queries
    cfg   : an instruction stream and an insertion history → support and edges after each insertion
-/
import Driver.Proto
import Amoco.Model.Blocks
import Amoco.Model.Cfg

open Lean Amoco Amoco.Blocks Amoco.Cfg

namespace Driver.Cfg

/-- `[addr, [bytes] | len, cf?, delayed?]` -/
def instrOf (j : Json) : Except String Instr := do
  let a ← j.getArr?
  if a.size < 2 then throw "instr" else
  let addr ← a[0]!.getNat?
  let bytes ← match a[1]!.getNat? with
    | .ok n => pure (List.replicate n 0)
    | .error _ => do let bs ← a[1]!.getArr?; bs.toList.mapM (·.getNat?)
  let cf := if h : 2 < a.size then (a[2].getBool?.toOption.getD false) else false
  let dl := if h : 3 < a.size then (a[3].getBool?.toOption.getD false) else false
  pure { addr := addr, bytes := bytes, cf := cf, delayed := dl }

def instrsOf (j : Json) (k : String) : Except String (List Instr) := do
  let a ← getArr j k
  a.toList.mapM instrOf

def optInt (j : Json) : Option Int :=
  match j.getInt? with
  | .ok v => some v
  | .error _ => none

def blockJson (b : Block) : Json := jlist (fun (i : Instr) => jnat i.addr) b

def opSweep (j : Json) : Json :=
  match (do
    let table ← instrsOf j "table"
    let loc ← getNat j "loc"
    let fuel ← getNat j "fuel"
    let md := (getNat j "mod").toOption
    pure (table, loc, fuel, md)) with
  | .error e => jerr e
  | .ok (table, loc, fuel, md) =>
    let read : Reader := fun a => table.find? (fun i => i.addr == a)
    let norm : Nat → Nat := match md with | some m => (· % m) | none => id
    let s := sequence read norm fuel loc
    Json.mkObj [("seq", jlist (fun (i : Instr) => Json.arr #[jnat i.addr, jnat i.length]) s),
                ("blocks", jlist blockJson (iterblocks s)),
                ("first", jopt blockJson (getblock read norm fuel loc))]

def opBlk (j : Json) : Json :=
  match (do
    let b ← instrsOf j "instrs"
    let ops ← getArr j "ops"
    pure (b, ops.toList)) with
  | .error e => jerr e
  | .ok (b, ops) =>
    let one (o : Json) : Json :=
      match o.getArr? with
      | .error e => jerr e
      | .ok a =>
        match a[0]!.getStr? with
        | .ok "support" => jopt (fun (p : Nat × Nat) => Json.arr #[jnat p.1, jnat p.2]) (support b)
        | .ok "length" => jnat (blen b)
        | .ok "raw" => jlist jnat (raw b)
        | .ok "getitem" =>
          (match getitem b (optInt a[1]!) (optInt a[2]!) with
           | none => Json.null
           | some r => Json.mkObj [("instrs", blockJson r), ("support", jopt (fun (p : Nat × Nat) => Json.arr #[jnat p.1, jnat p.2]) (support r)),
                                   ("raw", jlist jnat (raw r))])
        | .ok "cut" =>
          (match a[1]!.getNat? with
           | .ok addr =>
             let (r, nl) := cut b addr
             Json.mkObj [("nl", jnat nl), ("instrs", blockJson r), ("length", jnat (blen r)), ("raw", jlist jnat (raw r))]
           | .error e => jerr e)
        | _ => jerr "blk-op"
    jlist one ops

def moJson (m : Mo) : Json := Json.arr #[jnat m.vaddr, jnat (blen m.blk), blockJson m.blk]

def pairLt (a b : Nat × Nat) : Bool := a.1 < b.1 || (a.1 == b.1 && a.2 < b.2)

def graphJson (g : Graph) : List (String × Json) :=
  [("support", jlist moJson g.support),
   ("edges", jlist (fun (e : Nat × Nat) => Json.arr #[jnat e.1, jnat e.2]) (g.edges.toArray.qsort pairLt).toList)]

/-- history item: `[s, e]` (instructions `s..e-1` of the stream) or `{"instrs": [...]}` -/
def histItem (stream : List Instr) (j : Json) : Except String Block :=
  match j.getArr? with
  | .ok a => do
    let s ← a[0]!.getNat?
    let e ← a[1]!.getNat?
    pure ((stream.take e).drop s)
  | .error _ => instrsOf j "instrs"

def opCfg (j : Json) : Json :=
  match (do
    let stream ← instrsOf j "stream"
    let hist ← (← getArr j "hist").toList.mapM (histItem stream)
    let gets := (getNatList j "get").toOption.getD []
    pure (hist, gets)) with
  | .error e => jerr e
  | .ok (hist, gets) =>
    let step (acc : Option Graph × List Json) (v : Block) : Option Graph × List Json :=
      match acc.1 with
      | none => (none, Json.mkObj [("res", Json.str "skipped")] :: acc.2)
      | some g =>
        match addVertex (v.length + 1) g v with
        | .ok g' n => (some g', Json.mkObj ([("res", Json.str "ok"), ("ret", jnat n)] ++ graphJson g') :: acc.2)
        | .overlay => (none, Json.mkObj [("res", Json.str "unmodelled")] :: acc.2)
        | .error => (none, Json.mkObj [("res", Json.str "error")] :: acc.2)
    let (gfin, outs) := hist.foldl step (some Graph.empty, [])
    let getj : Json := match gfin with
      | none => Json.null
      | some g => jlist (fun a => jopt (fun (m : Mo) => jnat m.vaddr) (getWithAddress g a)) gets
    Json.mkObj [("steps", Json.arr outs.reverse.toArray), ("get", getj)]

/-- `zone`: writes of runs of the stream straight into the zone model (`MemoryZone.write` with nodes
    as data), overlapping ones included -/
def opZone (j : Json) : Json :=
  match (do
    let stream ← instrsOf j "stream"
    let ws ← (← getArr j "writes").toList.mapM (histItem stream)
    pure ws) with
  | .error e => jerr e
  | .ok ws =>
    let step (acc : Option Zone × List Json) (v : Block) : Option Zone × List Json :=
      match acc.1 with
      | none => (none, Json.str "skipped" :: acc.2)
      | some z =>
        match address? v with
        | none => (none, Json.str "error" :: acc.2)
        | some a =>
          match zoneWrite z a v with
          | none => (none, Json.str "error" :: acc.2)
          | some z' => (some z', jlist moJson z' :: acc.2)
    let (_, outs) := ws.foldl step (some [], [])
    Json.arr outs.reverse.toArray

def handle (j : Json) : Json :=
  match getStr j "op" with
  | .ok "sweep" => opSweep j
  | .ok "blk" => opBlk j
  | .ok "cfg" => opCfg j
  | .ok "zone" => opZone j
  | .ok o => jerr s!"unknown op {o}"
  | .error e => jerr e

end Driver.Cfg
