import Driver.Proto
import Driver.Load
open Lean
def main : IO Unit := Driver.run Driver.Load.handle
