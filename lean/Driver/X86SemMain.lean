import Driver.Proto
import Driver.X86Sem
open Lean

def handleAll (j : Json) : Json :=
  match Driver.getStr j "op" with
  | .ok o =>
    if o.startsWith "x86sem." then Driver.X86Sem.handle j
    else Driver.jerr s!"unknown op {o}"
  | .error e => Driver.jerr e

def main : IO Unit := Driver.run handleAll
