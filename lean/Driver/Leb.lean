import Driver.Proto
import Amoco.Model.LebOperand
open Lean Amoco.Leb128
namespace Driver.Leb

/-- {"op":"leb.operand","signed":b,"data":[bytes],"offset":n} → [value, blen] | null (rejected) -/
def handle (j : Json) : Json :=
  match (do
    let sg ← getBool j "signed"
    let d ← getNatList j "data"
    let off ← getNat j "offset"
    pure (sg, d, off)) with
  | .error e => jerr e
  | .ok (sg, d, off) =>
    match lebOperand sg (d.map UInt8.ofNat) off with
    | none => Json.null
    | some (v, n) => Json.arr #[jint v, jnat n]
end Driver.Leb
