/-
  Driver.Fmt — ops "fmt.*" of the compiled model driver `drv_struct` (C14, C20).
  Byte strings travel as lower-case hex strings.
-/
import Driver.Proto
import Amoco.Model.HexSrec
import Amoco.Model.Elf

open Lean Amoco Amoco.Fmt

namespace Driver.Fmt

def hexNib (c : Char) : Option Nat :=
  if '0' ≤ c ∧ c ≤ '9' then some (c.toNat - 48)
  else if 'a' ≤ c ∧ c ≤ 'f' then some (c.toNat - 87)
  else if 'A' ≤ c ∧ c ≤ 'F' then some (c.toNat - 55)
  else none

partial def unhexGo : List Char → Array Nat → Option (Array Nat)
  | [], acc => some acc
  | [_], _ => none
  | a :: b :: t, acc =>
    match hexNib a, hexNib b with
    | some x, some y => unhexGo t (acc.push (x * 16 + y))
    | _, _ => none

def unhex (s : String) : Option (List Nat) := (unhexGo s.toList #[]).map Array.toList

def nibChar (n : Nat) : Char := if n < 10 then Char.ofNat (48 + n) else Char.ofNat (87 + n)

def hexStr (bs : List Nat) : String :=
  String.ofList (bs.foldr (fun b acc => nibChar (b / 16 % 16) :: nibChar (b % 16) :: acc) [])

def getBytes (j : Json) (k : String) : Except String (List Nat) := do
  let s ← Driver.getStr j k
  match unhex s with
  | some b => pure b
  | none => throw s!"bad hex in {k}"

def jbytes (b : List Nat) : Json := Json.str (hexStr b)

def jexn (e : PyExn) : Json := Json.mkObj [("exn", Json.str e.name)]

def jpy {α} (f : α → Json) : Py α → Json
  | .ok a => Json.mkObj [("ok", f a)]
  | .error e => jexn e

def jrec (r : Rec) : Json := Json.mkObj (r.map (fun p => (p.1, jnat p.2)))

/-! ### HEX / SREC -/

def hexExtJson : HexExt → Json
  | .none => Json.null
  | .base v => Json.arr #[Json.str "base", jint v]
  | .csip a b => Json.arr #[Json.str "csip", jint a, jint b]
  | .ela v => Json.arr #[Json.str "ela", jint v]
  | .eip v => Json.arr #[Json.str "eip", jint v]

def hexLineJson (l : HexLine) : Json :=
  Json.mkObj [("count", jint l.count), ("address", jint l.address), ("code", jint l.code),
              ("data", jbytes l.data), ("cksum", jnat l.cksum), ("ext", hexExtJson l.ext)]

def srecLineJson (l : SrecLine) : Json :=
  Json.mkObj [("type", jint l.type), ("count", jint l.count), ("address", jint l.address),
              ("data", jbytes l.data), ("cksum", jnat l.cksum)]

def addrsJson (l : List (Int × List Nat)) : Json :=
  jlist (fun (p : Int × List Nat) => Json.arr #[jint p.1, jbytes p.2]) l

def hexFileJson (h : HexFile) : Json :=
  Json.mkObj [("lines", jlist hexLineJson h.lines),
    ("entry", match h.entry with | .zero => jnat 0 | .csip a b => Json.arr #[jint a, jint b]),
    ("eip", jopt jint h.eip),
    ("decode", addrsJson (hexDecode h.lines)),
    ("ref", addrsJson (hexRefAddrs h.lines)),
    ("nomix", Json.bool true)]

def srecFileJson (s : SrecFile) : Json :=
  Json.mkObj [("lines", jlist srecLineJson s.lines), ("name", jopt jbytes s.name), ("entry", jopt jint s.entry),
    ("decode", addrsJson (srecDecode s.lines))]

def opHexLine (j : Json) : Json :=
  match getBytes j "line" with
  | .error e => jerr e
  | .ok b => jpy hexLineJson (hexLineSet b)

def opSrecLine (j : Json) : Json :=
  match getBytes j "line" with
  | .error e => jerr e
  | .ok b => jpy srecLineJson (srecLineSet b)

def opHexFile (j : Json) : Json :=
  match getBytes j "data" with
  | .error e => jerr e
  | .ok b => jpy hexFileJson (hexInit b)

def opSrecFile (j : Json) : Json :=
  match getBytes j "data" with
  | .error e => jerr e
  | .ok b => jpy srecFileJson (srecInit b)

def opPyInt (j : Json) : Json :=
  match getBytes j "s", getNat j "base" with
  | .ok b, .ok base => jpy jint (pyInt base b)
  | _, _ => jerr "args"

def opHexPrint (j : Json) : Json :=
  match getNat j "count", getNat j "address", getNat j "code", getBytes j "data", getNat j "ck" with
  | .ok c, .ok a, .ok t, .ok d, .ok ck =>
    let r : HexRec := { count := c, address := a, code := t, data := d }
    Json.mkObj [("line", jbytes (hexPrint r ck)), ("cksum", jnat r.cksum)]
  | _, _, _, _, _ => jerr "args"

def opSrecPrint (j : Json) : Json :=
  match getNat j "type", getNat j "address", getBytes j "data", getNat j "ck" with
  | .ok t, .ok a, .ok d, .ok ck =>
    let r : SrecRec := { type := t, address := a, data := d }
    Json.mkObj [("line", jbytes (srecPrint r ck)), ("cksum", jnat r.cksum), ("count", jnat r.count)]
  | _, _, _, _ => jerr "args"

/-! ### struct field lists -/

def fieldJson (f : RawField) : Json := Json.arr #[Json.str f.name, jnat f.size, jnat f.count]

def layoutJson (l : List (String × Nat × Nat)) : Json :=
  jlist (fun (e : String × Nat × Nat) => Json.arr #[Json.str e.1, jnat e.2.1, jnat e.2.2]) l

def structsJson : Json :=
  let one (name : String) (f : Bool → List RawField) (s : Bool → List (String × Nat × Nat)) (packed : Bool) (base : Nat) : List (String × Json) :=
    [false, true].map (fun x64 =>
      (name ++ (if x64 then "64" else "32"),
       Json.mkObj [("fields", jlist fieldJson (f x64)),
                   ("layout", layoutJson (if packed then layoutPacked (f x64) base else layout (f x64) base)),
                   ("spec", layoutJson (s x64))]))
  Json.mkObj (
    [("IDENT", Json.mkObj [("fields", jlist fieldJson identFields), ("layout", layoutJson (layout identFields 0)),
                           ("spec", layoutJson specIdent)])] ++
    one "Ehdr" ehdrFields specEhdr true 16 ++ one "Phdr" phdrFields specPhdr false 0 ++
    one "Shdr" shdrFields specShdr false 0 ++ one "Sym" symFields specSym false 0 ++
    one "Rel" relFields specRel false 0 ++ one "Rela" relaFields specRela false 0 ++
    one "Dyn" dynFields specDyn false 0)

/-! ### ELF -/

def getEnv (j : Json) : ElfEnv :=
  { knownPT := (getNatList j "pt").toOption.getD [], knownSHT := (getNatList j "sht").toOption.getD [] }

def funcValJson : FuncVal → Json
  | .sym n s i x => Json.arr #[jbytes n, jnat s, jnat i, jnat x]
  | .dyn n => jbytes n

def dictJson (d : List (Nat × FuncVal)) : Json :=
  jlist (fun (p : Nat × FuncVal) => Json.arr #[jnat p.1, funcValJson p.2]) d

def whereJson : Where → Json
  | .none => Json.null
  | .sec i => Json.arr #[Json.str "sec", jnat i]
  | .seg i => Json.arr #[Json.str "seg", jnat i]

def tablesJson (t : ElfTables) : Json :=
  Json.mkObj [("ident", jrec t.ident), ("ehdr", jrec t.ehdr), ("x64", Json.bool t.x64), ("be", Json.bool t.be),
    ("dynamic", Json.bool t.dynamic), ("basemap", jopt jnat t.basemap),
    ("phdr", jlist jrec t.phdr),
    ("shdr", jlist (fun (s : Section) => Json.mkObj [("hdr", jrec s.hdr), ("name", jbytes s.name)]) t.shdr)]

def refJson (r : RefElf) : Json :=
  Json.mkObj [("x64", Json.bool r.x64), ("be", Json.bool r.be), ("ident", jrec r.ident), ("ehdr", jrec r.ehdr),
    ("phdr", jlist jrec r.phdr), ("shdr", jlist jrec r.shdr), ("names", jlist jbytes r.names), ("entry", jnat r.entry)]

def fnv (bs : List Nat) : Nat := bs.foldl (fun h b => ((h ^^^ b) * 16777619) % 4294967296) 2166136261

def segJson (data : Bytes) (p : Rec) : Json :=
  if fget p "p_memsz" > 16777216 || fget p "p_filesz" > 16777216 then Json.str "big"
  else match readsegment data p with
    | .error e => jexn e
    | .ok b => Json.arr #[jnat b.length, jnat (fnv b)]

def opElf (j : Json) : Json :=
  match getBytes j "data" with
  | .error e => jerr e
  | .ok data =>
    let env := getEnv j
    let addrs := (getNatList j "addrs").toOption.getD []
    let wantRef := (getBool j "ref").toOption.getD false
    let raw := elfParseRaw env data
    let wrapped := toElfError raw
    let base : List (String × Json) :=
      [("raw", match raw with | .ok _ => Json.str "ok" | .error e => Json.str e.name),
       ("init", match wrapped with | .ok _ => Json.str "ok" | .error e => Json.str e.name)]
    let body : List (String × Json) :=
      match raw with
      | .error .notImpl => [("unmodelled", Json.bool true)]
      | .error _ =>
        (match elfTables env data with
         | .ok t => [("tables", tablesJson t)]
         | .error _ => [])
      | .ok o =>
        [("tables", tablesJson o.t), ("functions", dictJson o.functions), ("variables", dictJson o.variables),
         ("entrypoints", jlist jnat o.entrypoints),
         ("queries", jlist (fun a =>
            let gi := getinfo o.t a
            Json.arr #[jnat a, whereJson gi.1, jnat gi.2.1, jnat gi.2.2, jopt jnat (getfileoffset o.t a)]) addrs),
         ("segments", jlist (segJson data) o.t.phdr)]
    let r : List (String × Json) := if wantRef then [("ref", refJson (refElf data))] else []
    Json.mkObj (base ++ body ++ r)

/-! ### read_program -/

def pyClass {α} : Py α → String
  | .ok _ => "ok"
  | .error e => e.name

def opReadProgram (j : Json) : Json :=
  match getBytes j "data" with
  | .error e => jerr e
  | .ok data =>
    let env := getEnv j
    let eraw := elfParseRaw env data
    let e := toElfError eraw
    let h := hexInit data
    let s := srecInit data
    -- `readProgram` with the PE / Mach-O / COFF bodies rejecting: the definite answer of the chain
    let name : String :=
      if e.isOk then "Elf" else if h.isOk then "HEX" else if s.isOk then "SREC" else "shellcode"
    Json.mkObj [("elf", Json.str (pyClass e)), ("elfraw", Json.str (pyClass eraw)),
      ("pe", Json.bool (peHeaderOK data)), ("macho", Json.bool (machoHeaderOK data)),
      ("coff", Json.bool (coffHeaderOK data)), ("hex", Json.str (pyClass h)), ("srec", Json.str (pyClass s)),
      ("definite", Json.str name)]

def handle (j : Json) : Json :=
  match Driver.getStr j "op" with
  | .error e => jerr e
  | .ok o =>
    if o == "fmt.hexline" then opHexLine j
    else if o == "fmt.srecline" then opSrecLine j
    else if o == "fmt.hex" then opHexFile j
    else if o == "fmt.srec" then opSrecFile j
    else if o == "fmt.pyint" then opPyInt j
    else if o == "fmt.hexprint" then opHexPrint j
    else if o == "fmt.srecprint" then opSrecPrint j
    else if o == "fmt.structs" then structsJson
    else if o == "fmt.elf" then opElf j
    else if o == "fmt.readprogram" then opReadProgram j
    else jerr s!"unknown op {o}"

end Driver.Fmt
