/-
  Driver.Rv — ops of the C06 driver, RISC-V part:
    rv.decode   {isa, word}                                  → {mn, ops}
    rv.step     {isa, word, regs, pc, mem, dump, mode, [mn], [ops]} → {regs, pc, mem} | {err}
                mode "ref"       : the reference interpreter `rvRef`
                mode "expected"  : `semIdeal (expected isa m)`   on the model's (or the given) operands
                mode "generated" : `semIdeal (generated isa m)`  (the table translated from asm.py)
    rv.gen_eq   {}                                           → [[isa, mn, status], …]
  Memory is a sparse list of [address, byte] pairs over a deterministic background pattern
  (`fillByte`, same formula in harness/rv_ref.py).
-/
import Driver.Proto
import Amoco.Model.SemDsl
import Generated.RvSem
import Amoco.Model.Flags

open Lean Amoco.Rv

namespace Driver.Rv

def fillByte (a : Nat) : Nat := (a * 167 + 13 + (a / 256) * 31) % 256

def isaOf (s : String) : Option Isa :=
  if s == "rv32" then some .rv32 else if s == "rv64" then some .rv64 else none

def isaName : Isa → String | .rv32 => "rv32" | .rv64 => "rv64"

def opndJson : Operand → Json
  | .reg i => Json.arr #[Json.str "reg", jnat i]
  | .imm v s sf => Json.arr #[Json.str "imm", jnat v, jnat s, Json.bool sf]
  | .mem b s d => Json.arr #[Json.str "mem", jnat b, jnat s, jint d]

def opndOfJson (j : Json) : Except String Operand := do
  let a ← j.getArr?
  let k ← (a[0]?.getD Json.null).getStr?
  if k == "reg" then
    return .reg (← (a[1]?.getD Json.null).getNat?)
  else if k == "imm" then
    return .imm (← (a[1]?.getD Json.null).getNat?) (← (a[2]?.getD Json.null).getNat?) (← (a[3]?.getD Json.null).getBool?)
  else if k == "mem" then
    return .mem (← (a[1]?.getD Json.null).getNat?) (← (a[2]?.getD Json.null).getNat?) (← (a[3]?.getD Json.null).getInt?)
  else throw "operand kind"

def mkState (n : Nat) (regs : List Nat) (pc : Nat) (mem : List (Nat × Nat)) : State n :=
  let ra := regs.toArray
  { x := fun i => BitVec.ofNat n (ra[i]?.getD 0),
    pc := BitVec.ofNat n pc,
    mem := fun a => BitVec.ofNat 8 (match mem.lookup a.toNat with | some b => b | none => fillByte a.toNat) }

def dumpState {n} (σ : State n) (dump : List Nat) : Json :=
  Json.mkObj [
    ("regs", jlist jnat ((List.range 32).map (fun i => (σ.get i).toNat))),
    ("pc", jnat σ.pc.toNat),
    ("mem", jlist (fun a => Json.arr #[jnat a, jnat (σ.mem (BitVec.ofNat n a)).toNat]) dump)]

def getPairs (j : Json) (k : String) : Except String (List (Nat × Nat)) := do
  let a ← getArr j k
  a.toList.mapM (fun p => do
    let q ← p.getArr?
    return (← (q[0]?.getD Json.null).getNat?, ← (q[1]?.getD Json.null).getNat?))

def opDecode (j : Json) : Except String Json := do
  let isa ← match isaOf (← getStr j "isa") with | some i => pure i | none => throw "isa"
  let w := BitVec.ofNat 32 (← getNat j "word")
  match decode isa w with
  | none => return Json.mkObj [("mn", Json.null), ("ops", Json.arr #[])]
  | some m => return Json.mkObj [("mn", Json.str m.name), ("ops", jlist opndJson (operands isa m w))]

def stepWith (isa : Isa) (j : Json) : Except String Json := do
  let n := isa.xlen
  let w := BitVec.ofNat 32 (← getNat j "word")
  let regs ← getNatList j "regs"
  let pc ← getNat j "pc"
  let mem ← getPairs j "mem"
  let dump ← getNatList j "dump"
  let mode ← getStr j "mode"
  let σ : State n := mkState n regs pc mem
  if mode == "ref" then
    match decode isa w with
    | none => return Json.mkObj [("err", Json.str "illegal")]
    | some _ => return dumpState (rvRef isa σ w) dump
  else
    let m ← match (getStr j "mn").toOption with
      | some s => (match Mn.ofName s with | some m => pure m | none => throw "mn")
      | none => (match decode isa w with | some m => pure m | none => throw "illegal")
    let ops ← match (getArr j "ops").toOption with
      | some a => a.toList.mapM opndOfJson
      | none => pure (operands isa m w)
    let sem ← if mode == "expected" then pure (some (expected isa m))
              else if mode == "generated" then pure (Generated.Rv.generated isa m)
              else throw "mode"
    match sem with
    | none => return Json.mkObj [("err", Json.str "no-semantics")]
    | some s =>
      match semIdeal s ops σ with
      | none => return Json.mkObj [("err", Json.str "unmodelled")]
      | some σ' => return dumpState σ' dump

def opStep (j : Json) : Except String Json := do
  match isaOf (← getStr j "isa") with
  | some .rv32 => stepWith .rv32 j
  | some .rv64 => stepWith .rv64 j
  | none => throw "isa"

def hasUnsupported (s : Sem) : Option String :=
  s.findSome? (fun st => match st with
    | .unsupported why => some why
    | .guardNZ _ (.unsupported why) => some why
    | _ => none)

def opGenEq : Json :=
  let rows := [Isa.rv32, Isa.rv64].flatMap (fun isa =>
    (mnemonics isa).map (fun m =>
      let st : String := match Generated.Rv.generated isa m with
        | none => "missing"
        | some s => if s == expected isa m then "ok"
                    else match hasUnsupported s with
                      | some why => "unsupported: " ++ why
                      | none => "differs"
      Json.arr #[Json.str (isaName isa), Json.str m.name, Json.str st]))
  Json.mkObj [("rows", Json.arr rows.toArray),
              ("extra32", jlist Json.str Generated.Rv.rv32_extra), ("extra64", jlist Json.str Generated.Rv.rv64_extra),
              ("notes", jlist Json.str (Generated.Rv.rv32_notes ++ Generated.Rv.rv64_notes))]

/-! ### x86 flag helpers -/

open Amoco.Flags in
def opFlags (o : String) (j : Json) : Except String Json := do
  if o == "flags.awc" then
    let n ← getNat j "n"
    let x := BitVec.ofNat n (← getNat j "x")
    let y := BitVec.ofNat n (← getNat j "y")
    let c ← getBool j "c"
    let r := if (← getBool j "sub") then subWithBorrow x y c else addWithCarry x y c
    return Json.arr #[jnat r.res.toNat, Json.bool r.carry, Json.bool r.overflow]
  else if o == "flags.half" then
    let n ← getNat j "n"
    let x := BitVec.ofNat n (← getNat j "x")
    let y := BitVec.ofNat n (← getNat j "y")
    let c ← getBool j "c"
    return Json.bool (if (← getBool j "sub") then halfborrow x y c else halfcarry x y c)
  else if o == "flags.parity8" then
    let x := BitVec.ofNat 8 (← getNat j "x")
    return Json.arr #[Json.bool (parity8 x), Json.bool (evenParity x)]
  else if o == "flags.cond" then
    let f : Fl := ⟨← getBool j "cf", ← getBool j "pf", ← getBool j "zf", ← getBool j "sf", ← getBool j "of"⟩
    return Json.bool (cond (← getNat j "cc") f)
  else if o == "flags.cmp" then
    let n ← getNat j "n"
    let a := BitVec.ofNat n (← getNat j "a")
    let b := BitVec.ofNat n (← getNat j "b")
    let f := cmpFlags a b
    return Json.arr #[Json.bool f.cf, Json.bool f.pf, Json.bool f.zf, Json.bool f.sf, Json.bool f.of]
  else if o == "flags.writereg" then
    return jnat (writeReg (BitVec.ofNat 64 (← getNat j "old")) (← getNat j "size") (BitVec.ofNat 64 (← getNat j "v"))).toNat
  else if o == "flags.rot" then
    let n ← getNat j "n"
    let x := BitVec.ofNat n (← getNat j "x")
    let k ← getNat j "k"
    let left ← getBool j "left"
    if (← getBool j "withcarry") then
      let c ← getBool j "c"
      let r := if left then rolWithCarry x k c else rorWithCarry x k c
      return Json.arr #[jnat r.1.toNat, Json.bool r.2]
    else
      return Json.arr #[jnat (if left then rol x k else ror x k).toNat]
  else if o == "flags.shcf" then
    let n ← getNat j "n"
    let a := BitVec.ofNat n (← getNat j "a")
    let k ← getNat j "count"
    let kind ← getStr j "kind"
    return Json.bool (if kind == "shl" then shlCF a k else if kind == "shr" then shrCF a k else sarCF a k)
  else throw s!"unknown op {o}"

def handle (j : Json) : Json :=
  match getStr j "op" with
  | .error e => jerr e
  | .ok o =>
    let r : Except String Json :=
      if o == "rv.decode" then opDecode j
      else if o == "rv.step" then opStep j
      else if o == "rv.gen_eq" then pure opGenEq
      else if o.startsWith "flags." then opFlags o j
      else throw s!"unknown op {o}"
    match r with
    | .ok v => v
    | .error e => jerr e

end Driver.Rv
