import Driver.Proto
import Driver.Mem
open Lean
def main : IO Unit := Driver.run Driver.Mem.handle
