import Driver.Proto
import Driver.Mem
import Driver.Load
open Lean
def main : IO Unit := Driver.run (fun j =>
  match Driver.getStr j "op" with
  | .ok o => if o.startsWith "load." then Driver.Load.handle j else Driver.Mem.handle j
  | .error _ => Driver.Mem.handle j)
