/-
  Driver.Pe — ops "pe.*" of the compiled model driver `drv_pe` (C14 / C20, PE half).
    pe.parse {hex, addrs?}  → {"ok": dump} | {"exn": class}   the model of PE.__init__ (header stage)
                              with "raw": the class raised before the wrapper of __init__
    pe.ref   {hex}          → {"wf": bool, "dump": dump}     the reference reader and PeWF
  dump = {"e_lfanew", "plus", "NT": {name: value}, "Opt": {…}, "dirs": [[rva, size]…],
          "sections": [{…}], "basemap", "entry", "queries": [[addr, loc, fileoffset]…]}
  Byte strings travel as hex; section names as hex of the 8 bytes.
-/
import Driver.Proto
import Amoco.Model.Pe

open Lean Amoco.Pe

namespace Driver.Pe

def hexNib (c : Char) : Option Nat :=
  if '0' ≤ c ∧ c ≤ '9' then some (c.toNat - 48)
  else if 'a' ≤ c ∧ c ≤ 'f' then some (c.toNat - 87)
  else if 'A' ≤ c ∧ c ≤ 'F' then some (c.toNat - 55)
  else none

partial def unhexGo : List Char → Array Nat → Option (Array Nat)
  | [], acc => some acc
  | [_], _ => none
  | a :: b :: t, acc =>
    match hexNib a, hexNib b with
    | some x, some y => unhexGo t (acc.push (x * 16 + y))
    | _, _ => none

def unhex (s : String) : Option (List Nat) := (unhexGo s.toList #[]).map Array.toList

def getBytes (j : Json) (k : String) : Except String (List Nat) := do
  let s ← Driver.getStr j k
  match unhex s with
  | some b => pure b
  | none => throw s!"bad hex in {k}"

def exnName : PyExn → String
  | .peError => "PEError"
  | .structureError => "StructureError"
  | .structError => "struct.error"
  | .attributeError => "AttributeError"

/-- names of the reference reader's records (PE/COFF specification, in table order) -/
def refCoffNames : List String :=
  ["Signature", "Machine", "NumberOfSections", "TimeDateStamp", "PointerToSymbolTable", "NumberOfSymbols",
   "SizeOfOptionalHeader", "Characteristics"]
def refOptStd : List String :=
  ["Magic", "MajorLinkerVersion", "MinorLinkerVersion", "SizeOfCode", "SizeOfInitializedData",
   "SizeOfUninitializedData", "AddressOfEntryPoint", "BaseOfCode"]
def refOptWin : List String :=
  ["ImageBase", "SectionAlignment", "FileAlignment", "MajorOperatingSystemVersion", "MinorOperatingSystemVersion",
   "MajorImageVersion", "MinorImageVersion", "MajorSubsystemVersion", "MinorSubsystemVersion", "Win32VersionValue",
   "SizeOfImage", "SizeOfHeaders", "CheckSum", "Subsystem", "DllCharacteristics", "SizeOfStackReserve",
   "SizeOfStackCommit", "SizeOfHeapReserve", "SizeOfHeapCommit", "LoaderFlags", "NumberOfRvaAndSizes"]
def refOptNames (plus : Bool) : List String :=
  if plus then refOptStd ++ refOptWin else refOptStd ++ ["BaseOfData"] ++ refOptWin
def refSecNames : List String :=
  ["Name", "VirtualSize", "RVA", "SizeOfRawData", "PointerToRawData", "PointerToRelocations",
   "PointerToLineNumbers", "NumberOfRelocations", "NumberOfLineNumbers", "Characteristics"]

def jrecN (names : List String) (r : Rec) : Json :=
  Json.mkObj ((names.zip r).map (fun p => (p.1, jnat p.2)))

def locJson : Loc → Json
  | .sec i off => Json.arr #[Json.str "sec", jnat i, jint off]
  | .hdr a => Json.arr #[Json.str "hdr", jint a]
  | .unmapped => Json.null

def fileoffJson : Py Int → Json
  | .ok v => jint v
  | .error e => Json.mkObj [("exn", Json.str (exnName e))]

/-- `modelNames = true`: field names come from the model's (patched) field lists; otherwise from
    the specification's tables. -/
def dump (modelNames : Bool) (o : PeObj) (addrs : List Int) : Json :=
  let ntN := if modelNames then coffFields.map (·.name) else refCoffNames
  let optN := if modelNames then (optFields (if o.plus then [0x0b, 0x02] else [0x0b, 0x01])).map (·.name)
              else refOptNames o.plus
  let secN := if modelNames then secFields.map (·.name) else refSecNames
  Json.mkObj [
    ("e_lfanew", jnat o.lfanew), ("plus", Json.bool o.plus),
    ("NT", jrecN ntN o.nt), ("Opt", jrecN optN o.opt),
    ("dirs", jlist (fun d => jlist jnat d) o.dirs),
    ("sections", jlist (jrecN secN) o.sections),
    ("basemap", jnat o.basemap), ("entry", jnat o.entry),
    ("queries", jlist (fun a => Json.arr #[jint a, locJson (locate o a true), locJson (locate o a false),
                                          fileoffJson (getfileoffset o a)]) addrs)]

def getAddrs (j : Json) : List Int :=
  match Driver.getArr j "addrs" with
  | .ok a => a.toList.filterMap (fun x => match x.getInt? with | .ok v => some v | .error _ => none)
  | .error _ => []

def handle (j : Json) : Json :=
  match Driver.getStr j "op" with
  | .error e => jerr e
  | .ok op =>
    match getBytes j "hex" with
    | .error e => jerr e
    | .ok data =>
      if op == "pe.parse" then
        let raw := match peParseRaw data with
          | .ok _ => Json.str "ok"
          | .error e => Json.str (exnName e)
        match peInit data with
        | .ok o => Json.mkObj [("ok", dump true o (getAddrs j)), ("raw", raw)]
        | .error e => Json.mkObj [("exn", Json.str (exnName e)), ("raw", raw)]
      else if op == "pe.ref" then
        -- outside PeWF the count fields are unconstrained (2^32 directories): no dump
        if Ref.PeWF data then
          Json.mkObj [("wf", Json.bool true), ("dump", dump false (Ref.refRead data) (getAddrs j))]
        else Json.mkObj [("wf", Json.bool false), ("dump", Json.null)]
      else jerr s!"unknown op {op}"

end Driver.Pe
