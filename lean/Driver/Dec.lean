/-
  Driver.Dec — ops for the decoder stack (C03 C04 C05 C11 C17).
-/
import Driver.Proto
import Amoco.Model.Spec
import Amoco.Model.Dis

open Lean Amoco

namespace Driver.Dec

open Amoco.Spec in
def kindStr : Kind → String | .int => "int" | .bits => "bits" | .str => "str"

open Amoco.Spec in
def extJson (e : Ext) : Json :=
  Json.arr #[Json.bool e.toAttr, Json.str e.sym, Json.str (kindStr e.kind), jnat e.sta, jopt jnat e.sto,
             Json.bool e.go]

open Amoco.Spec in
def rfieldJson (e : RField) : Json :=
  Json.arr #[Json.bool e.toAttr, Json.str e.sym, Json.str (kindStr e.kind), jnat e.lo, jopt jnat e.hi,
             Json.bool e.lsbFirstStr]

open Amoco.Spec in
def berrStr : BErr → String
  | .tooWide => "tooWide" | .outOfBound => "outOfBound" | .redefined => "redefined"
  | .ovlStar => "ovlStar" | .mismatch => "mismatch"

open Amoco.Spec in
def valJson : Val → Json
  | .int v => Json.arr #[Json.str "int", jnat v]
  | .bits v n => Json.arr #[Json.str "bits", jnat v, jnat n]
  | .str s => Json.arr #[Json.str "str", Json.str (String.ofList (s.map (fun b => if b then '1' else '0')))]

open Amoco.Spec in
def specBuild (j : Json) : Except String (Ast × Except BErr Spec × List String × List String) := do
  let fmt ← getStr j "fmt"
  let keysA := optStrList j "keysA"
  let keysF := optStrList j "keysF"
  match parse fmt with
  | none => throw "parse"
  | some a => pure (a, buildspec a keysA keysF, keysA, keysF)

open Amoco.Spec in
def opSpecBuild (j : Json) : Json :=
  match specBuild j with
  | .error e => jerr e
  | .ok (a, r, keysA, keysF) =>
    let ok := GrammarOK a keysA keysF
    let refc := refCells a
    let common : List (String × Json) :=
      [("grammarOK", Json.bool ok), ("refFix", jnat (cellsFix refc)), ("refMask", jnat (cellsMask refc)),
       ("refLen", jnat refc.length),
       ("refFields", jlist rfieldJson (refFields a)), ("nitems", jnat a.items.length)]
    match r with
    | .error e => Json.mkObj (("berr", Json.str (berrStr e)) :: common)
    | .ok s =>
      Json.mkObj ([("size", jnat s.size), ("fixSize", jnat s.fixSize), ("fix", jnat s.fix), ("mask", jnat s.mask),
        ("pfx", Json.bool s.pfx), ("xdata", Json.bool s.xdata), ("exts", jlist extJson s.exts)] ++ common)

open Amoco.Spec in
def opSpecDecode (j : Json) : Json :=
  match specBuild j with
  | .error e => jerr e
  | .ok (_, .error e, _, _) => jerr (berrStr e)
  | .ok (_, .ok s, _, _) =>
    match getNatList j "bytes", getBool j "be" with
    | .ok bytes, .ok be =>
      match decode s bytes be with
      | none => Json.null
      | some ds => jlist (fun (d : Delivered) => Json.arr #[Json.bool d.toAttr, Json.str d.sym, valJson d.val]) ds
    | _, _ => jerr "args"

/-! ### disassembler ops -/

open Amoco.Dis

def pfxOf : Nat → Pfx | 1 => .prefix | 2 => .xdata | _ => .no
def pfxNat : Pfx → Nat | .no => 0 | .prefix => 1 | .xdata => 2

def specKOf (j : Json) : Except String SpecK := do
  let a ← j.getArr?
  if a.size < 5 then throw "speck" else
  pure { id := ← a[0]!.getNat?, size := ← a[1]!.getNat?, mask := ← a[2]!.getNat?, fix := ← a[3]!.getNat?,
         pfx := pfxOf (← a[4]!.getNat?) }

def specKs (j : Json) (k : String) : Except String (List SpecK) := do
  let a ← getArr j k
  a.toList.mapM specKOf

/-- tree JSON: `["leaf",[ids]]` or `["node", f, [[k, tree], ...]]` (children in dict order) -/
partial def treeOf (tbl : Array SpecK) (j : Json) : Except String Tree := do
  let a ← j.getArr?
  let tag ← a[0]!.getStr?
  if tag == "leaf" then
    let ids ← (← a[1]!.getArr?).toList.mapM (·.getNat?)
    let specs ← ids.mapM (fun i => if h : i < tbl.size then pure tbl[i] else throw "id")
    pure (.leaf specs)
  else
    let f ← a[1]!.getNat?
    let cs ← (← a[2]!.getArr?).toList.mapM (fun c => do
      let ca ← c.getArr?
      let k ← ca[0]!.getNat?
      let t ← treeOf tbl ca[1]!
      pure (k, t))
    pure (.node f cs)

partial def treeJson : Tree → Json
  | .leaf l => Json.arr #[Json.str "leaf", jlist (fun (s : SpecK) => jnat s.id) l]
  | .node f cs => Json.arr #[Json.str "node", jnat f,
      Json.arr (cs.map (fun (k, t) => Json.arr #[jnat k, treeJson t])).toArray]

/-- `dis.check`: run the certificate checker on a dumped real tree, and compare with model `setup`. -/
def opDisCheck (j : Json) : Json :=
  match (do
    let specs ← specKs j "specs"
    let be ← getBool j "be"
    let maxlen ← getNat j "maxlen"
    let tree ← treeOf specs.toArray (← j.getObjVal? "tree")
    pure (specs, be, maxlen, tree)) with
  | .error e => jerr e
  | .ok (specs, be, maxlen, tree) =>
    let sorted := sortW specs
    let model := setup be maxlen (specs.length + 1) specs
    Json.mkObj [("check", Json.bool (checkTree be maxlen tree sorted)),
                ("sorted", jlist (fun (s : SpecK) => jnat s.id) sorted),
                ("modelCheck", Json.bool (checkTree be maxlen model sorted)),
                ("sameTree", Json.bool (treeJson model == treeJson tree))]

/-- `dis.route`: leaf candidates (ids) reached for each byte string, on the dumped tree. -/
def opDisRoute (j : Json) : Json :=
  match (do
    let specs ← specKs j "specs"
    let be ← getBool j "be"
    let maxlen ← getNat j "maxlen"
    let tree ← treeOf specs.toArray (← j.getObjVal? "tree")
    let inputs ← (← getArr j "inputs").toList.mapM (fun (x : Json) => do let a ← x.getArr?; a.toList.mapM Json.getNat?)
    pure (be, maxlen, tree, inputs)) with
  | .error e => jerr e
  | .ok (be, maxlen, tree, inputs) =>
    jlist (fun bytes => jlist (fun (s : SpecK) => jnat s.id) (route tree (key be maxlen bytes))) inputs

/-- `dis.call`: replay a history of calls.  Each call gives the input bytes and the table of real
    per-attempt decode outcomes `[[pendingLen, offset, specId, outcome], …]` where outcome is
    `0` reject, `1` ok, `2+e` raise; the model walks the real tree and predicts which attempts are
    made, the result class and the pending state after the call.  Instructions are abstracted to the
    number of bytes accumulated. -/
def opDisCall (j : Json) : Json :=
  match (do
    let specs ← specKs j "specs"
    let be ← getBool j "be"
    let maxlen ← getNat j "maxlen"
    let tree ← treeOf specs.toArray (← j.getObjVal? "tree")
    let fixed ← getBool j "fixed"
    let calls ← (← getArr j "calls").toList.mapM (fun (c : Json) => do
      let bytes ← getNatList c "bytes"
      let outs ← (← getArr c "outs").toList.mapM (fun (o : Json) => do
        let a ← o.getArr?
        pure (← a[0]!.getNat?, ← a[1]!.getNat?, ← a[2]!.getNat?, ← a[3]!.getNat?))
      let xdRaises ← getBool c "xdRaises"
      pure (bytes, outs, xdRaises))
    pure (be, maxlen, tree, fixed, calls)) with
  | .error e => jerr e
  | .ok (be, maxlen, tree, fixed, calls) =>
    -- instruction = accumulated byte count ; `dec` looks the outcome up in the table by
    -- (pending bytes, remaining input length, spec id)
    let step (st : Option Nat) (c : List Nat × List (Nat × Nat × Nat × Nat) × Bool) : Option Nat × Json :=
      let (bytes, outs, xdRaises) := c
      let total := bytes.length
      let dec (p : Option Nat) (bs : List Nat) (s : SpecK) : Out Nat :=
        let plen := p.getD 0
        let off := total - bs.length
        match outs.find? (fun (pl, o, id, _) => pl == plen && o == off && id == s.id) with
        | none => .reject
        | some (_, _, _, 0) => .reject
        | some (_, _, _, 1) => .ok (plen + s.size / 8)
        | some (_, _, _, e) => .raise e
      let xd (i : Nat) : Option Nat := if xdRaises then none else some i
      let (st', r) := call fixed (fun bs => route tree (key be maxlen bs)) dec xd (total + 2) st bytes
      let rj := match r with
        | .none => Json.str "none"
        | .instr n => Json.arr #[Json.str "instr", jnat n]
        | .raised e => Json.arr #[Json.str "raised", jnat e]
      (st', Json.mkObj [("res", rj), ("pending", jopt jnat st')])
    let (_, outs) := calls.foldl (fun (acc : Option Nat × List Json) c =>
      let (st', o) := step acc.1 c
      (st', o :: acc.2)) (none, [])
    Json.arr outs.reverse.toArray

def handle (j : Json) : Json :=
  match getStr j "op" with
  | .ok "spec.build" => opSpecBuild j
  | .ok "spec.decode" => opSpecDecode j
  | .ok "spec.macro" =>
    (match getStr j "fmt" with
     | .ok f => jopt Json.str (Amoco.Spec.expandIa32 f)
     | .error e => jerr e)
  | .ok "dis.check" => opDisCheck j
  | .ok "dis.route" => opDisRoute j
  | .ok "dis.call" => opDisCall j
  | .ok o => jerr s!"unknown op {o}"
  | .error e => jerr e

end Driver.Dec
