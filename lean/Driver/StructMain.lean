/-
  drv_struct — compiled model driver for the struct language, LEB128 (C16) and the file
  formats built on it (C14 C15 C20).  Shared by two builders:
    ops "struct.*" / "leb.*"  → Driver.Struct.handle   (builder `struct`, C16)
    ops "fmt.*"               → Driver.Fmt.handle      (builder `formats`; add the import and the
                                                        dispatch line at the two marked places)
-/
import Driver.Proto
import Driver.Struct
import Driver.Fmt

open Lean

def handleAll (j : Json) : Json :=
  match Driver.getStr j "op" with
  | .ok o =>
    if o.startsWith "struct." || o.startsWith "leb." then Driver.Struct.handle j
    else if o.startsWith "fmt." then Driver.Fmt.handle j
    else Driver.jerr s!"unknown op {o}"
  | .error e => Driver.jerr e

def main : IO Unit := Driver.run handleAll
