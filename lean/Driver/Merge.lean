import Driver.Proto
import Amoco.Model.Merge
open Lean Amoco.Merge
namespace Driver.Merge

/-- leaves are (rendering, scaled complexity) -/
abbrev Leaf := String × Nat

def leafOf (j : Json) : Except String Leaf := do
  let a ← j.getArr?
  pure (← a[0]!.getStr?, ← a[1]!.getNat?)

def mvOf (j : Json) : Except String (MV Leaf) := do
  let a ← j.getArr?
  let tag ← a[0]!.getStr?
  match tag with
  | "top" => pure .top
  | "leaf" => pure (.leaf (← leafOf a[1]!))
  | "vec" => pure (.vec (← (← a[1]!.getArr?).toList.mapM leafOf))
  | "vecw" => pure (.vecw (← (← a[1]!.getArr?).toList.mapM leafOf))
  | _ => throw "mv"

def mvJson : MV Leaf → Json
  | .top => Json.arr #[Json.str "top"]
  | .leaf e => Json.arr #[Json.str "leaf", Json.str e.1]
  | .vec l => Json.arr #[Json.str "vec", jlist (fun (e : Leaf) => Json.str e.1) l]
  | .vecw l => Json.arr #[Json.str "vecw", jlist (fun (e : Leaf) => Json.str e.1) l]

def eqL (a b : Leaf) : Bool := a.1 == b.1

def mapOf (j : Json) : Except String (Map Leaf) := do
  (← j.getArr?).toList.mapM (fun (x : Json) => do
    let a ← x.getArr?
    pure (⟨← a[0]!.getStr?, ← a[1]!.getBool?⟩, ← mvOf a[2]!))

def handle (j : Json) : Json :=
  match getStr j "op" with
  | .ok "merge.vec" =>
    (match (do
      let cs ← (← getArr j "children").toList.mapM mvOf
      pure (cs, ← getNat j "thr", ← getBool j "widening")) with
     | .error e => jerr e
     | .ok (cs, thr, w) => mvJson (vecSimplify eqL (·.2) thr w cs))
  | .ok "merge.map" =>
    (match (do
      let m1 ← mapOf (← j.getObjVal? "m1")
      let m2 ← mapOf (← j.getObjVal? "m2")
      pure (m1, m2, ← getNat j "thr", ← getBool j "widening")) with
     | .error e => jerr e
     | .ok (m1, m2, thr, w) =>
       -- values arrive already simplified by the real code: `simp` is the identity here;
       -- an untouched location reads as itself (rendering = its name, complexity 2 = depth 1 + 1 symbol)
       let input (l : Loc) : Leaf := (l.name, 2 * 729)
       let r := merge input id (vecSimplify eqL (·.2) thr w) m1 m2
       jlist (fun (p : Loc × MV Leaf) => Json.arr #[Json.str p.1.name, mvJson p.2]) r)
  | .ok o => jerr s!"unknown op {o}"
  | .error e => jerr e
end Driver.Merge
