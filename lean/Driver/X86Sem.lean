/-
  Driver.X86Sem — ops of the C06 driver, x86 instruction bodies:
    x86sem.eval  {which:"generated"|"expected", arch:"x64"|"x86", mn, w, a, b, flags:[cf,pf,af,zf,sf,of], [old]}
                 → {rip, dst|null, zx, cf|null … of|null, final:[cf,pf,af,zf,sf,of], reg|null} | {err:"unmodelled …"}
                 `final` = flag values after the body (stored value, else the incoming one);
                 `reg`   = the full destination register after the write, from its old value `old`
                           (`Flags.writeReg` when the value went through `_r32_zx64`, a plain merge otherwise)
    x86sem.ref   {mn, w, a, b, cf} → {res|null, cf, pf, af, zf, sf, of}  with each flag true|false|"unchanged"|"undefined"
    x86sem.conforms {which, arch, mn, w, a, b, flags} → true|false|{err}   (`conforms (run …) flags (ref …)`)
    x86sem.table {arch} → [[mn, "ok"|"differs"|"untranslated: why"|"missing"], …]
-/
import Driver.Proto
import Amoco.Model.X86Sem
import Generated.X86Sem

open Lean Amoco.X86Sem Amoco.Flags

namespace Driver.X86Sem

def archOf (s : String) : Option Arch :=
  if s == "x64" then some .x64 else if s == "x86" then some .x86 else none

def mnOf (s : String) : Option Mn := allMn.find? (fun m => m.name == s)

def job (o : Option Bool) : Json := match o with | some b => Json.bool b | none => Json.null

def effJson : Eff → Json
  | .set v => Json.bool v
  | .unchanged => Json.str "unchanged"
  | .undefined => Json.str "undefined"

def whyUnsupported (s : Sem) : Option String :=
  s.findSome? (fun st => match st with | .unsupported w => some w | _ => none)

def semOf (j : Json) : Except String (Arch × Mn × Sem) := do
  let ar ← match archOf (← getStr j "arch") with | some a => pure a | none => throw "arch"
  let m ← match mnOf (← getStr j "mn") with | some m => pure m | none => throw "mn"
  let which ← getStr j "which"
  if which == "expected" then return (ar, m, expected ar m)
  else if which == "generated" then
    match Generated.X86.generated ar m with
    | some s => return (ar, m, s)
    | none => throw "unmodelled: no generated term"
  else throw "which"

def getFlags (j : Json) : Except String Fl6 := do
  let a ← getArr j "flags"
  let g (i : Nat) : Except String Bool := (a[i]?.getD Json.null).getBool?
  return ⟨← g 0, ← g 1, ← g 2, ← g 3, ← g 4, ← g 5⟩

/-- full register after a write of the `w` low bits -/
def mergeReg (old : Nat) (w : Nat) (v : Nat) (zx : Bool) : Nat :=
  if zx then (writeReg (BitVec.ofNat 64 old) w (BitVec.ofNat 64 v)).toNat
  else old - old % 2 ^ w + v % 2 ^ w

def evalJson (w : Nat) (s : Sem) (a b : Nat) (f : Fl6) (old : Option Nat) : Except String Json :=
  match Amoco.X86Sem.run s (BitVec.ofNat w a) (BitVec.ofNat w b) f.cf with
  | none => .error ("unmodelled: " ++ (whyUnsupported s).getD "ill-typed term or `x < 0` on an undeclared word")
  | some (out : Out w) =>
    let reg : Json := match out.dst, old with
      | some v, some old => jnat (mergeReg old w v.toNat out.zx)
      | _, _ => Json.null
    .ok (Json.mkObj [
      ("rip", jnat out.rip), ("dst", jopt (fun (v : BitVec w) => jnat v.toNat) out.dst), ("zx", Json.bool out.zx),
      ("cf", job out.cf), ("pf", job out.pf), ("af", job out.af), ("zf", job out.zf), ("sf", job out.sf), ("of", job out.of),
      ("final", Json.arr #[Json.bool (out.cf.getD f.cf), Json.bool (out.pf.getD f.pf), Json.bool (out.af.getD f.af),
                           Json.bool (out.zf.getD f.zf), Json.bool (out.sf.getD f.sf), Json.bool (out.of.getD f.of)]),
      ("reg", reg)])

def conformsJson (w : Nat) (m : Mn) (s : Sem) (a b : Nat) (f : Fl6) : Except String Json :=
  match Amoco.X86Sem.run s (BitVec.ofNat w a) (BitVec.ofNat w b) f.cf with
  | none => .error "unmodelled"
  | some (out : Out w) => .ok (Json.bool (conforms out f (ref m (BitVec.ofNat w a) (BitVec.ofNat w b) f.cf)))

def handle (j : Json) : Json :=
  let r : Except String Json := do
    let o ← getStr j "op"
    if o == "x86sem.eval" then
      let (_, _, s) ← semOf j
      evalJson (← getNat j "w") s (← getNat j "a") (← getNat j "b") (← getFlags j) ((getNat j "old").toOption)
    else if o == "x86sem.ref" then
      let m ← match mnOf (← getStr j "mn") with | some m => pure m | none => throw "mn"
      let w ← getNat j "w"
      let a := BitVec.ofNat w (← getNat j "a")
      let b := BitVec.ofNat w (← getNat j "b")
      let r := ref m a b (← getBool j "cf")
      return Json.mkObj [("res", jopt (fun (v : BitVec w) => jnat v.toNat) r.res), ("cf", effJson r.cf), ("pf", effJson r.pf),
        ("af", effJson r.af), ("zf", effJson r.zf), ("sf", effJson r.sf), ("of", effJson r.of)]
    else if o == "x86sem.conforms" then
      let (_, m, s) ← semOf j
      conformsJson (← getNat j "w") m s (← getNat j "a") (← getNat j "b") (← getFlags j)
    else if o == "x86sem.table" then
      let ar ← match archOf (← getStr j "arch") with | some a => pure a | none => throw "arch"
      return jlist (fun (m : Mn) =>
        let st : String := match Generated.X86.generated ar m with
          | none => "missing"
          | some s => match whyUnsupported s with
            | some w => "untranslated: " ++ w
            | none => if s == expected ar m then "ok" else "differs"
        Json.arr #[Json.str m.name, Json.str st]) allMn
    else throw s!"unknown op {o}"
  match r with
  | .ok v => v
  | .error e => jerr e

end Driver.X86Sem
