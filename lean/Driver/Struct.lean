/-
  Driver.Struct — ops "struct.*" and "leb.*" of the compiled model driver `drv_struct` (C16).

  A definition is given as the amoco source text plus the environment of previously defined
  types (in definition order):
     {"name":..,"kind":"struct|union|typedef","src":..,"packed":bool,"order":null|"<"|">","tdcount":n}
-/
import Driver.Proto
import Amoco.Model.Struct
import Amoco.Model.Leb128

open Lean Amoco

namespace Driver.Struct

open Amoco.Struct

/-! ### encodings -/

def hexDigit (n : Nat) : Char := if n < 10 then Char.ofNat (48 + n) else Char.ofNat (87 + n)

def hexOf (bs : Bytes) : String :=
  String.ofList (bs.flatMap (fun b => [hexDigit (b.toNat / 16), hexDigit (b.toNat % 16)]))

def hexVal (c : Char) : Option Nat :=
  if '0' ≤ c ∧ c ≤ '9' then some (c.toNat - 48)
  else if 'a' ≤ c ∧ c ≤ 'f' then some (c.toNat - 87)
  else if 'A' ≤ c ∧ c ≤ 'F' then some (c.toNat - 55)
  else none

def unhex : List Char → Option Bytes
  | [] => some []
  | a :: b :: r =>
    match hexVal a, hexVal b, unhex r with
    | some x, some y, some t => some (UInt8.ofNat (16 * x + y) :: t)
    | _, _, _ => none
  | _ => none

def getHex (j : Json) (k : String) : Except String Bytes := do
  let s ← getStr j k
  match unhex s.toList with
  | some b => pure b
  | none => throw "hex"

partial def valJson : Val → Json
  | .int v => jint v
  | .bytes b => Json.mkObj [("b", Json.str (hexOf b))]
  | .seq vs => Json.arr (vs.map valJson).toArray
  | .dict kv => Json.mkObj [("d", Json.mkObj (kv.map (fun p => (p.1, jint p.2))))]
  | .inst ns len => Json.mkObj [("i", Json.mkObj (ns.map (fun p => (p.1, valJson p.2)))), ("len", jnat len)]
  | .pyNone => Json.null

partial def jsonVal (j : Json) : Option Val :=
  match j with
  | .null => some .pyNone
  | .num _ => (j.getInt?.toOption).map .int
  | .arr a => (a.toList.mapM jsonVal).map .seq
  | .obj _ =>
    match j.getObjVal? "b" with
    | .ok (.str s) => (unhex s.toList).map .bytes
    | _ =>
      match j.getObjVal? "d" with
      | .ok (.obj kv) =>
        (kv.toList.mapM (fun (p : String × Json) => (p.2.getInt?.toOption).map (fun x => (p.1, x)))).map .dict
      | _ =>
        match j.getObjVal? "i", j.getObjVal? "len" with
        | .ok (.obj kv), .ok l =>
          match kv.toList.mapM (fun (p : String × Json) => (jsonVal p.2).map (fun x => (p.1, x))), l.getNat?.toOption with
          | some ns, some n => some (.inst ns n)
          | _, _ => none
        | _, _ => none
  | _ => none

def kindOf : String → Option Kind
  | "struct" => some .struct
  | "union" => some .union
  | "typedef" => some .typedef
  | _ => none

def orderOf (j : Json) : Option Bool :=
  match j.getObjVal? "order" with
  | .ok (.str ">") => some true
  | .ok (.str "<") => some false
  | _ => none

structure Entry where
  name : String
  kind : Kind
  src : String
  packed : Bool
  order : Option Bool
  tdcount : Nat

def entryOf (j : Json) : Except String Entry := do
  let name ← getStr j "name"
  let k ← getStr j "kind"
  let src ← getStr j "src"
  let packed := (getBool j "packed").toOption.getD false
  let td := (getNat j "tdcount").toOption.getD 0
  match kindOf k with
  | some kind => pure { name, kind, src, packed, order := orderOf j, tdcount := td }
  | none => throw "kind"

/-- elaborate the environment in order, then the definition itself -/
def buildEnv : List Entry → Env → Option Env
  | [], env => some env
  | e :: es, env =>
    match parseDef env e.kind e.packed e.order e.src e.tdcount with
    | some d => buildEnv es ((e.name, d) :: env)
    | none => none

def getDef (j : Json) : Except String (Env × Entry × Option Def) := do
  let envJ := (getArr j "env").toOption.getD #[]
  let es ← envJ.toList.mapM entryOf
  let dj ← j.getObjVal? "def"
  let e ← entryOf dj
  match buildEnv es [] with
  | none => pure ([], e, none)
  | some env => pure (env, e, parseDef env e.kind e.packed e.order e.src e.tdcount)

def letterStr (t : Letter) : String := String.singleton t.toChar
def ordStr (be : Bool) : String := if be then ">" else "<"

/-- canonical dump of one parsed field, comparable with the reflected amoco field object:
    [class, typename, name | subnames, order, count | subsizes | counter | ref] -/
def efieldJson (e : EField) : Json :=
  match e.field with
  | .raw nm _ be n => Json.arr #[Json.str "RawField", Json.str e.typename, Json.str nm, Json.str (ordStr be), jnat n]
  | .bits _ be names sizes => Json.arr #[Json.str "BitField", Json.str e.typename, jlist Json.str names, Json.str (ordStr be), jlist jnat sizes]
  | .nest nm _ n => Json.arr #[Json.str "Field", Json.str e.typename, Json.str nm, Json.str (ordStr e.be), jnat n]
  | .bitsEx _ names sizes => Json.arr #[Json.str "BitFieldEx", Json.str e.typename, jlist Json.str names, Json.str (ordStr e.be), jlist jnat sizes]
  | .var nm _ be => Json.arr #[Json.str "VarField", Json.str e.typename, Json.str nm, Json.str (ordStr be), Json.str "~"]
  | .cnt nm _ be ct => Json.arr #[Json.str "CntField", Json.str e.typename, Json.str nm, Json.str (ordStr be), Json.str ("~" ++ letterStr ct)]
  | .bound nm _ be ref => Json.arr #[Json.str "BindedField", Json.str e.typename, Json.str nm, Json.str (ordStr be), Json.str ("." ++ ref)]
  | .leb nm signed => Json.arr #[Json.str "Leb128Field", Json.str e.typename, Json.str nm, Json.str "<", Json.bool signed]

def offJson : OffEntry → Json
  | .field o sz => Json.arr #[jnat o, jopt jnat sz]
  | .bit o oo x => Json.arr #[Json.str "bit", jnat o, jnat oo, jnat x]

def optNatJson : Option Nat → Json := jopt jnat

/-! ### ops -/

def opParse (j : Json) : Json :=
  match getDef j with
  | .error e => jerr e
  | .ok (env, e, _) =>
    match parseDecls e.src with
    | none => jerr "parse"
    | some ds =>
      match elabFields env e.order ds [] with
      | none => jerr "elab"
      | some fs => Json.mkObj [("fields", jlist efieldJson fs)]

def opLayout (j : Json) : Json :=
  match getDef j, getNat j "psize" with
  | .ok (_, _, some d), .ok ps =>
    if !d.modelled ps then Json.str "unmodelled"
    else
      let ref : Json := match refDef ps d with
        | some L => Json.mkObj [("size", jnat L.size), ("align", jnat L.align), ("offs", jlist jnat L.offs),
                                ("entries", jlist offJson (refEntries ps d.isUnion d.fields L.offs)),
                                ("mask", Json.str (hexOf (refMaskDef ps d)))]
        | none => Json.null
      Json.mkObj [("size", optNatJson (d.sizeV ps)), ("align", jnat (d.alignV ps)),
                  ("offsets", jlist offJson (d.offsetsV ps)),
                  ("len0", jnat (lenOf ps d (d.fields.map (Field.sizeV ps)))),
                  ("ref", ref)]
  | .ok (_, _, none), _ => jerr "def"
  | .error e, _ => jerr e
  | _, .error e => jerr e

/-- per-field sizes of the instance after unpack (for `offsets()` / `offset_of()` on the instance) -/
def instSizes (ps : Nat) (data : Bytes) (pos : Nat) (d : Def) : Option (List (Option Nat)) :=
  match unpackFields ps data pos d.isUnion d.packed d.fields 0 [] with
  | some (_, res) => some (res.map (fun r => some r.2.1))
  | none => none

def opUnpack (j : Json) : Json :=
  match getDef j, getNat j "psize", getHex j "data", getNat j "offset" with
  | .ok (_, _, some d), .ok ps, .ok data, .ok pos =>
    if !d.modelled ps then Json.str "unmodelled"
    else
      match unpackDef ps data pos d with
      | none => Json.mkObj [("ok", Json.bool false)]
      | some (v, n, m, cflag) =>
        let offs : Json :=
          if d.kind == .typedef then Json.null
          else match instSizes ps data pos d with
            | some szs =>
              if d.isUnion then jlist (fun s => offJson (.field 0 s)) szs
              else jlist offJson (offsetsLoop ps d.packed d.fields szs 0)
            | none => Json.null
        let offOf : Json :=
          if d.kind == .typedef then Json.null
          else match instSizes ps data pos d with
            | some szs =>
              jlist (fun (f : Field) =>
                Json.arr #[Json.str f.name,
                  if d.isUnion then jnat 0 else jopt jnat (offsetOfLoop ps d.packed f.name d.fields szs 0)])
                (d.fields.filter (fun f => f.name != ""))
            | none => Json.null
        let packed : Json := match packDef ps d v with
          | some b => Json.str (hexOf b)
          | none => Json.null
        let refv : Json := match refDecodeDef ps (data.drop pos) d with
          | some rv => valJson rv
          | none => Json.str "none"
        Json.mkObj [("ok", Json.bool true), ("value", valJson v), ("len", jnat n), ("mask", Json.str (hexOf m)),
                    ("offsets", offs), ("offset_of", offOf), ("packed", packed), ("refvalue", refv),
                    ("canon", Json.str (hexOf (canon m (data.drop pos)))),
                    ("canonical", Json.bool cflag), ("wf", Json.bool (d.wf ps))]
  | .ok (_, _, none), _, _, _ => jerr "def"
  | .error e, _, _, _ => jerr e
  | _, _, _, _ => jerr "args"

def opPack (j : Json) : Json :=
  match getDef j, getNat j "psize", j.getObjVal? "value" with
  | .ok (_, _, some d), .ok ps, .ok vj =>
    if !d.modelled ps then Json.str "unmodelled"
    else match jsonVal vj with
      | none => jerr "value"
      | some v =>
        match packDef ps d v with
        | some b => Json.str (hexOf b)
        | none => Json.null
  | .ok (_, _, none), _, _ => jerr "def"
  | _, _, _ => jerr "args"

def opLebRead (j : Json) : Json :=
  match getBool j "signed", getHex j "data", getNat j "offset" with
  | .ok sg, .ok data, .ok off =>
    match Leb128.readLeb sg data off with
    | some (v, n) => Json.arr #[jint v, jnat n]
    | none => Json.null
  | _, _, _ => jerr "args"

def opLebWrite (j : Json) : Json :=
  match getBool j "signed", j.getObjVal? "value" with
  | .ok sg, .ok vj =>
    match vj.getInt? with
    | .ok v =>
      if sg then Json.str (hexOf (Leb128.writeS v))
      else if v < 0 then Json.null else Json.str (hexOf (Leb128.writeU v.toNat))
    | .error _ => jerr "value"
  | _, _ => jerr "args"

def handle (j : Json) : Json :=
  match getStr j "op" with
  | .ok "struct.parse" => opParse j
  | .ok "struct.layout" => opLayout j
  | .ok "struct.unpack" => opUnpack j
  | .ok "struct.pack" => opPack j
  | .ok "leb.read" => opLebRead j
  | .ok "leb.write" => opLebWrite j
  | .ok o => jerr s!"unknown op {o}"
  | .error e => jerr e

end Driver.Struct
