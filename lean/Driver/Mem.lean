/-
  Driver.Mem — JSON-lines ops for the abstract-memory model (C08).

  encodings
    byte descriptor : ["r", b] | ["s", w, k]
    value           : ["raw", [b, ...]] | ["ex", [desc, ...]]        (ex: value order, LSB first)
    endian          : 1 | -1
    address         : ["int", a] | ["cst", v] | ["ext", name] | ["ptrc", v, size, disp]
                      | ["ptrs", name, isDef, disp] | ["other"]
    zone key        : null | "name"
    op              : {"k":"write","addr":A,"val":V,"en":E} | {"k":"read","addr":A,"n":N}
                      | {"k":"restruct"} | {"k":"copy"} | {"k":"shift","zone":K,"off":d}
                      | {"k":"merge","ops":[op,...]}       (other map = run of the nested ops)
                      | {"k":"fork"}  (append a copy of map m)  | {"k":"mergecopy","src":j}  (m.merge(copy of map j))
                      every op may carry "m": index of the live map it addresses (default 0)
  ops
    {"op":"mem.run","ops":[...]}  → one entry per op: {"res":…, "maps":[zones of every live map]},
         zones = [[key,[[vaddr,val,en],…],cache,wf],…]
         res: "ok" | "MemoryError" | "KeyError" | "nomap" | {"items":[…], "flat":[desc|null,…]}
    {"op":"mem.check","map":[[vaddr,val,en],…],"cache":[…]} → Bool   (Zone.check on a dumped real zone)
    {"op":"mem.checks","zones":[{"map":…,"cache":…},…]} → [Bool,…]
    {"op":"mem.abs","map":[[vaddr,val,en],…],"lo":a,"n":n} → [desc|null,…]   (abs of a dumped zone)
-/
import Driver.Proto
import Amoco.Model.Memory

open Lean Amoco.Memory

namespace Driver.Mem

def getInt (j : Json) (k : String) : Except String Int := do
  let v ← j.getObjVal? k
  v.getInt?

def descOfJson (j : Json) : Except String ByteDesc := do
  let a ← j.getArr?
  match a.toList with
  | [t, b] =>
    let t ← t.getStr?
    if t == "r" then return .raw (← b.getNat?) else throw "desc"
  | [t, w, k] =>
    let t ← t.getStr?
    if t == "s" then return .sym (← w.getNat?) (← k.getNat?) else throw "desc"
  | _ => throw "desc"

def valOfJson (j : Json) : Except String Val := do
  let a ← j.getArr?
  match a.toList with
  | [t, l] =>
    let t ← t.getStr?
    let l ← l.getArr?
    if t == "raw" then return .raw (← l.toList.mapM (·.getNat?))
    else if t == "ex" then return .ex (← l.toList.mapM descOfJson)
    else throw "val"
  | _ => throw "val"

def endianOfJson (j : Json) : Except String Endian := do
  let i ← j.getInt?
  if i == 1 then return .little else if i == -1 then return .big else throw "endian"

def addrOfJson (j : Json) : Except String Addr := do
  let a ← j.getArr?
  match a.toList with
  | t :: rest =>
    let t ← t.getStr?
    match t, rest with
    | "int", [x] => return .int (← x.getInt?)
    | "cst", [x] => return .cst (← x.getNat?)
    | "ext", [x] => return .ext (← x.getStr?)
    | "ptrc", [v, s, d] => return .ptrCst (← v.getInt?) (← s.getNat?) (← d.getInt?)
    | "ptrs", [n, b, d] => return .ptrSym (← n.getStr?) (← b.getBool?) (← d.getInt?)
    | "other", [] => return .other
    | _, _ => throw "addr"
  | _ => throw "addr"

def keyOfJson (j : Json) : Except String ZKey :=
  if j.isNull then pure none else do return some (← j.getStr?)

def descJson : ByteDesc → Json
  | .raw b => Json.arr #[Json.str "r", jnat b]
  | .sym w k => Json.arr #[Json.str "s", jnat w, jnat k]

def valJson : Val → Json
  | .raw bs => Json.arr #[Json.str "raw", jlist jnat bs]
  | .ex e => Json.arr #[Json.str "ex", jlist descJson e]

def endianJson : Endian → Json
  | .little => jint 1
  | .big => jint (-1)

def moJson (o : Mo) : Json := Json.arr #[jint o.vaddr, valJson o.data.val, endianJson o.data.endian]

def moOfJson (j : Json) : Except String Mo := do
  let a ← j.getArr?
  match a.toList with
  | [v, d, e] => return ⟨← v.getInt?, ⟨← valOfJson d, ← endianOfJson e⟩⟩
  | _ => throw "mo"

def keyJson : ZKey → Json
  | none => Json.null
  | some s => Json.str s

def zoneJson (kz : ZKey × Zone) : Json :=
  Json.arr #[keyJson kz.1, jlist moJson kz.2.map, jlist jint kz.2.cache, Json.bool kz.2.check]

def itemJson : Item → Json
  | .data v _ => valJson v
  | .bot n => Json.arr #[Json.str "bot", jnat n]

def flatJson (l : List (Option ByteDesc)) : Json := jlist (jopt descJson) l

inductive Op
  | write (a : Addr) (v : Val) (en : Endian)
  | read (a : Addr) (n : Nat)
  | restruct
  | copy
  | shift (k : ZKey) (off : Int)
  | merge (ops : List Op)

partial def opOfJson (j : Json) : Except String Op := do
  let k ← getStr j "k"
  match k with
  | "write" => return .write (← addrOfJson (← j.getObjVal? "addr")) (← valOfJson (← j.getObjVal? "val"))
                 (← endianOfJson (← j.getObjVal? "en"))
  | "read" => return .read (← addrOfJson (← j.getObjVal? "addr")) (← getNat j "n")
  | "restruct" => return .restruct
  | "copy" => return .copy
  | "shift" => return .shift (← keyOfJson (← j.getObjVal? "zone")) (← getInt j "off")
  | "merge" =>
    let a ← getArr j "ops"
    return .merge (← a.toList.mapM opOfJson)
  | _ => throw s!"unknown memory op {k}"

/-- apply one op: (new map, result json). -/
partial def step (mm : MMap) : Op → MMap × Json
  | .write a v en =>
    match mm.write a v en with
    | .ok mm' => (mm', Json.str "ok")
    | .error _ => (mm, Json.str "MemoryError")
  | .read a n =>
    match mm.read a n with
    | .ok items => (mm, Json.mkObj [("items", jlist itemJson items), ("flat", flatJson (flattenItems items))])
    | .error _ => (mm, Json.str "MemoryError")
  | .restruct => (mm.restruct, Json.str "ok")
  | .copy => (mm.copy, Json.str "ok")
  | .shift k off =>
    match mm.getZone k with
    | some z => (mm.setZone k (z.shift off), Json.str "ok")
    | none => (mm, Json.str "KeyError")
  | .merge ops =>
    let other := ops.foldl (fun acc o => (step acc o).1) MMap.empty
    (mm.merge other, Json.str "ok")

/-- an op of a workspace history: which live map, and what. -/
inductive WsOp
  | on (m : Nat) (op : Op)
  | fork (m : Nat)
  | mergeCopy (m src : Nat)

def wsOpOfJson (j : Json) : Except String WsOp := do
  let m := match getNat j "m" with
    | .ok m => m
    | .error _ => 0
  let k ← getStr j "k"
  if k == "fork" then return .fork m
  else if k == "mergecopy" then return .mergeCopy m (← getNat j "src")
  else return .on m (← opOfJson j)

def wsStep (ws : List MMap) : WsOp → List MMap × Json
  | .fork m =>
    match ws[m]? with
    | some _ => (WOp.apply ws (.fork m), Json.str "ok")
    | none => (ws, Json.str "nomap")
  | .mergeCopy m src =>
    match ws[m]?, ws[src]? with
    | some _, some _ => (WOp.apply ws (.mergeCopy m src), Json.str "ok")
    | _, _ => (ws, Json.str "nomap")
  | .on m op =>
    match ws[m]? with
    | some mm =>
      let (mm', r) := step mm op
      (ws.set m mm', r)
    | none => (ws, Json.str "nomap")

def opRun (j : Json) : Json :=
  match (do let a ← getArr j "ops"; a.toList.mapM wsOpOfJson : Except String (List WsOp)) with
  | .error e => jerr e
  | .ok ops =>
    let (_, out) := ops.foldl (fun (acc : List MMap × Array Json) o =>
      let (ws', r) := wsStep acc.1 o
      (ws', acc.2.push (Json.mkObj [("res", r),
        ("maps", jlist (fun (mm : MMap) => jlist zoneJson mm.zones) ws')]))) ([MMap.empty], #[])
    Json.arr out

def opCheck (j : Json) : Json :=
  match (do
    let a ← getArr j "map"
    let m ← a.toList.mapM moOfJson
    let c ← getArr j "cache"
    let c ← c.toList.mapM (·.getInt?)
    pure (Zone.mk m c) : Except String Zone) with
  | .error e => jerr e
  | .ok z => Json.bool z.check

/-- `{"op":"mem.checks","zones":[{"map":…,"cache":…},…]}` → [Bool,…] -/
def opChecks (j : Json) : Json :=
  match getArr j "zones" with
  | .error e => jerr e
  | .ok a => Json.arr (a.map opCheck)

def opAbs (j : Json) : Json :=
  match (do
    let a ← getArr j "map"
    let m ← a.toList.mapM moOfJson
    let lo ← getInt j "lo"
    let n ← getNat j "n"
    pure (m, lo, n) : Except String (List Mo × Int × Nat)) with
  | .error e => jerr e
  | .ok (m, lo, n) => flatJson ((List.range n).map (fun (k : Nat) => absL m (lo + (k : Int))))

def handle (j : Json) : Json :=
  match getStr j "op" with
  | .ok "mem.run" => opRun j
  | .ok "mem.check" => opCheck j
  | .ok "mem.checks" => opChecks j
  | .ok "mem.abs" => opAbs j
  | .ok o => jerr s!"unknown op {o}"
  | .error e => jerr e

end Driver.Mem
