/-
  Driver.Load — JSON-lines ops for the loader model (C15).

  encodings
    bytes   : hex string
    value   : ["raw", hex] | ["ex", [["r",b] | ["s",w,k], …]]        (ex: value order, LSB first)
    object  : [vaddr, value, endian]
    chunk   : ["r", hex] (run of concrete bytes) | ["n", count] (run of unmapped bytes) | ["s", w, k]
    cfg     : {"ps":…, "ptr":…, "top":…, "aslr":bool, "bare":bool, "thumb":bool (optional)}
    fix     : "repaired" | "none"
  ops
    {"op":"load.elf","fix":F,"cfg":C,"file":hex,"phdrs":[[type,offset,vaddr,filesz,memsz],…],"entry":e,
     "relocs":[[addr,sym],…],"ranges":[[a,n],…],"fetch":[[a,maxlen],…]}
    {"op":"load.pe","fix":F,"cfg":C,"file":hex,"base":b,"salign":a,"sections":[[rva,vsize,rawptr,rawsize,removed],…],
     "entry":rva,"stack":n,"iat":[[addr,sym],…],"ranges":…,"fetch":…}
    {"op":"load.macho","cfg":C,"file":hex,"segs":[[vmaddr,vmsize,fileoff,filesize,pagezero],…],
     "stack":n|null,"slots":[[addr,sym],…],"entry":e,"ranges":…,"fetch":…}
    {"op":"load.records","records":[[addr,hex],…],"entry":e,"pcbits":n,"relocate":v (optional: then RawExec.relocate(v)),
     "ranges":…,"fetch":…}
      → {"task": null | {"zone":[object,…],"cache":[…],"pc":n,"wf":bool},
         "image":[[chunk,…],…]   (abs of the zone over each range),
         "fetch":[value | ["bot",n] | null,…],
         "loadable": bool (ELF: `LoadableOK`), "empty": bool (some write is empty: outside the theorems)}
    {"op":"load.page","ps":p,"v":v} → [PAGEOFFSET, PAGESTART, PAGEALIGN]
    {"op":"load.hexaddr","ela":e,"seg":s,"a":a} → address
-/
import Driver.Proto
import Amoco.Model.Loader

open Lean Amoco.Memory Amoco.Loader

namespace Driver.Load

def getInt (j : Json) (k : String) : Except String Int := do
  let v ← j.getObjVal? k
  v.getInt?

def hexVal (c : Char) : Except String Nat :=
  if '0' ≤ c ∧ c ≤ '9' then pure (c.toNat - '0'.toNat)
  else if 'a' ≤ c ∧ c ≤ 'f' then pure (c.toNat - 'a'.toNat + 10)
  else if 'A' ≤ c ∧ c ≤ 'F' then pure (c.toNat - 'A'.toNat + 10)
  else throw "hex"

def unhexGo : List Char → Array Nat → Except String (Array Nat)
  | [], acc => pure acc
  | [_], _ => throw "hex: odd length"
  | a :: b :: rest, acc => do
    let x ← hexVal a
    let y ← hexVal b
    unhexGo rest (acc.push (16 * x + y))

def unhex (s : String) : Except String Bytes := do
  let a ← unhexGo s.toList #[]
  pure a.toList

def hexDigit (n : Nat) : Char := if n < 10 then Char.ofNat (48 + n) else Char.ofNat (87 + n)

def hex (bs : Bytes) : String :=
  String.ofList (bs.foldr (fun b acc => hexDigit (b / 16 % 16) :: hexDigit (b % 16) :: acc) [])

def getHex (j : Json) (k : String) : Except String Bytes := do
  unhex (← getStr j k)

def descJson : ByteDesc → Json
  | .raw b => Json.arr #[Json.str "r", jnat b]
  | .sym w k => Json.arr #[Json.str "s", jnat w, jnat k]

def valJson : Val → Json
  | .raw bs => Json.arr #[Json.str "raw", Json.str (hex bs)]
  | .ex e => Json.arr #[Json.str "ex", jlist descJson e]

def endianJson : Endian → Json
  | .little => jint 1
  | .big => jint (-1)

def moJson (o : Mo) : Json := Json.arr #[jint o.vaddr, valJson o.data.val, endianJson o.data.endian]

def itemJson : Item → Json
  | .data v _ => valJson v
  | .bot n => Json.arr #[Json.str "bot", jnat n]

/-- run-length chunks of a window of the byte map. -/
def chunksGo : List (Option ByteDesc) → List Nat → Nat → Array Json → Array Json
  | [], raws, nones, acc =>
    let acc := if raws.isEmpty then acc else acc.push (Json.arr #[Json.str "r", Json.str (hex raws.reverse)])
    if nones = 0 then acc else acc.push (Json.arr #[Json.str "n", jnat nones])
  | some (.raw b) :: rest, raws, nones, acc =>
    let acc := if nones = 0 then acc else acc.push (Json.arr #[Json.str "n", jnat nones])
    chunksGo rest (b :: raws) 0 acc
  | none :: rest, raws, nones, acc =>
    let acc := if raws.isEmpty then acc else acc.push (Json.arr #[Json.str "r", Json.str (hex raws.reverse)])
    chunksGo rest [] (nones + 1) acc
  | some (.sym w k) :: rest, raws, nones, acc =>
    let acc := if raws.isEmpty then acc else acc.push (Json.arr #[Json.str "r", Json.str (hex raws.reverse)])
    let acc := if nones = 0 then acc else acc.push (Json.arr #[Json.str "n", jnat nones])
    chunksGo rest [] 0 (acc.push (Json.arr #[Json.str "s", jnat w, jnat k]))

def chunks (l : List (Option ByteDesc)) : Json := Json.arr (chunksGo l [] 0 #[])

def pairsOfJson (j : Json) (k : String) : Except String (List (Int × Nat)) := do
  match j.getObjVal? k with
  | .error _ => pure []
  | .ok v =>
    let a ← v.getArr?
    a.toList.mapM (fun e => do
      let p ← e.getArr?
      match p.toList with
      | [x, y] => pure (← x.getInt?, ← y.getNat?)
      | _ => throw "pair")

def relocsOfJson (j : Json) (k : String) : Except String (List Reloc) := do
  match j.getObjVal? k with
  | .error _ => pure []
  | .ok v =>
    let a ← v.getArr?
    a.toList.mapM (fun e => do
      let p ← e.getArr?
      match p.toList with
      | [x, y] => pure (← x.getNat?, ← y.getNat?)
      | _ => throw "reloc")

def cfgOfJson (j : Json) : Except String Cfg := do
  let c ← j.getObjVal? "cfg"
  let ps ← getNat c "ps"
  let ptr ← getNat c "ptr"
  let top ← getNat c "top"
  let aslr ← getBool c "aslr"
  let bare ← getBool c "bare"
  let thumb := match getBool c "thumb" with
    | .ok b => b
    | .error _ => false
  pure { ps := ps, ptr := ptr, top := top, aslr := aslr, bare := bare, thumb := thumb }

def fixOfJson (j : Json) : Except String Fix := do
  match j.getObjVal? "fix" with
  | .error _ => pure .repaired
  | .ok v =>
    let s ← v.getStr?
    if s == "none" then pure .none else if s == "repaired" then pure .repaired else throw "fix"

/-- the window `abs (a), …, abs (a+n-1)` of the byte map of a well-formed zone, computed through
    `Zone.read` (`read_refines`: linear in the window). -/
def imageRead (z : Zone) (a : Int) (n : Nat) : List (Option ByteDesc) := flattenItems (z.read a n)

def result (j : Json) (fx : Fix) (t : Option Task) (ws : List WriteOp) (loadable : Option Bool) : Except String Json := do
  let ranges ← pairsOfJson j "ranges"
  let fetches ← pairsOfJson j "fetch"
  let empty := ws.any (fun w => w.2.1.len == 0)
  match t with
  | none =>
    pure (Json.mkObj [("task", Json.null), ("image", Json.arr #[]), ("fetch", Json.arr #[]),
      ("loadable", jopt Json.bool loadable), ("empty", Json.bool empty)])
  | some t =>
    let z := t.zone
    let wf := z.check
    -- `Zone.read` refines `abs` on a well-formed zone (`read_refines`); a zone that is not well formed
    -- (an empty write happened) is outside the theorems: no image is reported for it
    let img := if wf then ranges.map (fun r => chunks (imageRead z r.1 r.2)) else []
    let fe := if wf then fetches.map (fun r => jopt itemJson (fetch fx z r.1 r.2)) else []
    pure (Json.mkObj [
      ("task", Json.mkObj [("zone", jlist moJson z.map), ("cache", jlist jint z.cache), ("pc", jnat t.pc),
                           ("wf", Json.bool wf)]),
      ("image", Json.arr img.toArray), ("fetch", Json.arr fe.toArray),
      ("loadable", jopt Json.bool loadable), ("empty", Json.bool empty)])

def phdrOfJson (e : Json) : Except String Phdr := do
  let p ← e.getArr?
  match p.toList with
  | [t, o, v, f, m] => pure ⟨← t.getNat?, ← o.getNat?, ← v.getNat?, ← f.getNat?, ← m.getNat?⟩
  | _ => throw "phdr"

def opElf (j : Json) : Except String Json := do
  let fx ← fixOfJson j
  let c ← cfgOfJson j
  if c.ps = 0 then return Json.str "unmodelled"
  let file ← getHex j "file"
  let ph ← (← getArr j "phdrs").toList.mapM phdrOfJson
  let entry ← getNat j "entry"
  let relocs ← relocsOfJson j "relocs"
  let img : ElfImage := { file := file, phdrs := ph, entry := entry, relocs := relocs }
  result j fx (loadElf fx c img) (elfWrites fx c img) (some (decide (LoadableOK c img)))

def peSecOfJson (e : Json) : Except String PeSection := do
  let p ← e.getArr?
  match p.toList with
  | [r, v, p, s, x] => pure ⟨← r.getNat?, ← v.getNat?, ← p.getNat?, ← s.getNat?, ← x.getBool?⟩
  | _ => throw "section"

def opPe (j : Json) : Except String Json := do
  let fx ← fixOfJson j
  let c ← cfgOfJson j
  if c.ps = 0 then return Json.str "unmodelled"
  let file ← getHex j "file"
  let base ← getNat j "base"
  let salign ← getNat j "salign"
  let secs ← (← getArr j "sections").toList.mapM peSecOfJson
  let entry ← getNat j "entry"
  let stack ← getNat j "stack"
  let iat ← relocsOfJson j "iat"
  let img : PeImage := ⟨file, base, salign, secs, entry, stack, iat⟩
  result j fx (loadPe fx c img) (peWrites fx c img) none

def machSegOfJson (e : Json) : Except String MachSeg := do
  let p ← e.getArr?
  match p.toList with
  | [a, s, o, f, z] => pure ⟨← a.getNat?, ← s.getNat?, ← o.getNat?, ← f.getNat?, ← z.getBool?⟩
  | _ => throw "segment"

def opMacho (j : Json) : Except String Json := do
  let c ← cfgOfJson j
  if c.ps = 0 then return Json.str "unmodelled"
  let st ← j.getObjVal? "stack"
  let stack ← (if st.isNull then pure none else do pure (some (← st.getNat?)) : Except String (Option Nat))
  let file ← getHex j "file"
  let segs ← (← getArr j "segs").toList.mapM machSegOfJson
  let slots ← relocsOfJson j "slots"
  let entry ← getNat j "entry"
  let img : MachImage := { file := file, segs := segs, stack := stack, slots := slots, entry := entry }
  result j (← fixOfJson j) (some (loadMach c img)) (machWrites c img) none

def opRecords (j : Json) : Except String Json := do
  let rs ← (← getArr j "records").toList.mapM (fun e => do
    let p ← e.getArr?
    match p.toList with
    | [a, h] => pure ((← a.getNat?, ← unhex (← h.getStr?)) : Record)
    | _ => throw "record")
  let entry ← getNat j "entry"
  let pcbits ← getNat j "pcbits"
  let t := loadRecords rs entry pcbits
  let t := match getNat j "relocate" with
    | .ok v => relocate t v pcbits
    | .error _ => t
  result j (← fixOfJson j) (some t) (recordWrites rs) none

def opPage (j : Json) : Except String Json := do
  let ps ← getNat j "ps"
  let v ← getNat j "v"
  if ps = 0 then return Json.str "unmodelled"
  pure (Json.arr #[jnat (pageOffset ps v), jnat (pageStart ps v), jnat (pageAlign ps v)])

def opHexAddr (j : Json) : Except String Json := do
  pure (jnat (hexAddress (← getNat j "ela") (← getNat j "seg") (← getNat j "a")))

def wrap (r : Except String Json) : Json :=
  match r with
  | .ok v => v
  | .error e => jerr e

def handle (j : Json) : Json :=
  match getStr j "op" with
  | .ok "load.elf" => wrap (opElf j)
  | .ok "load.pe" => wrap (opPe j)
  | .ok "load.macho" => wrap (opMacho j)
  | .ok "load.records" => wrap (opRecords j)
  | .ok "load.page" => wrap (opPage j)
  | .ok "load.hexaddr" => wrap (opHexAddr j)
  | .ok o => jerr s!"unknown op {o}"
  | .error e => jerr e

end Driver.Load
