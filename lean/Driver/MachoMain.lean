import Driver.Proto
import Driver.Macho
open Lean
def main : IO Unit := Driver.run Driver.Macho.handle
