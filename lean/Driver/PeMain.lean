import Driver.Proto
import Driver.Pe
open Lean
def main : IO Unit := Driver.run Driver.Pe.handle
