/-
  Generated.RvSem — REGENERATED on every run by harness/translate_riscv.py from
  amoco/arch/riscv/rv32i/asm.py and rv64i/asm.py.  Do not edit.
-/
import Amoco.Model.SemDsl
namespace Generated.Rv
open Amoco.Rv

/-- from amoco/arch/riscv/rv32i/asm.py (sha256 f2793c951ab17f00) -/
def rv32_tab : List (Mn × Sem) := [
  (.LUI, [(.assign .pc (.bin .add .pc .ilen)), (.guardNZ 0 (.assign (.opnd 0) (.opnd 1)))]),
  (.AUIPC, [(.guardNZ 0 (.assign (.opnd 0) (.bin .add .pc (.opnd 1)))), (.assign .pc (.bin .add .pc .ilen))]),
  (.JAL, [(.guardNZ 0 (.assign (.opnd 0) (.bin .add .pc .ilen))), (.assign .pc (.bin .add .pc (.opnd 1)))]),
  (.JALR, [(.bind (.bin .and (.bin .add (.opnd 1) (.opnd 2)) (.int (-2)))), (.guardNZ 0 (.assign (.opnd 0) (.bin .add .pc .ilen))), (.assign .pc (.loc 0))]),
  (.BEQ, [(.assign .pc (.tst (.bin .eq (.opnd 0) (.opnd 1)) (.bin .add .pc (.opnd 2)) (.bin .add .pc .ilen)))]),
  (.BNE, [(.assign .pc (.tst (.bin .ne (.opnd 0) (.opnd 1)) (.bin .add .pc (.opnd 2)) (.bin .add .pc .ilen)))]),
  (.BLT, [(.assign .pc (.tst (.bin .lt (.signed (.opnd 0)) (.signed (.opnd 1))) (.bin .add .pc (.opnd 2)) (.bin .add .pc .ilen)))]),
  (.BGE, [(.assign .pc (.tst (.bin .ge (.signed (.opnd 0)) (.signed (.opnd 1))) (.bin .add .pc (.opnd 2)) (.bin .add .pc .ilen)))]),
  (.BLTU, [(.assign .pc (.tst (.bin .ltu (.opnd 0) (.opnd 1)) (.bin .add .pc (.opnd 2)) (.bin .add .pc .ilen)))]),
  (.BGEU, [(.assign .pc (.tst (.bin .geu (.opnd 0) (.opnd 1)) (.bin .add .pc (.opnd 2)) (.bin .add .pc .ilen)))]),
  (.LB, [(.assign .pc (.bin .add .pc .ilen)), (.assign (.opnd 0) (.sext (.opnd 1) 32))]),
  (.LH, [(.assign .pc (.bin .add .pc .ilen)), (.assign (.opnd 0) (.sext (.opnd 1) 32))]),
  (.LW, [(.assign .pc (.bin .add .pc .ilen)), (.assign (.opnd 0) (.sext (.opnd 1) 32))]),
  (.LBU, [(.assign .pc (.bin .add .pc .ilen)), (.assign (.opnd 0) (.zext (.opnd 1) 32))]),
  (.LHU, [(.assign .pc (.bin .add .pc .ilen)), (.assign (.opnd 0) (.zext (.opnd 1) 32))]),
  (.SB, [(.assign .pc (.bin .add .pc .ilen)), (.assign (.opnd 0) (.slc (.opnd 1) 0 8))]),
  (.SH, [(.assign .pc (.bin .add .pc .ilen)), (.assign (.opnd 0) (.slc (.opnd 1) 0 16))]),
  (.SW, [(.assign .pc (.bin .add .pc .ilen)), (.assign (.opnd 0) (.opnd 1))]),
  (.ADDI, [(.assign .pc (.bin .add .pc .ilen)), (.guardNZ 0 (.assign (.opnd 0) (.bin .add (.opnd 1) (.opnd 2))))]),
  (.SLTI, [(.assign .pc (.bin .add .pc .ilen)), (.guardNZ 0 (.assign (.opnd 0) (.tst (.bin .lt (.signed (.opnd 1)) (.signed (.opnd 2))) (.cst 1 32) (.cst 0 32))))]),
  (.SLTIU, [(.assign .pc (.bin .add .pc .ilen)), (.guardNZ 0 (.assign (.opnd 0) (.tst (.bin .ltu (.opnd 1) (.opnd 2)) (.cst 1 32) (.cst 0 32))))]),
  (.XORI, [(.assign .pc (.bin .add .pc .ilen)), (.guardNZ 0 (.assign (.opnd 0) (.bin .xor (.opnd 1) (.opnd 2))))]),
  (.ORI, [(.assign .pc (.bin .add .pc .ilen)), (.guardNZ 0 (.assign (.opnd 0) (.bin .or (.opnd 1) (.opnd 2))))]),
  (.ANDI, [(.assign .pc (.bin .add .pc .ilen)), (.guardNZ 0 (.assign (.opnd 0) (.bin .and (.opnd 1) (.opnd 2))))]),
  (.SLLI, [(.assign .pc (.bin .add .pc .ilen)), (.guardNZ 0 (.assign (.opnd 0) (.bin .shl (.unsigned (.opnd 1)) (.unsigned (.opnd 2)))))]),
  (.SRLI, [(.assign .pc (.bin .add .pc .ilen)), (.guardNZ 0 (.assign (.opnd 0) (.bin .shr (.unsigned (.opnd 1)) (.unsigned (.opnd 2)))))]),
  (.SRAI, [(.assign .pc (.bin .add .pc .ilen)), (.guardNZ 0 (.assign (.opnd 0) (.bin .sar (.opnd 1) (.opnd 2))))]),
  (.ADD, [(.assign .pc (.bin .add .pc .ilen)), (.guardNZ 0 (.assign (.opnd 0) (.bin .add (.opnd 1) (.opnd 2))))]),
  (.SUB, [(.assign .pc (.bin .add .pc .ilen)), (.guardNZ 0 (.assign (.opnd 0) (.bin .sub (.opnd 1) (.opnd 2))))]),
  (.SLL, [(.assign .pc (.bin .add .pc .ilen)), (.guardNZ 0 (.assign (.opnd 0) (.bin .shl (.unsigned (.opnd 1)) (.bin .and (.unsigned (.opnd 2)) (.int 31)))))]),
  (.SLT, [(.assign .pc (.bin .add .pc .ilen)), (.guardNZ 0 (.assign (.opnd 0) (.tst (.bin .lt (.signed (.opnd 1)) (.signed (.opnd 2))) (.cst 1 32) (.cst 0 32))))]),
  (.SLTU, [(.assign .pc (.bin .add .pc .ilen)), (.guardNZ 0 (.assign (.opnd 0) (.tst (.bin .ltu (.opnd 1) (.opnd 2)) (.cst 1 32) (.cst 0 32))))]),
  (.XOR, [(.assign .pc (.bin .add .pc .ilen)), (.guardNZ 0 (.assign (.opnd 0) (.bin .xor (.opnd 1) (.opnd 2))))]),
  (.SRL, [(.assign .pc (.bin .add .pc .ilen)), (.guardNZ 0 (.assign (.opnd 0) (.bin .shr (.unsigned (.opnd 1)) (.bin .and (.unsigned (.opnd 2)) (.int 31)))))]),
  (.SRA, [(.assign .pc (.bin .add .pc .ilen)), (.guardNZ 0 (.assign (.opnd 0) (.bin .sar (.signed (.opnd 1)) (.bin .and (.unsigned (.opnd 2)) (.int 31)))))]),
  (.OR, [(.assign .pc (.bin .add .pc .ilen)), (.guardNZ 0 (.assign (.opnd 0) (.bin .or (.opnd 1) (.opnd 2))))]),
  (.AND, [(.assign .pc (.bin .add .pc .ilen)), (.guardNZ 0 (.assign (.opnd 0) (.bin .and (.opnd 1) (.opnd 2))))]),
  (.FENCE, [(.assign .pc (.bin .add .pc .ilen))]),
  (.FENCE_I, [(.assign .pc (.bin .add .pc .ilen))]),
  (.ECALL, [(.assign .pc (.bin .add .pc .ilen))])
]
/-- `i_` functions that are not base-ISA mnemonics (not judged by C06) -/
def rv32_extra : List String := []
def rv32_notes : List String := []

/-- from amoco/arch/riscv/rv64i/asm.py (sha256 37fcd06204efbe85) -/
def rv64_tab : List (Mn × Sem) := [
  (.LUI, [(.assign .pc (.bin .add .pc .ilen)), (.guardNZ 0 (.assign (.opnd 0) (.opnd 1)))]),
  (.AUIPC, [(.guardNZ 0 (.assign (.opnd 0) (.bin .add .pc (.opnd 1)))), (.assign .pc (.bin .add .pc .ilen))]),
  (.JAL, [(.guardNZ 0 (.assign (.opnd 0) (.bin .add .pc .ilen))), (.assign .pc (.bin .add .pc (.opnd 1)))]),
  (.JALR, [(.bind (.bin .and (.bin .add (.opnd 1) (.opnd 2)) (.int (-2)))), (.guardNZ 0 (.assign (.opnd 0) (.bin .add .pc .ilen))), (.assign .pc (.loc 0))]),
  (.BEQ, [(.assign .pc (.tst (.bin .eq (.opnd 0) (.opnd 1)) (.bin .add .pc (.opnd 2)) (.bin .add .pc .ilen)))]),
  (.BNE, [(.assign .pc (.tst (.bin .ne (.opnd 0) (.opnd 1)) (.bin .add .pc (.opnd 2)) (.bin .add .pc .ilen)))]),
  (.BLT, [(.assign .pc (.tst (.bin .lt (.signed (.opnd 0)) (.signed (.opnd 1))) (.bin .add .pc (.opnd 2)) (.bin .add .pc .ilen)))]),
  (.BGE, [(.assign .pc (.tst (.bin .ge (.signed (.opnd 0)) (.signed (.opnd 1))) (.bin .add .pc (.opnd 2)) (.bin .add .pc .ilen)))]),
  (.BLTU, [(.assign .pc (.tst (.bin .ltu (.opnd 0) (.opnd 1)) (.bin .add .pc (.opnd 2)) (.bin .add .pc .ilen)))]),
  (.BGEU, [(.assign .pc (.tst (.bin .geu (.opnd 0) (.opnd 1)) (.bin .add .pc (.opnd 2)) (.bin .add .pc .ilen)))]),
  (.LB, [(.assign .pc (.bin .add .pc .ilen)), (.assign (.opnd 0) (.sext (.opnd 1) 64))]),
  (.LH, [(.assign .pc (.bin .add .pc .ilen)), (.assign (.opnd 0) (.sext (.opnd 1) 64))]),
  (.LW, [(.assign .pc (.bin .add .pc .ilen)), (.assign (.opnd 0) (.sext (.opnd 1) 64))]),
  (.LBU, [(.assign .pc (.bin .add .pc .ilen)), (.assign (.opnd 0) (.zext (.opnd 1) 64))]),
  (.LHU, [(.assign .pc (.bin .add .pc .ilen)), (.assign (.opnd 0) (.zext (.opnd 1) 64))]),
  (.SB, [(.assign .pc (.bin .add .pc .ilen)), (.assign (.opnd 0) (.slc (.opnd 1) 0 8))]),
  (.SH, [(.assign .pc (.bin .add .pc .ilen)), (.assign (.opnd 0) (.slc (.opnd 1) 0 16))]),
  (.SW, [(.assign .pc (.bin .add .pc .ilen)), (.assign (.opnd 0) (.slc (.opnd 1) 0 32))]),
  (.ADDI, [(.assign .pc (.bin .add .pc .ilen)), (.guardNZ 0 (.assign (.opnd 0) (.bin .add (.opnd 1) (.opnd 2))))]),
  (.SLTI, [(.assign .pc (.bin .add .pc .ilen)), (.guardNZ 0 (.assign (.opnd 0) (.tst (.bin .lt (.signed (.opnd 1)) (.signed (.opnd 2))) (.cst 1 64) (.cst 0 64))))]),
  (.SLTIU, [(.assign .pc (.bin .add .pc .ilen)), (.guardNZ 0 (.assign (.opnd 0) (.tst (.bin .ltu (.opnd 1) (.opnd 2)) (.cst 1 64) (.cst 0 64))))]),
  (.XORI, [(.assign .pc (.bin .add .pc .ilen)), (.guardNZ 0 (.assign (.opnd 0) (.bin .xor (.opnd 1) (.opnd 2))))]),
  (.ORI, [(.assign .pc (.bin .add .pc .ilen)), (.guardNZ 0 (.assign (.opnd 0) (.bin .or (.opnd 1) (.opnd 2))))]),
  (.ANDI, [(.assign .pc (.bin .add .pc .ilen)), (.guardNZ 0 (.assign (.opnd 0) (.bin .and (.opnd 1) (.opnd 2))))]),
  (.SLLI, [(.assign .pc (.bin .add .pc .ilen)), (.guardNZ 0 (.assign (.opnd 0) (.bin .shl (.unsigned (.opnd 1)) (.unsigned (.opnd 2)))))]),
  (.SRLI, [(.assign .pc (.bin .add .pc .ilen)), (.guardNZ 0 (.assign (.opnd 0) (.bin .shr (.unsigned (.opnd 1)) (.unsigned (.opnd 2)))))]),
  (.SRAI, [(.assign .pc (.bin .add .pc .ilen)), (.guardNZ 0 (.assign (.opnd 0) (.bin .sar (.opnd 1) (.opnd 2))))]),
  (.ADD, [(.assign .pc (.bin .add .pc .ilen)), (.guardNZ 0 (.assign (.opnd 0) (.bin .add (.opnd 1) (.opnd 2))))]),
  (.SUB, [(.assign .pc (.bin .add .pc .ilen)), (.guardNZ 0 (.assign (.opnd 0) (.bin .sub (.opnd 1) (.opnd 2))))]),
  (.SLL, [(.assign .pc (.bin .add .pc .ilen)), (.guardNZ 0 (.assign (.opnd 0) (.bin .shl (.unsigned (.opnd 1)) (.bin .and (.unsigned (.opnd 2)) (.int 63)))))]),
  (.SLT, [(.assign .pc (.bin .add .pc .ilen)), (.guardNZ 0 (.assign (.opnd 0) (.tst (.bin .lt (.signed (.opnd 1)) (.signed (.opnd 2))) (.cst 1 64) (.cst 0 64))))]),
  (.SLTU, [(.assign .pc (.bin .add .pc .ilen)), (.guardNZ 0 (.assign (.opnd 0) (.tst (.bin .ltu (.opnd 1) (.opnd 2)) (.cst 1 64) (.cst 0 64))))]),
  (.XOR, [(.assign .pc (.bin .add .pc .ilen)), (.guardNZ 0 (.assign (.opnd 0) (.bin .xor (.opnd 1) (.opnd 2))))]),
  (.SRL, [(.assign .pc (.bin .add .pc .ilen)), (.guardNZ 0 (.assign (.opnd 0) (.bin .shr (.unsigned (.opnd 1)) (.bin .and (.unsigned (.opnd 2)) (.int 63)))))]),
  (.SRA, [(.assign .pc (.bin .add .pc .ilen)), (.guardNZ 0 (.assign (.opnd 0) (.bin .sar (.signed (.opnd 1)) (.bin .and (.unsigned (.opnd 2)) (.int 63)))))]),
  (.OR, [(.assign .pc (.bin .add .pc .ilen)), (.guardNZ 0 (.assign (.opnd 0) (.bin .or (.opnd 1) (.opnd 2))))]),
  (.AND, [(.assign .pc (.bin .add .pc .ilen)), (.guardNZ 0 (.assign (.opnd 0) (.bin .and (.opnd 1) (.opnd 2))))]),
  (.FENCE, [(.assign .pc (.bin .add .pc .ilen))]),
  (.FENCE_I, [(.assign .pc (.bin .add .pc .ilen))]),
  (.ECALL, [(.assign .pc (.bin .add .pc .ilen))]),
  (.LWU, [(.assign .pc (.bin .add .pc .ilen)), (.assign (.opnd 0) (.zext (.opnd 1) 64))]),
  (.LD, [(.assign .pc (.bin .add .pc .ilen)), (.assign (.opnd 0) (.sext (.opnd 1) 64))]),
  (.SD, [(.assign .pc (.bin .add .pc .ilen)), (.assign (.opnd 0) (.opnd 1))]),
  (.ADDIW, [(.assign .pc (.bin .add .pc .ilen)), (.guardNZ 0 (.assign (.opnd 0) (.sext (.bin .add (.slc (.opnd 1) 0 32) (.opnd 2)) 64)))]),
  (.SLLIW, [(.assign .pc (.bin .add .pc .ilen)), (.guardNZ 0 (.assign (.opnd 0) (.sext (.bin .shl (.slc (.opnd 1) 0 32) (.opnd 2)) 64)))]),
  (.SRLIW, [(.assign .pc (.bin .add .pc .ilen)), (.guardNZ 0 (.assign (.opnd 0) (.sext (.bin .shr (.slc (.opnd 1) 0 32) (.opnd 2)) 64)))]),
  (.SRAIW, [(.assign .pc (.bin .add .pc .ilen)), (.guardNZ 0 (.assign (.opnd 0) (.sext (.bin .sar (.slc (.opnd 1) 0 32) (.opnd 2)) 64)))]),
  (.ADDW, [(.assign .pc (.bin .add .pc .ilen)), (.guardNZ 0 (.assign (.opnd 0) (.sext (.bin .add (.slc (.opnd 1) 0 32) (.slc (.opnd 2) 0 32)) 64)))]),
  (.SUBW, [(.assign .pc (.bin .add .pc .ilen)), (.guardNZ 0 (.assign (.opnd 0) (.sext (.bin .sub (.slc (.opnd 1) 0 32) (.slc (.opnd 2) 0 32)) 64)))]),
  (.SLLW, [(.assign .pc (.bin .add .pc .ilen)), (.guardNZ 0 (.assign (.opnd 0) (.sext (.bin .shl (.slc (.opnd 1) 0 32) (.bin .and (.opnd 2) (.int 31))) 64)))]),
  (.SRLW, [(.assign .pc (.bin .add .pc .ilen)), (.guardNZ 0 (.assign (.opnd 0) (.sext (.bin .shr (.slc (.opnd 1) 0 32) (.bin .and (.opnd 2) (.int 31))) 64)))]),
  (.SRAW, [(.assign .pc (.bin .add .pc .ilen)), (.guardNZ 0 (.assign (.opnd 0) (.sext (.bin .sar (.slc (.opnd 1) 0 32) (.bin .and (.opnd 2) (.int 31))) 64)))])
]
/-- `i_` functions that are not base-ISA mnemonics (not judged by C06) -/
def rv64_extra : List String := []
def rv64_notes : List String := []

def generated (isa : Isa) (m : Mn) : Option Sem :=
  (match isa with | .rv32 => rv32_tab | .rv64 => rv64_tab).lookup m

end Generated.Rv
