/-
  Generated.X86Sem — REGENERATED on every run by harness/translate_x86.py from
  amoco/arch/x64/asm.py, amoco/arch/x86/asm.py and amoco/cas/utils.py.  Do not edit.
-/
import Amoco.Model.X86Sem
namespace Generated.X86
open Amoco.X86Sem

/-- from amoco/arch/x64/asm.py + amoco/cas/utils.py (sha256 dc69b5c5e7595c04) -/
def x64_tab : List (Mn × Sem) := [
  (.ADD, [.advance, (.setf .pf (.par8 (.awc .a .b .bit0))), (.setf .af (.hc .a .b .bit0)), (.setf .zf (.eqz (.awc .a .b .bit0))), (.setf .sf (.ltz (.awc .a .b .bit0))), (.setf .cf (.awcC .a .b .bit0)), (.setf .of (.awcO .a .b .bit0)), (.setdst true (.awc .a .b .bit0))]),
  (.SUB, [.advance, (.setf .pf (.par8 (.swb .a .b .bit0))), (.setf .af (.hb .a .b .bit0)), (.setf .zf (.eqz (.swb .a .b .bit0))), (.setf .sf (.ltz (.swb .a .b .bit0))), (.setf .cf (.swbC .a .b .bit0)), (.setf .of (.swbO .a .b .bit0)), (.setdst true (.swb .a .b .bit0))]),
  (.CMP, [.advance, (.setf .af (.hb .a .b .bit0)), (.setf .zf (.eqz (.swb .a .b .bit0))), (.setf .sf (.ltz (.swb .a .b .bit0))), (.setf .cf (.swbC .a .b .bit0)), (.setf .of (.swbO .a .b .bit0)), (.setf .pf (.par8 (.swb .a .b .bit0)))]),
  (.AND, [.advance, (.setf .zf (.eqz (.and .a (.sx .b)))), (.setf .sf (.msb (.and .a (.sx .b)))), (.setf .cf .bit0), (.setf .of .bit0), (.setf .pf (.par8 (.and .a (.sx .b)))), (.setdst true (.and .a (.sx .b)))]),
  (.OR, [.advance, (.setf .zf (.eqz (.or .a .b))), (.setf .sf (.msb (.or .a .b))), (.setf .cf .bit0), (.setf .of .bit0), (.setf .pf (.par8 (.or .a .b))), (.setdst true (.or .a .b))]),
  (.XOR, [.advance, (.setf .zf (.eqz (.xor .a .b))), (.setf .sf (.msb (.xor .a .b))), (.setf .cf .bit0), (.setf .of .bit0), (.setf .pf (.par8 (.xor .a .b))), (.setdst true (.xor .a .b))]),
  (.TEST, [.advance, (.setf .zf (.eqz (.and .a .b))), (.setf .sf (.msb (.and .a .b))), (.setf .cf .bit0), (.setf .of .bit0), (.setf .pf (.par8 (.and .a .b)))]),
  (.INC, [.advance, (.setf .af (.hc .a (.cst 1) .bit0)), (.setf .pf (.par8 (.awc .a (.cst 1) .bit0))), (.setf .zf (.eqz (.awc .a (.cst 1) .bit0))), (.setf .sf (.ltz (.awc .a (.cst 1) .bit0))), (.setf .of (.awcO .a (.cst 1) .bit0)), (.setdst true (.awc .a (.cst 1) .bit0))]),
  (.DEC, [.advance, (.setf .af (.hb .a (.cst 1) .bit0)), (.setf .pf (.par8 (.swb .a (.cst 1) .bit0))), (.setf .zf (.eqz (.swb .a (.cst 1) .bit0))), (.setf .sf (.ltz (.swb .a (.cst 1) .bit0))), (.setf .of (.swbO .a (.cst 1) .bit0)), (.setdst true (.swb .a (.cst 1) .bit0))]),
  (.NEG, [.advance, (.setf .af (.hb (.cst 0) .a .bit0)), (.setf .pf (.par8 (.swb (.cst 0) .a .bit0))), (.setf .cf (.nez .a)), (.setf .zf (.eqz (.swb (.cst 0) .a .bit0))), (.setf .sf (.ltz (.swb (.cst 0) .a .bit0))), (.setf .of (.swbO (.cst 0) .a .bit0)), (.setdst true (.swb (.cst 0) .a .bit0))]),
  (.NOT, [.advance, (.setdst true (.not .a))]),
  (.ADC, [.advance, (.setf .pf (.par8 (.awc .a .b .cin))), (.setf .af (.hc .a .b .cin)), (.setf .zf (.eqz (.awc .a .b .cin))), (.setf .sf (.ltz (.awc .a .b .cin))), (.setf .cf (.awcC .a .b .cin)), (.setf .of (.awcO .a .b .cin)), (.setdst true (.awc .a .b .cin))]),
  (.SBB, [.advance, (.setf .pf (.par8 (.swb .a .b .cin))), (.setf .af (.hb .a .b .cin)), (.setf .zf (.eqz (.swb .a .b .cin))), (.setf .sf (.ltz (.swb .a .b .cin))), (.setf .cf (.swbC .a .b .cin)), (.setf .of (.swbO .a .b .cin)), (.setdst true (.swb .a .b .cin))])
]
def x64_notes : List String := []

/-- from amoco/arch/x86/asm.py + amoco/cas/utils.py (sha256 ee89e015ee8c428d) -/
def x86_tab : List (Mn × Sem) := [
  (.ADD, [.advance, (.setf .pf (.par8 (.awc .a .b .bit0))), (.setf .af (.hc .a .b .bit0)), (.setf .zf (.eqz (.awc .a .b .bit0))), (.setf .sf (.ltz (.awc .a .b .bit0))), (.setf .cf (.awcC .a .b .bit0)), (.setf .of (.awcO .a .b .bit0)), (.setdst false (.awc .a .b .bit0))]),
  (.SUB, [.advance, (.setf .pf (.par8 (.swb .a .b .bit0))), (.setf .af (.hb .a .b .bit0)), (.setf .zf (.eqz (.swb .a .b .bit0))), (.setf .sf (.ltz (.swb .a .b .bit0))), (.setf .cf (.swbC .a .b .bit0)), (.setf .of (.swbO .a .b .bit0)), (.setdst false (.swb .a .b .bit0))]),
  (.CMP, [.advance, (.setf .af (.hb .a .b .bit0)), (.setf .zf (.eqz (.swb .a .b .bit0))), (.setf .sf (.ltz (.swb .a .b .bit0))), (.setf .cf (.swbC .a .b .bit0)), (.setf .of (.swbO .a .b .bit0)), (.setf .pf (.par8 (.swb .a .b .bit0)))]),
  (.AND, [.advance, (.setf .zf (.eqz (.and .a (.sx .b)))), (.setf .sf (.msb (.and .a (.sx .b)))), (.setf .cf .bit0), (.setf .of .bit0), (.setf .pf (.par8 (.and .a (.sx .b)))), (.setdst false (.and .a (.sx .b)))]),
  (.OR, [.advance, (.setf .zf (.eqz (.or .a .b))), (.setf .sf (.msb (.or .a .b))), (.setf .cf .bit0), (.setf .of .bit0), (.setf .pf (.par8 (.or .a .b))), (.setdst false (.or .a .b))]),
  (.XOR, [.advance, (.setf .zf (.eqz (.xor .a .b))), (.setf .sf (.msb (.xor .a .b))), (.setf .cf .bit0), (.setf .of .bit0), (.setf .pf (.par8 (.xor .a .b))), (.setdst false (.xor .a .b))]),
  (.TEST, [.advance, (.setf .zf (.eqz (.and .a .b))), (.setf .sf (.msb (.and .a .b))), (.setf .cf .bit0), (.setf .of .bit0), (.setf .pf (.par8 (.and .a .b)))]),
  (.INC, [.advance, (.setf .af (.hc .a (.cst 1) .bit0)), (.setf .pf (.par8 (.awc .a (.cst 1) .bit0))), (.setf .zf (.eqz (.awc .a (.cst 1) .bit0))), (.setf .sf (.ltz (.awc .a (.cst 1) .bit0))), (.setf .of (.awcO .a (.cst 1) .bit0)), (.setdst false (.awc .a (.cst 1) .bit0))]),
  (.DEC, [.advance, (.setf .af (.hb .a (.cst 1) .bit0)), (.setf .pf (.par8 (.swb .a (.cst 1) .bit0))), (.setf .zf (.eqz (.swb .a (.cst 1) .bit0))), (.setf .sf (.ltz (.swb .a (.cst 1) .bit0))), (.setf .of (.swbO .a (.cst 1) .bit0)), (.setdst false (.swb .a (.cst 1) .bit0))]),
  (.NEG, [.advance, (.setf .af (.hb (.cst 0) .a .bit0)), (.setf .pf (.par8 (.swb (.cst 0) .a .bit0))), (.setf .cf (.nez .a)), (.setf .zf (.eqz (.swb (.cst 0) .a .bit0))), (.setf .sf (.ltz (.swb (.cst 0) .a .bit0))), (.setf .of (.swbO (.cst 0) .a .bit0)), (.setdst false (.swb (.cst 0) .a .bit0))]),
  (.NOT, [.advance, (.setdst false (.not .a))]),
  (.ADC, [.advance, (.setf .pf (.par8 (.awc .a .b .cin))), (.setf .af (.hc .a .b .cin)), (.setf .zf (.eqz (.awc .a .b .cin))), (.setf .sf (.ltz (.awc .a .b .cin))), (.setf .cf (.awcC .a .b .cin)), (.setf .of (.awcO .a .b .cin)), (.setdst false (.awc .a .b .cin))]),
  (.SBB, [.advance, (.setf .pf (.par8 (.swb .a .b .cin))), (.setf .af (.hb .a .b .cin)), (.setf .zf (.eqz (.swb .a .b .cin))), (.setf .sf (.ltz (.swb .a .b .cin))), (.setf .cf (.swbC .a .b .cin)), (.setf .of (.swbO .a .b .cin)), (.setdst false (.swb .a .b .cin))])
]
def x86_notes : List String := []

def generated (ar : Arch) (m : Mn) : Option Sem :=
  (match ar with | .x64 => x64_tab | .x86 => x86_tab).lookup m

end Generated.X86
