/-
  Amoco.Model.Cfg — vertex insertion of `amoco/cfg.py` `graph`
  (`add_vertex`, `__cut_add_vertex`, `__gap_add_vertex`, `get_with_address`) over a model of
  the graph's `support` `MemoryZone` (`amoco/system/memory.py`) holding *nodes* as data.

  A zone entry (`mo`) is `(vaddr, node)`; its length is the *current* length of the node's block
  (`len(datadiv) = len(node) = node.data.length`), so cutting a node shrinks the entry in place.
  `locate`, `addtomap` and `mo.write`/`datadiv.setpart` are modelled as coded, with the node slices
  (`node.__getitem__`, which raises when `block.__getitem__` returns `None`) as the only failure.

  Nodes are identified by the address of their block at creation time (`node.name`, which is also
  what `link.__hash__`/`__eq__` use): an edge is a pair of such addresses.  Python object identity
  of nodes (`oldnode == v`) is not modelled separately: re-inserting the node that is already stored
  takes the "same start, not longer" path with the same outcome.

  The model follows the code as repaired by `proposed_fixes/C18-*.diff`.
  Core Lean only.
-/
import Amoco.Model.Blocks

namespace Amoco.Cfg

open Amoco.Blocks

/-- `mo` of the support zone: offset and the block of the node stored there -/
structure Mo where
  vaddr : Nat
  blk   : Block
  deriving Repr, DecidableEq, Inhabited

def Mo.end (m : Mo) : Nat := m.vaddr + blen m.blk

/-- `vaddr in mo` -/
def Mo.contains (m : Mo) (a : Nat) : Bool := m.vaddr ≤ a && a < m.end

abbrev Zone := List Mo

/-- `bisect_left` on the (sorted) cache of offsets -/
def bisectLeft (p : List Nat) (a : Nat) : Nat := (p.takeWhile (· < a)).length

/-- `MemoryZone.locate` -/
def locate (z : Zone) (a : Nat) : Option Nat :=
  let p := z.map (·.vaddr)
  if a ∈ p then some (p.idxOf a)
  else
    let i := bisectLeft p a
    if i = 0 then none else some (i - 1)

/-- `datadiv.getpart(o, l)` on a node: the whole node, or a slice of it (`none`: the slice is not
    on instruction boundaries or is empty — `node(None)` raises). -/
def getpart (b : Block) (o l : Nat) : Option Block :=
  if o = 0 ∧ l = blen b then some b
  else getitem b (some (o : Int)) (some ((o + l : Nat) : Int))

/-- the parts after the first one follow at consecutive offsets -/
def placeParts : Nat → List Block → List Mo
  | _, [] => []
  | va, p :: r => ⟨va, p⟩ :: placeParts (va + blen p) r

/-- `mo.write(vaddr, data)`: the updated `mo` and the new ones to insert after it
    (`datadiv.setpart` + `mergeparts`, which never merges nodes). -/
def moWrite (m : Mo) (a : Nat) (b : Block) : Option (Mo × List Mo) :=
  if m.contains a || a == m.end then
    let o := a - m.vaddr
    let lv := blen m.blk
    let olv := o + blen b
    let tl : Option (List Block) :=
      if lv > olv then (getpart m.blk olv (lv - olv)).map (fun x => [x]) else some []
    let hd : Option (List Block) :=
      if o > 0 then (getpart m.blk 0 o).map (fun x => [x]) else some []
    match hd, tl with
    | some hd, some tl =>
      match hd ++ [b] ++ tl with
      | [] => none
      | p0 :: ps =>
        let m' : Mo := { m with blk := p0 }
        some (m', placeParts m'.end ps)
    | _, _ => none
  else some (m, [⟨a, b⟩])

/-- `mo.trim(vaddr)` -/
def moTrim (m : Mo) (a : Nat) : Option Mo :=
  if m.contains a then
    let l := a - m.vaddr
    if l > 0 then
      match getitem m.blk (some (l : Int)) none with
      | some b => some ⟨a, b⟩
      | none => none
    else some { m with vaddr := a }
  else some m

/-- `MemoryZone.addtomap(mo(vaddr, node))` (`none`: an exception escapes) -/
def addtomap (z : Zone) (n : Mo) : Option Zone :=
  let i := locate z n.vaddr
  let j := locate z n.end
  match j with
  | none => if i = none ∨ i = some 0 then some (n :: z) else none
  | some j =>
    if i = some j then
      match z[j]? with
      | none => none
      | some m =>
        match moWrite m n.vaddr n.blk with
        | none => none
        | some (m', Z) => some (z.take j ++ m' :: Z ++ z.drop (j + 1))
    else
      match z[j]? with
      | none => none
      | some mj =>
        -- delete & update every overwritten zone by adjusting [i, j]
        let zj : Option (Zone × Nat) :=
          if mj.contains n.end then (moTrim mj n.end).map (fun t => (z.set j t, j)) else some (z, j + 1)
        match zj with
        | none => none
        | some (z1, j1) =>
          let head : Option (Zone × List Mo × Nat) :=
            match i with
            | none => some (z1, [n], 0)
            | some i =>
              match z1[i]? with
              | none => none
              | some mi =>
                if n.vaddr ≤ mi.end then
                  (moWrite mi n.vaddr n.blk).map (fun (mi', Z) => (z1.set i mi', Z, i + 1))
                else some (z1, [n], i + 1)
          match head with
          | none => none
          | some (z2, Z, i1) => some (z2.take i1 ++ Z ++ z2.drop (max i1 j1))

/-- `MemoryZone.write(vaddr, node)` -/
def zoneWrite (z : Zone) (a : Nat) (b : Block) : Option Zone := addtomap z ⟨a, b⟩

structure Graph where
  support : Zone
  edges   : List (Nat × Nat)       -- (name address of source, name address of destination)
  deriving Repr, DecidableEq, Inhabited

def Graph.empty : Graph := ⟨[], []⟩

/-- `graph.add_edge(link(x, y))` for nodes already in the graph: set semantics by name -/
def addEdge (es : List (Nat × Nat)) (e : Nat × Nat) : List (Nat × Nat) :=
  if e ∈ es then es else es ++ [e]

def removeEdge (es : List (Nat × Nat)) (e : Nat × Nat) : List (Nat × Nat) := es.filter (· != e)

/-- outcome of `add_vertex` -/
inductive Res
  | ok (g : Graph) (ret : Nat)    -- new graph, name address of the returned node
  | overlay                       -- the block goes to the overlay zone: outside the modelled fragment
  | error                         -- an exception escapes (or the fuel of the model ran out)
  deriving Repr, DecidableEq, Inhabited

/-- index of the entry after the one `locate` found: `0 if i is None else i + 1` -/
def nextIdx : Option Nat → Nat
  | none => 0
  | some i => i + 1

/-- `__gap_add_vertex(v, support, vaddr, i)`: `vaddr` is in no stored block; `v` may run into the
    next one, then it is cut there and the instructions after the cut are added in turn. -/
def gapAdd (rec : Graph → Block → Res) (g : Graph) (v : Block) (vaddr : Nat) (i : Option Nat) : Res :=
  let plain : Res :=
    match zoneWrite g.support vaddr v with
    | none => .error
    | some z => .ok { g with support := z } vaddr
  match g.support[nextIdx i]? with
  | none => plain
  | some nextmo =>
    match address? nextmo.blk with
    | none => .error
    | some nextaddr =>
      if vaddr + blen v > nextaddr then
        let (v', nl) := cut v nextaddr
        if nl = 0 then .overlay
        else
          let rest := v.drop (v.length - nl)
          match zoneWrite g.support vaddr v' with
          | none => .error
          | some z =>
            match rec { g with support := z } rest with
            | .ok g2 n => .ok { g2 with edges := addEdge g2.edges (vaddr, n) } vaddr
            | r => r
      else plain

/-- `__cut_add_vertex(v, mz, vaddr, mo)`: `vaddr` lies in the stored block `mo` (index `i`). -/
def cutAdd (rec : Graph → Block → Res) (g : Graph) (v : Block) (vaddr : Nat) (i : Nat) (m : Mo) : Res :=
  let old := m.blk
  if address? old = some vaddr then
    -- v restarts an existing block
    if blen v > blen old then
      match getitem v (some (blen old : Int)) none with
      | none => .overlay
      | some rest =>
        match rec g rest with
        | .ok g2 n => .ok { g2 with edges := addEdge g2.edges (m.vaddr, n) } m.vaddr
        | r => r
    else .ok g m.vaddr
  else
    let (old', nl) := cut old vaddr
    if nl = 0 then .overlay
    else
      let tail := old.drop (old.length - nl)
      let v1 := if blen tail > blen v then tail else v
      let succ := (g.edges.filter (fun e => e.1 == m.vaddr)).map (·.2)
      let g1 : Graph := { g with support := g.support.set i { m with blk := old' } }
      match gapAdd rec g1 v1 vaddr (locate g1.support vaddr) with
      | .ok g2 n =>
        let es := succ.foldl (fun es t => removeEdge (addEdge es (n, t)) (m.vaddr, t)) g2.edges
        .ok { g2 with edges := addEdge es (m.vaddr, n) } n
      | r => r

/-- `graph.add_vertex(node(block(v)))`.  The recursion (the rest of a cut block is added in turn) is
    on strictly shorter blocks; `fuel` bounds it (`v.length + 1` suffices, see `Proofs/Cfg`). -/
def addVertex : Nat → Graph → Block → Res
  | 0, _, _ => .error
  | fuel + 1, g, v =>
    match address? v with
    | none => .error
    | some vaddr =>
      match locate g.support vaddr with
      | none => gapAdd (addVertex fuel) g v vaddr none
      | some i =>
        match g.support[i]? with
        | none => .error
        | some m =>
          if m.contains vaddr then cutAdd (addVertex fuel) g v vaddr i m
          else gapAdd (addVertex fuel) g v vaddr (some i)

/-- `graph.get_with_address(vaddr)`: the stored block that contains the address -/
def getWithAddress (g : Graph) (a : Nat) : Option Mo :=
  match locate g.support a with
  | none => none
  | some i =>
    match g.support[i]? with
    | none => none
    | some m => if m.contains a then some m else none

/-- insertion history: blocks inserted one after the other (stops at the first non-`ok`). -/
def addAll : Graph → List Block → Option Graph
  | g, [] => some g
  | g, v :: r =>
    match addVertex (v.length + 1) g v with
    | .ok g' _ => addAll g' r
    | _ => none

end Amoco.Cfg
