/-
  Amoco.Model.Memory — the abstract memory of `amoco/system/memory.py`
  (`datadiv`, `mergeparts`, `mo`, `MemoryZone`, `MemoryMap`), together with the part of
  `amoco/cas/expressions.py` it relies on (`exp.bytes`, `cst.to_bytes`, `exp.length`).

  Values stored in memory are either raw byte strings or expressions.  The only things the memory
  code ever does with an expression are: ask its byte length, ask whether it is a constant
  (`_is_cst`, then `to_bytes(endian)`), and take the endian-aware byte slice `bytes(sta,sto,endian)`.
  An expression is therefore modelled by what these observe: the list of its bytes **in value
  order** (least significant byte first), each byte being a concrete byte (a byte of a `cst` part)
  or `sym w k` = bits `[8k, 8k+8)` of the symbolic atom (register) `w`.  `reg`, `slc` of a register,
  byte-aligned `comp` of such parts and `cst` all have exactly one such description, and
  `exp.bytes` is list slicing on it.

  The model is total: where the Python code would raise (`ValueError('invalid slice')` for an empty
  `exp.bytes`, `IndexError`, failed `assert`) the model returns the degenerate value named in the
  comment of that definition.  None of these paths is reachable from a well-formed zone and a
  non-empty write (that is part of what `Props/C08.lean` proves through `ZoneWF` preservation).

  Core Lean only.
-/
namespace Amoco.Memory

/-! ## Values -/

/-- `endian = 1` (little) / `endian = -1` (big). -/
inductive Endian | little | big
  deriving Repr, DecidableEq, Inhabited

/-- one byte of content. -/
inductive ByteDesc
  | raw (b : Nat)               -- a concrete byte
  | sym (w : Nat) (k : Nat)     -- bits [8k, 8k+8) of symbolic atom (register) `w`
  deriving Repr, DecidableEq, Inhabited

def ByteDesc.isRaw : ByteDesc → Bool
  | .raw _ => true
  | .sym _ _ => false

def ByteDesc.rawVal : ByteDesc → Nat
  | .raw b => b
  | .sym _ _ => 0

/-- an expression of `8 * length` bits, as its bytes in value order (LSB first). -/
abbrev Ex := List ByteDesc

namespace Ex

/-- `_is_cst`: every part is a constant (a byte-aligned `comp` of constants is folded into one
    `cst` by `comp.restruct`, a slice of a `cst` is a `cst`). -/
def isCst (e : Ex) : Bool := e.all ByteDesc.isRaw

/-- `cst.to_bytes(endian)` : `bytes(s[::endian])` with `s` the little-endian byte list. -/
def toBytes (e : Ex) (en : Endian) : List Nat :=
  let s := e.map ByteDesc.rawVal
  match en with
  | .little => s
  | .big => s.reverse

/-- `exp.bytes(sta, sto, endian)` for non-negative bounds (`sto = none` is Python's `None`):
    `slice(sta,sto).indices(l)`, mirrored for big endian, then the bit slice `self[sta*8:sto*8]`.
    An empty result stands for the `ValueError` of `_checkarg_slice` (`stop <= start`). -/
def bytes (e : Ex) (sta : Nat) (sto : Option Nat) (en : Endian) : Ex :=
  let l := e.length
  let a := min sta l
  let b := match sto with
    | none => l
    | some s => min s l
  match en with
  | .little => (e.drop a).take (b - a)
  | .big => (e.drop (l - b)).take ((l - a) - (l - b))

end Ex

/-- what a `datadiv` holds in `.val`: a `bytes` object or an expression. -/
inductive Val
  | raw (bs : List Nat)
  | ex (e : Ex)
  deriving Repr, DecidableEq, Inhabited

def Val.len : Val → Nat
  | .raw bs => bs.length
  | .ex e => e.length

def Val.isRaw : Val → Bool
  | .raw _ => true
  | .ex _ => false

/-! ## datadiv -/

structure DD where
  val : Val
  endian : Endian
  deriving Repr, DecidableEq, Inhabited

namespace DD

/-- `datadiv.__init__`: a constant expression is stored as its bytes. -/
def new (data : Val) (en : Endian) : DD :=
  match data with
  | .ex e => if e.isCst then ⟨.raw (e.toBytes en), en⟩ else ⟨.ex e, en⟩
  | .raw bs => ⟨.raw bs, en⟩

def len (d : DD) : Nat := d.val.len
def isRaw (d : DD) : Bool := d.val.isRaw

/-- `datadiv.cut(l)`: drop the first `l` bytes (memory order). No re-normalisation. -/
def cut (d : DD) (l : Nat) : DD :=
  match d.val with
  | .raw bs => { d with val := .raw (bs.drop l) }
  | .ex e => { d with val := .ex (e.bytes l none d.endian) }

/-- `datadiv.setlen(l)`: keep the first `l` bytes (memory order). -/
def setlen (d : DD) (l : Nat) : DD :=
  match d.val with
  | .raw bs => { d with val := .raw (bs.take l) }
  | .ex e => { d with val := .ex (e.bytes 0 (some l) d.endian) }

/-- `datadiv.getpart(o,l)` → `(result | None, missing)`. -/
def getpart (d : DD) (o l : Nat) : Option Val × Nat :=
  let lv := d.len
  if o = 0 ∧ l = lv then (some d.val, 0)
  else match d.val with
    | .raw bs =>
      let res := (bs.drop o).take l
      (some (.raw res), l - res.length)
    | .ex e =>
      if o ≥ lv then (none, l)
      else
        let res := e.bytes o (some (o + l)) d.endian
        (some (.ex res), l - res.length)

/-- the inner loop of `mergeparts`: `cur` is `parts[-1]`. The merged raw part keeps the
    endianness of its first constituent. -/
def mergeGo (cur : DD) : List DD → List DD
  | [] => [cur]
  | p :: rest =>
    match cur.val, p.val with
    | .raw a, .raw b => mergeGo { cur with val := .raw (a ++ b) } rest
    | _, _ => cur :: mergeGo p rest

/-- `mergeparts(P)` (`[]` would be an `IndexError`). -/
def mergeparts : List DD → List DD
  | [] => []
  | p :: rest => mergeGo p rest

/-- `getpart(..)[0]` fed to `datadiv(..)`; `None` cannot occur on the paths of `setpart`
    (it would give a `datadiv(None)`), the model then uses empty bytes. -/
def partVal (d : DD) (o l : Nat) : Val :=
  match (d.getpart o l).1 with
  | some v => v
  | none => .raw []

/-- `datadiv.setpart(o, data, endian)` (the `assert 0 <= o <= len(self)` is not modelled). -/
def setpart (d : DD) (o : Nat) (data : Val) (en : Endian) : List DD :=
  let olv := o + data.len
  let P := [DD.new data en]
  let P := if olv < d.len then P ++ [DD.new (d.partVal olv (d.len - olv)) d.endian] else P
  let P := if o > 0 then DD.new (d.partVal 0 o) d.endian :: P else P
  mergeparts P

end DD

/-! ## mo -/

structure Mo where
  vaddr : Int
  data : DD
  deriving Repr, DecidableEq, Inhabited

namespace Mo

def new (vaddr : Int) (data : Val) (en : Endian) : Mo := ⟨vaddr, DD.new data en⟩

def len (o : Mo) : Nat := o.data.len
/-- `mo.end` -/
def fin (o : Mo) : Int := o.vaddr + o.data.len

/-- `vaddr in mo` -/
def contains (o : Mo) (a : Int) : Bool := decide (o.vaddr ≤ a) && decide (a < o.fin)

def trim (o : Mo) (a : Int) : Mo :=
  if o.contains a then
    let l := (a - o.vaddr).toNat
    ⟨a, if l > 0 then o.data.cut l else o.data⟩
  else o

def setlen (o : Mo) (l : Nat) : Mo := { o with data := o.data.setlen l }

def read (o : Mo) (a : Int) (l : Nat) : Option Val × Nat :=
  if o.contains a then o.data.getpart (a - o.vaddr).toNat l else (none, l)

/-- consecutive `mo(vaddr, p.val, p.endian)` objects for `parts[1:]`. -/
def chain (v : Int) : List DD → List Mo
  | [] => []
  | p :: ps => Mo.new v p.val p.endian :: chain (v + p.len) ps

/-- `mo.write(vaddr,data,endian)` → (the updated object, the list `O` of new objects). -/
def write (o : Mo) (a : Int) (data : Val) (en : Endian) : Mo × List Mo :=
  if o.contains a || a == o.fin then
    match o.data.setpart (a - o.vaddr).toNat data en with
    | [] => (o, [])          -- unreachable (`parts[0]` IndexError)
    | p0 :: ps =>
      let o' : Mo := { o with data := p0 }
      (o', chain o'.fin ps)
  else (o, [Mo.new a data en])

def copy (o : Mo) : Mo := Mo.new o.vaddr o.data.val o.data.endian

end Mo

/-! ## MemoryZone -/

/-- `bisect.bisect_left(p, a)` on a sorted list (CPython's bisect is modelled by its
    specification; the cache is sorted whenever the zone is well formed). -/
def bisectLeft (p : List Int) (a : Int) : Nat := (p.takeWhile (fun x => decide (x < a))).length

/-- `MemoryZone.locate` over the cache `p` of start addresses. -/
def locate (p : List Int) (a : Int) : Option Nat :=
  if p.contains a then some (p.idxOf a)
  else
    let i := bisectLeft p a
    if i = 0 then none else some (i - 1)

/-- an element of a `read` result: a value (with the endianness of the object it was taken from —
    ghost information, the Python list holds only the value) or a bottom `exp(n*8)`. -/
inductive Item
  | data (v : Val) (en : Endian)
  | bot (n : Nat)
  deriving Repr, DecidableEq, Inhabited

/-- the `while ll > 0` loop of `MemoryZone.read`, over `zip(_map[i:], __cache[i:])`. -/
def readLoop : List (Mo × Int) → Int → Nat → List Item
  | [], _, ll => if ll > 0 then [.bot ll] else []          -- IndexError branch
  | (x, vi) :: rest, a, ll =>
    if _hll : ll = 0 then []
    else
      match x.read a ll with
      | (some d, ll') => .data d x.data.endian :: readLoop rest (a + d.len) ll'
      | (none, _) =>
        if _h : a < vi then
          let l := (min (a + ll) vi - a).toNat
          .bot l :: readLoop ((x, vi) :: rest) (a + l) (ll - l)
        else readLoop rest a ll
termination_by m _ ll => (m.length, ll)
decreasing_by
  · simp only [List.length_cons]; apply Prod.Lex.left; omega
  · apply Prod.Lex.right; omega
  · simp only [List.length_cons]; apply Prod.Lex.left; omega

def readL (p : List Int) (m : List Mo) (a : Int) (l : Nat) : List Item :=
  match locate p a with
  | none =>
    match m with
    | [] => [.bot l]
    | x0 :: _ =>
      let v0 := x0.vaddr
      if v0 < a + l then
        .bot (v0 - a).toNat :: readLoop (m.zip p) v0 ((a + l) - v0).toNat
      else [.bot l]
  | some i => readLoop ((m.zip p).drop i) a l

/-- `MemoryZone.addtomap` on the list `_map` with cache `p`; returns the new `_map`.
    Unreachable `IndexError`s return the map unchanged. -/
def addtomapL (p : List Int) (m : List Mo) (z : Mo) : List Mo :=
  let i := locate p z.vaddr
  match locate p z.fin with
  | none => z :: m
  | some j =>
    if i = some j then
      match m[j]? with
      | none => m
      | some x =>
        let (x', Z) := x.write z.vaddr z.data.val z.data.endian
        m.take j ++ (x' :: Z) ++ m.drop (j + 1)
    else
      match m[j]? with
      | none => m
      | some y =>
        -- `if z.end in self._map[j]: self._map[j].trim(z.end) else: j += 1`
        let (m1, j1) := if y.contains z.fin then (m.set j (y.trim z.fin), j) else (m, j + 1)
        match i with
        | none => z :: m1.drop j1                    -- i = -1; i += 1; del [0:j]; insert z
        | some i =>
          match m1[i]? with
          | none => m
          | some x =>
            if z.vaddr ≤ x.fin then
              let (x', Z) := x.write z.vaddr z.data.val z.data.endian
              m1.take i ++ (x' :: Z) ++ m1.drop j1
            else
              m1.take (i + 1) ++ [z] ++ m1.drop j1

/-- the loop of `MemoryZone.restruct`; `cur` is `m[-1]`. -/
def restructGo (cur : Mo) : List Mo → List Mo
  | [] => [cur]
  | z :: rest =>
    match cur.data.val, z.data.val with
    | .raw a, .raw b =>
      if z.vaddr = cur.fin then restructGo { cur with data := { cur.data with val := .raw (a ++ b) } } rest
      else cur :: restructGo z rest
    | _, _ => cur :: restructGo z rest

def restructL : List Mo → List Mo
  | [] => []
  | x :: rest => restructGo x rest

structure Zone where
  map : List Mo
  cache : List Int
  deriving Repr, DecidableEq, Inhabited

namespace Zone

def empty : Zone := ⟨[], []⟩
def updateCache (m : List Mo) : Zone := ⟨m, m.map Mo.vaddr⟩

def range (z : Zone) : Int × Int :=
  match z.map, z.map.getLast? with
  | x :: _, some y => (x.vaddr, y.fin)
  | _, _ => (0, 0)

def locate (z : Zone) (a : Int) : Option Nat := Memory.locate z.cache a
def read (z : Zone) (a : Int) (l : Nat) : List Item := readL z.cache z.map a l
def addtomap (z : Zone) (o : Mo) : Zone := updateCache (addtomapL z.cache z.map o)
def write (z : Zone) (a : Int) (data : Val) (en : Endian) : Zone := z.addtomap (Mo.new a data en)
/-- `restruct` returns early (cache untouched) on an empty map. -/
def restruct (z : Zone) : Zone :=
  match z.map with
  | [] => z
  | _ => updateCache (restructL z.map)
def shift (z : Zone) (off : Int) : Zone := updateCache (z.map.map (fun o => { o with vaddr := o.vaddr + off }))
/-- `copy`: fresh zone (empty cache), `_map` of copies, then `restruct()`. -/
def copy (z : Zone) : Zone := restruct ⟨z.map.map Mo.copy, []⟩
/-- what `MemoryMap.merge` does to an existing zone: `for o in other._map: self.addtomap(o)`. -/
def mergeWith (z other : Zone) : Zone := other.map.foldl addtomap z

end Zone

/-! ## MemoryMap -/

/-- the address argument of `MemoryMap.read/write`. -/
inductive Addr
  | int (a : Int)                                   -- python int
  | cst (v : Nat)                                   -- `cst`, `.v` (already masked)
  | ext (name : String)                             -- `ext` symbol: zone key is the symbol itself
  | ptrCst (v : Int) (size : Nat) (disp : Int)      -- `ptr` with constant base (value, size)
  | ptrSym (name : String) (isDef : Bool) (disp : Int) -- `ptr` with symbolic base
  | other                                           -- anything else: `MemoryError`
  deriving Repr, DecidableEq, Inhabited

/-- zone key: `None` or the rendering of the base expression (dict lookup is by `hash(str)+size`). -/
abbrev ZKey := Option String

inductive MemErr | memoryError
  deriving Repr, DecidableEq, Inhabited

/-- `MemoryMap.reference`; the `Bool` is `r._is_def`. -/
def reference : Addr → Except MemErr (ZKey × Bool × Int)
  | .int a => .ok (none, true, a)
  | .ext n => .ok (some n, true, 0)
  | .cst v => .ok (none, true, v)
  | .ptrCst v size disp => .ok (none, true, (v + disp) % (2 ^ size : Int))   -- `(r + a).v`
  | .ptrSym n d disp => .ok (some n, d, disp)
  | .other => .error .memoryError

structure MMap where
  zones : List (ZKey × Zone)      -- the `_zones` dict in insertion order
  deriving Repr, DecidableEq, Inhabited

namespace MMap

def empty : MMap := ⟨[(none, Zone.empty)]⟩

def getZone (mm : MMap) (k : ZKey) : Option Zone := (mm.zones.find? (fun kz => kz.1 == k)).map (·.2)

/-- `_zones[k] = z` (update in place if the key exists, else append). -/
def setZone (mm : MMap) (k : ZKey) (z : Zone) : MMap :=
  if mm.zones.any (fun kz => kz.1 == k) then
    ⟨mm.zones.map (fun kz => if kz.1 == k then (k, z) else kz)⟩
  else ⟨mm.zones ++ [(k, z)]⟩

def read (mm : MMap) (addr : Addr) (l : Nat) : Except MemErr (List Item) :=
  match reference addr with
  | .error e => .error e
  | .ok (r, _, o) =>
    match mm.getZone r with
    | some z => .ok (z.read o l)
    | none => .error .memoryError

def write (mm : MMap) (addr : Addr) (data : Val) (en : Endian) : Except MemErr MMap :=
  match reference addr with
  | .error e => .error e
  | .ok (r, isDef, o) =>
    if r.isSome && !isDef then .error .memoryError
    else
      let z := (mm.getZone r).getD Zone.empty
      .ok (mm.setZone r (z.write o data en))

def restruct (mm : MMap) : MMap := ⟨mm.zones.map (fun kz => (kz.1, kz.2.restruct))⟩

/-- `copy`: a fresh map (with its empty `None` zone) whose zones are overwritten by copies. -/
def copy (mm : MMap) : MMap := mm.zones.foldl (fun acc kz => acc.setZone kz.1 kz.2.copy) empty

def merge (mm other : MMap) : MMap :=
  other.zones.foldl (fun acc kz =>
    match acc.getZone kz.1 with
    | some z => acc.setZone kz.1 (z.mergeWith kz.2)
    | none => acc.setZone kz.1 kz.2) mm

end MMap

/-! ## Abstraction to a byte store (specification side; also run by the driver) -/

/-- the bytes of a stored value in memory order. -/
def Val.memBytes (v : Val) (en : Endian) : List ByteDesc :=
  match v with
  | .raw bs => bs.map ByteDesc.raw
  | .ex e => match en with
    | .little => e
    | .big => e.reverse

def DD.memBytes (d : DD) : List ByteDesc := d.val.memBytes d.endian

abbrev ByteMap := Int → Option ByteDesc

/-- content of one object as a partial byte map. -/
def absMo (o : Mo) : ByteMap := fun a =>
  if o.vaddr ≤ a then o.data.memBytes[(a - o.vaddr).toNat]? else none

/-- content of a list of objects (first object holding the address). -/
def absL (m : List Mo) : ByteMap := fun a => m.findSome? (fun o => absMo o a)

def Zone.abs (z : Zone) : ByteMap := absL z.map

/-- `g` written over `f`. -/
def override (f g : ByteMap) : ByteMap := fun a => (g a).or (f a)

def Item.flatten : Item → List (Option ByteDesc)
  | .data v en => (v.memBytes en).map some
  | .bot n => List.replicate n none

def flattenItems (r : List Item) : List (Option ByteDesc) := r.flatMap Item.flatten

/-- linear well-formedness checker of a zone (run on dumps of the real `MemoryZone`): no empty
    object, each object ends at or before the next one starts, cache = start addresses. -/
def wfAdj : List Mo → Bool
  | [] => true
  | [x] => decide (0 < x.len)
  | x :: y :: rest => decide (0 < x.len) && decide (x.fin ≤ y.vaddr) && wfAdj (y :: rest)

def Zone.check (z : Zone) : Bool := wfAdj z.map && (z.cache == z.map.map Mo.vaddr)

/-! ## Histories -/

/-- one operation of a zone history. -/
inductive ZOp
  | write (a : Int) (v : Val) (en : Endian)
  | restruct
  | copy
  | shift (off : Int)
  | merge (other : List (Int × Val × Endian))    -- merge with the zone built by these writes
  deriving Repr, Inhabited

def writesZone (ws : List (Int × Val × Endian)) : Zone :=
  ws.foldl (fun z w => z.write w.1 w.2.1 w.2.2) Zone.empty

def ZOp.apply (z : Zone) : ZOp → Zone
  | .write a v en => z.write a v en
  | .restruct => z.restruct
  | .copy => z.copy
  | .shift off => z.shift off
  | .merge ws => z.mergeWith (writesZone ws)

def runZone (ops : List ZOp) : Zone := ops.foldl ZOp.apply Zone.empty

/-- one operation of a `MemoryMap` history (a write that raises `MemoryError` leaves the map
    unchanged; `shift` is `MemoryZone.shift` applied to one zone of the map). -/
inductive MOp
  | write (a : Addr) (v : Val) (en : Endian)
  | restruct
  | copy
  | shift (k : ZKey) (off : Int)
  | merge (other : List (Addr × Val × Endian))   -- merge with the map built by these writes
  deriving Repr, Inhabited

def MMap.writeD (mm : MMap) (a : Addr) (v : Val) (en : Endian) : MMap :=
  match mm.write a v en with
  | .ok mm' => mm'
  | .error _ => mm

def writesMMap (ws : List (Addr × Val × Endian)) : MMap :=
  ws.foldl (fun mm w => mm.writeD w.1 w.2.1 w.2.2) MMap.empty

def MOp.apply (mm : MMap) : MOp → MMap
  | .write a v en => mm.writeD a v en
  | .restruct => mm.restruct
  | .copy => mm.copy
  | .shift k off =>
    match mm.getZone k with
    | some z => mm.setZone k (z.shift off)
    | none => mm
  | .merge ws => mm.merge (writesMMap ws)

def runMMap (ops : List MOp) : MMap := ops.foldl MOp.apply MMap.empty

/-- a workspace of live maps (index = creation order): `fork src` appends `ws[src].copy()` and keeps
    the original alive, `on i op` applies an operation to map `i`, `mergeCopy i src` is
    `ws[i].merge(ws[src].copy())`.  Python objects are mutable and `copy` must not share state; in this
    functional model the other maps are untouched by construction, which is exactly what the
    correspondence on all live maps checks of the real code. -/
inductive WOp
  | fork (src : Nat)
  | on (i : Nat) (op : MOp)
  | mergeCopy (i src : Nat)
  deriving Repr, Inhabited

def WOp.apply (ws : List MMap) : WOp → List MMap
  | .fork src =>
    match ws[src]? with
    | some mm => ws ++ [mm.copy]
    | none => ws
  | .on i op =>
    match ws[i]? with
    | some mm => ws.set i (op.apply mm)
    | none => ws
  | .mergeCopy i src =>
    match ws[i]?, ws[src]? with
    | some mm, some other => ws.set i (mm.merge other.copy)
    | _, _ => ws

def runWorkspace (ops : List WOp) : List MMap := ops.foldl WOp.apply [MMap.empty]

end Amoco.Memory
