/-
  Amoco.Model.Frame — the framework around hooks, formatters and semantics functions
  (`icore.__call__`, `ispec.__getstate__/__setstate__`) of `amoco/arch/core.py`.
-/
import Amoco.Model.Dis

namespace Amoco.Frame

/-- `icore.__call__`: look the semantics function up; a missing `_uarch` (AttributeError) or a
    missing entry (KeyError) is logged; otherwise the function runs and whatever it raises propagates. -/
inductive ExecOut
  | done                -- map updated
  | logged              -- "no uarch defined" / "instruction not implemented"
  | raised (e : Nat)
  deriving Repr, DecidableEq

/-- `uarch = none` models a class without `_uarch`; `sem m` is the outcome of running `i_m`. -/
def exec (uarch : Option (List String)) (sem : String → Option Nat) (mnemonic : String) : ExecOut :=
  match uarch with
  | none => .logged
  | some tbl =>
    if tbl.contains ("i_" ++ mnemonic) then
      match sem mnemonic with
      | none => .done
      | some e => .raised e
    else .logged

/-- a registered spec as pickling sees it: its format string and the identity of its hook. -/
structure PSpec where
  format : String
  hook   : Nat
  deriving Repr, DecidableEq

/-- `ispec.__setstate__`: first spec of the module with the same format. -/
def restoreHook (ispecs : List PSpec) (format : String) : Option Nat :=
  (ispecs.find? (fun h => h.format == format)).map (·.hook)

end Amoco.Frame
