/-
  Amoco.Model.Flags — the x86 flag / extension / condition-code helper formulas of
  `amoco/cas/utils.py` (AddWithCarry, SubWithBorrow, ROR/ROL(WithCarry)) and
  `amoco/arch/x64/asm.py`, `amoco/arch/x86/asm.py` (parity8, parity, halfcarry, halfborrow,
  `_r32_zx64`, the CF selection of the shifts) and `amoco/arch/x86/utils.py` (CONDITION_CODES),
  as functions on bit-vectors of any width.  Each definition transcribes the Python formula; the
  theorems about them are in Props/C06.lean.  Core Lean only.
-/
namespace Amoco.Flags

/-- `Sign(x) = x[size-1:size]` -/
def sign {n} (x : BitVec n) : Bool := x.msb

/-- `c.zeroextend(size)` of a one-bit carry -/
def cin (n : Nat) (c : Bool) : BitVec n := (BitVec.ofBool c).setWidth n

structure Awc (n : Nat) where
  res : BitVec n
  carry : Bool
  overflow : Bool
  deriving DecidableEq, Repr

/-- `AddWithCarry(x, y, c)`:
    `result = x + y + c; carry = (sx & sy) | (~sz & (sx | sy)); overflow = (sz ^ sx) & (sz ^ sy)` -/
def addWithCarry {n} (x y : BitVec n) (c : Bool) : Awc n :=
  let r := x + y + cin n c
  let sx := sign x
  let sy := sign y
  let sz := sign r
  ⟨r, (sx && sy) || (!sz && (sx || sy)), (sz ^^ sx) && (sz ^^ sy)⟩

/-- `SubWithBorrow(x, y, c)`:
    `result = x - y - c; carry = (~sx & sy) | (sz & (~sx | sy)); overflow = (sx ^ sy) & (sz ^ sx)` -/
def subWithBorrow {n} (x y : BitVec n) (c : Bool) : Awc n :=
  let r := x - y - cin n c
  let sx := sign x
  let sy := sign y
  let sz := sign r
  ⟨r, (!sx && sy) || (sz && (!sx || sy)), (sx ^^ sy) && (sz ^^ sx)⟩

/-- the table constant of `parity8` (`cst(TABLE, 16) >> y[0:4]`, bit 0).  The value is read from the
    source by the harness and compared (0x9669 after `fix: C06-x86-parity-flag-even`). -/
def parityTable : BitVec 16 := 0x9669#16

/-- `parity8(x)`: `y = x ^ (x >> 4); y = cst(TABLE,16) >> y[0:4]; p = y.bit(0)` -/
def parity8With (table : BitVec 16) (x : BitVec 8) : Bool :=
  let y := x ^^^ (x >>> 4)
  (table >>> (y.extractLsb' 0 4).toNat).getLsbD 0

def parity8 (x : BitVec 8) : Bool := parity8With parityTable x

/-- number of one bits -/
def popcount {n} (x : BitVec n) : Nat := (List.range n).foldl (fun a i => a + (if x.getLsbD i then 1 else 0)) 0

/-- architectural PF: set iff the low byte has an even number of one bits -/
def evenParity (x : BitVec 8) : Bool := popcount x % 2 == 0

/-- `halfcarry(x, y, c) = AddWithCarry(x[0:4], y[0:4], c).carry` -/
def halfcarry {n} (x y : BitVec n) (c : Bool) : Bool :=
  (addWithCarry (x.extractLsb' 0 4) (y.extractLsb' 0 4) c).carry

/-- `halfborrow(x, y, c) = SubWithBorrow(x[0:4], y[0:4], c).carry` -/
def halfborrow {n} (x y : BitVec n) (c : Bool) : Bool :=
  (subWithBorrow (x.extractLsb' 0 4) (y.extractLsb' 0 4) c).carry

/-- `_r32_zx64(op1, x)`: a 32-bit register destination receives the value zero-extended into the
    whole 64-bit register (`(op1.x, x.zeroextend(64))`), any other destination is left alone.
    Returns the new value of the 64-bit register `old`. -/
def writeReg (old : BitVec 64) (size : Nat) (v : BitVec 64) : BitVec 64 :=
  if size = 32 then (v.setWidth 32).setWidth 64          -- x.zeroextend(64)
  else if size = 64 then v
  else (old &&& ~~~(BitVec.allOnes size).setWidth 64) ||| ((v.setWidth size).setWidth 64)   -- fmap[slice] = x

/-- `ROL(x, n)` / `ROR(x, n)` on constants: `(x << n | x >> (size - n))` -/
def rol {n} (x : BitVec n) (k : Nat) : BitVec n := x.rotateLeft k
def ror {n} (x : BitVec n) (k : Nat) : BitVec n := x.rotateRight k

/-- `ROLWithCarry(x, n, c)`: rotate `composer([x, c])` (carry above the msb) left, split again -/
def rolWithCarry {n} (x : BitVec n) (k : Nat) (c : Bool) : BitVec n × Bool :=
  let y : BitVec (1 + n) := BitVec.ofBool c ++ x
  let ry := y.rotateLeft k
  (ry.setWidth n, ry.getLsbD n)

def rorWithCarry {n} (x : BitVec n) (k : Nat) (c : Bool) : BitVec n × Bool :=
  let y : BitVec (1 + n) := BitVec.ofBool c ++ x
  let ry := y.rotateRight k
  (ry.setWidth n, ry.getLsbD n)

/-- CF of `SHL a, count` (`0 < count`): `a.bit(size - count)` when `count ≤ size`, else 0 -/
def shlCF {n} (a : BitVec n) (count : Nat) : Bool := if count ≤ n then a.getLsbD (n - count) else false
/-- CF of `SHR a, count` (`0 < count`): `a.bit(count - 1)` when `count ≤ size`, else 0 -/
def shrCF {n} (a : BitVec n) (count : Nat) : Bool := if count ≤ n then a.getLsbD (count - 1) else false
/-- CF of `SAR a, count` (`0 < count`): `a.bit(count - 1)` when `count ≤ size`, else the sign -/
def sarCF {n} (a : BitVec n) (count : Nat) : Bool := if count ≤ n then a.getLsbD (count - 1) else a.msb

/-- status flags read by the condition codes -/
structure Fl where
  cf : Bool
  pf : Bool
  zf : Bool
  sf : Bool
  of : Bool
  deriving DecidableEq, Repr

/-- `CONDITION_CODES[cc][1]` evaluated on flags (amoco/arch/x86/utils.py) -/
def cond (cc : Nat) (f : Fl) : Bool :=
  match cc with
  | 0x0 => f.of                       -- O
  | 0x1 => !f.of                      -- NO
  | 0x2 => f.cf                       -- B/NAE/C
  | 0x3 => !f.cf                      -- NB/AE/NC
  | 0x4 => f.zf                       -- Z/E
  | 0x5 => !f.zf                      -- NZ/NE
  | 0x6 => f.cf || f.zf               -- BE/NA
  | 0x7 => !f.cf && !f.zf             -- NBE/A
  | 0x8 => f.sf                       -- S
  | 0x9 => !f.sf                      -- NS
  | 0xA => f.pf                       -- P/PE
  | 0xB => !f.pf                      -- NP/PO
  | 0xC => f.sf != f.of               -- L/NGE
  | 0xD => f.sf == f.of               -- NL/GE
  | 0xE => f.zf || (f.sf != f.of)     -- LE/NG
  | 0xF => !f.zf && (f.sf == f.of)    -- NLE/G
  | _ => false

/-- the flags `i_CMP` leaves: `x, carry, overflow = SubWithBorrow(op1, op2); zf = x == 0; sf = x < 0
    (x is declared signed by SubWithBorrow); cf = carry; of = overflow; pf = parity8(x[0:8])` -/
def cmpFlags {n} (a b : BitVec n) : Fl :=
  let s := subWithBorrow a b false
  ⟨s.carry, parity8 (s.res.setWidth 8), s.res == 0, s.res.msb, s.overflow⟩

end Amoco.Flags
