/-
  Amoco.Model.Macho — byte-level model of `amoco/system/macho.py`:
  `MachO.__init__` / `__parse` (magic dispatch, `struct_mach_header(_64)`, `struct_fat_header`),
  `MachO.read_commands` (the load-command walker), the `CMD_TABLE` constructors at the level of
  "which bytes must be readable", `struct_segment_command(_64)` with their `struct_section(_64)`
  records, and the helpers `getinfo` / `getfileoffset`.

  What the code does (and the model mirrors):
  * every structure is little-endian except `struct_fat_header` / `struct_fat_arch` (`:>`); the
    byte-swapped magics `MH_CIGAM(_64)` are *not* supported ("not a Mach-O header");
  * `struct_mach_header(f)` is always read first (28 bytes, *any* failure → `MachOError`); with
    `MH_MAGIC_64` the 32-byte header is read again (short → `StructureError`); `FAT_CIGAM` (file bytes
    `CA FE BA BE`) switches to the fat header;
  * the walker does **not** use `ncmds`: it loops `while lcsize < sizeofcmds`, reads the 8-byte
    `struct_load_command` at `offset` (short → `StructureError`), rejects `cmdsize < 8`
    (`MachOError`), takes `data = f[offset:offset+cmdsize]` (clamped at the end of the file),
    advances `offset`/`lcsize` by `cmdsize`, and, for a `cmd` in `CMD_TABLE`, builds the specific
    structure from `data` under a bare `except` (any failure → `MachOError`);
  * `struct_section.__init__` decodes `segname` as UTF-8 (`UnicodeDecodeError`, swallowed by that
    bare `except`);
  * fat files: `read_fat_arch` uses the non-existent attribute `self.__f` → `AttributeError`, which
    the wrapper of `__init__` turns into a `MachOError` (so only `nfat_arch = 0` is accepted);
  * the wrapper of `__init__` lets `MachOError`/`StructureError` through and turns everything else
    into `MachOError`.
  After `read_commands` the constructor post-processes LC_THREAD/UNIXTHREAD, LC_SYMTAB, LC_DYSYMTAB,
  LC_DYLD_INFO(_ONLY), LC_FUNCTION_STARTS: this is outside the model (`Obj.post`).

  The walker uses explicit structural fuel; `Proofs/Macho.lean` shows that `length + 1` never runs out.
  Core Lean only, no imports.
-/

namespace Amoco.Macho

abbrev Bytes := List Nat

/-- little-endian value -/
def leVal : Bytes → Nat
  | [] => 0
  | b :: t => b + 256 * leVal t

/-- big-endian value -/
def beAcc : Bytes → Nat → Nat
  | [], a => a
  | b :: t, a => beAcc t (a * 256 + b)

def beVal (bs : Bytes) : Nat := beAcc bs 0

/-- `data[off : off+n]` -/
def slice (d : Bytes) (off n : Nat) : Bytes := (d.drop off).take n

/-- exception classes of the constructor body. `fuel` is the model's own "out of fuel" marker
    (proved unreachable). -/
inductive Exn where
  | machoError | structureError | unicodeDecodeError | attributeError | fuel
  deriving DecidableEq, Repr, Inhabited

abbrev Py := Except Exn

/-- the classes `read_program` catches for this format -/
def Exn.isFormat : Exn → Bool
  | .machoError | .structureError => true
  | _ => false

/-- one raw field through `StructCore.unpack`: a short read is a `StructureError` -/
def rdBytes (d : Bytes) (off n : Nat) : Py Bytes :=
  let bs := slice d off n
  if bs.length == n then .ok bs else .error .structureError

def rdLE (d : Bytes) (off n : Nat) : Py Nat := do
  let bs ← rdBytes d off n
  pure (leVal bs)

def rdBE (d : Bytes) (off n : Nat) : Py Nat := do
  let bs ← rdBytes d off n
  pure (beVal bs)

/-- struct format `i` -/
def toS32 (v : Nat) : Int := if v < 2147483648 then (v : Int) else (v : Int) - 4294967296

def rdS32 (d : Bytes) (off : Nat) : Py Int := do
  let v ← rdLE d off 4
  pure (toS32 v)

/-! ## constants -/

def MH_MAGIC : Nat := 0xFEEDFACE
def MH_MAGIC_64 : Nat := 0xFEEDFACF
def FAT_CIGAM : Nat := 0xBEBAFECA
def LC_SEGMENT : Nat := 0x1
def LC_SEGMENT_64 : Nat := 0x19
def LC_BUILD_VERSION : Nat := 0x32

/-- `cmd in CMD_TABLE` for the fixed-size command structures: number of bytes the structure's
    `unpack` needs (checked against the classes by reflection on every run). -/
def knownNeed (cmd : Nat) : Option Nat :=
  if cmd == 0x2 then some 24 else if cmd == 0x3 then some 16
  else if cmd == 0x4 || cmd == 0x5 then some 16
  else if cmd == 0x6 || cmd == 0x7 then some 20
  else if cmd == 0x8 then some 8 else if cmd == 0x9 then some 16
  else if cmd == 0xb then some 80
  else if cmd == 0xc || cmd == 0xd || cmd == 0x80000018 || cmd == 0x8000001f then some 24
  else if cmd == 0xe || cmd == 0xf then some 12
  else if cmd == 0x12 || cmd == 0x13 || cmd == 0x14 || cmd == 0x15 then some 12
  else if cmd == 0x16 then some 16 else if cmd == 0x10 then some 20
  else if cmd == 0x17 then some 12 else if cmd == 0x1b then some 24
  else if cmd == 0x8000001c then some 12
  else if cmd == 0x11 then some 40 else if cmd == 0x1a then some 72
  else if cmd == 0x22 || cmd == 0x80000022 then some 48
  else if cmd == 0x21 then some 20
  else if cmd == 0x1d || cmd == 0x1e || cmd == 0x26 || cmd == 0x29 || cmd == 0x2b then some 16
  else if cmd == 0x24 || cmd == 0x25 then some 16
  else if cmd == 0x2a then some 16
  else if cmd == 0x80000028 then some 24
  else if cmd == 0x31 then some 40
  else none

/-- commands `__parse` post-processes after the walker (outside the model) -/
def isPostCmd (cmd : Nat) : Bool :=
  cmd == 0x4 || cmd == 0x5 || cmd == 0x2 || cmd == 0xb || cmd == 0x22 || cmd == 0x80000022 || cmd == 0x26

/-! ## Python's strict UTF-8 decoder (validity only) -/

def isCont (b : Nat) : Bool := 0x80 ≤ b && b ≤ 0xBF

def utf8Valid : Bytes → Bool
  | [] => true
  | b :: t =>
    if b < 0x80 then utf8Valid t
    else if 0xC2 ≤ b && b ≤ 0xDF then
      match t with
      | c :: t' => isCont c && utf8Valid t'
      | _ => false
    else if 0xE0 ≤ b && b ≤ 0xEF then
      match t with
      | c1 :: c2 :: t' =>
        (if b == 0xE0 then (0xA0 ≤ c1 && c1 ≤ 0xBF) else if b == 0xED then (0x80 ≤ c1 && c1 ≤ 0x9F) else isCont c1)
          && isCont c2 && utf8Valid t'
      | _ => false
    else if 0xF0 ≤ b && b ≤ 0xF4 then
      match t with
      | c1 :: c2 :: c3 :: t' =>
        (if b == 0xF0 then (0x90 ≤ c1 && c1 ≤ 0xBF) else if b == 0xF4 then (0x80 ≤ c1 && c1 ≤ 0x8F) else isCont c1)
          && isCont c2 && isCont c3 && utf8Valid t'
      | _ => false
    else false

/-! ## objects -/

structure Header where
  is64 : Bool
  magic : Nat
  cputype : Int
  cpusubtype : Int
  filetype : Nat
  ncmds : Nat
  sizeofcmds : Nat
  flags : Nat
  reserved : Nat        -- 0 for the 32-bit header
  deriving DecidableEq, Repr, Inhabited

structure Sect where
  sectname : Bytes
  segname : Bytes
  addr : Nat
  size : Nat
  offset : Nat
  align : Nat
  reloff : Nat
  nreloc : Nat
  ftype : Nat
  fattr : Bytes
  reserved1 : Nat
  reserved2 : Nat
  reserved3 : Nat       -- 0 for the 32-bit record
  deriving DecidableEq, Repr, Inhabited

structure Seg where
  segname : Bytes
  vmaddr : Nat
  vmsize : Nat
  fileoffset : Nat
  filesize : Nat
  maxprot : Int
  initprot : Int
  nsects : Nat
  flags : Nat
  sections : List Sect
  deriving DecidableEq, Repr, Inhabited

inductive Body where
  | raw                 -- `cmd` not in `CMD_TABLE`: the generic `struct_load_command` stays
  | known (need : Nat)  -- a fixed-size (or build-version) command structure was built
  | seg (s : Seg)
  deriving DecidableEq, Repr, Inhabited

structure LC where
  off : Nat
  cmd : Nat
  cmdsize : Nat
  body : Body
  deriving DecidableEq, Repr, Inhabited

/-- number of bytes of the file, from `off`, that building this command read -/
def Body.extent (is64seg : Bool) : Body → Nat
  | .raw => 8
  | .known n => n
  | .seg s => (if is64seg then 72 else 56) + s.nsects * (if is64seg then 80 else 68)

def LC.extent (c : LC) : Nat := c.body.extent (c.cmd == LC_SEGMENT_64)

/-! ## header -/

/-- `struct_mach_header(f)` -/
def readHeader32 (d : Bytes) : Py Header := do
  let magic ← rdLE d 0 4
  let cputype ← rdS32 d 4
  let cpusubtype ← rdS32 d 8
  let filetype ← rdLE d 12 4
  let ncmds ← rdLE d 16 4
  let sizeofcmds ← rdLE d 20 4
  let flags ← rdLE d 24 4
  pure { is64 := false, magic, cputype, cpusubtype, filetype, ncmds, sizeofcmds, flags, reserved := 0 }

/-- `struct_mach_header_64(f)`: all fields `I` -/
def readHeader64 (d : Bytes) : Py Header := do
  let magic ← rdLE d 0 4
  let cputype ← rdLE d 4 4
  let cpusubtype ← rdLE d 8 4
  let filetype ← rdLE d 12 4
  let ncmds ← rdLE d 16 4
  let sizeofcmds ← rdLE d 20 4
  let flags ← rdLE d 24 4
  let reserved ← rdLE d 28 4
  pure { is64 := true, magic, cputype := (cputype : Int), cpusubtype := (cpusubtype : Int), filetype, ncmds,
         sizeofcmds, flags, reserved }

/-! ## sections and segments (`data` is the command's own byte string, offsets relative to it) -/

/-- `struct_section(data, off)` including `self.name = self.segname.decode().strip('\0')` -/
def readSect32 (data : Bytes) (off : Nat) : Py Sect := do
  let sectname ← rdBytes data off 16
  let segname ← rdBytes data (off + 16) 16
  let addr ← rdLE data (off + 32) 4
  let size ← rdLE data (off + 36) 4
  let offset ← rdLE data (off + 40) 4
  let align ← rdLE data (off + 44) 4
  let reloff ← rdLE data (off + 48) 4
  let nreloc ← rdLE data (off + 52) 4
  let ftype ← rdLE data (off + 56) 1
  let fattr ← rdBytes data (off + 57) 3
  let reserved1 ← rdLE data (off + 60) 4
  let reserved2 ← rdLE data (off + 64) 4
  if utf8Valid segname then
    pure { sectname, segname, addr, size, offset, align, reloff, nreloc, ftype, fattr, reserved1, reserved2,
           reserved3 := 0 }
  else .error .unicodeDecodeError

/-- `struct_section_64(data, off)` -/
def readSect64 (data : Bytes) (off : Nat) : Py Sect := do
  let sectname ← rdBytes data off 16
  let segname ← rdBytes data (off + 16) 16
  let addr ← rdLE data (off + 32) 8
  let size ← rdLE data (off + 40) 8
  let offset ← rdLE data (off + 48) 4
  let align ← rdLE data (off + 52) 4
  let reloff ← rdLE data (off + 56) 4
  let nreloc ← rdLE data (off + 60) 4
  let ftype ← rdLE data (off + 64) 1
  let fattr ← rdBytes data (off + 65) 3
  let reserved1 ← rdLE data (off + 68) 4
  let reserved2 ← rdLE data (off + 72) 4
  let reserved3 ← rdLE data (off + 76) 4
  if utf8Valid segname then
    pure { sectname, segname, addr, size, offset, align, reloff, nreloc, ftype, fattr, reserved1, reserved2, reserved3 }
  else .error .unicodeDecodeError

def sectSize (is64 : Bool) : Nat := if is64 then 80 else 68
def segSize (is64 : Bool) : Nat := if is64 then 72 else 56

def readSect (is64 : Bool) (data : Bytes) (off : Nat) : Py Sect :=
  if is64 then readSect64 data off else readSect32 data off

/-- `for i in range(self.nsects): s = struct_section(data, offset); offset += len(s)` -/
def sectLoop (is64 : Bool) (data : Bytes) : Nat → Nat → Py (List Sect)
  | 0, _ => .ok []
  | n + 1, off => do
    let s ← readSect is64 data off
    let rest ← sectLoop is64 data n (off + sectSize is64)
    pure (s :: rest)

/-- `struct_segment_command(data)` -/
def readSeg32 (data : Bytes) : Py Seg := do
  let _cmd ← rdLE data 0 4
  let _cmdsize ← rdLE data 4 4
  let segname ← rdBytes data 8 16
  let vmaddr ← rdLE data 24 4
  let vmsize ← rdLE data 28 4
  let fileoffset ← rdLE data 32 4
  let filesize ← rdLE data 36 4
  let maxprot ← rdS32 data 40
  let initprot ← rdS32 data 44
  let nsects ← rdLE data 48 4
  let flags ← rdLE data 52 4
  let sections ← sectLoop false data nsects 56
  pure { segname, vmaddr, vmsize, fileoffset, filesize, maxprot, initprot, nsects, flags, sections }

/-- `struct_segment_command_64(data)` -/
def readSeg64 (data : Bytes) : Py Seg := do
  let _cmd ← rdLE data 0 4
  let _cmdsize ← rdLE data 4 4
  let segname ← rdBytes data 8 16
  let vmaddr ← rdLE data 24 8
  let vmsize ← rdLE data 32 8
  let fileoffset ← rdLE data 40 8
  let filesize ← rdLE data 48 8
  let maxprot ← rdS32 data 56
  let initprot ← rdS32 data 60
  let nsects ← rdLE data 64 4
  let flags ← rdLE data 68 4
  let sections ← sectLoop true data nsects 72
  pure { segname, vmaddr, vmsize, fileoffset, filesize, maxprot, initprot, nsects, flags, sections }

/-- `CMD_TABLE[cmd.cmd](data)` without the bare `except` -/
def mkBodyRaw (cmd : Nat) (data : Bytes) : Py Body :=
  if cmd == LC_SEGMENT then do
    let s ← readSeg32 data
    pure (.seg s)
  else if cmd == LC_SEGMENT_64 then do
    let s ← readSeg64 data
    pure (.seg s)
  else if cmd == LC_BUILD_VERSION then do
    -- struct_build_version_command: 24 bytes, then `ntools` records of 8 bytes
    let _ ← rdBytes data 0 20
    let ntools ← rdLE data 20 4
    let _ ← rdBytes data 0 (24 + 8 * ntools)
    pure (.known (24 + 8 * ntools))
  else
    match knownNeed cmd with
    | some n => do
      let _ ← rdBytes data 0 n
      pure (.known n)
    | none => pure .raw

/-- `try: cmd = CMD_TABLE[cmd.cmd](data)  except: raise MachOError(...)` -/
def mkBody (cmd : Nat) (data : Bytes) : Py Body :=
  match mkBodyRaw cmd data with
  | .ok b => .ok b
  | .error _ => .error .machoError

/-! ## the walker -/

/-- `MachO.read_commands(offset)`: returns the commands built so far and how the loop ended
    (`none` = normal exit, `some e` = exception `e`). -/
def walk (d : Bytes) (soc : Nat) : Nat → Nat → Nat → List LC × Option Exn
  | 0, _, _ => ([], some .fuel)
  | fuel + 1, off, lcsize =>
    if lcsize < soc then
      match rdLE d off 4, rdLE d (off + 4) 4 with
      | .ok cmd, .ok cmdsize =>
        if cmdsize < 8 then ([], some .machoError)
        else
          match mkBody cmd (slice d off cmdsize) with
          | .error e => ([], some e)
          | .ok b =>
            let r := walk d soc fuel (off + cmdsize) (lcsize + cmdsize)
            ({ off, cmd, cmdsize, body := b } :: r.1, r.2)
      | _, _ => ([], some .structureError)
    else ([], none)

def readCommands (d : Bytes) (soc off : Nat) : Py (List LC) :=
  match walk d soc (d.length + 1) off 0 with
  | (cs, none) => .ok cs
  | (_, some e) => .error e

/-! ## the constructor -/

inductive Kind where
  | macho32 | macho64 | fat
  deriving DecidableEq, Repr, Inhabited

structure Obj where
  kind : Kind
  header : Header            -- for `fat`: magic = 0xCAFEBABE, ncmds = nfat_arch, the rest 0
  cmds : List LC
  post : Bool                -- some command is post-processed by `__parse` (outside the model)
  deriving DecidableEq, Repr, Inhabited

/-- `MachO.__parse` up to and including `read_commands` (no wrapper) -/
def parseRaw (d : Bytes) : Py Obj :=
  match readHeader32 d with
  | .error _ => .error .machoError            -- bare except around struct_mach_header(f)
  | .ok h =>
    if h.magic == MH_MAGIC_64 then do
      let h64 ← readHeader64 d
      let cmds ← readCommands d h64.sizeofcmds 32
      pure { kind := .macho64, header := h64, cmds, post := cmds.any (fun c => isPostCmd c.cmd) }
    else if h.magic == FAT_CIGAM then do
      let magic ← rdBE d 0 4
      let nfat ← rdBE d 4 4
      if nfat == 0 then
        pure { kind := .fat, header := { is64 := false, magic, cputype := 0, cpusubtype := 0, filetype := 0,
                                         ncmds := nfat, sizeofcmds := 0, flags := 0, reserved := 0 },
               cmds := [], post := false }
      else do
        -- struct_fat_arch(f, 8): 20 bytes; then read_fat_arch → self.__f → AttributeError
        let _ ← rdBytes d 8 20
        .error .attributeError
    else if h.magic == MH_MAGIC then do
      let cmds ← readCommands d h.sizeofcmds 28
      pure { kind := .macho32, header := h, cmds, post := cmds.any (fun c => isPostCmd c.cmd) }
    else .error .machoError

/-- the wrapper of `MachO.__init__` -/
def wrap {α} (r : Py α) : Py α :=
  match r with
  | .ok a => .ok a
  | .error .machoError => .error .machoError
  | .error .structureError => .error .structureError
  | .error _ => .error .machoError

/-- `MachO.__init__` (header + load-command stage) -/
def machoInit (d : Bytes) : Py Obj := wrap (parseRaw d)

/-! ## queries -/

def isSegCmd (c : LC) : Bool := c.cmd == LC_SEGMENT || c.cmd == LC_SEGMENT_64

inductive Info where
  | none
  | seg (ci : Nat) (off base : Nat)             -- index of the command in `cmds`
  | sect (ci si : Nat) (off base : Nat)
  deriving DecidableEq, Repr, Inhabited

def findSect (target : Nat) : List Sect → Nat → Option (Nat × Sect)
  | [], _ => none
  | s :: t, i => if s.addr ≤ target && target < s.addr + s.size then some (i, s) else findSect target t (i + 1)

/-- `MachO.getinfo(target)`: first segment command whose vm range contains the target, then the
    first of its sections that contains it. -/
def getinfoGo (target : Nat) : List LC → Nat → Info
  | [], _ => .none
  | c :: t, i =>
    match c.body with
    | .seg s =>
      if isSegCmd c && s.vmaddr ≤ target && target < s.vmaddr + s.vmsize then
        match findSect target s.sections 0 with
        | some (k, x) => .sect i k (target - x.addr) x.addr
        | none => .seg i (target - s.vmaddr) s.vmaddr
      else getinfoGo target t (i + 1)
    | _ => getinfoGo target t (i + 1)

def getinfo (o : Obj) (target : Nat) : Info := getinfoGo target o.cmds 0

def nthSeg (cs : List LC) (i : Nat) : Option Seg :=
  match cs[i]? with
  | some c => (match c.body with | .seg s => some s | _ => none)
  | none => none

/-- file offset of a mapped address, as the file's mapping defines it (segment: `fileoffset + off`,
    section: `offset + off`); `none` = the address is not mapped (the code raises). -/
def getfileoffset (o : Obj) (target : Nat) : Option Nat :=
  match getinfo o target with
  | .none => none
  | .seg ci off _ => (nthSeg o.cmds ci).map (fun s => s.fileoffset + off)
  | .sect ci si off _ =>
    match nthSeg o.cmds ci with
    | some s => (s.sections[si]?).map (fun x => x.offset + off)
    | none => none

/-! ## reference reader, written from the Mach-O format description (`<mach-o/loader.h>`):
    fixed offsets, whole-structure bounds checks, `ncmds` commands laid out back to back in the
    `sizeofcmds` bytes that follow the header. -/

def le (d : Bytes) (off n : Nat) : Nat := leVal (slice d off n)

def refHeader (d : Bytes) : Option Header :=
  if 28 ≤ d.length then
    let magic := le d 0 4
    if magic == 0xFEEDFACE then
      some { is64 := false, magic, cputype := toS32 (le d 4 4), cpusubtype := toS32 (le d 8 4), filetype := le d 12 4,
             ncmds := le d 16 4, sizeofcmds := le d 20 4, flags := le d 24 4, reserved := 0 }
    else if magic == 0xFEEDFACF && 32 ≤ d.length then
      some { is64 := true, magic, cputype := (le d 4 4 : Nat), cpusubtype := (le d 8 4 : Nat), filetype := le d 12 4,
             ncmds := le d 16 4, sizeofcmds := le d 20 4, flags := le d 24 4, reserved := le d 28 4 }
    else none
  else none

def refSect (is64 : Bool) (c : Bytes) (o : Nat) : Sect :=
  if is64 then
    { sectname := slice c o 16, segname := slice c (o + 16) 16, addr := le c (o + 32) 8, size := le c (o + 40) 8,
      offset := le c (o + 48) 4, align := le c (o + 52) 4, reloff := le c (o + 56) 4, nreloc := le c (o + 60) 4,
      ftype := le c (o + 64) 1, fattr := slice c (o + 65) 3, reserved1 := le c (o + 68) 4, reserved2 := le c (o + 72) 4,
      reserved3 := le c (o + 76) 4 }
  else
    { sectname := slice c o 16, segname := slice c (o + 16) 16, addr := le c (o + 32) 4, size := le c (o + 36) 4,
      offset := le c (o + 40) 4, align := le c (o + 44) 4, reloff := le c (o + 48) 4, nreloc := le c (o + 52) 4,
      ftype := le c (o + 56) 1, fattr := slice c (o + 57) 3, reserved1 := le c (o + 60) 4, reserved2 := le c (o + 64) 4,
      reserved3 := 0 }

/-- a segment command `c` (the `cmdsize` bytes of the command): the fixed part followed by `nsects`
    section records; section segment names must be text (UTF-8). -/
def refSeg (is64 : Bool) (c : Bytes) : Option Seg :=
  let nsects := if is64 then le c 64 4 else le c 48 4
  let base := segSize is64
  if base + nsects * sectSize is64 ≤ c.length then
    let secs := (List.range nsects).map (fun k => refSect is64 c (base + k * sectSize is64))
    if secs.all (fun s => utf8Valid s.segname) then
      if is64 then
        some { segname := slice c 8 16, vmaddr := le c 24 8, vmsize := le c 32 8, fileoffset := le c 40 8,
               filesize := le c 48 8, maxprot := toS32 (le c 56 4), initprot := toS32 (le c 60 4), nsects,
               flags := le c 68 4, sections := secs }
      else
        some { segname := slice c 8 16, vmaddr := le c 24 4, vmsize := le c 28 4, fileoffset := le c 32 4,
               filesize := le c 36 4, maxprot := toS32 (le c 40 4), initprot := toS32 (le c 44 4), nsects,
               flags := le c 52 4, sections := secs }
    else none
  else none

def refBody (cmd : Nat) (c : Bytes) : Option Body :=
  if cmd == 0x1 then (refSeg false c).map .seg
  else if cmd == 0x19 then (refSeg true c).map .seg
  else if cmd == 0x32 then
    (if 24 ≤ c.length && 24 + 8 * le c 20 4 ≤ c.length then some (.known (24 + 8 * le c 20 4)) else none)
  else match knownNeed cmd with
    | some n => if n ≤ c.length then some (.known n) else none
    | none => some .raw

/-- `n` commands back to back from `off`, ending exactly at `endoff` -/
def refCmds (d : Bytes) (endoff : Nat) : Nat → Nat → Option (List LC)
  | 0, off => if off == endoff then some [] else none
  | n + 1, off =>
    if off + 8 ≤ endoff then
      let cmd := le d off 4
      let cmdsize := le d (off + 4) 4
      if 8 ≤ cmdsize && off + cmdsize ≤ endoff then
        match refBody cmd (slice d off cmdsize), refCmds d endoff n (off + cmdsize) with
        | some b, some rest => some ({ off, cmd, cmdsize, body := b } :: rest)
        | _, _ => none
      else none
    else none

def refParse (d : Bytes) : Option Obj :=
  match refHeader d with
  | none => none
  | some h =>
    let hs := if h.is64 then 32 else 28
    if hs + h.sizeofcmds ≤ d.length then
      match refCmds d (hs + h.sizeofcmds) h.ncmds hs with
      | some cmds => some { kind := if h.is64 then .macho64 else .macho32, header := h, cmds,
                            post := cmds.any (fun c => isPostCmd c.cmd) }
      | none => none
    else none

/-- well-formed thin Mach-O image (decidable): the reference reader accepts it -/
def MachoWF (d : Bytes) : Prop := (refParse d).isSome = true

instance (d : Bytes) : Decidable (MachoWF d) := by unfold MachoWF; infer_instance

/-- every element is a byte -/
def BytesOK (d : Bytes) : Prop := ∀ b ∈ d, b < 256

end Amoco.Macho
