/-
  Amoco.Model.Eval — (1) `eval`: `e.eval(env)` as the code does it (functional model of the `eval` methods
  of every node class, environment = what `mapper.__getitem__` returns for a register);
  (2) `ideal ρ e` / `Den ρ e`: the reference two's-complement fixed-width semantics of every node kind
  under a valuation `ρ` of the registers — the specification side of C01.  Core Lean only.
-/
import Amoco.Model.Simplify

namespace Amoco

/-- environment: `(str(reg), reg.size) ↦` the expression `env[reg]` returns (for a mapper built by
    `m[reg] = cst(...)` that is the stored constant).  `ext` registers are keyed by `"@name"`. -/
abbrev Env := List (String × Nat × Expr)

def Env.lookup : Env → String → Nat → Option Expr
  | [], _, _ => none
  | (n, s, v) :: tl, name, size => if n == name && s == size then some v else Env.lookup tl name size

open Expr

variable (cfg : Cfg)

/-- `e.eval(env)` for an environment without path conditions (`env.conds = []`). -/
def eval : Nat → Env → Expr → R Expr
  | 0, _, _ => .error .fuel
  | fuel + 1, env, e =>
    match e with
    | .cst v s f => .ok (mkCst (cstValue v s f) s)
    | .reg n s f =>
        match env.lookup n s with
        | some v => .ok (v.setSf f)
        | none => .ok e
    | .ext n s f =>
        match env.lookup ("@" ++ n) s with
        | some v => .ok (v.setSf f)
        | none => .ok e
    | .slc x pos size sf _ _ => do
        let n ← eval fuel env x
        let res ← getitem cfg fuel n pos (pos + size)
        return res.setSf sf
    | .comp size sf parts => do
        let parts ← parts.mapM (fun (p : Part) => do
          let v ← eval fuel env p.2.2
          pure ((p.1, p.2.1, v) : Part))
        let parts := restruct parts
        match findKey 0 size parts with
        | some (.cst v s _) => return .cst v s sf
        | some p => return p
        | none => return .comp size sf parts
    | .tst t l r _ _ => do
        let cond ← eval fuel env t
        let l ← eval fuel env l
        let r ← eval fuel env r
        match cond with
        | .cst v _ _ => if v == 1 then return l else return r
        | _ => mkTst cond l r
    | .op o l r _ sf _ => do
        let l ← eval fuel env l
        let r ← eval fuel env r
        let res ← callOp cfg fuel o l r
        return res.setSf sf
    | .uop o r _ sf _ => do
        let r ← eval fuel env r
        let res ← callUop cfg fuel o r
        return res.setSf sf
    | .top s _ => .ok (mkTop s)
    | .vec l _ _ => do
        let l' ← l.mapM (eval fuel env)
        mkVec l'
    | .vecw l _ _ => do
        let l' ← l.mapM (eval fuel env)
        match ← mkVec l' with
        | .vec l'' s _ => return .vecw l'' s false
        | _ => throw .unmodelled
    | .mem .. | .ptr .. => .error .unmodelled

/-! ## reference semantics -/

namespace Expr

/-- signed reading of a `w`-bit value -/
def toInt (w a : Nat) : Int := if a.testBit (w - 1) then (a : Int) - (2 ^ w : Nat) else (a : Int)

/-- `x mod 2^w` of an integer, as a natural number -/
def wrap (w : Nat) (x : Int) : Nat := (x % ((2 ^ w : Nat) : Int)).toNat

def b2n (b : Bool) : Nat := if b then 1 else 0

/-- meaning of a binary operator on `w`-bit operands `a b` (`b` is `wr` bits wide for shifts); `signed` is
    the declared reading for `< <= > >= ** / %` and is ignored by every other operator.  Signed division
    floors (as the code does; the property leaves floor/truncate open). -/
def binSem (o : Op) (signed : Bool) (w : Nat) (a b : Nat) : Nat :=
  match o with
  | .add => (a + b) % 2 ^ w
  | .sub => wrap w ((a : Int) - (b : Int))
  | .mul => (a * b) % 2 ^ w
  | .mul2 => if signed then wrap (2 * w) (toInt w a * toInt w b) else (a * b) % 2 ^ (2 * w)
  | .div => if signed then wrap w (Int.fdiv (toInt w a) (toInt w b)) else (a / b) % 2 ^ w
  | .mod => if signed then wrap w (Int.fmod (toInt w a) (toInt w b)) else (a % b) % 2 ^ w
  | .and => a &&& b
  | .or => a ||| b
  | .xor => a ^^^ b
  | .not => 0
  | .eq => b2n (a == b)
  | .neq => b2n (a != b)
  | .lt => if signed then b2n (decide (toInt w a < toInt w b)) else b2n (decide (a < b))
  | .le => if signed then b2n (decide (toInt w a ≤ toInt w b)) else b2n (decide (a ≤ b))
  | .ge => if signed then b2n (decide (toInt w a ≥ toInt w b)) else b2n (decide (a ≥ b))
  | .gt => if signed then b2n (decide (toInt w a > toInt w b)) else b2n (decide (a > b))
  | .ltu => b2n (decide (a < b))
  | .geu => b2n (decide (a ≥ b))
  | .lsl => if b ≥ w then 0 else (a <<< b) % 2 ^ w
  | .lsr => a >>> b
  | .asr => wrap w (toInt w a >>> b)
  | .ror => ((a >>> (b % w)) ||| (a <<< (w - b % w))) % 2 ^ w
  | .rol => ((a <<< (b % w)) ||| (a >>> (w - b % w))) % 2 ^ w

def unSem (o : Op) (w a : Nat) : Nat :=
  match o with
  | .sub => wrap w (-(a : Int))
  | .not => (2 ^ w - 1) - a % 2 ^ w
  | _ => a

/-- a valuation of the registers: `(rendered name, size) ↦` value -/
abbrev Val := String → Nat → Nat

mutual
/-- `ideal ρ e`: the value of `e` under `ρ` with ordinary fixed-width arithmetic.  Total: `top`/`vecw`
    (no single value) read as 0 and `vec` as its first element; `Den` gives their real meaning. -/
def ideal (ρ : Val) : Expr → Nat
  | cst v s _ => v % 2 ^ s
  | reg n s _ => ρ n s % 2 ^ s
  | ext n s _ => ρ ("@" ++ n) s % 2 ^ s
  | slc x p s _ _ _ => (ideal ρ x >>> p) % 2 ^ s
  | comp s _ ps => idealParts ρ ps % 2 ^ s
  | tst t l r _ _ => if ideal ρ t % 2 = 1 then ideal ρ l else ideal ρ r
  | op o l r _ _ _ => binSem o l.sf l.size (ideal ρ l) (ideal ρ r)
  | uop o r _ _ _ => unSem o r.size (ideal ρ r)
  | ptr b _ d s _ => wrap s ((ideal ρ b : Int) + d)
  | mem .. => 0
  | vec l _ _ => idealHead ρ l
  | vecw .. => 0
  | top .. => 0
def idealParts (ρ : Val) : List Part → Nat
  | [] => 0
  | (lo, hi, e) :: tl => ((ideal ρ e % 2 ^ (hi - lo)) <<< lo) ||| idealParts ρ tl
def idealHead (ρ : Val) : List Expr → Nat
  | [] => 0
  | e :: _ => ideal ρ e
end

mutual
/-- `Den ρ e x`: `x` is one of the values `e` can stand for under `ρ` (a singleton for deterministic
    trees, every value of the width for `top`/`vecw`, the union for `vec`). -/
def Den (ρ : Val) : Expr → Nat → Prop
  | cst v s _, x => x = v % 2 ^ s
  | reg n s _, x => x = ρ n s % 2 ^ s
  | ext n s _, x => x = ρ ("@" ++ n) s % 2 ^ s
  | slc e p s _ _ _, x => ∃ y, Den ρ e y ∧ x = (y >>> p) % 2 ^ s
  | comp s _ ps, x => ∃ y, DenParts ρ ps y ∧ x = y % 2 ^ s
  | tst t l r _ _, x => ∃ c, Den ρ t c ∧ ((c % 2 = 1 ∧ Den ρ l x) ∨ (c % 2 ≠ 1 ∧ Den ρ r x))
  | op o l r _ _ _, x => ∃ a b, Den ρ l a ∧ Den ρ r b ∧ x = binSem o l.sf l.size a b
  | uop o r _ _ _, x => ∃ a, Den ρ r a ∧ x = unSem o r.size a
  | ptr b _ d s _, x => ∃ a, Den ρ b a ∧ x = wrap s ((a : Int) + d)
  | mem _ s _ _ _, x => x < 2 ^ s
  | vec l _ _, x => DenAny ρ l x
  | vecw _ s _, x => x < 2 ^ s
  | top s _, x => x < 2 ^ s
def DenParts (ρ : Val) : List Part → Nat → Prop
  | [], y => y = 0
  | (lo, hi, e) :: tl, y => ∃ a b, Den ρ e a ∧ DenParts ρ tl b ∧ y = ((a % 2 ^ (hi - lo)) <<< lo) ||| b
def DenAny (ρ : Val) : List Expr → Nat → Prop
  | [], _ => False
  | e :: tl, x => Den ρ e x ∨ DenAny ρ tl x
end

/-! ## hypotheses of the evaluation theorem (C01 `eval_sound`) -/

/-- operators whose meaning depends on the declared signedness -/
def signDep : Op → Bool
  | .lt | .le | .ge | .gt | .mul2 | .div | .mod => true
  | _ => false

/-- `SfIs s e`: the constant `e` evaluates to is read by its parent with signedness `s` (the flag an
    evaluation result carries: the node's own `sf`; a constant leaf whose top bit is clear reads the same
    either way; a conditional hands over the flag of the selected branch). -/
def SfIs (s : Bool) : Expr → Prop
  | cst v sz f => f = s ∨ v.testBit (sz - 1) = false
  | reg _ _ f => f = s
  | ext _ _ f => f = s
  | slc _ _ _ f _ _ => f = s
  | comp _ f _ => f = s
  | tst _ l r _ _ => SfIs s l ∧ SfIs s r
  | op _ _ _ _ f _ => f = s
  | uop _ _ _ f _ => f = s
  | _ => False

mutual
/-- `SignOK e`: every ordered comparison, widening multiply, division and modulo has operands whose
    signedness is declared unambiguously: both are read with the signedness `l.sf` the node is given. -/
def SignOK : Expr → Prop
  | slc x _ _ _ _ _ => SignOK x
  | comp _ _ ps => SignOKParts ps
  | tst t l r _ _ => SignOK t ∧ SignOK l ∧ SignOK r
  | op o l r _ _ _ => SignOK l ∧ SignOK r ∧ (signDep o = true → SfIs l.sf l ∧ SfIs l.sf r)
  | uop _ r _ _ _ => SignOK r
  | _ => True
def SignOKParts : List Part → Prop
  | [] => True
  | (_, _, e) :: tl => SignOK e ∧ SignOKParts tl
end

mutual
/-- `Ground env e`: `e` is built from constants and registers that `env` binds to constants (a total constant
    valuation of `e`), with slices, compositions, conditionals and operators — no `top`, `vec`, `mem`, `ptr`. -/
def Ground (env : Env) : Expr → Prop
  | cst .. => True
  | reg n s _ => ∃ v f, env.lookup n s = some (cst v s f) ∧ v < 2 ^ s
  | ext n s _ => ∃ v f, env.lookup ("@" ++ n) s = some (cst v s f) ∧ v < 2 ^ s
  | slc x _ _ _ _ _ => Ground env x
  | comp _ _ ps => GroundParts env ps
  | tst t l r _ _ => Ground env t ∧ Ground env l ∧ Ground env r
  | op _ l r _ _ _ => Ground env l ∧ Ground env r
  | uop _ r _ _ _ => Ground env r
  | _ => False
def GroundParts (env : Env) : List Part → Prop
  | [] => True
  | (_, _, e) :: tl => Ground env e ∧ GroundParts env tl
end

/-- the valuation of the registers an environment of constants stands for -/
def envVal (env : Env) : Val := fun n s =>
  match env.lookup n s with
  | some (cst v _ _) => v
  | _ => 0

end Expr
end Amoco
