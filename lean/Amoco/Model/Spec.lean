/-
  Amoco.Model.Spec — the bit-pattern instruction-specification language of
  `amoco/arch/core.py` (`specdecode` grammar, `ispec.buildspec`, `ispec.decode`).

  * `parse`     : the pyparsing grammar `specdecode` as a hand-written tokenizer/parser;
  * `buildspec` : the fix/mask/extractor computation **as coded** (list reversal for `<`,
                  running index `i`, `count`, `=` overlap arithmetic, `*` sizing);
  * `ref*`      : the documented meaning of a format (written order, direction aware),
                  written independently of the code's algorithm;
  * `decode`    : length check, byte reversal for the fetch endianness, mask test,
                  variable tail concatenation, field delivery.
  Core Lean only.
-/
import Amoco.Basic.Bits

namespace Amoco.Spec

inductive Dir | msb | lsb            -- '<' (default) , '>'
  deriving Repr, DecidableEq, Inhabited

inductive Opt | int | attr | bits | str | ovl     -- "" "." "~" "#" "="
  deriving Repr, DecidableEq, Inhabited

inductive Loc | len (n : Nat) | star
  deriving Repr, DecidableEq, Inhabited

inductive Item
  | skip
  | bit (b : Bool)
  | byte (v : Nat)
  | field (opt : Opt) (sym : String) (loc : Loc)
  deriving Repr, DecidableEq, Inhabited

structure Ast where
  size  : Option Nat       -- `none` is '*'
  dir   : Dir
  items : List Item        -- in written order
  pfx   : Bool             -- trailing '+'
  xdata : Bool             -- trailing '&'
  deriving Repr, DecidableEq, Inhabited

/-! ## Parser (mirror of the pyparsing grammar) -/

def isWs (c : Char) : Bool := c == ' ' || c == '\t' || c == '\n' || c == '\r'
def skipWs : List Char → List Char
  | c :: cs => if isWs c then skipWs cs else c :: cs
  | [] => []

def isSymStart (c : Char) : Bool := c.isAlpha || c == '_'
def isSymChar (c : Char) : Bool := c.isAlphanum || c == '_'

def digitsVal (ds : List Char) : Nat := ds.foldl (fun a c => 10 * a + (c.toNat - '0'.toNat)) 0

/-- `number = integer | fixbit` : `[1-9][0-9]*` or a single `0`/`1`. -/
def pNumber : List Char → Option (Nat × List Char)
  | c :: cs =>
    if c.isDigit && c != '0' then
      let ds := cs.takeWhile Char.isDigit
      some (digitsVal (c :: ds), cs.dropWhile Char.isDigit)
    else if c == '0' then some (0, cs)
    else none
  | [] => none

/-- `length = number | '*'` (leading whitespace skipped). -/
def pLength (s : List Char) : Option (Option Nat × List Char) :=
  match skipWs s with
  | '*' :: cs => some (none, cs)
  | cs => (pNumber cs).map (fun (n, r) => (some n, r))

def hexVal (c : Char) : Option Nat :=
  if c.isDigit then some (c.toNat - '0'.toNat)
  else if 'a' ≤ c && c ≤ 'f' then some (c.toNat - 'a'.toNat + 10)
  else if 'A' ≤ c && c ≤ 'F' then some (c.toNat - 'A'.toNat + 10)
  else none

/-- `location = '(' length ')'`, optional with default `1`. -/
def pLocation (s : List Char) : Loc × List Char :=
  match skipWs s with
  | '(' :: cs =>
    match pLength cs with
    | some (l, r) =>
      match skipWs r with
      | ')' :: r' => ((match l with | some n => Loc.len n | none => Loc.star), r')
      | _ => (Loc.len 1, s)
    | none => (Loc.len 1, s)
  | _ => (Loc.len 1, s)

def optOf (c : Char) : Option Opt :=
  if c == '.' then some .attr else if c == '~' then some .bits
  else if c == '#' then some .str else if c == '=' then some .ovl else none

/-- symbol regex `[A-Za-z_][A-Za-z0-9_]*` after optional whitespace. -/
def pSymbol (s : List Char) : Option (String × List Char) :=
  match skipWs s with
  | c :: cs =>
    if isSymStart c then
      some (String.ofList (c :: cs.takeWhile isSymChar), cs.dropWhile isSymChar)
    else none
  | [] => none

/-- one `directive | fixed` item; input has leading whitespace already skipped. -/
def pItem (s : List Char) : Option (Item × List Char) :=
  -- directive first
  let dir : Option (Item × List Char) :=
    match s with
    | c :: cs =>
      match optOf c with
      | some o =>
        match pSymbol cs with
        | some (sym, r) => let (l, r') := pLocation r; some (Item.field o sym l, r')
        | none => none
      | none =>
        match pSymbol s with
        | some (sym, r) => let (l, r') := pLocation r; some (Item.field .int sym l, r')
        | none => none
    | [] => none
  match dir with
  | some x => some x
  | none =>
    match s with
    | '{' :: a :: b :: '}' :: r =>
      match hexVal a, hexVal b with
      | some x, some y => some (Item.byte (16 * x + y), r)
      | _, _ => none
    | '0' :: r => some (Item.bit false, r)
    | '1' :: r => some (Item.bit true, r)
    | '-' :: r => some (Item.skip, r)
    | _ => none

/-- `OneOrMore(directive | fixed)`; fuel = remaining characters. -/
def pItems : Nat → List Char → List Item × List Char
  | 0, s => ([], s)
  | fuel+1, s =>
    let s' := skipWs s
    match pItem s' with
    | some (it, r) => let (its, r') := pItems fuel r; (it :: its, r')
    | none => ([], s)

def parseChars (s : List Char) : Option Ast :=
  match pLength s with
  | none => none
  | some (size, r) =>
    let (dir, r) := match skipWs r with
      | '<' :: r' => (Dir.msb, r')
      | '>' :: r' => (Dir.lsb, r')
      | _ => (Dir.msb, r)
    match skipWs r with
    | '[' :: r =>
      let (items, r) := pItems (r.length + 1) r
      if items.isEmpty then none else
      match skipWs r with
      | ']' :: r =>
        let (pfx, r) := match skipWs r with | '+' :: r' => (true, r') | _ => (false, r)
        let (xd, r) := match skipWs r with | '&' :: r' => (true, r') | _ => (false, r)
        if (skipWs r).isEmpty then some { size := size, dir := dir, items := items, pfx := pfx, xdata := xd }
        else none
      | _ => none
    | _ => none

def parse (s : String) : Option Ast := parseChars s.toList

/-! ## buildspec, as coded -/

inductive Kind | int | bits | str
  deriving Repr, DecidableEq, Inhabited

/-- an extractor lambda: target dictionary, symbol, delivery form, `b[sta:sto]`, direction. -/
structure Ext where
  toAttr : Bool
  sym    : String
  kind   : Kind
  sta    : Nat
  sto    : Option Nat
  go     : Bool            -- true = +1 ('>'), false = -1 ('<')
  deriving Repr, DecidableEq, Inhabited

structure Spec where
  size    : Nat            -- `self.size` (0 for '*')
  fixSize : Nat            -- `self.fix.size`
  fix     : Nat
  mask    : Nat
  pfx     : Bool
  xdata   : Bool
  exts    : List Ext       -- in creation order
  deriving Repr, DecidableEq, Inhabited

def Item.width : Item → Nat
  | .skip => 1 | .bit _ => 1 | .byte _ => 8
  | .field .ovl _ _ => 0
  | .field _ _ (.len n) => n
  | .field _ _ .star => 0

def Item.isStar : Item → Bool
  | .field _ _ .star => true
  | _ => false

/-- size computation for `LEN = '*'`: widths of the processed items up to the first `(*)`. -/
def starSize : List Item → Nat
  | [] => 0
  | it :: rest => if it.isStar then 0 else it.width + starSize rest

inductive BErr | tooWide | outOfBound | redefined | ovlStar | mismatch
  deriving Repr, DecidableEq, Inhabited

structure BState where
  i     : Nat := 0
  count : Nat := 0
  fix   : Nat := 0
  mask  : Nat := 0
  exts  : List Ext := []      -- reversed creation order
  deriving Repr, Inhabited

def kindOf : Opt → Kind
  | .bits => .bits | .str => .str | _ => .int

/-- one iteration of the `for d in fmt` loop.  `size` is the (computed) bit size,
    `go` the direction, `keysA`/`keysF` the names already present in `iattr`/`fargs`. -/
def bstep (size : Nat) (go : Bool) (keysA keysF : List String) (st : BState) (d : Item) :
    Except BErr BState :=
  match d with
  | .skip => if st.i < size then .ok { st with i := st.i + 1, count := st.count + 1 } else .error .tooWide
  | .bit b =>
    if st.i < size then
      .ok { st with fix := st.fix ||| ((if b then 1 else 0) <<< st.i), mask := st.mask ||| (1 <<< st.i),
                    i := st.i + 1, count := st.count + 1 }
    else .error .tooWide
  | .byte v =>
    if st.i + 8 ≤ size then
      .ok { st with fix := st.fix ||| ((v % 256) <<< st.i), mask := st.mask ||| (255 <<< st.i),
                    i := st.i + 8, count := st.count + 8 }
    else .error .tooWide
  | .field opt sym loc =>
    let toAttr := opt == .attr
    let clash := if toAttr then keysA.contains sym || st.exts.any (fun e => e.toAttr && e.sym == sym)
                 else keysF.contains sym || st.exts.any (fun e => !e.toAttr && e.sym == sym)
    if clash then .error .redefined else
    match loc with
    | .len n =>
      if opt == .ovl then
        if go then
          -- i = i - loc ; sta = i ; sto = i+loc ; i = sto
          if n ≤ st.i then
            .ok { st with exts := ⟨toAttr, sym, kindOf opt, st.i - n, some st.i, go⟩ :: st.exts }
          else .error .outOfBound
        else
          -- sta = i ; sto = i+loc ; i = sto ; i = i - loc
          if st.i + n ≤ size then
            .ok { st with exts := ⟨toAttr, sym, kindOf opt, st.i, some (st.i + n), go⟩ :: st.exts }
          else .error .outOfBound
      else
        if st.i + n ≤ size then
          .ok { st with exts := ⟨toAttr, sym, kindOf opt, st.i, some (st.i + n), go⟩ :: st.exts,
                        i := st.i + n, count := st.count + n }
        else .error .outOfBound
    | .star =>
      if opt == .ovl then .error .ovlStar else
      if st.i ≤ size then
        .ok { st with exts := ⟨toAttr, sym, kindOf opt, st.i, none, go⟩ :: st.exts,
                      i := size, count := if st.count < size then size else st.count }
      else .error .tooWide

def bloop (size : Nat) (go : Bool) (keysA keysF : List String) :
    BState → List Item → Except BErr BState
  | st, [] => .ok st
  | st, d :: ds =>
    match bstep size go keysA keysF st d with
    | .ok st' => bloop size go keysA keysF st' ds
    | .error e => .error e

/-- processed order of the directives: reversed for '<'. -/
def processed (a : Ast) : List Item :=
  match a.dir with
  | .msb => a.items.reverse
  | .lsb => a.items

def bitSize (a : Ast) : Nat :=
  match a.size with
  | some n => n
  | none => starSize (processed a)

def buildspec (a : Ast) (keysA keysF : List String := []) : Except BErr Spec :=
  let size := bitSize a
  let go := a.dir == .lsb
  match bloop size go keysA keysF {} (processed a) with
  | .error e => .error e
  | .ok st =>
    if st.count != size then .error .mismatch else
    .ok { size := a.size.getD 0, fixSize := size, fix := st.fix, mask := st.mask,
          pfx := a.pfx, xdata := a.xdata, exts := st.exts.reverse }

/-! ## Reference meaning of a format (from the documentation) -/

/-- What the documentation says about one bit of the instruction word. -/
inductive Cell | free | zero | one
  deriving Repr, DecidableEq, Inhabited

/-- cells of one item in **written order for direction '>'** (LSB first). -/
def Item.cellsLsb : Item → List Cell
  | .skip => [.free]
  | .bit false => [.zero]
  | .bit true => [.one]
  | .byte v => (List.range 8).map (fun j => if v.testBit j then Cell.one else Cell.zero)
  | .field .ovl _ _ => []
  | .field _ _ (.len n) => List.replicate n .free
  | .field _ _ .star => []

/-- cells of one item in **written order for direction '<'** (MSB first). -/
def Item.cellsMsb (it : Item) : List Cell := it.cellsLsb.reverse

/-- the documented cell of every bit index `0 .. size-1` (ascending bit index),
    before the variable tail (if any) is appended. -/
def refCells (a : Ast) : List Cell :=
  let sw := match a.size with
    | some n => n - (a.items.map Item.width).foldr (· + ·) 0
    | none => 0
  let cl (it : Item) : List Cell := if it.isStar then List.replicate sw .free else it.cellsLsb
  match a.dir with
  | .lsb => a.items.flatMap cl
  | .msb => (a.items.flatMap (fun it => (cl it).reverse)).reverse

/-- A documented field: where its bits are, by bit index. -/
structure RField where
  toAttr : Bool
  sym    : String
  kind   : Kind
  lo     : Nat
  hi     : Option Nat       -- `none`: up to the end of the word incl. variable tail
  lsbFirstStr : Bool        -- for `#`: written order = ascending bit index?
  deriving Repr, DecidableEq, Inhabited

/-- width a `(*)` directive takes when `LEN` is a number: the bits no other directive claims. -/
def starWidth (a : Ast) : Nat :=
  match a.size with
  | some n => n - (a.items.map Item.width).foldr (· + ·) 0
  | none => 0

def Item.widthE (starW : Nat) (it : Item) : Nat :=
  if it.isStar then starW else it.width

/-- number of bits written before each item, in written order. -/
def prefixWidths (starW : Nat) : List Item → Nat → List (Item × Nat)
  | [], _ => []
  | it :: rest, pos => (it, pos) :: prefixWidths starW rest (pos + it.widthE starW)

/-- the documented position of one field given `pos` = bits written before it, `total` bits. -/
def refField (dir : Dir) (total starW : Nat) (it : Item) (pos : Nat) : Option RField :=
  match it with
  | .field opt sym loc =>
    let mk (lo : Nat) (hi : Option Nat) : RField :=
      ⟨opt == .attr, sym, kindOf opt, lo, hi, dir == .lsb⟩
    match dir, opt, loc with
    | .lsb, .ovl, .len n => some (mk (pos - n) (some pos))          -- the n bits written just before
    | .msb, .ovl, .len n => some (mk (total - pos) (some (total - pos + n)))
    | .lsb, _, .len n => some (mk pos (some (pos + n)))
    | .msb, _, .len n => some (mk (total - pos - n) (some (total - pos)))
    | .lsb, _, .star => some (mk pos none)                          -- everything that remains
    | .msb, _, .star => some (mk (total - pos - starW) none)
  | _ => none

/-- documented fields, in the order the code creates extractors (processing order). -/
def refFields (a : Ast) : List RField :=
  let total := bitSize a
  let sw := starWidth a
  let fs := (prefixWidths sw a.items 0).filterMap (fun (it, pos) => refField a.dir total sw it pos)
  match a.dir with
  | .lsb => fs
  | .msb => fs.reverse

def Ext.toRField (e : Ext) : RField := ⟨e.toAttr, e.sym, e.kind, e.sta, e.sto, e.go⟩

/-- value with bit `k` = (cell k is `one`) -/
def cellsFix : List Cell → Nat
  | [] => 0
  | c :: cs => (if c == .one then 1 else 0) + 2 * cellsFix cs
def cellsMask : List Cell → Nat
  | [] => 0
  | c :: cs => (if c == .free then 0 else 1) + 2 * cellsMask cs

/-! ## Well-formedness of a format w.r.t. the documentation (`GrammarOK`) -/

def sumWidth (l : List Item) : Nat := (l.map Item.width).foldr (· + ·) 0

def noDupSyms (keysA keysF : List String) : List Item → Bool
  | [] => true
  | .field opt sym _ :: rest =>
    let rest' := rest
    (if opt == .attr then
       !keysA.contains sym && rest'.all (fun it => match it with
         | .field o s _ => !(o == .attr && s == sym) | _ => true)
     else
       !keysF.contains sym && rest'.all (fun it => match it with
         | .field o s _ => !(o != .attr && s == sym) | _ => true))
    && noDupSyms keysA keysF rest
  | _ :: rest => noDupSyms keysA keysF rest

/-- every `=sym(n)` has `n` written bits before it (in written order). -/
def ovlFits : List (Item × Nat) → Bool
  | [] => true
  | (.field .ovl _ (.len n), pos) :: rest => decide (n ≤ pos) && ovlFits rest
  | (.field .ovl _ .star, _) :: _ => false
  | _ :: rest => ovlFits rest

/-- `(*)` may only be the last directive in processing order, and at most once. -/
def starLast : List Item → Bool
  | [] => true
  | [_] => true
  | it :: rest => !it.isStar && starLast rest

def GrammarOK (a : Ast) (keysA keysF : List String := []) : Bool :=
  let p := processed a
  let hasStar := p.any Item.isStar
  starLast p
  && bitSize a % 8 == 0            -- "Length must be a multiple of 8"
  && noDupSyms keysA keysF p
  && ovlFits (prefixWidths (starWidth a) a.items 0)
  && (match a.size with
      | some n => if hasStar then decide (sumWidth a.items ≤ n) else sumWidth a.items == n
      | none => true)

/-! ## decode -/

/-- instruction word as `Bits(bs[::endian], fixSize, bitorder=1)`; `be = true` is endian −1. -/
def word (s : Spec) (istr : List Nat) (be : Bool) : Nat :=
  let bs := istr.take (s.fixSize / 8)
  (leVal (if be then bs.reverse else bs)) % 2 ^ s.fixSize

inductive Val
  | int (v : Nat)
  | bits (v : Nat) (size : Nat)
  | str (s : List Bool)         -- '0'/'1' characters
  deriving Repr, DecidableEq, Inhabited

structure Delivered where
  toAttr : Bool
  sym : String
  val : Val
  deriving Repr, DecidableEq, Inhabited

/-- the `Bits` the extractors see: the word, extended by the tail for variable-length specs. -/
def fullBits (s : Spec) (istr : List Nat) (be : Bool) : Nat × Nat :=
  let w := word s istr be
  if s.size == 0 then
    let tail := istr.drop (s.fixSize / 8)
    (w + (leVal tail) * 2 ^ s.fixSize, s.fixSize + 8 * tail.length)
  else (w, s.fixSize)

/-- Python slice `b[p:q]` on a `Bits` of size `n` (clamped). -/
def sliceBits (v n p : Nat) (q : Option Nat) : Nat × Nat :=
  let hi := min (q.getD n) n
  let lo := min p hi
  (bitsAt v lo (hi - lo), hi - lo)

def bitString (v n : Nat) : List Bool := (List.range n).map (fun j => v.testBit j)

def deliver (b : Nat × Nat) (e : Ext) : Delivered :=
  let (v, n) := sliceBits b.1 b.2 e.sta e.sto
  ⟨e.toAttr, e.sym,
    match e.kind with
    | .int => .int v
    | .bits => .bits v n
    | .str => .str (if e.go then bitString v n else (bitString v n).reverse)⟩

/-- `some fields` iff the spec accepts (length ok and fixed bits match). -/
def decode (s : Spec) (istr : List Nat) (be : Bool) : Option (List Delivered) :=
  if istr.length < s.fixSize / 8 then none
  else if (word s istr be) &&& s.mask != s.fix then none
  else some (s.exts.map (deliver (fullBits s istr be)))

/-! ## the `ispec_ia32` `/r`, `/digit` macro (`arch/x86/utils.py`, `arch/x64/utils.py`) -/

/-- `str.replace(old, new)` on character lists (`old` non-empty). -/
def replaceAll (old new : List Char) : Nat → List Char → List Char
  | 0, s => s
  | _, [] => []
  | fuel+1, c :: cs =>
    if old.isPrefixOf (c :: cs) && !old.isEmpty then new ++ replaceAll old new fuel ((c :: cs).drop old.length)
    else c :: replaceAll old new fuel cs

def findSlash : List Char → Nat → Option Nat
  | [], _ => none
  | c :: cs, n => if c == '/' then some n else findSlash cs (n + 1)

/-- `str(Bits(d,3))` : three characters, least significant bit first. -/
def bits3 (d : Nat) : List Char :=
  [0, 1, 2].map (fun j => if d.testBit j then '1' else '0')

/-- `none` models the `ValueError` of `int(c, 8)`. -/
def expandIa32 (fmt : String) : Option String :=
  let s := fmt.toList
  match findSlash s 0 with
  | some n =>
    if 0 < n && n < s.length - 1 then
      let c := s.getD (n + 1) ' '
      if c == 'r' then
        some (String.ofList (replaceAll ['/', 'r'] "RM(3) REG(3) Mod(2) ~data(*)".toList (s.length + 1) s))
      else if '0' ≤ c && c ≤ '7' then
        let d := c.toNat - '0'.toNat
        some (String.ofList (replaceAll ['/', c] ("RM(3) ".toList ++ bits3 d ++ " Mod(2) ~data(*)".toList) (s.length + 1) s))
      else none
    else some fmt
  | none => some fmt

end Amoco.Spec
