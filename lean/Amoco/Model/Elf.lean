/-
  Amoco.Model.Elf — byte-level model of `amoco/system/elf.py` (`Elf.__init__`, `getinfo`,
  `getfileoffset`, `readsegment`, `readsection` and the symbol / relocation / dynamic tables),
  a reference reader written from the ELF specification (fixed offsets per class and byte order),
  and the `read_program` dispatch chain of `amoco/system/core.py` with the header-level acceptance
  predicates of ELF / PE / Mach-O / COFF / HEX / SREC.

  Layering:
  * `RawField`, `unpackFields` : `StructCore.unpack` over raw fields (alignment relative to the
    structure's base, `struct.unpack` on `data[offset:offset+size]`, `offset += f.size()`), `layout` : the offsets that
    walk produces from a relative origin;
  * `identFields … dynFields` : the `@StructDefine` field lists and the in-place patches of each
    `__init__` (`typename = "Q"`, `pop/insert/append`) exactly as coded;
  * `spec*` : the layout tables of the ELF specification (gABI figures 4-3, 4-8, 4-15, 4-21, 5-1);
  * `elfTables` / `elfSymbols` / `elfParse` / `elfInit` : the constructor in `Except PyExn`;
  * `ref*` : the reference reader;
  * `readProgram` : the try/except chain.

  The model follows the code with the proposed repairs `C20-elf-wrap.diff` (everything that is not
  an `ElfError`/`StructureError` leaves `Elf.__init__` as an `ElfError`) and
  `C14-elf-getfileoffset.diff`.  `elfParseRaw` is the constructor body without the wrapper; the
  exception class it reports is what escapes on the unrepaired tree.  Core Lean only.
-/
import Amoco.Model.HexSrec

namespace Amoco.Fmt

abbrev Bytes := List Nat

/-- little-endian value -/
def leVal : Bytes → Nat
  | [] => 0
  | b :: t => b + 256 * leVal t

/-- big-endian value -/
def beVal (bs : Bytes) : Nat := beNat bs 0

/-- `data[off : off+n]` (bytes object, or `DataIO.__getitem__` below 2^63) -/
def slice (data : Bytes) (off n : Nat) : Bytes := (data.drop off).take n

def pow63 : Nat := 9223372036854775808

/-- `f.seek(off); f.read(n)` / `f[off:off+n]` on the `DataIO`: `BytesIO.seek`/`read` take a
    `Py_ssize_t`, larger values raise `OverflowError`. -/
def fileRead (data : Bytes) (off n : Nat) : Py Bytes :=
  if off ≥ pow63 || n ≥ pow63 then .error .overflow else .ok (slice data off n)

/-! ## raw struct fields -/

structure RawField where
  name : String
  size : Nat        -- `struct.calcsize(typename)`
  count : Nat       -- 0: scalar, n>0: `typename*n`
  deriving Repr, DecidableEq, Inhabited

def RawField.nbytes (f : RawField) : Nat := if f.count == 0 then f.size else f.size * f.count

/-- `Field.align` -/
def alignUp (off a : Nat) : Nat :=
  if a == 0 then off else if off % a == 0 then off else off + (a - off % a)

/-- value of the bytes of a field: scalars by byte order, arrays (`c*3`, `b*7`) as the byte string
    (big-endian number of the bytes). -/
def fieldVal (be : Bool) (f : RawField) (bs : Bytes) : Nat :=
  if f.count == 0 then (if be then beVal bs else leVal bs) else beVal bs

/-- `RawField.unpack(data, offset)`: short data is a `struct.error`. -/
def rdField (be : Bool) (f : RawField) (data : Bytes) (off : Nat) : Py Nat :=
  let bs := slice data off f.nbytes
  if bs.length == f.nbytes then .ok (fieldVal be f bs) else .error .struct

abbrev Rec := List (String × Nat)

def fget (r : Rec) (k : String) : Nat := (r.lookup k).getD 0

/-- the field loop of `StructCore.unpack` (`aligned` = not packed): fields are aligned relative to the
    start `base` of the structure (`offset = base + f.align(offset - base)`, `offset += f.size()`);
    with `aligned = false` the loop of `Ehdr.unpack` (no alignment). `rel` is the running offset
    relative to `base`. No exception wrapper. -/
def unpackFields (be aligned : Bool) : List RawField → Bytes → Nat → Nat → Py Rec
  | [], _, _, _ => .ok []
  | f :: fs, data, base, rel =>
    let o := if aligned then alignUp rel f.size else rel
    match rdField be f data (base + o) with
    | .error e => .error e
    | .ok v =>
      match unpackFields be aligned fs data base (o + f.nbytes) with
      | .error e => .error e
      | .ok r => .ok ((f.name, v) :: r)

/-- `except Exception: raise StructureError(name)` of `StructCore.unpack`. -/
def toStructureError {α} : Py α → Py α
  | .error _ => .error .structureError
  | r => r

/-- `S(data, offset)` for a `StructFormatter` over raw fields -/
def structUnpack (be : Bool) (fs : List RawField) (data : Bytes) (off : Nat) : Py Rec :=
  toStructureError (unpackFields be true fs data off 0)

/-- relative layout `(name, offset, nbytes)` that the aligned field walk produces from origin `rel`. -/
def layout : List RawField → Nat → List (String × Nat × Nat)
  | [], _ => []
  | f :: fs, rel =>
    let o := alignUp rel f.size
    (f.name, o, f.nbytes) :: layout fs (o + f.nbytes)

/-- same without alignment (`Ehdr.unpack`) -/
def layoutPacked : List RawField → Nat → List (String × Nat × Nat)
  | [], _ => []
  | f :: fs, rel => (f.name, rel, f.nbytes) :: layoutPacked fs (rel + f.nbytes)

/-! ## the ELF structures as `elf.py` defines and patches them -/

def mkFields (l : List (String × Nat)) : List RawField := l.map (fun p => { name := p.1, size := p.2, count := 0 })

def setSize (fs : List RawField) (idx : List Nat) (sz : Nat) : List RawField :=
  fs.zipIdx.map (fun p => if idx.contains p.2 then { p.1 with size := sz } else p.1)

def identFields : List RawField :=
  [ ⟨"ELFMAG0", 1, 0⟩, ⟨"ELFMAG", 1, 3⟩, ⟨"EI_CLASS", 1, 0⟩, ⟨"EI_DATA", 1, 0⟩, ⟨"EI_VERSION", 1, 0⟩,
    ⟨"EI_OSABI", 1, 0⟩, ⟨"EI_ABIVERSION", 1, 0⟩, ⟨"unused", 1, 7⟩ ]

/-- fields[1:] of `Ehdr` (fields[0] is the IDENT) -/
def ehdrBase : List RawField :=
  mkFields [("e_type", 2), ("e_machine", 2), ("e_version", 4), ("e_entry", 4), ("e_phoff", 4), ("e_shoff", 4),
            ("e_flags", 4), ("e_ehsize", 2), ("e_phentsize", 2), ("e_phnum", 2), ("e_shentsize", 2),
            ("e_shnum", 2), ("e_shstrndx", 2)]

/-- `self.fields[4..6].typename = "Q"` (indices 3,4,5 of fields[1:]) -/
def ehdrFields (x64 : Bool) : List RawField := if x64 then setSize ehdrBase [3, 4, 5] 8 else ehdrBase

def shdrBase : List RawField :=
  mkFields [("sh_name", 4), ("sh_type", 4), ("sh_flags", 4), ("sh_addr", 4), ("sh_offset", 4), ("sh_size", 4),
            ("sh_link", 4), ("sh_info", 4), ("sh_addralign", 4), ("sh_entsize", 4)]

def shdrFields (x64 : Bool) : List RawField := if x64 then setSize shdrBase [2, 3, 4, 5, 8, 9] 8 else shdrBase

def phdrBase : List RawField :=
  mkFields [("p_type", 4), ("p_offset", 4), ("p_vaddr", 4), ("p_paddr", 4), ("p_filesz", 4), ("p_memsz", 4),
            ("p_flags", 4), ("p_align", 4)]

/-- `pflags = fields.pop(6); fields.insert(1, pflags); for f in fields[2:]: f.typename = "Q"` -/
def phdrFields (x64 : Bool) : List RawField :=
  if x64 then
    let pf := phdrBase.getD 6 default
    let l := (phdrBase.eraseIdx 6).insertIdx 1 pf
    setSize l [2, 3, 4, 5, 6, 7] 8
  else phdrBase

def symBase : List RawField :=
  mkFields [("st_name", 4), ("st_value", 4), ("st_size", 4), ("st_info", 1), ("st_other", 1), ("st_shndx", 2)]

/-- `fvalue = pop(1); fsize = pop(1); typename = "Q"; append(fvalue); append(fsize)` -/
def symFields (x64 : Bool) : List RawField :=
  if x64 then
    let fv := symBase.getD 1 default
    let l1 := symBase.eraseIdx 1
    let fs := l1.getD 1 default
    let l2 := l1.eraseIdx 1
    l2 ++ [{ fv with size := 8 }, { fs with size := 8 }]
  else symBase

def allSize (fs : List RawField) (sz : Nat) : List RawField := fs.map (fun f => { f with size := sz })

def relBase : List RawField := mkFields [("r_offset", 4), ("r_info", 4)]
def relaBase : List RawField := mkFields [("r_offset", 4), ("r_info", 4), ("r_addend", 4)]
def dynBase : List RawField := mkFields [("d_tag", 4), ("d_un", 4)]

def relFields (x64 : Bool) : List RawField := if x64 then allSize relBase 8 else relBase
def relaFields (x64 : Bool) : List RawField := if x64 then allSize relaBase 8 else relaBase
def dynFields (x64 : Bool) : List RawField := if x64 then allSize dynBase 8 else dynBase

/-! ## layout tables of the ELF specification  (name, offset, size) -/

def specEhdr (x64 : Bool) : List (String × Nat × Nat) :=
  if x64 then
    [("e_type", 16, 2), ("e_machine", 18, 2), ("e_version", 20, 4), ("e_entry", 24, 8), ("e_phoff", 32, 8),
     ("e_shoff", 40, 8), ("e_flags", 48, 4), ("e_ehsize", 52, 2), ("e_phentsize", 54, 2), ("e_phnum", 56, 2),
     ("e_shentsize", 58, 2), ("e_shnum", 60, 2), ("e_shstrndx", 62, 2)]
  else
    [("e_type", 16, 2), ("e_machine", 18, 2), ("e_version", 20, 4), ("e_entry", 24, 4), ("e_phoff", 28, 4),
     ("e_shoff", 32, 4), ("e_flags", 36, 4), ("e_ehsize", 40, 2), ("e_phentsize", 42, 2), ("e_phnum", 44, 2),
     ("e_shentsize", 46, 2), ("e_shnum", 48, 2), ("e_shstrndx", 50, 2)]

def specIdent : List (String × Nat × Nat) :=
  [("ELFMAG0", 0, 1), ("ELFMAG", 1, 3), ("EI_CLASS", 4, 1), ("EI_DATA", 5, 1), ("EI_VERSION", 6, 1),
   ("EI_OSABI", 7, 1), ("EI_ABIVERSION", 8, 1), ("unused", 9, 7)]

def specPhdr (x64 : Bool) : List (String × Nat × Nat) :=
  if x64 then
    [("p_type", 0, 4), ("p_flags", 4, 4), ("p_offset", 8, 8), ("p_vaddr", 16, 8), ("p_paddr", 24, 8),
     ("p_filesz", 32, 8), ("p_memsz", 40, 8), ("p_align", 48, 8)]
  else
    [("p_type", 0, 4), ("p_offset", 4, 4), ("p_vaddr", 8, 4), ("p_paddr", 12, 4), ("p_filesz", 16, 4),
     ("p_memsz", 20, 4), ("p_flags", 24, 4), ("p_align", 28, 4)]

def specShdr (x64 : Bool) : List (String × Nat × Nat) :=
  if x64 then
    [("sh_name", 0, 4), ("sh_type", 4, 4), ("sh_flags", 8, 8), ("sh_addr", 16, 8), ("sh_offset", 24, 8),
     ("sh_size", 32, 8), ("sh_link", 40, 4), ("sh_info", 44, 4), ("sh_addralign", 48, 8), ("sh_entsize", 56, 8)]
  else
    [("sh_name", 0, 4), ("sh_type", 4, 4), ("sh_flags", 8, 4), ("sh_addr", 12, 4), ("sh_offset", 16, 4),
     ("sh_size", 20, 4), ("sh_link", 24, 4), ("sh_info", 28, 4), ("sh_addralign", 32, 4), ("sh_entsize", 36, 4)]

def specSym (x64 : Bool) : List (String × Nat × Nat) :=
  if x64 then
    [("st_name", 0, 4), ("st_info", 4, 1), ("st_other", 5, 1), ("st_shndx", 6, 2), ("st_value", 8, 8), ("st_size", 16, 8)]
  else
    [("st_name", 0, 4), ("st_value", 4, 4), ("st_size", 8, 4), ("st_info", 12, 1), ("st_other", 13, 1), ("st_shndx", 14, 2)]

def specRel (x64 : Bool) : List (String × Nat × Nat) :=
  if x64 then [("r_offset", 0, 8), ("r_info", 8, 8)] else [("r_offset", 0, 4), ("r_info", 4, 4)]

def specRela (x64 : Bool) : List (String × Nat × Nat) :=
  if x64 then [("r_offset", 0, 8), ("r_info", 8, 8), ("r_addend", 16, 8)]
  else [("r_offset", 0, 4), ("r_info", 4, 4), ("r_addend", 8, 4)]

def specDyn (x64 : Bool) : List (String × Nat × Nat) :=
  if x64 then [("d_tag", 0, 8), ("d_un", 8, 8)] else [("d_tag", 0, 4), ("d_un", 4, 4)]

/-- total read of `n` bytes at `off` as a number (the reference reader's primitive). -/
def refNat (be : Bool) (data : Bytes) (off n : Nat) : Nat :=
  if be then beVal (slice data off n) else leVal (slice data off n)

/-- reference: read a structure through a specification table at base offset `base`.
    Multi-byte character arrays (the magic) are byte strings, i.e. big-endian numbers. -/
def refStruct (be : Bool) (arrays : List String) (tbl : List (String × Nat × Nat)) (data : Bytes) (base : Nat) : Rec :=
  tbl.map (fun e => (e.1, if arrays.contains e.1 then beVal (slice data (base + e.2.1) e.2.2)
                          else refNat be data (base + e.2.1) e.2.2))

/-! ## loops -/

/-- `for i in range(n): x = rd(offset); offset += stride` — stops at the first exception. -/
def tableM {α} (rd : Nat → Py α) : Nat → Nat → Nat → Py (List α)
  | 0, _, _ => .ok []
  | n + 1, off, stride =>
    match rd off with
    | .error e => .error e
    | .ok a =>
      match tableM rd n (off + stride) stride with
      | .error e => .error e
      | .ok r => .ok (a :: r)

/-- the same loop inside `try: … except Exception: pass` with the results appended as they come. -/
def tablePrefix {α} (rd : Nat → Py α) : Nat → Nat → Nat → List α
  | 0, _, _ => []
  | n + 1, off, stride =>
    match rd off with
    | .error _ => []
    | .ok a => a :: tablePrefix rd n (off + stride) stride

/-! ## UTF-8 (`codecs.decode(name)`, strict) -/

def isCont (b : Nat) : Bool := 128 ≤ b && b ≤ 191

def utf8Valid : Bytes → Bool
  | [] => true
  | b0 :: t =>
    if b0 < 128 then utf8Valid t
    else if 194 ≤ b0 && b0 ≤ 223 then
      match t with
      | b1 :: t1 => isCont b1 && utf8Valid t1
      | _ => false
    else if 224 ≤ b0 && b0 ≤ 239 then
      match t with
      | b1 :: b2 :: t2 =>
        let ok1 := if b0 == 224 then (160 ≤ b1 && b1 ≤ 191) else if b0 == 237 then (128 ≤ b1 && b1 ≤ 159) else isCont b1
        ok1 && isCont b2 && utf8Valid t2
      | _ => false
    else if 240 ≤ b0 && b0 ≤ 244 then
      match t with
      | b1 :: b2 :: b3 :: t3 =>
        let ok1 := if b0 == 240 then (144 ≤ b1 && b1 ≤ 191) else if b0 == 244 then (128 ≤ b1 && b1 ≤ 143) else isCont b1
        ok1 && isCont b2 && isCont b3 && utf8Valid t3
      | _ => false
    else false

def decodeUtf8 (b : Bytes) : Py Bytes := if utf8Valid b then .ok b else .error .unicode

/-- `data[i:].split(b"\0")[0]` -/
def cstrAt (data : Bytes) (i : Nat) : Bytes := (data.drop i).takeWhile (· != 0)

/-- `StrTable.__getitem__` : `data[i:].index(b"\0")` raises `ValueError` without terminator. -/
def strtabGet (data : Bytes) (i : Nat) : Py Bytes :=
  if (data.drop i).contains 0 then .ok (cstrAt data i) else .error .value

/-! ## the parsed object -/

structure ElfEnv where
  knownPT : List Nat       -- `Consts.All["p_type"].keys()`
  knownSHT : List Nat      -- `Consts.All["sh_type"].keys()`
  deriving Repr, Inhabited

structure Section where
  hdr : Rec
  name : Bytes             -- UTF-8 bytes of `s.name`
  deriving Repr, DecidableEq, Inhabited

structure ElfTables where
  ident : Rec
  ehdr : Rec
  x64 : Bool
  be : Bool
  dynamic : Bool
  basemap : Option Nat
  phdr : List Rec
  shdr : List Section
  deriving Repr, DecidableEq, Inhabited

inductive FuncVal
  | sym (name : Bytes) (size info shndx : Nat)
  | dyn (name : Bytes)
  deriving Repr, DecidableEq, Inhabited

structure ElfObj where
  t : ElfTables
  functions : List (Nat × FuncVal)     -- insertion order of the Python dict
  variables : List (Nat × FuncVal)
  deriving Repr, DecidableEq, Inhabited

def PT_LOAD : Nat := 1
def PT_INTERP : Nat := 3
def SHT_PROGBITS : Nat := 1
def SHT_SYMTAB : Nat := 2
def SHT_STRTAB : Nat := 3
def SHT_RELA : Nat := 4
def SHT_DYNAMIC : Nat := 6
def SHT_REL : Nat := 9
def SHT_DYNSYM : Nat := 11
def STT_OBJECT : Nat := 1
def STT_FUNC : Nat := 2

def asciiOfNat (n : Nat) : Bytes := (Nat.toDigits 10 n).map Char.toNat

/-- `".s%d" % i` -/
def defaultName (i : Nat) : Bytes := [46, 115] ++ asciiOfNat i

/-- first PT_LOAD with `not self.basemap` decides; a zero `p_vaddr` leaves it falsy. -/
def basemapOf : List Rec → Option Nat → Option Nat
  | [], b => b
  | p :: ps, b =>
    if fget p "p_type" == PT_LOAD then
      match b with
      | some v => if v == 0 then basemapOf ps (some (fget p "p_vaddr")) else basemapOf ps b
      | none => basemapOf ps (some (fget p "p_vaddr"))
    else basemapOf ps b

/-- the type filter of the program-header loop -/
def keepPhdr (_env : ElfEnv) (_p : Rec) : Bool :=
  -- (repair "Elf.Phdr keeps program headers of unknown type": entries whose `p_type` is outside
  --  `Consts.All["p_type"]` (PT_GNU_PROPERTY …) used to be dropped; they are only logged now)
  true

/-- `Ehdr.unpack`, first part: `fields[0].unpack` → `IDENT().unpack` (a `StructCore.unpack`), then
    the magic test of `IDENT.unpack`. -/
def elfIdent (data : Bytes) : Py Rec :=
  match structUnpack false identFields data 0 with
  | .error e => .error e
  | .ok ident =>
    if fget ident "ELFMAG0" != 0x7f || fget ident "ELFMAG" != 0x454c46 then .error .elfError else .ok ident

def identBE (ident : Rec) : Bool := fget ident "EI_DATA" == 2
def identX64 (ident : Rec) : Bool := fget ident "EI_CLASS" == 2

/-- `Ehdr.unpack`, second part: the remaining fields by `RawField.unpack` directly — no alignment,
    no `StructureError` wrapper. -/
def elfEhdr (ident : Rec) (data : Bytes) : Py Rec :=
  unpackFields (identBE ident) false (ehdrFields (identX64 ident)) data 0 16

/-- the program-header loop before the type filter -/
def elfPhdrsAll (be x64 : Bool) (eh : Rec) (data : Bytes) : Py (List Rec) :=
  if fget eh "e_phoff" != 0 then
    tableM (fun off => structUnpack be (phdrFields x64) data off) (fget eh "e_phnum") (fget eh "e_phoff") (fget eh "e_phentsize")
  else .ok []

/-- the section-header loop (inside `try/except Exception`) before the type filter -/
def elfShdrsAll (be x64 : Bool) (eh : Rec) (data : Bytes) : List Rec :=
  if fget eh "e_shoff" != 0 then
    tablePrefix (fun off => structUnpack be (shdrFields x64) data off) (fget eh "e_shnum") (fget eh "e_shoff") (fget eh "e_shentsize")
  else []

def nameSections (tab : Bytes) : List Rec → Py (List Section)
  | [] => .ok []
  | s :: rest =>
    match decodeUtf8 (cstrAt tab (fget s "sh_name")) with
    | .error e => .error e
    | .ok nm =>
      match nameSections tab rest with
      | .error e => .error e
      | .ok r => .ok ({ hdr := s, name := nm } :: r)

def defaultSections (sh : List Rec) : List Section :=
  sh.zipIdx.map (fun p => { hdr := p.1, name := defaultName p.2 })

/-- section names: `".s%d"` defaults, then the string table `Shdr[e_shstrndx]` -/
def elfNames (eh : Rec) (sh : List Rec) (data : Bytes) : Py (List Section) :=
  let n := fget eh "e_shstrndx"
  if n != 0 && n < sh.length then
    let S := sh.getD n []
    if fget S "sh_type" != SHT_STRTAB then .ok (defaultSections sh)
    else
      match fileRead data (fget S "sh_offset") (fget S "sh_size") with
      | .error e => .error e
      | .ok tab => nameSections tab sh
  else .ok (defaultSections sh)

/-- header, program headers, section headers and section names (`Elf.__init__` up to
    `self.__sections = {}`), exceptions as raised by the code. -/
def elfTables (env : ElfEnv) (data : Bytes) : Py ElfTables :=
  match elfIdent data with
  | .error e => .error e
  | .ok ident =>
    match elfEhdr ident data with
    | .error e => .error e
    | .ok eh =>
      let be := identBE ident
      let x64 := identX64 ident
      match elfPhdrsAll be x64 eh data with
      | .error e => .error e
      | .ok phAll =>
        -- (repair C14-elf-shdr-keep-unknown.diff: sections of a type outside `Consts.All["sh_type"]`
        --  are logged but kept, so `e_shstrndx` indexes the table the file encodes)
        let sh := elfShdrsAll be x64 eh data
        match elfNames eh sh data with
        | .error e => .error e
        | .ok secs =>
          .ok { ident := ident, ehdr := eh, x64 := x64, be := be,
                dynamic := phAll.any (fun p => fget p "p_type" == PT_INTERP),
                basemap := basemapOf phAll none,
                phdr := phAll.filter (keepPhdr env), shdr := secs }

/-! ### `readsection` and the symbol dictionaries -/

/-- what `readsection` returns (and caches under the section *name*). An entry of a table is
    `none` when the constructor got empty data (`if data:` false → nothing unpacked). -/
inductive Sec
  | syms (l : List (Option Rec))
  | strtab (d : Bytes)
  | rels (l : List (Option Rec))
  | dyns (l : List (Option Rec))
  | raw (d : Bytes)
  deriving Repr, DecidableEq, Inhabited

/-- Python truthiness of the value -/
def Sec.truthy : Sec → Bool
  | .syms l => !l.isEmpty
  | .strtab _ => true
  | .rels l => !l.isEmpty
  | .dyns l => !l.isEmpty
  | .raw d => !d.isEmpty

abbrev Cache := List (Bytes × Sec)

/-- bound on table sizes the executable model is willing to expand; beyond it the driver answers
    "unmodelled" (the code itself then loops for as many iterations). -/
def bigTable : Nat := 2000000

/-- `__read_symtab`, `__read_relocs`, `__read_dynamic`: entry loop over the section bytes. -/
def readEntries (be : Bool) (fs : List RawField) (S : Rec) (data : Bytes) : Py (List (Option Rec)) := do
  let l := fget S "sh_entsize"
  let sz := fget S "sh_size"
  if l == 0 then throw .zeroDiv
  if sz % l != 0 then throw .elfError
  let n := sz / l
  if n > bigTable then throw .notImpl
  tableM (fun off => if data.isEmpty then .ok none else (structUnpack be fs data off).map some) n 0 l

def readContent (t : ElfTables) (data : Bytes) (S : Rec) : Py Sec := do
  let ty := fget S "sh_type"
  let bytes ← fileRead data (fget S "sh_offset") (fget S "sh_size")
  -- repair C20-elf-truncated-tables.diff: a table section that the file does not hold completely is an
  -- ElfError (otherwise `Sym(b"", …)` unpacks nothing and the entry loop runs `sh_size / sh_entsize` times)
  if (ty == SHT_SYMTAB || ty == SHT_DYNSYM || ty == SHT_REL || ty == SHT_RELA || ty == SHT_DYNAMIC)
      && bytes.length != fget S "sh_size" then
    throw .elfError
  if ty == SHT_SYMTAB || ty == SHT_DYNSYM then
    return .syms (← readEntries t.be (symFields t.x64) S bytes)
  else if ty == SHT_STRTAB then return .strtab bytes
  else if ty == SHT_REL then return .rels (← readEntries t.be (relFields t.x64) S bytes)
  else if ty == SHT_RELA then return .rels (← readEntries t.be (relaFields t.x64) S bytes)
  else if ty == SHT_DYNAMIC then return .dyns (← readEntries t.be (dynFields t.x64) S bytes)
  else return .raw bytes

/-- `readsection(S)` for a section object: cache by name. -/
def readSection (t : ElfTables) (data : Bytes) (c : Cache) (S : Section) : Py (Sec × Cache) :=
  match c.lookup S.name with
  | some v => .ok (v, c)
  | none =>
    match readContent t data S.hdr with
    | .error e => .error e
    | .ok v => .ok (v, (S.name, v) :: c)

/-- `readsection(name)` : first section with that name, `None` if there is none. -/
def readSectionByName (t : ElfTables) (data : Bytes) (c : Cache) (name : Bytes) : Py (Option Sec × Cache) :=
  match t.shdr.find? (fun s => s.name == name) with
  | none => .ok (none, c)
  | some S =>
    match readSection t data c S with
    | .error e => .error e
    | .ok (v, c') => .ok (some v, c')

def dictSet {β} (d : List (Nat × β)) (k : Nat) (v : β) : List (Nat × β) :=
  if d.any (fun p => p.1 == k) then d.map (fun p => if p.1 == k then (k, v) else p) else d ++ [(k, v)]

/-- `strtab[i].decode()` where `strtab` is whatever `readsection` gave. -/
def nameLookup (strtab : Sec) (i : Nat) : Py Bytes :=
  match strtab with
  | .strtab d => do
    let b ← strtabGet d i
    decodeUtf8 b
  | _ => .error .attribute

/-- `__symbols(t)` -/
def symbolsOf (symtab : Option Sec) (strtab : Option Sec) (ty : Nat) : Py (List (Nat × FuncVal)) :=
  match strtab with
  | none => .ok []
  | some st =>
    if !st.truthy then .ok []
    else
      match symtab with
      | none => .ok []
      | some (.syms l) =>
        l.foldlM (fun (D : List (Nat × FuncVal)) (e : Option Rec) =>
          match e with
          | none => .error .attribute
          | some sym =>
            if fget sym "st_info" % 16 == ty && fget sym "st_value" != 0 then do
              let nm ← nameLookup st (fget sym "st_name")
              pure (dictSet D (fget sym "st_value") (.sym nm (fget sym "st_size") (fget sym "st_info") (fget sym "st_shndx")))
            else pure D) []
      | some (.strtab _) => .error .attribute
      | some s => if s.truthy then .error .attribute else .ok []

def ISZ_REL32 : Nat := 8
def ISZ_REL64 : Nat := 32

/-- `__dynamic()` given the already-read `.dynsym`/`.dynstr` -/
def dynLoop (t : ElfTables) (data : Bytes) (dynsym : Option Sec) (dynstr : Sec) :
    List Section → Cache → List (Nat × FuncVal) → Py (List (Nat × FuncVal) × Cache)
  | [], c, D => .ok (D, c)
  | s :: rest, c, D =>
    let ty := fget s.hdr "sh_type"
    if ty == SHT_REL || ty == SHT_RELA then
      match readSection t data c s with
      | .error e => .error e
      | .ok (content, c') =>
        let step (D : List (Nat × FuncVal)) (e : Option Rec) : Py (List (Nat × FuncVal)) :=
          match e with
          | none => .error .attribute
          | some r =>
            if r.lookup "r_offset" == none then .error .attribute
            else if fget r "r_offset" != 0 then
              let rsym := fget r "r_info" >>> (if t.x64 then ISZ_REL64 else ISZ_REL32)
              match dynsym with
              | some (.syms l) =>
                if l.isEmpty then .error .index      -- `[]` from `or []`
                else
                  match l[rsym]? with
                  | none => .error .index
                  | some none => .error .attribute
                  | some (some sym) =>
                    match nameLookup dynstr (fget sym "st_name") with
                    | .error e => .error e
                    | .ok nm => .ok (dictSet D (fget r "r_offset") (.dyn nm))
              | none => .error .index
              | some s' => if s'.truthy then .error .attribute else .error .index
            else .ok D
        let entries : Py (List (Option Rec)) :=
          match content with
          | .rels l => .ok l
          | .syms l => .ok l
          | .dyns l => .ok l
          | .strtab _ => .error .attribute
          | .raw d => if d.isEmpty then .ok [] else .error .attribute
        match entries with
        | .error e => .error e
        | .ok l =>
          match l.foldlM step D with
          | .error e => .error e
          | .ok D' => dynLoop t data dynsym dynstr rest c' D'
    else dynLoop t data dynsym dynstr rest c D

/-- `self.functions = self.__functions(); self.variables = self.__variables()` -/
def elfSymbols (t : ElfTables) (data : Bytes) : Py (List (Nat × FuncVal) × List (Nat × FuncVal)) := do
  let c0 : Cache := []
  let (symtab, c1) ← readSectionByName t data c0 [46, 115, 121, 109, 116, 97, 98]      -- ".symtab"
  let (strtab, c2) ← readSectionByName t data c1 [46, 115, 116, 114, 116, 97, 98]      -- ".strtab"
  let D ← symbolsOf symtab strtab STT_FUNC
  let (D2, c5) ← if t.dynamic then do
      let (_, c3) ← readSectionByName t data c2 [46, 100, 121, 110, 97, 109, 105, 99]  -- ".dynamic"
      let (dynsym, c4) ← readSectionByName t data c3 [46, 100, 121, 110, 115, 121, 109] -- ".dynsym"
      let (dynstr, c5) ← readSectionByName t data c4 [46, 100, 121, 110, 115, 116, 114] -- ".dynstr"
      match dynstr with
      | none => pure (D, c5)
      | some ds =>
        if !ds.truthy then pure (D, c5)
        else
          let dsym : Option Sec := match dynsym with
            | some s => if s.truthy then some s else none
            | none => none
          dynLoop t data dsym ds t.shdr c5 D
    else pure (D, c2)
  -- __variables: readsection again (cached)
  let (symtab', c6) ← readSectionByName t data c5 [46, 115, 121, 109, 116, 97, 98]
  let (strtab', _) ← readSectionByName t data c6 [46, 115, 116, 114, 116, 97, 98]
  let V ← symbolsOf symtab' strtab' STT_OBJECT
  pure (D2, V)

/-- body of the constructor (`Elf.__parse` after the repair): exception classes as raised. -/
def elfParseRaw (env : ElfEnv) (data : Bytes) : Py ElfObj := do
  let t ← elfTables env data
  let (f, v) ← elfSymbols t data
  pure { t := t, functions := f, variables := v }

/-- `except (ElfError, StructureError): raise` / `except Exception as e: raise ElfError(…)` -/
def toElfError {α} : Py α → Py α
  | .error .elfError => .error .elfError
  | .error .structureError => .error .structureError
  | .error _ => .error .elfError
  | r => r

/-- `Elf(f)` -/
def elfInit (env : ElfEnv) (data : Bytes) : Py ElfObj := toElfError (elfParseRaw env data)

def ElfObj.entrypoints (o : ElfObj) : List Nat := [fget o.t.ehdr "e_entry"]

/-! ### address queries -/

inductive Where
  | none
  | sec (i : Nat)      -- index into `Shdr`
  | seg (i : Nat)      -- index into `Phdr`
  deriving Repr, DecidableEq, Inhabited

/-- scan `reversed(l)` : returns the highest index whose element satisfies `p`. -/
def findLastIdxAux {α} (p : α → Bool) : List α → Nat → Option Nat → Option Nat
  | [], _, acc => acc
  | x :: xs, i, acc => findLastIdxAux p xs (i + 1) (if p x then some i else acc)

def findLastIdx {α} (p : α → Bool) (l : List α) : Option Nat := findLastIdxAux p l 0 none

/-- `getinfo(addr)` for an integer address: `(s, offset, base)` -/
def getinfo (t : ElfTables) (addr : Nat) : Where × Nat × Nat :=
  if !t.shdr.isEmpty then
    match findLastIdx (fun (s : Section) => fget s.hdr "sh_type" == SHT_PROGBITS &&
        fget s.hdr "sh_addr" ≤ addr && addr < fget s.hdr "sh_addr" + fget s.hdr "sh_size") t.shdr with
    | some i => let s := (t.shdr.getD i default).hdr; (.sec i, addr - fget s "sh_addr", fget s "sh_addr")
    | none => (.none, 0, 0)
  else if !t.phdr.isEmpty then
    match findLastIdx (fun (p : Rec) => fget p "p_type" == PT_LOAD &&
        fget p "p_vaddr" ≤ addr && addr < fget p "p_vaddr" + fget p "p_filesz") t.phdr with
    | some i => let p := t.phdr.getD i []; (.seg i, addr - fget p "p_vaddr", fget p "p_vaddr")
    | none => (.none, 0, 0)
  else (.none, 0, 0)

/-- `getfileoffset(addr)` (repaired: section → `sh_offset`, segment → `p_offset`). -/
def getfileoffset (t : ElfTables) (addr : Nat) : Option Nat :=
  match getinfo t addr with
  | (.none, _, _) => none
  | (.sec i, off, _) => some (fget (t.shdr.getD i default).hdr "sh_offset" + off)
  | (.seg i, off, _) => some (fget (t.phdr.getD i []) "p_offset" + off)

/-- `readsegment(S)` : `read(p_filesz).ljust(p_memsz, b"\0")` -/
def readsegment (data : Bytes) (p : Rec) : Py Bytes := do
  let b ← fileRead data (fget p "p_offset") (fget p "p_filesz")
  if fget p "p_memsz" ≥ pow63 then throw .overflow
  pure (b ++ List.replicate (fget p "p_memsz" - b.length) 0)

/-! ## reference reader (ELF specification) -/

structure RefElf where
  x64 : Bool
  be : Bool
  ident : Rec
  ehdr : Rec
  phdr : List Rec
  shdr : List Rec
  names : List Bytes
  entry : Nat
  deriving Repr, DecidableEq, Inhabited

def refTable (be : Bool) (tbl : List (String × Nat × Nat)) (data : Bytes) (n off stride : Nat) : List Rec :=
  (List.range n).map (fun i => refStruct be [] tbl data (off + i * stride))

/-- Read an ELF image by the book: class and byte order from `e_ident[4..5]`, header fields,
    the `e_phnum` program headers at `e_phoff + i·e_phentsize`, the `e_shnum` section headers at
    `e_shoff + i·e_shentsize`, each section's name = the NUL-terminated string at `sh_name` inside
    section `e_shstrndx`. -/
def refElf (data : Bytes) : RefElf :=
  let x64 := refNat false data 4 1 == 2
  let be := refNat false data 5 1 == 2
  let ident := refStruct false ["ELFMAG", "unused"] specIdent data 0
  let eh := refStruct be [] (specEhdr x64) data 0
  let ph := if fget eh "e_phoff" != 0 then
      refTable be (specPhdr x64) data (fget eh "e_phnum") (fget eh "e_phoff") (fget eh "e_phentsize") else []
  let sh := if fget eh "e_shoff" != 0 then
      refTable be (specShdr x64) data (fget eh "e_shnum") (fget eh "e_shoff") (fget eh "e_shentsize") else []
  let strsec := sh.getD (fget eh "e_shstrndx") []
  let tab := slice data (fget strsec "sh_offset") (fget strsec "sh_size")
  let names := sh.map (fun s => cstrAt tab (fget s "sh_name"))
  { x64 := x64, be := be, ident := ident, ehdr := eh, phdr := ph, shdr := sh, names := names,
    entry := fget eh "e_entry" }

/-! ## `read_program` -/

/-- header-level acceptance of `pe.PE`: DOS header (64 bytes, `MZ`), then `COFFHdr` at
    `e_lfanew` with the `PE\0\0` signature. Everything after that is outside the model. -/
def peHeaderOK (data : Bytes) : Bool :=
  data.length ≥ 64 && slice data 0 2 == [77, 90] &&
  (let o := leVal (slice data 60 4)
   o + 24 ≤ data.length && leVal (slice data o 4) == 0x4550)

/-- header-level acceptance of `macho.MachO`: 28 bytes, magic `MH_MAGIC`, `MH_MAGIC_64` (then 32
    bytes) or `FAT_CIGAM`. -/
def machoHeaderOK (data : Bytes) : Bool :=
  data.length ≥ 28 &&
  (let m := leVal (slice data 0 4)
   m == 0xFEEDFACE || (m == 0xFEEDFACF && data.length ≥ 32) || m == 0xBEBAFECA)

/-- `coff.COFF` has no magic test: the 20-byte `FILEHDR` must be readable. -/
def coffHeaderOK (data : Bytes) : Bool := data.length ≥ 20

/-- what lies beyond the header level for PE / Mach-O / COFF: `true` = the constructor returns,
    `false` = it raises its own error type (that it raises nothing else is the content of the
    wrapper repairs `C20-{pe,macho,coff}-wrap.diff`, observed by the harness). -/
structure Bodies where
  pe : Bytes → Bool
  macho : Bytes → Bool
  coff : Bytes → Bool

inductive Outcome
  | elf (o : ElfObj)
  | pe
  | macho
  | coff
  | hex (h : HexFile)
  | srec (s : SrecFile)
  | raw
  deriving Repr, DecidableEq, Inhabited

def peInit (B : Bodies) (data : Bytes) : Py Unit :=
  if peHeaderOK data then (if B.pe data then .ok () else .error .peError)
  else if data.length ≥ 64 && slice data 0 2 == [77, 90] then .error .structureError else .error .peError

def machoInit (B : Bodies) (data : Bytes) : Py Unit :=
  if machoHeaderOK data then (if B.macho data then .ok () else .error .machoError) else .error .machoError

def coffInit (B : Bodies) (data : Bytes) : Py Unit :=
  if coffHeaderOK data then (if B.coff data then .ok () else .error .coffError) else .error .structureError

/-- one `try: p = F(f); return p / except (A, B): f.seek(0)` link: `caught` lists the classes caught. -/
def tryFormat {α} (r : Py α) (caught : List PyExn) (ok : α → Outcome) (next : Py Outcome) : Py Outcome :=
  match r with
  | .ok a => .ok (ok a)
  | .error e => if caught.contains e then next else .error e

/-- `read_program(bytes)` -/
def readProgram (env : ElfEnv) (B : Bodies) (data : Bytes) : Py Outcome :=
  tryFormat (elfInit env data) [.structureError, .elfError] .elf <|
  tryFormat (peInit B data) [.structureError, .peError] (fun _ => .pe) <|
  tryFormat (machoInit B data) [.structureError, .machoError] (fun _ => .macho) <|
  tryFormat (coffInit B data) [.structureError, .coffError] (fun _ => .coff) <|
  tryFormat (hexInit data) [.hexError] .hex <|
  tryFormat (srecInit data) [.srecError] .srec <|
  .ok .raw

/-- acceptance predicates -/
def accElf (env : ElfEnv) (data : Bytes) : Bool := (elfInit env data).isOk
def accHex (data : Bytes) : Bool := (hexInit data).isOk
def accSrec (data : Bytes) : Bool := (srecInit data).isOk

end Amoco.Fmt
