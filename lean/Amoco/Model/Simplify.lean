/-
  Amoco.Model.Simplify — the rewrite system of `cas/expressions.py` as total functions.

  What is mirrored (function by function, rule by rule, in the order the code tests them):
    constant operators of `cst` (incl. the `sf` side effects of `>>`, `//`, `_operator.__call__`, `ltu`/`geu`),
    the Python operator dispatch (`cst.__add__` vs `exp.__add__`, hash-equality shortcut of comparisons),
    `oper`, `op.simplify`, `uop.simplify`, `eqn1_helpers`, `eqn2_helpers` (all rules incl. `bitslice`),
    `slicer`, `slc.__init__/__getitem__/simplify`, `comp.__setitem__/cut/restruct/__getitem__/simplify`,
    `composer`, `extend`/`zeroextend`/`signextend`, `tst.__init__/simplify`, `vec.__init__/simplify`,
    `ror`/`rol`/`ltu`/`geu`.

  In-place mutation is modelled functionally (every function returns the new value).  Every function
  that can re-enter `oper` takes a `fuel : Nat` that bounds the *depth* of re-entrant calls; running out
  of fuel is the error `Err.fuel` (never observed by the correspondence check with the default fuel).
  Python exceptions are the other `Err` values.  The complexity threshold is a parameter (`Cfg`).
  Core Lean only.
-/
import Amoco.Model.Render

namespace Amoco

/-- classes of Python exceptions the algebra raises, plus `fuel` / `unmodelled`. -/
inductive Err where
  | fuel | value | div0 | assert | type | attr | overflow | unmodelled
  deriving DecidableEq, Repr, Inhabited

abbrev R := Except Err

/-- the complexity oracle: `cplx e` ⇔ `conf.Cas.complexity > 0 ∧ complexity(e) > conf.Cas.complexity`;
    `vecCplx l` ⇔ `sum(complexity(x) for x in l) > conf.Cas.complexity > 0` (used by `vec.simplify`). -/
structure Cfg where
  cplx : Expr → Bool
  vecCplx : List Expr → Bool
  /-- `true` = the code as it is: the hash-equality shortcut of the comparison operators also fires when both
      operands are `top` (two opaque values that render alike).  `false` is a diagnostic variant used by the
      harness to attribute a wrong constant to that shortcut. -/
  topHashEq : Bool := true

/-- keyword arguments of `simplify`. -/
structure Opts where
  bitslice : Bool := false
  widening : Bool := false
  deriving Repr, Inhabited

namespace Expr

/-! ## constructors -/

/-- `op(o, l, r)` -/
def mkOp (o : Op) (l r : Expr) : R Expr :=
  let t := o.type
  if t < 4 && l.size != r.size then .error .value
  else
    let size := if t == 4 then 1 else if o == Op.mul2 then 2 * l.size else l.size
    let sf := l.sf || (t == 1 && r.sf)
    .ok (op o l r size sf (t ||| propOf l ||| propOf r))

/-- `uop(o, r)` -/
def mkUop (o : Op) (r : Expr) : Expr := uop o r r.size r.sf (o.type ||| propOf r)

/-- `tst(t, l, r)` -/
def mkTst (t l r : Expr) : R Expr :=
  if l.size != r.size then .error .value else .ok (tst t l r l.size false)

/-- `vec(l)` -/
def mkVec (l : List Expr) : R Expr :=
  let size := l.foldl (fun m e => max m e.size) 0
  if l.any (fun e => e.size != size) then .error .value
  else .ok (vec l size (l.any (·.sf)))

/-- `top(n)` -/
def mkTop (n : Nat) : Expr := top n false

def ofBool (b : Bool) : Expr := cst (if b then 1 else 0) 1 false

/-- Python truthiness of an expression: only `cst(1,1)` is true. -/
def truthy : Expr → Bool
  | cst v s _ => s == 1 && v == 1
  | _ => false

/-! ## constants -/

/-- `_checkarg_sizes` -/
def sizesOK (a b : Nat) : Bool := a == b || a == 0 || b == 0

/-- does the `cst` method of this operator carry `_checkarg_sizes`? -/
def hasSizeCheck : Op → Bool
  | .div | .mod | .lsl | .lsr | .asr | .ror | .rol | .geu | .ltu | .not => false
  | _ => true

/-- the `cst` operator table on two constants `(lv, ls, lf)`, `(rv, rs, rf)`; `lf` is the sign flag *after*
    the side effect of the operator on `self` (`>>` clears it, `//` sets it — done by the caller `api`). -/
def cstApi (o : Op) (lv ls : Nat) (lf : Bool) (rv rs : Nat) (rf : Bool) : R Expr :=
  let L := cstValue lv ls lf
  let Rv := cstValue rv rs rf
  match o with
  | .add => .ok (mkCst (L + Rv) ls)
  | .sub => .ok (mkCst (L - Rv) ls)
  | .mul => .ok (mkCst (L * Rv) ls)
  | .mul2 => .ok (mkCst (L * Rv) (2 * ls))
  | .div => if Rv = 0 then .error .div0 else .ok (mkCst (Int.fdiv L Rv) ls)
  | .mod => if Rv = 0 then .error .div0 else .ok (mkCst (Int.fmod L Rv) ls)
  | .and => .ok (mkCst ((lv &&& rv : Nat) : Int) ls)
  | .or => .ok (mkCst ((lv ||| rv : Nat) : Int) ls)
  | .xor => .ok (mkCst ((lv ^^^ rv : Nat) : Int) ls)
  | .lsl => if rv < ls then .ok (mkCst (L * ((2 ^ rv : Nat) : Int)) ls) else .ok (mkCst 0 ls)
  | .lsr => .ok (mkCst (L >>> rv) ls)
  | .asr => .ok (mkCst (L >>> rv) ls)
  | .eq => .ok (ofBool (lv == rv))
  | .neq => .ok (ofBool (lv != rv))
  | .lt => .ok (ofBool (decide (L < Rv)))
  | .le => .ok (ofBool (decide (L ≤ Rv)))
  | .ge => .ok (ofBool (decide (L ≥ Rv)))
  | .gt => .ok (ofBool (decide (L > Rv)))
  | _ => .error .unmodelled

/-- index of the lowest set bit of `v > 0` (`(v & -v).bit_length() - 1`), searched below `n`. -/
def lowBit (v : Nat) : Nat → Nat → Nat
  | 0, i => i
  | n + 1, i => if v.testBit i then i else lowBit v n (i + 1)

/-- `ismask(v)` and its `(lsb, msb)` for a Python int `v` (false for `v ≤ 0`). -/
def maskBounds (v : Int) : Option (Nat × Nat) :=
  if v ≤ 0 then none
  else
    let n := v.toNat
    let i2 := n.log2
    let i1 := lowBit n (i2 + 1) 0
    if (2 ^ (i2 + 1) - 1) ^^^ (2 ^ i1 - 1) == n then some (i1, i2) else none

/-! ## `comp` bookkeeping that needs no re-entry -/

def findKey (lo hi : Nat) : List Part → Option Expr
  | [] => none
  | (a, b, e) :: tl => if a == lo && b == hi then some e else findKey lo hi tl

/-- `parts[(lo,hi)] = v` on a dict: replace in place if the key exists, else append. -/
def assignKey (lo hi : Nat) (v : Expr) : List Part → List Part
  | [] => [(lo, hi, v)]
  | (a, b, e) :: tl => if a == lo && b == hi then (a, b, v) :: tl else (a, b, e) :: assignKey lo hi v tl

/-- `parts.pop((lo,hi))` -/
def popKey (lo hi : Nat) : List Part → List Part
  | [] => []
  | (a, b, e) :: tl => if a == lo && b == hi then tl else (a, b, e) :: popKey lo hi tl

/-- the part whose key covers bit `b` (`smask[b]`; `smask` is determined by the parts on tiled comps). -/
def cover (b : Nat) : List Part → Option Part
  | [] => none
  | (lo, hi, e) :: tl => if lo ≤ b && b < hi then some (lo, hi, e) else cover b tl

/-- one step of `restruct`: the first adjacent pair (in position order) of two constants or two
    undefined parts is merged. -/
def restructFind : List Part → Option (Part × Part × Expr)
  | [] => none
  | (alo, ahi, a) :: rest =>
      match rest with
      | [] => none
      | (blo, bhi, b) :: _ =>
        if ahi == blo then
          match a, b with
          | cst av as_ _, cst bv bs _ =>
              some ((alo, ahi, a), (blo, bhi, b), mkCst (((bv <<< as_) ||| av : Nat) : Int) (as_ + bs))
          | _, _ =>
              if !a.isDef && !b.isDef then some ((alo, ahi, a), (blo, bhi, b), mkTop (bhi - alo))
              else restructFind rest
        else restructFind rest

/-- `comp.restruct()` on the parts (dict order is kept: merged part appended, the two merged popped). -/
def restructN : Nat → List Part → List Part
  | 0, ps => ps
  | n + 1, ps =>
      match restructFind (sortParts ps) with
      | none => ps
      | some ((alo, ahi, _), (blo, bhi, _), m) =>
          restructN n (popKey blo bhi (popKey alo ahi (assignKey alo bhi m ps)))

def restruct (ps : List Part) : List Part := restructN ps.length ps

/-- `_checkarg_slice` -/
def checkSlice (size : Nat) (start stop : Int) : R Unit :=
  if start < 0 || stop > size then .error .value
  else if stop ≤ start then .error .value
  else .ok ()

/-- the loop of `comp.__getitem__` over the covered range, with the re-entrant operations as parameters. -/
def compGetLoop (gi : Expr → Nat → Nat → R Expr) (si : Expr → Nat → Nat → Expr → R Expr)
    (parts : List Part) (stop l : Nat) : Nat → Nat → Nat → Expr → R Expr
  | 0, _, _, res => .ok res
  | n + 1, b, start, res =>
      if b ≥ l then .ok res
      else
        match cover start parts with
        | none => compGetLoop gi si parts stop l n (b + 1) (start + 1) res
        | some (lo, hi, s) => do
            let deb := start - lo
            let fin := min hi stop - lo
            let d := fin - deb
            let piece ← gi s deb fin
            let res ← si res b (b + d) piece
            compGetLoop gi si parts stop l n (b + d) (start + d) res

/-- `cut`, head piece: `parts[(lo, sta)] = nv[0 : sta - lo]` when the popped part starts before `sta`. -/
def cutHead (gi : Expr → Nat → Nat → R Expr) (sta lo : Nat) (nv : Expr) (ps : List Part) : R (List Part) :=
  if lo < sta then
    match gi nv 0 (sta - lo) with
    | .ok h => .ok (assignKey lo sta h ps)
    | .error e => .error e
  else .ok ps

/-- `cut`, tail piece: `parts[(sto, hi)] = nv[sto - lo : hi - lo]` when the popped part ends after `sto`. -/
def cutTail (gi : Expr → Nat → Nat → R Expr) (sto lo hi : Nat) (nv : Expr) (ps : List Part) : R (List Part) :=
  if hi > sto then
    match gi nv (sto - lo) (hi - lo) with
    | .ok t => .ok (assignKey sto hi t ps)
    | .error e => .error e
  else .ok ps

/-- `cut` after `parts[(sta,sto)] = v` was appended: every *old* part overlapping `[sta,sto)` (in position
    order) is popped and its head / tail outside the range re-inserted. -/
def cutLoop (gi : Expr → Nat → Nat → R Expr) (sta sto : Nat) : List Part → List Part → R (List Part)
  | [], ps => .ok ps
  | (lo, hi, nv) :: tl, ps =>
      match cutHead gi sta lo nv (popKey lo hi ps) with
      | .error e => .error e
      | .ok ps2 =>
        match cutTail gi sto lo hi nv ps2 with
        | .error e => .error e
        | .ok ps3 => cutLoop gi sta sto tl ps3

def overlapping (sta sto : Nat) (ps : List Part) : List Part :=
  sortParts (ps.filter (fun p => p.1 < sto && sta < p.2.1))

/-- `parts[(sta,sto)] = v` followed by `cut`: the non-`comp` branch of `comp.__setitem__`. -/
def setPart (gi : Expr → Nat → Nat → R Expr) (sta sto : Nat) (v : Expr) (parts : List Part) : R (List Part) :=
  match findKey sta sto parts with
  | some _ => .ok (assignKey sta sto v parts)
  | none => cutLoop gi sta sto (overlapping sta sto parts) (parts ++ [(sta, sto, v)])

/-- the high part appended by `extend`: `tst(sb, cst(-1,xt), cst(0,xt))` with `sf = True`, or `cst(0,xt)` -/
def extFill (sign : Bool) (sb : Expr) (xt : Nat) : Expr :=
  if sign then .tst sb (mkCst (-1) xt) (mkCst 0 xt) xt true else cst 0 xt false

/-- `(l + (-r)) ⇒ (l - r)`: the operator and right operand after the step -/
def normNeg (o : Op) (r : Expr) : Op × Expr :=
  match r with
  | .uop ro rr _ _ _ => if o == Op.add && ro == Op.sub then (Op.sub, rr) else (o, r)
  | _ => (o, r)

/-- `[bit0] * n` -/
def bit0s (n : Nat) : List Expr := List.replicate n bit0

/-- `range(a, b)` as Python ints -/
def pyRange (a b : Int) : List Int := (List.range (b - a).toNat).map (fun (k : Nat) => a + (k : Int))

/-- first loop of `vec.simplify`: simplify the elements, stop at an undefined one, flatten nested `vec`s. -/
def vecFlat (simp : Expr → R Expr) : List Expr → List Expr → R (Option Expr × List Expr)
  | [], acc => .ok (none, acc)
  | e :: tl, acc => do
      let ee ← simp e
      if !ee.isDef then return (some ee, acc)
      match ee with
      | .vec l' _ _ => vecFlat simp tl (acc ++ l')
      | _ => vecFlat simp tl (acc ++ [ee])

/-- `e in l` (Python `==` of each element with `e`, truthiness of the result). -/
def vecIn (eq : Expr → Expr → R Expr) (e : Expr) : List Expr → R Bool
  | [] => .ok false
  | x :: xs => do
      let c ← eq x e
      if truthy c then return true else vecIn eq e xs

/-- second loop of `vec.simplify`: de-duplication by `==`. -/
def vecDedup (eq : Expr → Expr → R Expr) : List Expr → List Expr → R (List Expr)
  | [], acc => .ok acc
  | e :: tl, acc => do
      if ← vecIn eq e acc then vecDedup eq tl acc else vecDedup eq tl (acc ++ [e])

/-! ## memory expressions (only `mem(reg, size, disp, endian)` leaves: address = `ptr` on a register, no segment) -/

/-- `mem.__getitem__` for a checked slice `[sta, sto)`: the covering bytes `mem(a, 8·(b2-b1), disp=b1)` (counted
    from the other end for big-endian), narrowed by a `slc` when the slice does not start and end on a byte. -/
def memGetitem (x : Expr) (sta sto : Nat) : R Expr :=
  match x with
  | .mem (.ptr (.reg n bs _) none d ps _) size sf be mods =>
      let b1 := sta / 8
      let r1 := sta % 8
      let b2 := (sto + 7) / 8
      let r2 := sto % 8
      let c1 : Int := if be then ((size / 8 : Nat) : Int) - (b2 : Int) else (b1 : Int)
      let y := Expr.mem (.ptr (.reg n bs false) none (d + c1) ps false) ((b2 - b1) * 8) sf be mods
      if r1 > 0 || r2 > 0 then .ok (.slc y r1 (sto - sta) sf none 0) else .ok y
  | _ => .error .unmodelled

/-- `mem.simplify()`: the address is normalised (`ptr.simplify`), the node stays -/
def memSimplify (x : Expr) : R Expr :=
  match x with
  | .mem (.ptr (.reg n bs _) none d ps _) size sf be mods => .ok (.mem (.ptr (.reg n bs false) none d ps false) size sf be mods)
  | _ => .error .unmodelled

/-- `slc.simplify()` on a slice of a memory expression: a byte-aligned slice of whole bytes becomes
    `mem(ptr(base, seg, disp + pos/8), size)` (as the code does it: little-endian default, no mods), any other
    slice stays -/
def slcMem (x : Expr) (pos size : Nat) (sf : Bool) (ref : Option String) (ety : Nat) : R Expr :=
  match x with
  | .mem (.ptr (.reg n bs _) none d ps _) _ _ _ _ =>
      if size % 8 == 0 && pos % 8 == 0 then
        .ok (.mem (.ptr (.reg n bs false) none (d + ((pos / 8 : Nat) : Int)) ps false) size sf false [])
      else .ok (.slc x pos size sf ref ety)
  | _ => .error .unmodelled

end Expr

open Expr

/-! ## the re-entrant core -/

variable (cfg : Cfg)

mutual

/-- `e.simplify(**opts)` -/
def simplify : Nat → Opts → Expr → R Expr
  | 0, _, _ => .error .fuel
  | fuel + 1, o, e =>
    match e with
    | .cst .. | .reg .. | .ext .. | .top .. | .vecw .. => .ok e
    | .mem .. => memSimplify e
    | .ptr .. => .error .unmodelled
    | .slc x pos size sf ref ety => do
        let x ← simplify fuel o x
        if !x.isDef then return mkTop size
        if x.isCmp || x.isCst then
          let res ← getitem fuel x pos (pos + size)
          return res.setSf sf
        if x.isMem then return ← slcMem x pos size sf ref ety
        match x with
        | .op xo xl xr _ _ _ =>
            if xo.type == 2 || ((xo == Op.add || xo == Op.sub) && pos == 0) then
              let r ← getitem fuel xr pos (pos + size)
              let l ← getitem fuel xl pos (pos + size)
              callOp fuel xo l r
            else return .slc x pos size sf ref ety
        | .uop xo xr _ _ _ =>
            if xo.type == 2 || ((xo == Op.add || xo == Op.sub) && pos == 0) then
              let r ← getitem fuel xr pos (pos + size)
              callUop fuel xo r
            else return .slc x pos size sf ref ety
        | .vec l _ _ => do
            let l' ← l.mapM (fun y => getitem fuel y pos (pos + size))
            mkVec l'
        | _ => return .slc x pos size sf ref ety
    | .comp size sf parts => do
        let parts ← parts.mapM (fun (p : Part) => do
          let v ← simplify fuel o p.2.2
          pure ((p.1, p.2.1, v) : Part))
        let parts := restruct parts
        match findKey 0 size parts with
        -- (repaired, as `comp.eval`: the constant the parts merged into stands for the comp and keeps its sign flag)
        | some (.cst v s _) => return .cst v s sf
        | some p => return p
        | none => return .comp size sf parts
    | .tst t l r size sf => do
        let t ← simplify fuel o t
        if o.widening || !t.isDef then
          let v ← mkVec [l, r]
          return ← simplify fuel {} v
        let l ← simplify fuel o l
        let c1 ← api fuel Op.eq t bit1
        if truthy c1 then return l
        let r ← simplify fuel o r
        let c0 ← api fuel Op.eq t bit0
        if truthy c0 then return r
        let c ← api fuel Op.eq l r
        if truthy c then return l
        return .tst t l r size sf
    | .op oo l r size sf prop => do
        let l ← simplify fuel o l
        let r ← simplify fuel o r
        if prop < 4 && oo != Op.div && oo != Op.mod then
          if l.isTop then return (if l.size == size then l else mkTop size)
          if r.isTop then return (if r.size == size then r else mkTop size)
          let minus := oo == Op.sub
          if l.isCst then
            -- two constants: folded; the constant stands for this node and keeps its sign flag (as `op.eval` does)
            if r.isCst then return (← callOp fuel oo l r).setSf sf
            if minus then
              let nr ← apiNeg fuel r
              eqn2 fuel o Op.add nr l size sf prop
            else eqn2 fuel o oo r l size sf prop
          else if !r.isCst && symStr r < symStr l then
            if minus then
              let nr ← apiNeg fuel r
              eqn2 fuel o Op.add nr l size sf prop
            else eqn2 fuel o oo r l size sf prop
          else eqn2 fuel o oo l r size sf prop
        else eqn2 fuel o oo l r size sf prop
    | .uop oo r size sf prop => do
        let r ← simplify fuel o r
        if r.isTop then return r
        eqn1 fuel oo r size sf prop
    | .vec l size sf => do
        let (early, l1) ← vecFlat (simplify fuel {}) l []
        match early with
        | some ee => return ee
        | none =>
          let l2 ← vecDedup (api fuel Op.eq) l1 []
          match l2 with
          | [x] => return x
          | _ =>
            if o.widening then return .vecw l2 size false
            if cfg.vecCplx l2 then return mkTop size
            return .vec l2 size sf

/-- `eqn1_helpers(e)` for `e = uop(o, r)` with attributes `size sf prop` -/
def eqn1 : Nat → Op → Expr → Nat → Bool → Nat → R Expr
  | 0, _, _, _, _, _ => .error .fuel
  | fuel + 1, o, r, size, sf, prop =>
    match r with
    | .cst .. => do
        -- folded constant: it stands for the node `e` and keeps its sign flag (as `uop.eval` does)
        let res ← callUop fuel o r
        return res.setSf sf
    | .vec l _ _ => do
        let l' ← l.mapM (fun x => callUop fuel o x)
        mkVec l'
    | .uop ro rr _ _ _ =>
        match Op.pm o ro with
        | some Op.add => .ok rr
        | some Op.sub => apiNeg fuel rr
        | _ => .ok (.uop o r size sf prop)
    | .op ro rl rr _ _ _ =>
        if o == Op.sub then
          match Op.pm o ro with
          | some x => do
              let l ← apiNeg fuel rl
              api fuel x l rr
          | none => .ok (.uop o r size sf prop)
        else if o == Op.not && ro.type == 4 then
          match ro with
          | .eq => api fuel Op.neq rl rr
          | .neq => api fuel Op.eq rl rr
          | .lt => api fuel Op.ge rl rr
          | .gt => api fuel Op.le rl rr
          | .le => api fuel Op.gt rl rr
          | .ge => api fuel Op.lt rl rr
          | .ltu => helperCmp fuel Op.geu rl rr
          | .geu => helperCmp fuel Op.ltu rl rr
          | _ => .ok (.uop o r size sf prop)
        else .ok (.uop o r size sf prop)
    | _ => .ok (.uop o r size sf prop)

/-- `eqn2_helpers(e, bitslice, widening)` for `e = op(o, l, r)` with attributes `size sf prop`:
    complexity threshold, top absorption, `+`/`-` normalisation (`eqn2norm`), then the rules for a constant
    right operand (`eqn2cst`, `eqn2snd`) and the final rules (`eqn2tail`). -/
def eqn2 : Nat → Opts → Op → Expr → Expr → Nat → Bool → Nat → R Expr
  | 0, _, _, _, _, _, _, _ => .error .fuel
  | fuel + 1, opts, o, l, r, size, sf, prop => do
    let r := if cfg.cplx r then mkTop r.size else r
    let l := if cfg.cplx l then mkTop l.size else l
    if r.isTop || l.isTop then return mkTop size
    let (o, l, r) ← eqn2norm fuel o l r
    match r with
    | .cst rv rs rf =>
      match ← eqn2cst fuel opts o l rv rs rf size sf with
      | some res => return res
      | none => eqn2snd fuel opts o l rv rs rf size sf prop
    | _ => eqn2tail fuel opts o l r size sf prop

/-- the `+`/`-` normalisation steps of `eqn2_helpers`:
    `((a ± c) ∘ r) ⇒ ((a ∘ r) ± c)` (`normL`), `(l + (-r)) ⇒ (l - r)` (`normNeg`),
    `(l ± (a ± c)) ⇒ ((l ± a) ± c)` (`normR`). -/
def eqn2norm : Nat → Op → Expr → Expr → R (Op × Expr × Expr)
  | 0, _, _, _ => .error .fuel
  | fuel + 1, o, l, r => do
    let t ← normL fuel o l r
    let d := normNeg t.1 t.2.2
    normR fuel d.1 t.2.1 d.2

/-- `((a lo c) o r) ⇒ ((a o r) lo c)` when `c` is a constant and `o, lo ∈ {+,-}` -/
def normL : Nat → Op → Expr → Expr → R (Op × Expr × Expr)
  | 0, _, _, _ => .error .fuel
  | fuel + 1, o, l, r =>
    match l with
    | .op lo ll lr _ _ _ =>
        if lr.isCst then
          match Op.pm o lo with
          | some _ => do
              let nl ← callOp fuel o ll r
              pure (lo, nl, lr)
          | none => pure (o, l, r)
        else pure (o, l, r)
    | _ => pure (o, l, r)

/-- `(l o (a ro c)) ⇒ ((l o a) (o·ro) c)` when `c` is a constant and `o, ro ∈ {+,-}` -/
def normR : Nat → Op → Expr → Expr → R (Op × Expr × Expr)
  | 0, _, _, _ => .error .fuel
  | fuel + 1, o, l, r =>
    match r with
    | .op ro rl rr _ _ _ =>
        if rr.isCst then
          match Op.pm o ro with
          | some x => do
              let nl ← callOp fuel o l rl
              pure (x, nl, rr)
          | none => pure (o, l, r)
        else pure (o, l, r)
    | .uop ro rr _ _ _ =>
        if rr.isCst then
          match Op.pm o ro with
          | some _ => throw .assert
          | none => pure (o, l, r)
        else pure (o, l, r)
    | _ => pure (o, l, r)

/-- first chain of rules for `e = (l o cst(rv, rs, rf))`; `none` = no rule returned. -/
def eqn2cst : Nat → Opts → Op → Expr → Nat → Nat → Bool → Nat → Bool → R (Option Expr)
  | 0, _, _, _, _, _, _, _, _ => .error .fuel
  | fuel + 1, opts, o, l, rv, rs, rf, size, sf => do
    let r := Expr.cst rv rs rf
    let value := cstValue rv rs rf
    if value = 0 then
      if o == Op.or || o == Op.xor || o == Op.add || o == Op.sub || o == Op.lsr || o == Op.lsl
          || o == Op.ror || o == Op.rol then return some l
      if o == Op.and || o == Op.mul || o == Op.mul2 then return some (cst 0 size false)
      if o == Op.eq && l.isExt then return some bit0
      if o == Op.neq && l.isExt then return some bit1
      return none
    else if value = 1 && (o == Op.mul || o == Op.div) then return some l
    else if value = 1 && o == Op.mul2 then return some (← extendExp fuel l.sf l size)
    else
      match (if o == Op.and then maskBounds value else none) with
      | some (i1, i2) => do
          let c := Expr.comp size sf []
          let c ← setitem fuel c 0 size (cst 0 size false)
          let piece ← getitem fuel l i1 (i2 + 1)
          let c ← setitem fuel c i1 (i2 + 1) piece
          return some (← simplify fuel {} c)
      | none =>
        if opts.bitslice && (o == Op.and || o == Op.or || o == Op.xor) then do
          let bits ← (pyRange 0 size).mapM (fun i => do
            let a ← getitem fuel l i (i + 1)
            let b ← getitem fuel r i (i + 1)
            callOp fuel o a b)
          let c ← composer fuel bits
          return some (if c.isCmp then c.setSf sf else c)
        else if (o == Op.lsl || o == Op.lsr) && rv ≥ l.size then return some (cst 0 size false)
        else if opts.bitslice && o == Op.lsl then do
          let bits ← (pyRange 0 ((size : Int) - (rv : Int))).mapM (fun i => getitem fuel l i (i + 1))
          let c ← composer fuel (bit0s rv ++ bits)
          return some (if c.isCmp then c.setSf sf else c)
        else if opts.bitslice && o == Op.lsr then do
          let bits ← (pyRange rv size).mapM (fun i => getitem fuel l i (i + 1))
          let c ← composer fuel (bits ++ bit0s rv)
          return some (if c.isCmp then c.setSf sf else c)
        else if o == Op.lsl then do
          let n := l.size
          let c := Expr.comp n sf []
          let c ← setitem fuel c 0 n (cst 0 n false)
          let piece ← getitem fuel l 0 ((n : Int) - (rv : Int))
          let c ← setitem fuel c rv n piece
          return some (← simplify fuel {} c)
        else if o == Op.lsr then do
          let n := l.size
          let c := Expr.comp n sf []
          let c ← setitem fuel c 0 n (cst 0 n false)
          let piece ← getitem fuel l rv n
          let c ← setitem fuel c 0 ((n : Int) - (rv : Int)) piece
          return some (← simplify fuel {} c)
        else return none

/-- second chain of rules for `e = (l o cst(rv, rs, rf))`: by the kind of `l`. -/
def eqn2snd : Nat → Opts → Op → Expr → Nat → Nat → Bool → Nat → Bool → Nat → R Expr
  | 0, _, _, _, _, _, _, _, _, _ => .error .fuel
  | fuel + 1, opts, o, l, rv, rs, rf, size, sf, prop =>
    let r := Expr.cst rv rs rf
    match l with
    | .op lo ll lr _ _ _ =>
        match Op.pm o lo with
        | some x =>
            if lr.isCst then do
              let cc ← api fuel x lr r
              return .op lo ll cc size sf prop
            else return .op o l r size sf prop
        | none =>
            if rs == 1 && o == Op.eq then
              if rv == 1 then return l else apiNot fuel l
            else if rs == 1 && o == Op.neq then
              if rv == 1 then apiNot fuel l else return l
            else eqn2tail fuel opts o l r size sf prop
    | .uop lo lr _ _ _ =>
        match Op.pm o lo with
        | some x =>
            if lr.isCst then do
              let cc ← api fuel x lr r
              return .op lo l cc size sf prop
            else return .op o l r size sf prop
        | none =>
            if rs == 1 && o == Op.eq then
              if rv == 1 then return l else apiNot fuel l
            else if rs == 1 && o == Op.neq then
              if rv == 1 then apiNot fuel l else return l
            else eqn2tail fuel opts o l r size sf prop
    | .ptr .. =>
        if o == Op.sub || o == Op.add then throw .unmodelled
        else eqn2tail fuel opts o l r size sf prop
    | .comp lsize _ lparts =>
        if o == Op.and || o == Op.or || o == Op.xor then do
          let cc ← lparts.foldlM (fun (cc : Expr) (p : Part) => do
            let rp ← getitem fuel r p.1 p.2.1
            let v ← callOp fuel o p.2.2 rp
            setitem fuel cc p.1 p.2.1 v) (Expr.comp lsize sf [])
          simplify fuel { bitslice := opts.bitslice } cc
        else eqn2tail fuel opts o l r size sf prop
    | .cst .. => do
        let res ← callOp fuel o l r
        return res.setSf sf
    | _ => eqn2tail fuel opts o l r size sf prop

/-- the end of `eqn2_helpers`: `vec` distribution and the `x op x` rules (decided by rendering). -/
def eqn2tail : Nat → Opts → Op → Expr → Expr → Nat → Bool → Nat → R Expr
  | 0, _, _, _, _, _, _, _ => .error .fuel
  | fuel + 1, opts, o, l, r, size, sf, prop =>
    match l, r with
    | .vec ll _ _, _ => do
        let xs ← ll.mapM (fun x => callOp fuel o x r)
        let v ← mkVec xs
        simplify fuel { widening := opts.widening } v
    | _, .vec rl _ _ => do
        let xs ← rl.mapM (fun x => callOp fuel o l x)
        let v ← mkVec xs
        simplify fuel { widening := opts.widening } v
    | _, _ =>
      if render l == render r then
        if o == Op.neq || o == Op.lt || o == Op.gt then .ok bit0
        -- (repaired: a signed 1-bit `true` is not the shared unsigned `bit1`; the result keeps the node's sign flag)
        else if o == Op.eq || o == Op.le || o == Op.ge then .ok (if sf then cst 1 1 true else bit1)
        else if o == Op.sub || o == Op.xor then .ok (cst 0 size false)
        else if o == Op.and || o == Op.or then .ok l
        else .ok (.op o l r size sf prop)
      else .ok (.op o l r size sf prop)

/-- `oper(o, l, r)` = `op(o, l, r).simplify()` -/
def oper : Nat → Op → Expr → Expr → R Expr
  | 0, _, _, _ => .error .fuel
  | fuel + 1, o, l, r => do
      let e ← mkOp o l r
      simplify fuel {} e

/-- `oper(o, r)` = `uop(o, r).simplify()` -/
def operU : Nat → Op → Expr → R Expr
  | 0, _, _ => .error .fuel
  | fuel + 1, o, r => simplify fuel {} (mkUop o r)

/-- `-x` -/
def apiNeg : Nat → Expr → R Expr
  | 0, _ => .error .fuel
  | fuel + 1, x =>
    match x with
    | .cst v s f => .ok (mkCst (-(cstValue v s f)) s)
    | _ => operU fuel Op.sub x

/-- `~x` -/
def apiNot : Nat → Expr → R Expr
  | 0, _ => .error .fuel
  | fuel + 1, x =>
    match x with
    | .cst v s _ => .ok (mkCst ((mask s - v % 2 ^ s : Nat) : Int) s)
    | _ => operU fuel Op.not x

/-- Python's binary operator / rich comparison `l <o> r` on two expressions. -/
def api : Nat → Op → Expr → Expr → R Expr
  | 0, _, _, _ => .error .fuel
  | fuel + 1, o, l, r =>
    match l with
    | .cst lv ls lf =>
        if hasSizeCheck o && !sizesOK ls r.size then .error .value
        else
          let lf := if o == Op.lsr then false else if o == Op.asr then true else lf
          match r with
          | .cst rv rs rf => cstApi o lv ls lf rv rs rf
          | _ => apiExp fuel o (.cst lv ls lf) r
    | _ => apiExp fuel o l r

/-- the `exp` methods: comparisons shortcut on hash equality, everything else goes to `oper`. -/
def apiExp : Nat → Op → Expr → Expr → R Expr
  | 0, _, _, _ => .error .fuel
  | fuel + 1, o, l, r =>
    match o with
    | .eq | .le | .ge => if hashEq l r && (cfg.topHashEq || l.isDef) then .ok bit1 else oper fuel o l r
    | .neq | .lt | .gt => if hashEq l r && (cfg.topHashEq || l.isDef) then .ok bit0 else oper fuel o l r
    | _ => oper fuel o l r

/-- `_operator.__call__(l, r)` of a binary operator -/
def callOp : Nat → Op → Expr → Expr → R Expr
  | 0, _, _, _ => .error .fuel
  | fuel + 1, o, l, r =>
    -- (the unchanged tree clears `l.sf`/`r.sf` in place here for the logic operators and `<.` `>=.`;
    --  the repaired code leaves the operand objects alone)
    match o with
    | .ltu | .geu => helperCmp fuel o l r
    | .ror | .rol => helperRot fuel o l r
    | .not => .error .assert
    | _ => api fuel o l r

/-- `_operator.__call__(r)` of a unary operator -/
def callUop : Nat → Op → Expr → R Expr
  | 0, _, _ => .error .fuel
  | fuel + 1, o, r =>
    match o with
    | .sub => apiNeg fuel r
    | .not => apiNot fuel r
    | .add => .ok r
    | _ => .error .assert

/-- `ltu(x, y)` / `geu(x, y)` -/
def helperCmp : Nat → Op → Expr → Expr → R Expr
  | 0, _, _, _ => .error .fuel
  | fuel + 1, o, x, y =>
    if x.isCst && y.isCst then
      api fuel (if o == Op.ltu then Op.lt else Op.ge) (x.setSf false) (y.setSf false)
    else mkOp o x y

/-- `ror(x, n)` / `rol(x, n)` (repaired: constants are rotated with the amount reduced modulo the width;
    anything else stays an `op` node — the unchanged tree expands `x >> n | x << (x.size - n)` for a constant
    `x`, computing `x.size - n` in the width of `n`) -/
def helperRot : Nat → Op → Expr → Expr → R Expr
  | 0, _, _, _ => .error .fuel
  | fuel + 1, o, x, n =>
    if x.isCst && n.isCst then
      -- both constants: `m = n.v % x.size`, then `x >> m | x << (size - m)` resp. `x << m | x >> (size - m)`
      let m : Nat := (match n with | .cst nv _ _ => nv % x.size | _ => 0)
      if o == Op.ror then do
        let t1 ← api fuel Op.lsr x (mkCst (m : Int) x.size)
        let t2 ← api fuel Op.lsl (x.setSf false) (mkCst ((x.size - m : Nat) : Int) x.size)
        api fuel Op.or t1 t2
      else do
        let t1 ← api fuel Op.lsl x (mkCst (m : Int) x.size)
        let t2 ← api fuel Op.lsr x (mkCst ((x.size - m : Nat) : Int) x.size)
        api fuel Op.or t1 t2
    else mkOp o x n

/-- `x[start:stop]` -/
def getitem : Nat → Expr → Int → Int → R Expr
  | 0, _, _, _ => .error .fuel
  | fuel + 1, x, start, stop => do
    checkSlice x.size start stop
    let sta := start.toNat
    let sto := stop.toNat
    match x with
    | .cst v _ _ => return mkCst ((v >>> sta : Nat) : Int) (sto - sta)
    | .comp size sf parts =>
        match findKey sta sto parts with
        | some p => return p
        | none =>
          if sta == 0 && sto == size then return x
          let l := sto - sta
          let res ← compGetLoop (fun y a b => getitem fuel y (a : Int) (b : Int))
                      (fun c a b v => setitem fuel c (a : Int) (b : Int) v) parts sto l l 0 sta (Expr.comp l sf [])
          match res with
          | .comp rs rf rparts =>
              let rparts := restruct rparts
              match rparts with
              | [] => throw .unmodelled
              | [(_, _, p)] => return p
              | _ => return .comp rs rf rparts
          | _ => throw .unmodelled
    | .slc x' p s _ _ _ =>
        if sta == 0 && sto == s then return x
        else slicer fuel x' (p + sta) (sto - sta)
    | .mem .. => memGetitem x sta sto
    | .vec l _ _ => do
        let l' ← l.mapM (fun y => getitem fuel y start stop)
        mkVec l'
    | .vecw l _ _ => do
        let l' ← l.mapM (fun y => getitem fuel y start stop)
        match ← mkVec l' with
        | .vec l'' s _ => return .vecw l'' s false
        | _ => throw .unmodelled
    | _ => slicer fuel x sta (sto - sta)

/-- `slicer(x, pos, size)` -/
def slicer : Nat → Expr → Nat → Nat → R Expr
  | 0, _, _, _ => .error .fuel
  | fuel + 1, x, pos, size =>
    if !x.isDef then .ok (mkTop size)
    else if pos == 0 && size == x.size then .ok x
    else if x.isMem || x.isCmp then do
      let res ← getitem fuel x pos (pos + size)
      return res.setSf x.sf
    else mkSlc fuel x pos size

/-- `slc(x, pos, size)` -/
def mkSlc : Nat → Expr → Nat → Nat → R Expr
  | 0, _, _, _ => .error .fuel
  | fuel + 1, x, pos, size =>
    match x with
    | .slc .. => do
        let res ← getitem fuel x pos (pos + size)
        match res with
        | .slc x2 p2 _ _ _ _ => return .slc x2 p2 size x.sf none (slcEty x2)
        -- (repaired: the unchanged constructor reads `res.x` of whatever `x[pos:pos+size]` returns and raises
        --  AttributeError when that is not a slice; the slice of the slice is kept nested, `simplify` resolves it)
        | _ => return .slc x pos size x.sf none (slcEty x)
    | _ => .ok (.slc x pos size x.sf none (slcEty x))

/-- `c[sta:sto] = v` on a `comp` `c`; returns the updated comp. -/
def setitem : Nat → Expr → Int → Int → Expr → R Expr
  | 0, _, _, _, _ => .error .fuel
  | fuel + 1, c, start, stop, v => do
    match c with
    | .comp size sf parts =>
      checkSlice size start stop
      let sta := start.toNat
      let sto := stop.toNat
      if v.size != sto - sta then throw .value
      match v with
      | .comp _ _ vparts =>
          vparts.foldlM (fun (c : Expr) (p : Part) => setitem fuel c (sta + p.1) (sta + p.2.1) p.2.2) c
      | _ =>
        match setPart (fun y a b => getitem fuel y (a : Int) (b : Int)) sta sto v parts with
        | .ok ps => return .comp size sf ps
        | .error e => throw e
    | _ => throw .unmodelled

/-- `composer(parts)` -/
def composer : Nat → List Expr → R Expr
  | 0, _ => .error .fuel
  | fuel + 1, parts =>
    match parts with
    | [] => .error .assert
    | [x] => .ok x
    | _ => do
      let s := parts.foldl (fun a x => a + x.size) 0
      let sf := match parts.getLast? with | some x => x.sf | none => false
      let (c, _) ← parts.foldlM (fun (st : Expr × Nat) (x : Expr) => do
        let c ← setitem fuel st.1 st.2 (st.2 + x.size) x
        pure (c, st.2 + x.size)) (Expr.comp s sf [], 0)
      simplify fuel {} c

/-- `exp.extend(x, sign, size)` -/
def extendExp : Nat → Bool → Expr → Nat → R Expr
  | 0, _, _, _ => .error .fuel
  | fuel + 1, sign, x, size =>
    if size ≤ x.size then .ok x
    else do
      let xt := size - x.size
      let sb ← getitem fuel x ((x.size - 1 : Nat) : Int) (x.size : Int)
      composer fuel [x, extFill sign sb xt]

end

/-- `x.zeroextend(size)` / `x.signextend(size)` (with the `cst` overrides) -/
def extend (fuel : Nat) (sign : Bool) (x : Expr) (size : Nat) : R Expr :=
  match x with
  | .cst v s _ =>
      if sign then .ok (mkCst (cstValue v s true) (max size s))
      else .ok (mkCst (v : Int) (max size s))
  | _ => extendExp cfg fuel sign x size

/-- `x.bit(i)` -/
def bitOf (fuel : Nat) (x : Expr) (i : Nat) : R Expr :=
  if x.size = 0 then .error .div0
  else getitem cfg fuel x ((i % x.size : Nat) : Int) ((i % x.size + 1 : Nat) : Int)

end Amoco
