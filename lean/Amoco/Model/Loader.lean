/-
  Amoco.Model.Loader — how a program file becomes a memory image
  (`amoco/system/elf.py` `Elf.loadsegment`, the `OS.load_elf_binary` / `load_elf_interp` loops of
  `amoco/system/linux32/*.py`, `linux64/x64.py`, `baremetal/{leon2,riscv,tricore}.py`,
  `pe.py` `PE.loadsegment` + `win32/x86.py` / `win64/x64.py`, `osx/x64.py` `load_macho_binary`,
  `raw.py` `RawExec.auto_load`, `structs/HEX.py` / `SREC.py` `load_binary`, and
  `core.py` `CoreExec.read_instruction`'s fetch window).

  A loader is a *list of writes* into the concrete zone of the task's `MemoryMap`
  (`p.state.mmap.write(int, bytes | ext)` → zone `None`, endian `1`); the zone is the C08 model
  (`Amoco.Memory.Zone`), so the image is `(writesZone ws).abs`.

  Everything is on Python integers (unbounded): `v & (ps-1)`, `v & ~(ps-1)` are modelled for *every*
  page size `ps ≥ 1`, not only powers of two (`v & ~m = v - (v & m)` for non-negative `v`, `m`).

  The ELF part follows `Elf.loadsegment` **with the proposed repair**
  `proposed_fixes/C15-elf-bss-zero-fill.diff` (bytes beyond `p_filesz` are zero up to the page end of
  `p_memsz`), the PE part follows `PE.loadsegment` with `proposed_fixes/C15-pe-virtualsize-zero-pad.diff`
  (`ljust(VirtualSize, b"\0")` instead of the default fill character, a space).
  `Fix.none` gives the code as it is without the repairs (used by the driver to show what the
  unrepaired tree computes).

  Core Lean only.
-/
import Amoco.Model.Memory

namespace Amoco.Loader

open Amoco.Memory

abbrev Bytes := List Nat

/-- one write `(address, value, endian)` (the same type as `Amoco.Memory.WriteOp` of the C08 proofs). -/
abbrev WriteOp := Int × Val × Endian

/-! ## Python helpers -/

/-- `f.seek(off); f.read(n)` on a file object (`off ≥ 0`): short at end of file. -/
def fileRead (file : Bytes) (off n : Nat) : Bytes := (file.drop off).take n

/-- `bytes.ljust(n, fill)`. -/
def ljust (bs : Bytes) (n : Nat) (fill : Nat) : Bytes := bs ++ List.replicate (n - bs.length) fill

def zeros (n : Nat) : Bytes := List.replicate n 0

/-- `ELF_PAGEOFFSET = lambda v: v & (pagesize-1)` -/
def pageOffset (ps v : Nat) : Nat := v &&& (ps - 1)

/-- `ELF_PAGESTART = lambda v: v & ~(pagesize-1)`  (`= v - (v & (pagesize-1))` on non-negative ints). -/
def pageStart (ps v : Nat) : Nat := v - (v &&& (ps - 1))

/-- `ELF_PAGEALIGN = lambda v: (v+pagesize-1) & ~(pagesize-1)` -/
def pageAlign (ps v : Nat) : Nat := pageStart ps (v + ps - 1)

/-- which of the proposed repairs the modelled code contains. -/
inductive Fix | none | repaired
  deriving Repr, DecidableEq, Inhabited

/-! ## ELF -/

def PT_LOAD : Nat := 1
def PT_INTERP : Nat := 3

/-- a program header as kept in `Elf.Phdr` (table order). -/
structure Phdr where
  ptype : Nat
  offset : Nat
  vaddr : Nat
  filesz : Nat
  memsz : Nat
  deriving Repr, DecidableEq, Inhabited

/-- `seek(off)` with `off = p_offset - PAGEOFFSET(p_vaddr) < 0` raises `ValueError` (the loader then
    fails and `load_program` returns `None`). -/
def Phdr.seekOk (ps : Nat) (s : Phdr) : Bool := decide (pageOffset ps s.vaddr ≤ s.offset)

/-- the bytes `Elf.loadsegment(S, pagesize)` returns for a `PT_LOAD` (the value of `{base: bytes_}`). -/
def segBytes (fx : Fix) (file : Bytes) (ps : Nat) (s : Phdr) : Bytes :=
  let po := pageOffset ps s.vaddr
  let size := pageAlign ps (s.filesz + po)
  let off := s.offset - po
  let b := fileRead file off size
  match fx with
  | .none => b
  | .repaired =>
    if s.memsz > s.filesz then ljust (b.take (po + s.filesz)) (pageAlign ps (po + s.memsz)) 0 else b

/-- the key of `{base: bytes_}`. -/
def segBase (ps : Nat) (s : Phdr) : Nat := pageStart ps s.vaddr

def rawWrite (a : Nat) (bs : Bytes) : WriteOp := ((a : Int), .raw bs, .little)

def segWrite (fx : Fix) (file : Bytes) (ps : Nat) (s : Phdr) : WriteOp :=
  rawWrite (segBase ps s) (segBytes fx file ps s)

def Phdr.isLoad (s : Phdr) : Bool := s.ptype == PT_LOAD

def loads (phdrs : List Phdr) : List Phdr := phdrs.filter Phdr.isLoad

/-- `for s in bprm.Phdr: … elif s.p_type == PT_LOAD: … p.state.mmap.write(vaddr, data)` -/
def segWrites (fx : Fix) (file : Bytes) (ps : Nat) (phdrs : List Phdr) : List WriteOp :=
  (loads phdrs).map (segWrite fx file ps)

/-- `interp = bprm.readsegment(s).strip(b"\0")` of the last `PT_INTERP` is non-empty
    (`readsegment` = `read(p_filesz).ljust(p_memsz, b"\0")`). -/
def interpNonEmpty (file : Bytes) (phdrs : List Phdr) : Bool :=
  match (phdrs.filter (fun s => s.ptype == PT_INTERP)).getLast? with
  | none => false
  | some s => (fileRead file s.offset s.filesz).any (· != 0)

/-- `Elf.dynamic` -/
def isDynamic (phdrs : List Phdr) : Bool := phdrs.any (fun s => s.ptype == PT_INTERP)

/-- a dynamic relocation `(r_offset, symbol)`; the symbol name is represented by an atom number. -/
abbrev Reloc := Nat × Nat

/-- `D[r.r_offset] = name` for every relocation in turn: a Python dict keeps the position of the
    first insertion of a key and the value of the last. -/
def dictSet (d : List Reloc) (r : Reloc) : List Reloc :=
  if d.any (fun e => e.1 == r.1) then d.map (fun e => if e.1 == r.1 then (e.1, r.2) else e) else d ++ [r]

def relocDict (rs : List Reloc) : List Reloc := rs.foldl dictSet []

/-- the bytes of `cpu.ext(name, size=8*n)` in value order: byte `k` of atom `sym`. -/
def extVal (sym n : Nat) : Val := .ex ((List.range n).map (fun k => ByteDesc.sym sym k))

/-- `p.state.mmap.write(k, xf)` -/
def slotWrite (n : Nat) (r : Reloc) : WriteOp := ((r.1 : Int), extVal r.2 n, .little)

def slotWrites (n : Nat) (d : List Reloc) : List WriteOp := d.map (slotWrite n)

/-- configuration of an OS loader: page size (`conf.System.pagesize`), pointer size in bytes,
    top of the address space used for the stack (`0x7FFFFFFF` / `0x00007FFFFFFFFFFF`), `aslr`. -/
structure Cfg where
  ps : Nat
  ptr : Nat
  top : Nat
  aslr : Bool
  /-- bare-metal loaders map no stack and bind no symbol. -/
  bare : Bool
  /-- `linux32/arm.py` `Task.setx(pc_, entry)`: an odd entry point selects Thumb state and the program
      counter is the entry point with bit 0 cleared (`v = (v >> 1) << 1`). -/
  thumb : Bool
  deriving Repr, DecidableEq, Inhabited

/-- `stack_base = top & ~(PAGESIZE-1)` -/
def stackBase (c : Cfg) : Nat := pageStart c.ps c.top
def stackSize (c : Cfg) : Nat := 2 * c.ps
def stackLo (c : Cfg) : Nat := stackBase c - stackSize c

/-- `p.state.mmap.write(stack_base - stack_size, b"\0" * stack_size)`; a negative address does not
    occur for the page sizes the stack fits under `top`. -/
def stackWrites (c : Cfg) : List WriteOp :=
  if c.aslr || c.bare then [] else [(((stackBase c : Int) - (stackSize c : Int)), .raw (zeros (stackSize c)), .little)]

structure ElfImage where
  file : Bytes
  phdrs : List Phdr
  entry : Nat
  /-- relocation entries with `r_offset ≠ 0` of all `SHT_REL`/`SHT_RELA` sections, in section and
      entry order (read when `.dynstr` exists). -/
  relocs : List Reloc
  deriving Repr, Inhabited

/-- are the relocation slots bound (`if bprm.dynamic and interp: self.load_elf_interp(p)`)? -/
def bindsSymbols (c : Cfg) (img : ElfImage) : Bool :=
  !c.bare && isDynamic img.phdrs && interpNonEmpty img.file img.phdrs

def elfSlots (c : Cfg) (img : ElfImage) : List Reloc :=
  if bindsSymbols c img then relocDict img.relocs else []

/-- every write of `load_elf_binary`, oldest first. -/
def elfWrites (fx : Fix) (c : Cfg) (img : ElfImage) : List WriteOp :=
  segWrites fx img.file c.ps img.phdrs ++ stackWrites c ++ slotWrites c.ptr (elfSlots c img)

/-- the loaded task: memory zone and program counter. -/
structure Task where
  zone : Zone
  pc : Nat
  deriving Repr, Inhabited

/-- `p.state[pc] = cst(e_entry, 8*ptr)` (ARM: bit 0 cleared). -/
def entryPc (c : Cfg) (entry : Nat) : Nat :=
  let v := entry % 2 ^ (8 * c.ptr)
  if c.thumb then v / 2 * 2 else v

/-- `OS.load_elf_binary(bprm)`; `none`: an exception escapes (negative `seek`) and `load_program`
    yields no task. -/
def loadElf (fx : Fix) (c : Cfg) (img : ElfImage) : Option Task :=
  if (loads img.phdrs).all (Phdr.seekOk c.ps) then
    some ⟨writesZone (elfWrites fx c img), entryPc c img.entry⟩
  else none

/-! ## what a kernel accepts -/

/-- one `PT_LOAD` as the loader accepts it: the in-page offset of the address does not exceed the file
    offset (`p_vaddr & (ps-1) ≤ p_offset`, otherwise `seek` gets a negative position) — in particular every
    segment whose offset and address agree modulo the page (`SegCongruent`, what a linker produces), but also
    unaligned segments (`p_align` 0/1) —, `filesz ≤ memsz`, not empty, file part inside the file. -/
def SegOK (file : Bytes) (ps : Nat) (s : Phdr) : Prop :=
  pageOffset ps s.vaddr ≤ s.offset ∧ s.filesz ≤ s.memsz ∧ 0 < s.memsz ∧
  s.offset + s.filesz ≤ file.length

/-- `p_offset & (ps-1) = p_vaddr & (ps-1)`; for a power of two `p_offset ≡ p_vaddr (mod ps)`. -/
def SegCongruent (ps : Nat) (s : Phdr) : Prop := pageOffset ps s.offset = pageOffset ps s.vaddr

/-- an earlier segment `s` and a later one `t`: ordered and disjoint in memory, and the page-rounded
    mapping of `t` either starts behind `s`, or shows the same file bytes as `s` does (same
    address-to-offset delta) and `s` has no zero-filled part on that page. -/
def NoClobber (ps : Nat) (s t : Phdr) : Prop :=
  s.vaddr + s.memsz ≤ t.vaddr ∧
  (s.vaddr + s.memsz ≤ pageStart ps t.vaddr ∨
   (t.offset + s.vaddr = s.offset + t.vaddr ∧ s.memsz = s.filesz))

/-- the stack pages lie apart from every segment (or no stack is mapped). -/
def StackApart (c : Cfg) (ls : List Phdr) : Prop :=
  c.aslr = true ∨ c.bare = true ∨
  (stackSize c ≤ stackBase c ∧ ∀ s ∈ ls, s.vaddr + s.memsz ≤ stackLo c ∨ stackBase c ≤ s.vaddr)

/-- an image a kernel would map as the file says. -/
def LoadableOK (c : Cfg) (img : ElfImage) : Prop :=
  0 < c.ps ∧ 0 < c.ptr ∧ img.entry < 2 ^ (8 * c.ptr) ∧
  (∀ s ∈ loads img.phdrs, SegOK img.file c.ps s) ∧
  (loads img.phdrs).Pairwise (NoClobber c.ps) ∧
  StackApart c (loads img.phdrs)

instance (file : Bytes) (ps : Nat) (s : Phdr) : Decidable (SegOK file ps s) := by
  unfold SegOK; infer_instance
instance (ps : Nat) (s : Phdr) : Decidable (SegCongruent ps s) := by
  unfold SegCongruent; infer_instance
instance (ps : Nat) (s t : Phdr) : Decidable (NoClobber ps s t) := by
  unfold NoClobber; infer_instance
instance (c : Cfg) (ls : List Phdr) : Decidable (StackApart c ls) := by
  unfold StackApart; infer_instance
instance (c : Cfg) (img : ElfImage) : Decidable (LoadableOK c img) := by
  unfold LoadableOK; infer_instance

/-- an address lies in no relocation slot. -/
def notInSlots (n : Nat) (slots : List Reloc) (a : Nat) : Prop :=
  ∀ r ∈ slots, a < r.1 ∨ r.1 + n ≤ a

instance (n : Nat) (slots : List Reloc) (a : Nat) : Decidable (notInSlots n slots a) := by
  unfold notInSlots; infer_instance

/-! ## instruction fetch -/

/-- the bytes of the leading `bytes` items of a read result, joined. -/
def joinRaw : List Item → Bytes
  | .data (.raw bs) _ :: rest => bs ++ joinRaw rest
  | _ => []

/-- `CoreExec.read_instruction`: `istr = mmap.read(vaddr, maxlen)`; when `istr[0]` is a `bytes` object
    the disassembler is handed `istr[0]` joined with the `bytes` items that directly follow it (with the
    proposed repair `C15-read-instruction-joins-adjacent-bytes.diff`; the code as it is hands over
    `istr[0]` alone, `Fix.none`); otherwise `istr[0]` decides (an `ext` is returned as a stub, anything
    else gives `None`). -/
def fetch (fx : Fix) (z : Zone) (a : Int) (maxlen : Nat) : Option Item :=
  match z.read a maxlen with
  | [] => none
  | .data (.raw bs) en :: rest =>
    (match fx with
     | .none => some (.data (.raw bs) en)
     | .repaired => some (.data (.raw (bs ++ joinRaw rest)) en))
  | it :: _ => some it

/-! ## PE -/

structure PeSection where
  rva : Nat
  vsize : Nat
  rawptr : Nat
  rawsize : Nat
  /-- `Characteristics == IMAGE_SCN_LNK_REMOVE` (the loader raises on such a section) -/
  removed : Bool
  deriving Repr, DecidableEq, Inhabited

/-- `PE.loadsegment(S, pagesize)` bytes: `data[sta:sto].ljust(VirtualSize).ljust(pagesize, b"\0")`. -/
def peBytes (fx : Fix) (file : Bytes) (salign : Nat) (s : PeSection) : Bytes :=
  let b := fileRead file s.rawptr s.rawsize
  let b := ljust b s.vsize (match fx with | .none => 0x20 | .repaired => 0)
  if salign ≠ 0 then ljust b salign 0 else b

structure PeImage where
  file : Bytes
  base : Nat
  salign : Nat
  sections : List PeSection
  entryRva : Nat
  stackReserve : Nat
  /-- `pe.functions` : import-address-table slots in dict order. -/
  iat : List Reloc
  deriving Repr, Inhabited

def peSectionWrites (fx : Fix) (img : PeImage) : List WriteOp :=
  img.sections.map (fun s => rawWrite (img.base + s.rva) (peBytes fx img.file img.salign s))

def peStackWrites (c : Cfg) (img : PeImage) : List WriteOp :=
  if c.aslr then [] else
    [(((stackBase c : Int) - (img.stackReserve : Int)), .raw (zeros img.stackReserve), .little)]

def peWrites (fx : Fix) (c : Cfg) (img : PeImage) : List WriteOp :=
  peSectionWrites fx img ++ peStackWrites c img ++ slotWrites c.ptr (relocDict img.iat)

/-- `OS.load_pe_binary(pe)`.  A section whose `Characteristics` equal `IMAGE_SCN_LNK_REMOVE` makes
    `PE.loadsegment` compare the section header with `0` (`elif S == 0`), which raises: no task. -/
def loadPe (fx : Fix) (c : Cfg) (img : PeImage) : Option Task :=
  if img.sections.any (·.removed) then none
  else some ⟨writesZone (peWrites fx c img), (img.entryRva + img.base) % 2 ^ (8 * c.ptr)⟩

/-! ## Mach-O (`osx/x64.py`) -/

structure MachSeg where
  vmaddr : Nat
  vmsize : Nat
  fileoff : Nat
  filesize : Nat
  /-- `segname.startswith(b"__PAGEZERO\0")` -/
  pagezero : Bool
  deriving Repr, DecidableEq, Inhabited

/-- `bprm.readsegment(s).ljust(s.vmsize, b"\0")` -/
def machBytes (file : Bytes) (s : MachSeg) : Bytes := ljust (fileRead file s.fileoff s.filesize) s.vmsize 0

def machSegWrites (file : Bytes) (segs : List MachSeg) : List WriteOp :=
  (segs.filter (fun s => !s.pagezero)).map (fun s => rawWrite s.vmaddr (machBytes file s))

structure MachImage where
  file : Bytes
  segs : List MachSeg
  /-- `(stack_size)` when a stack is created (`LC_UNIXTHREAD`: 2 pages; `LC_MAIN` with `stacksize`). -/
  stack : Option Nat
  /-- `la_symbol_ptr` slots when `dynamic and interp`. -/
  slots : List Reloc
  entry : Nat
  deriving Repr, Inhabited

def machWrites (c : Cfg) (img : MachImage) : List WriteOp :=
  machSegWrites img.file img.segs ++
  (match img.stack with
   | some sz => if c.aslr then [] else [(((stackBase c : Int) - (sz : Int)), .raw (zeros sz), .little)]
   | none => []) ++
  slotWrites c.ptr (relocDict img.slots)

def loadMach (c : Cfg) (img : MachImage) : Task :=
  ⟨writesZone (machWrites c img), img.entry % 2 ^ (8 * c.ptr)⟩

/-! ## raw / HEX / SREC (`RawExec.auto_load`) -/

/-- a data record `(address, bytes)` of a HEX / SREC file, or the whole file at 0 for raw input. -/
abbrev Record := Nat × Bytes

def recordWrites (rs : List Record) : List WriteOp := rs.map (fun r => rawWrite r.1 r.2)

/-- `self.state[pc] = cst(entry, pc.size)` -/
def loadRecords (rs : List Record) (entry pcbits : Nat) : Task :=
  ⟨writesZone (recordWrites rs), entry % 2 ^ pcbits⟩

/-- `RawExec.relocate(vaddr)`: every object of the concrete zone is moved by `vaddr - zone.range()[0]`,
    `restruct()` rebuilds the cache (and merges adjacent raw objects), `pc := vaddr`. -/
def relocate (t : Task) (vaddr pcbits : Nat) : Task :=
  ⟨(t.zone.shift ((vaddr : Int) - t.zone.range.1)).restruct, vaddr % 2 ^ pcbits⟩

/-- Intel-HEX address composition of `HEX.decode` (`if ela: (ela<<16)+a elif seg: seg*16+a else a`). -/
def hexAddress (ela seg a : Nat) : Nat :=
  if ela ≠ 0 then ela * 65536 + a else if seg ≠ 0 then seg * 16 + a else a

end Amoco.Loader
