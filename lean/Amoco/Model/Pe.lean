/-
  Amoco.Model.Pe — byte-level model of what `amoco.system.pe.PE.__init__` does with the bytes of a
  file up to and including the section table (`amoco/system/pe.py`, structures shared with
  `coff.py`), of `PE.locate` / `PE.getfileoffset`, and — separately, in `namespace Ref` — a reader
  written from the PE/COFF specification (Microsoft "PE Format", §2 "File Headers", §3 "Section
  Table"): fixed offset tables, its own little-endian primitive.

  Layering (model):
  * `Field`, `unpackFields`, `structUnpack` : `StructCore.unpack` over raw fields — every field is
    aligned relative to the start of the structure (`offset = base + f.align(offset-base)`),
    `struct.unpack` on `data[offset:offset+size]` (short read: `struct.error`), every exception of
    a field is re-raised as `StructureError`;
  * `dosFields … secFields` : the `@StructDefine` field lists; `optFields` applies the in-place
    patch of `OptionalHdr.unpack` for the PE32+ magic (`f.pop(8)`, `typename = "Q"` at 8,23..26)
    exactly as coded; `structLen` is `StructCore.__len__`;
  * `peParseRaw` : `PE.__parse` up to the section loop, in `Except PyExn` (which exception class is
    raised where); `peInit` : `PE.__init__`'s wrapper (`PEError`/`StructureError` pass, everything
    else becomes `PEError`).  The stages after the section table (`__functions`, `__tls`) are not
    in this model.
  * `locate`, `getfileoffset`.

  `DataIO` is always truthy (no `__len__`/`__bool__`), so the `if data:` guards of the structure
  constructors never skip the unpack.  Every offset formed here is below 2^32 + 2^17 + 40·2^16,
  far from the 2^63 where `BytesIO.seek` would raise `OverflowError`.

  Core Lean only, no imports.
-/

namespace Amoco.Pe

abbrev Bytes := List Nat

/-- little-endian value -/
def leVal : Bytes → Nat
  | [] => 0
  | b :: t => b + 256 * leVal t

/-- big-endian value (byte strings `c*n`, `s*n` are reported as the number their bytes spell) -/
def beVal (bs : Bytes) : Nat := bs.foldl (fun a b => a * 256 + b) 0

/-- `data[off : off+n]` -/
def slice (data : Bytes) (off n : Nat) : Bytes := (data.drop off).take n

/-- exception classes that occur in this part of the code -/
inductive PyExn
  | peError          -- amoco.system.pe.PEError
  | structureError   -- amoco.system.structs.StructureError
  | structError      -- struct.error (short read)
  | attributeError   -- AttributeError (`0 .PointerToRawData`, `None.PointerToRawData`)
  deriving DecidableEq, Repr, Inhabited

abbrev Py := Except PyExn

/-- a format (PE-class) error: what `read_program` catches for the PE constructor -/
def PyExn.isFormat : PyExn → Bool
  | .peError => true
  | .structureError => true
  | _ => false

inductive Kind
  | le      -- integer, little-endian (`B H I Q`)
  | bytes   -- `c*n` / `s*n`
  | pad     -- `x*n`
  deriving DecidableEq, Repr, Inhabited

structure Field where
  name : String
  esize : Nat       -- `struct.calcsize(typename)`: size of one element = alignment of the field
  count : Nat       -- 0: scalar, n>0: `typename*n`
  kind : Kind
  deriving Repr, Inhabited

def Field.nbytes (f : Field) : Nat := if f.count == 0 then f.esize else f.esize * f.count

/-- `Field.align` -/
def alignUp (off a : Nat) : Nat :=
  if a == 0 then off else if off % a == 0 then off else off + (a - off % a)

def fieldVal (k : Kind) (bs : Bytes) : Nat :=
  match k with
  | .le => leVal bs
  | .bytes => beVal bs
  | .pad => 0

/-- `RawField.unpack(data, offset)` -/
def rdField (f : Field) (data : Bytes) (off : Nat) : Py Nat :=
  let bs := slice data off f.nbytes
  if bs.length == f.nbytes then .ok (fieldVal f.kind bs) else .error .structError

/-- unpacked values, in field order -/
abbrev Rec := List Nat

def Rec.nth (r : Rec) (i : Nat) : Nat := r.getD i 0

/-- the field loop of `StructCore.unpack` without its exception wrapper; `rel` is the running
    offset relative to `base`. -/
def unpackFields : List Field → Bytes → Nat → Nat → Py Rec
  | [], _, _, _ => .ok []
  | f :: fs, data, base, rel =>
    let rel' := alignUp rel f.esize
    match rdField f data (base + rel') with
    | .error e => .error e
    | .ok v =>
      match unpackFields fs data base (rel' + f.nbytes) with
      | .error e => .error e
      | .ok r => .ok (v :: r)

/-- `StructCore.unpack`: `except Exception: raise StructureError(name)` around every field -/
def structUnpack (fs : List Field) (data : Bytes) (base : Nat) : Py Rec :=
  match unpackFields fs data base 0 with
  | .error _ => .error .structureError
  | .ok r => .ok r

/-- end of the last field relative to the structure's start -/
def layoutEnd : List Field → Nat → Nat
  | [], rel => rel
  | f :: fs, rel => layoutEnd fs (alignUp rel f.esize + f.nbytes)

def maxAlign (fs : List Field) : Nat := fs.foldl (fun a f => max a f.esize) 0

/-- `StructCore.__len__` (all fields of these structures are raw and unpacked) -/
def structLen (fs : List Field) : Nat :=
  alignUp (layoutEnd fs 0) (maxAlign fs)

/-! ## the structures of pe.py -/

def dosFields : List Field :=
  [⟨"e_magic", 1, 2, .bytes⟩, ⟨"unused", 1, 58, .pad⟩, ⟨"e_lfanew", 4, 0, .le⟩]

def coffFields : List Field :=
  [⟨"Signature", 4, 0, .le⟩, ⟨"Machine", 2, 0, .le⟩, ⟨"NumberOfSections", 2, 0, .le⟩,
   ⟨"TimeDateStamp", 4, 0, .le⟩, ⟨"PointerToSymbolTable", 4, 0, .le⟩, ⟨"NumberOfSymbols", 4, 0, .le⟩,
   ⟨"SizeOfOptionalHeader", 2, 0, .le⟩, ⟨"Characteristics", 2, 0, .le⟩]

/-- the `@StructDefine` of `OptionalHdr` (the PE32 layout) -/
def opt32Fields : List Field :=
  [⟨"Magic", 2, 0, .le⟩, ⟨"MajorLinkerVersion", 1, 0, .le⟩, ⟨"MinorLinkerVersion", 1, 0, .le⟩,
   ⟨"SizeOfCode", 4, 0, .le⟩, ⟨"SizeOfInitializedData", 4, 0, .le⟩, ⟨"SizeOfUninitializedData", 4, 0, .le⟩,
   ⟨"AddressOfEntryPoint", 4, 0, .le⟩, ⟨"BaseOfCode", 4, 0, .le⟩, ⟨"BaseOfData", 4, 0, .le⟩,
   ⟨"ImageBase", 4, 0, .le⟩, ⟨"SectionAlignment", 4, 0, .le⟩, ⟨"FileAlignment", 4, 0, .le⟩,
   ⟨"MajorOperatingSystemVersion", 2, 0, .le⟩, ⟨"MinorOperatingSystemVersion", 2, 0, .le⟩,
   ⟨"MajorImageVersion", 2, 0, .le⟩, ⟨"MinorImageVersion", 2, 0, .le⟩,
   ⟨"MajorSubsystemVersion", 2, 0, .le⟩, ⟨"MinorSubsystemVersion", 2, 0, .le⟩,
   ⟨"Win32VersionValue", 4, 0, .le⟩, ⟨"SizeOfImage", 4, 0, .le⟩, ⟨"SizeOfHeaders", 4, 0, .le⟩,
   ⟨"CheckSum", 4, 0, .le⟩, ⟨"Subsystem", 2, 0, .le⟩, ⟨"DllCharacteristics", 2, 0, .le⟩,
   ⟨"SizeOfStackReserve", 4, 0, .le⟩, ⟨"SizeOfStackCommit", 4, 0, .le⟩,
   ⟨"SizeOfHeapReserve", 4, 0, .le⟩, ⟨"SizeOfHeapCommit", 4, 0, .le⟩,
   ⟨"LoaderFlags", 4, 0, .le⟩, ⟨"NumberOfRvaAndSizes", 4, 0, .le⟩]

/-- `f[x].typename = "Q"` -/
def setQ (fs : List Field) (i : Nat) : List Field :=
  fs.modify i (fun f => { f with esize := 8 })

/-- the field list `OptionalHdr.unpack` works with, chosen by `data[offset:offset+2]`:
    `b"\x0b\x02"` → `f.pop(8)`, then `typename = "Q"` for 8, 23, 24, 25, 26; every other magic
    (PE32, ROM, unknown) → the list as defined. -/
def optFields (magic : Bytes) : List Field :=
  if magic == [0x0b, 0x02] then
    [8, 23, 24, 25, 26].foldl setQ (opt32Fields.eraseIdx 8)
  else opt32Fields

def ddFields : List Field := [⟨"RVA", 4, 0, .le⟩, ⟨"Size", 4, 0, .le⟩]

def secFields : List Field :=
  [⟨"Name", 1, 8, .bytes⟩, ⟨"VirtualSize", 4, 0, .le⟩, ⟨"RVA", 4, 0, .le⟩, ⟨"SizeOfRawData", 4, 0, .le⟩,
   ⟨"PointerToRawData", 4, 0, .le⟩, ⟨"PointerToRelocations", 4, 0, .le⟩, ⟨"PointerToLineNumbers", 4, 0, .le⟩,
   ⟨"NumberOfRelocations", 2, 0, .le⟩, ⟨"NumberOfLineNumbers", 2, 0, .le⟩, ⟨"Characteristics", 4, 0, .le⟩]

/-- number of names in `dnames` (`IMAGE_NUMBEROF_DIRECTORY_ENTRIES`) -/
def maxDirs : Nat := 16

/-! ## the constructor -/

structure PeObj where
  lfanew : Nat
  plus : Bool            -- the PE32+ field list was used
  nt : Rec               -- COFFHdr, 8 values
  opt : Rec              -- OptionalHdr, 30 (PE32) or 29 (PE32+) values
  dirs : List Rec        -- DataDirectories in `dnames` order, [RVA, Size]
  sections : List Rec    -- SectionHdr, 10 values each
  deriving Repr, DecidableEq, Inhabited

/-- `for i in range(n): s = S(data, offset); l.append(s); offset += len(s)` -/
def tableLoop (fs : List Field) (data : Bytes) : Nat → Nat → Py (List Rec)
  | 0, _ => .ok []
  | n + 1, off =>
    match structUnpack fs data off with
    | .error e => .error e
    | .ok s =>
      match tableLoop fs data n (off + structLen fs) with
      | .error e => .error e
      | .ok l => .ok (s :: l)

/-- `DOSHdr(data)`: unpack, then `if self.e_magic != b"MZ": raise PEError` -/
def dosHdr (data : Bytes) : Py Rec :=
  match structUnpack dosFields data 0 with
  | .error e => .error e
  | .ok r => if slice data 0 2 == [0x4d, 0x5a] then .ok r else .error .peError

/-- `COFFHdr(data, offset)`: unpack, then `if self.Signature != IMAGE_NT_SIGNATURE: raise PEError` -/
def coffHdr (data : Bytes) (off : Nat) : Py Rec :=
  match structUnpack coffFields data off with
  | .error e => .error e
  | .ok r => if r.nth 0 == 0x4550 then .ok r else .error .peError

/-- index of `NumberOfRvaAndSizes` / `ImageBase` / `SizeOfImage` / `AddressOfEntryPoint` in the record -/
def idxNdirs (plus : Bool) : Nat := if plus then 28 else 29
def idxImageBase (plus : Bool) : Nat := if plus then 8 else 9
def idxSizeOfImage (plus : Bool) : Nat := if plus then 18 else 19
def idxEntry : Nat := 6

/-- `OptionalHdr(data, offset)`: the patched structure, then
    `for dn in range(min(self.NumberOfRvaAndSizes, len(dnames)))` data directories from
    `offset + len(self)` (the directories dict is still empty there). -/
def optHdr (data : Bytes) (off : Nat) : Py (Bool × Rec × List Rec) :=
  let magic := slice data off 2
  let plus := magic == [0x0b, 0x02]
  let fs := optFields magic
  match structUnpack fs data off with
  | .error e => .error e
  | .ok r =>
    match tableLoop ddFields data (min (r.nth (idxNdirs plus)) maxDirs) (off + structLen fs) with
    | .error e => .error e
    | .ok ds => .ok (plus, r, ds)

/-- `PE.__parse` up to the end of the section loop. -/
def peParseRaw (data : Bytes) : Py PeObj :=
  match dosHdr data with
  | .error _ => .error .peError                 -- `except Exception: raise PEError("not a DOSHdr")`
  | .ok dos =>
    let lf := dos.nth 2
    match coffHdr data lf with
    | .error e => .error e
    | .ok nt =>
      match optHdr data (lf + structLen coffFields) with
      | .error e => .error e
      | .ok (plus, opt, ds) =>
        -- offset = e_lfanew + len(NT) + NT.SizeOfOptionalHeader ; NT.NumberOfSections entries
        match tableLoop secFields data (nt.nth 2) (lf + structLen coffFields + nt.nth 6) with
        | .error e => .error e
        | .ok secs => .ok { lfanew := lf, plus := plus, nt := nt, opt := opt, dirs := ds, sections := secs }

/-- `PE.__init__`: `except (PEError, StructureError): raise` / `except Exception as e: raise PEError` -/
def peInit (data : Bytes) : Py PeObj :=
  match peParseRaw data with
  | .ok o => .ok o
  | .error .peError => .error .peError
  | .error .structureError => .error .structureError
  | .error _ => .error .peError

def PeObj.basemap (o : PeObj) : Nat := o.opt.nth (idxImageBase o.plus)
def PeObj.entry (o : PeObj) : Nat := o.opt.nth idxEntry + o.basemap

/-! ## `locate` / `getfileoffset` -/

def IMAGE_SCN_LNK_REMOVE : Nat := 0x800

inductive Loc
  | sec (index : Nat) (offset : Int)    -- `(s, addr - s.RVA)`
  | hdr (addr : Int)                    -- `(0, addr)`
  | unmapped                            -- `(None, 0)`
  deriving Repr, DecidableEq, Inhabited

/-- the `for s in self.sections` loop of `locate` (section = [Name, VirtualSize, RVA, …, Characteristics]) -/
def locateSecs : List Rec → Nat → Int → Option (Nat × Int)
  | [], _, _ => none
  | s :: ss, i, addr =>
    if s.nth 9 == IMAGE_SCN_LNK_REMOVE then locateSecs ss (i + 1) addr
    else if (s.nth 2 : Int) ≤ addr ∧ addr < (s.nth 2 : Int) + (s.nth 1 : Int) then some (i, addr - (s.nth 2 : Int))
    else locateSecs ss (i + 1) addr

def locate (o : PeObj) (addr : Int) (absolute : Bool) : Loc :=
  let a := if absolute then addr - (o.basemap : Int) else addr
  match locateSecs o.sections 0 a with
  | some (i, off) => .sec i off
  | none => if 0 ≤ a ∧ a < (o.opt.nth (idxSizeOfImage o.plus) : Int) then .hdr a else .unmapped

/-- `s, offset = self.locate(addr, absolute=True); return s.PointerToRawData + offset` -/
def getfileoffset (o : PeObj) (addr : Int) : Py Int :=
  match locate o addr true with
  | .sec i off => .ok (((o.sections.getD i []).nth 4 : Int) + off)
  | _ => .error .attributeError

/-! ## reference reader, from the PE/COFF specification -/

namespace Ref

/-- `n` bytes of `l`, little-endian; bytes beyond the end read as 0 -/
def leTake : Bytes → Nat → Nat
  | _, 0 => 0
  | [], _ + 1 => 0
  | b :: t, n + 1 => b + 256 * leTake t n

/-- the same, big-endian with an accumulator (an 8-byte name as one number) -/
def beTake : Bytes → Nat → Nat → Nat
  | _, 0, acc => acc
  | [], _ + 1, acc => acc
  | b :: t, n + 1, acc => beTake t n (acc * 256 + b)

def uN (data : Bytes) (off n : Nat) : Nat := leTake (data.drop off) n
def u16 (data : Bytes) (off : Nat) : Nat := uN data off 2
def u32 (data : Bytes) (off : Nat) : Nat := uN data off 4

/-- (is-a-byte-string, offset, size) -/
abbrev Spec := List (Bool × Nat × Nat)

/-- COFF file header (spec §2.3 "COFF File Header", preceded by the 4-byte signature) -/
def coffSpec : Spec :=
  [(false, 0, 4), (false, 4, 2), (false, 6, 2), (false, 8, 4), (false, 12, 4), (false, 16, 4),
   (false, 20, 2), (false, 22, 2)]

/-- Optional header, PE32: standard fields (§2.4.1) offsets 0–27, Windows-specific (§2.4.2) 28–95 -/
def opt32Spec : Spec :=
  [(false, 0, 2), (false, 2, 1), (false, 3, 1), (false, 4, 4), (false, 8, 4), (false, 12, 4),
   (false, 16, 4), (false, 20, 4), (false, 24, 4),
   (false, 28, 4), (false, 32, 4), (false, 36, 4), (false, 40, 2), (false, 42, 2), (false, 44, 2),
   (false, 46, 2), (false, 48, 2), (false, 50, 2), (false, 52, 4), (false, 56, 4), (false, 60, 4),
   (false, 64, 4), (false, 68, 2), (false, 70, 2), (false, 72, 4), (false, 76, 4), (false, 80, 4),
   (false, 84, 4), (false, 88, 4), (false, 92, 4)]

/-- Optional header, PE32+: no BaseOfData, ImageBase 8 bytes at 24, stack/heap sizes 8 bytes at
    72/80/88/96, LoaderFlags 104, NumberOfRvaAndSizes 108 -/
def opt64Spec : Spec :=
  [(false, 0, 2), (false, 2, 1), (false, 3, 1), (false, 4, 4), (false, 8, 4), (false, 12, 4),
   (false, 16, 4), (false, 20, 4),
   (false, 24, 8), (false, 32, 4), (false, 36, 4), (false, 40, 2), (false, 42, 2), (false, 44, 2),
   (false, 46, 2), (false, 48, 2), (false, 50, 2), (false, 52, 4), (false, 56, 4), (false, 60, 4),
   (false, 64, 4), (false, 68, 2), (false, 70, 2), (false, 72, 8), (false, 80, 8), (false, 88, 8),
   (false, 96, 8), (false, 104, 4), (false, 108, 4)]

def ddSpec : Spec := [(false, 0, 4), (false, 4, 4)]

/-- Section header (§3 "Section Table"), 40 bytes -/
def secSpec : Spec :=
  [(true, 0, 8), (false, 8, 4), (false, 12, 4), (false, 16, 4), (false, 20, 4), (false, 24, 4),
   (false, 28, 4), (false, 32, 2), (false, 34, 2), (false, 36, 4)]

def rd (data : Bytes) (base : Nat) (e : Bool × Nat × Nat) : Nat :=
  if e.1 then beTake (data.drop (base + e.2.1)) e.2.2 0 else leTake (data.drop (base + e.2.1)) e.2.2

def readSpec (data : Bytes) (base : Nat) (s : Spec) : Rec := s.map (rd data base)

/-- The reader: e_lfanew at 0x3c; signature + COFF header at e_lfanew; optional header at +24,
    layout by its magic; NumberOfRvaAndSizes data directories after its fixed part (96 / 112);
    section table at e_lfanew + 24 + SizeOfOptionalHeader, 40 bytes per entry. -/
def refRead (data : Bytes) : PeObj :=
  let lf := u32 data 0x3c
  let o := lf + 24
  let plus := u16 data o == 0x20b
  let fixed := if plus then 112 else 96
  let nd := u32 data (o + fixed - 4)
  let nsec := u16 data (lf + 6)
  let soh := u16 data (lf + 20)
  { lfanew := lf
    plus := plus
    nt := readSpec data lf coffSpec
    opt := readSpec data o (if plus then opt64Spec else opt32Spec)
    dirs := (List.range nd).map (fun i => readSpec data (o + fixed + 8 * i) ddSpec)
    sections := (List.range nsec).map (fun i => readSpec data (o + soh + 40 * i) secSpec) }

/-- Well-formed PE image (header part): bytes are bytes; 'MZ'; e_lfanew points at 'PE\0\0' with a
    whole COFF header; optional-header magic PE32 or PE32+, fixed part present; at most 16 data
    directories, all present and inside SizeOfOptionalHeader; the whole section table present. -/
def PeWF (data : Bytes) : Bool :=
  let lf := u32 data 0x3c
  let o := lf + 24
  let magic := u16 data o
  let fixed := if magic == 0x20b then 112 else 96
  let nd := u32 data (o + fixed - 4)
  let nsec := u16 data (lf + 6)
  let soh := u16 data (lf + 20)
  data.all (· < 256) &&
  decide (64 ≤ data.length) && u16 data 0 == 0x5a4d &&
  decide (lf + 24 ≤ data.length) && u32 data lf == 0x4550 &&
  (magic == 0x10b || magic == 0x20b) &&
  decide (o + fixed ≤ data.length) &&
  decide (nd ≤ 16) && decide (fixed + 8 * nd ≤ soh) &&
  decide (o + soh + 40 * nsec ≤ data.length)

end Ref

end Amoco.Pe
