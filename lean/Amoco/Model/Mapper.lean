/-
  Amoco.Model.Mapper — the symbolic mapper of `amoco/cas/mapper.py` (properties C02, C09).

  What is modelled (names as in the code):
    `R`, `M`, `aliasing(k)`, `_Mem_read`, `_Mem_write`, `__getitem__`, `__setitem__` (register branch: a slice
    write becomes a composition over the old value; pointer branch: partial-overwrite composition with the
    bytes that stay in place read back from the map, delete-then-reinsert ordering, `lastw`, recorded byte
    order), `__call__` (with its empty-map shortcut), `eval`/`use` (rebuild of a map on a copy of its memory),
    `rcompose`, `mem.eval` (copy the environment, replay the mods, read), `ptr` normalisation
    (`extract_offset`), and `conf.Cas.noaliasing` / `conf.Cas.memtrace`.

  Expressions are a small language of their own (`E`): constants, registers, slices, compositions, pointer
  arithmetic `x + c`, binary operators with a *semantic function parameter*, and loads carrying the ordered
  list of earlier possibly-aliasing stores (`mem.mods`).  The algebra's rewriting is the business of C01; here
  constructors only fold constants.  The memory of a map is a list of zones of the C08 model
  (`Amoco.Memory.Zone`), keyed by the symbolic base (`none` = concrete addresses); stored values are interned
  in a table and a zone byte `sym w k` denotes byte `k` (value order) of table entry `w`.
  `_Mem_read` is modelled on the flattened read (`flattenItems`, one descriptor per byte; C08 `read_refines`
  says this is exactly what the real piece list contains).

  An instruction is an IR program: a list of statements `loc := e` whose right-hand sides are evaluated in
  the current map (`fmap[loc] = fmap(e)`).  `concExec` is the reference: sequential execution on registers
  and a byte memory.

  Core Lean only.
-/
import Amoco.Model.Memory

namespace Amoco.Mapper

open Amoco.Memory (Endian ByteDesc Zone Item Val flattenItems)

/-! ## Expressions -/

mutual
inductive E where
  | cst (v size : Nat)
  | reg (name : String) (size : Nat)
  | slc (x : E) (pos size : Nat)                 -- bits [pos, pos+size) of x
  | cat (lo hi : E)                              -- composition, `lo` in the low bits
  | addc (x : E) (c : Int)                       -- x + constant (pointer arithmetic)
  | op (o : String) (l r : E) (size : Nat)       -- binary operator, meaning given by a parameter
  | load (base : E) (disp : Int) (size : Nat) (be : Bool) (mods : Mods)
inductive Mods where
  | nil
  | cons (base : E) (disp : Int) (val : E) (be : Bool) (rest : Mods)
end

deriving instance DecidableEq for E, Mods
deriving instance Repr for E, Mods
instance : Inhabited E := ⟨.cst 0 0⟩

def E.size : E → Nat
  | .cst _ s => s
  | .reg _ s => s
  | .slc _ _ s => s
  | .cat lo hi => lo.size + hi.size
  | .addc x _ => x.size
  | .op _ _ _ s => s
  | .load _ _ s _ _ => s

def E.isCst : E → Bool
  | .cst .. => true
  | _ => false

def Mods.toList : Mods → List (E × Int × E × Bool)
  | .nil => []
  | .cons b d v be rest => (b, d, v, be) :: rest.toList

def Mods.ofList : List (E × Int × E × Bool) → Mods
  | [] => .nil
  | (b, d, v, be) :: rest => .cons b d v be (Mods.ofList rest)

/-! ### constructors as the code builds them (`slicer`, `composer`, `+`, `ptr`) — constants are folded -/

/-- `slicer(x, pos, size)`: the whole is the thing itself, a slice of a constant is a constant, a slice that
    falls inside one part of a composition is the slice of that part (`comp.__getitem__`), a slice of a slice
    is a slice of the underlying expression (`slc.__getitem__`). -/
def mkSlice : E → Nat → Nat → E
  | .cst v sz, pos, size =>
      if pos = 0 ∧ size = sz then .cst v sz else .cst (((v % 2 ^ sz) >>> pos) % 2 ^ size) size
  | .cat lo hi, pos, size =>
      if pos = 0 ∧ size = lo.size + hi.size then .cat lo hi
      else if pos + size ≤ lo.size then mkSlice lo pos size
      else if lo.size ≤ pos then mkSlice hi (pos - lo.size) size
      else .slc (.cat lo hi) pos size
  | .slc y p' s', pos, size =>
      if pos = 0 ∧ size = s' then .slc y p' s'
      else if pos + size ≤ s' then mkSlice y (p' + pos) size
      else .slc (.slc y p' s') pos size
  | .reg n s, pos, size => if pos = 0 ∧ size = s then .reg n s else .slc (.reg n s) pos size
  | .addc x c, pos, size => if pos = 0 ∧ size = x.size then .addc x c else .slc (.addc x c) pos size
  | .op o l r s, pos, size => if pos = 0 ∧ size = s then .op o l r s else .slc (.op o l r s) pos size
  | .load b d s be ms, pos, size =>
      if pos = 0 ∧ size = s then .load b d s be ms else .slc (.load b d s be ms) pos size

def mkCat (lo hi : E) : E :=
  match lo, hi with
  | .cst a sa, .cst b sb => .cst (a % 2 ^ sa + (b % 2 ^ sb) * 2 ^ sa) (sa + sb)
  | _, _ => .cat lo hi

/-- `composer(parts)`, parts from the least significant one. -/
def catList : List E → E
  | [] => .cst 0 0
  | [e] => e
  | e :: rest => mkCat e (catList rest)

/-- bits `[p, p+n)` of `x`, the whole being `x` itself -/
def mkWhole (x : E) (p n : Nat) : E := if p = 0 ∧ n = x.size then x else .slc x p n

/-- composition of two parts read back from memory: adjacent slices of one stored value are one slice of it
    (the real read returns the stored object, or one slice of it, in one piece; the model reads byte by byte
    and puts the bytes together again here) -/
def mkCatJ (lo hi : E) : E :=
  match lo, hi with
  | .slc x p s, .slc y q t => if x = y ∧ q = p + s then mkWhole x p (s + t) else mkCat lo hi
  | .slc x p s, .cat (.slc y q t) rest =>
      if x = y ∧ q = p + s then .cat (mkWhole x p (s + t)) rest else mkCat lo hi
  | _, _ => mkCat lo hi

def catListJ : List E → E
  | [] => .cst 0 0
  | [e] => e
  | e :: rest => mkCatJ e (catListJ rest)

/-- `x mod 2^w` of an integer -/
def wrap (w : Nat) (x : Int) : Nat := (x % ((2 ^ w : Nat) : Int)).toNat

def mkAddc (x : E) (c : Int) : E :=
  if c = 0 then x
  else match x with
    | .cst v s => .cst (wrap s ((v : Int) + c)) s
    | .addc y c' => if c' + c = 0 then y else .addc y (c' + c)
    | _ => .addc x c

/-- `ptr(base, disp)`: a constant offset of the base goes to the displacement (`extract_offset`). -/
def mkPtr (base : E) (disp : Int) : E × Int :=
  match base with
  | .addc x c => (x, disp + c)
  | _ => (base, disp)

/-! ## Concrete states and the reference meaning of expressions -/

/-- meaning of the binary operators: symbol, width, operands ↦ result. -/
abbrev OpSem := String → Nat → Nat → Nat → Nat

structure St where
  reg : String → Nat → Nat     -- (name, size) ↦ value (read modulo 2^size)
  mem : Int → Nat              -- address ↦ byte (read modulo 256)

/-- the address `(base + disp) mod 2^w` -/
def addrOf (w : Nat) (b : Nat) (disp : Int) : Int := (wrap w ((b : Int) + disp) : Nat)

/-- the `n` bytes at `a`, as a number (`be`: most significant byte first). -/
def readN (μ : Int → Nat) (a : Int) : Nat → Bool → Nat
  | 0, _ => 0
  | n + 1, false => μ a % 256 + 256 * readN μ (a + 1) n false
  | n + 1, true => readN μ a n true * 256 + μ (a + n) % 256

/-- byte `j` (memory order) of the `n`-byte value `v` -/
def byteAt (v n j : Nat) (be : Bool) : Nat :=
  if be then (v >>> (8 * (n - 1 - j))) % 256 else (v >>> (8 * j)) % 256

/-- the memory after storing the `n`-byte value `v` at `a` -/
def writeN (μ : Int → Nat) (a : Int) (n v : Nat) (be : Bool) : Int → Nat :=
  fun x => if a ≤ x ∧ x < a + n then byteAt v n (x - a).toNat be else μ x

mutual
/-- `ideal sem σ e`: the value of `e` in the state `σ`.  A load reads the memory of `σ` *after replaying
    its mods*, in order (locations and values of the mods are evaluated in `σ` itself) — the reading the
    property gives to "a load together with the ordered list of earlier possibly-aliasing stores". -/
def ideal (sem : OpSem) (σ : St) : E → Nat
  | .cst v s => v % 2 ^ s
  | .reg n s => σ.reg n s % 2 ^ s
  | .slc x p s => (ideal sem σ x >>> p) % 2 ^ s
  | .cat lo hi => ideal sem σ lo % 2 ^ lo.size + (ideal sem σ hi % 2 ^ hi.size) * 2 ^ lo.size
  | .addc x c => wrap x.size ((ideal sem σ x : Int) + c)
  | .op o l r s => sem o s (ideal sem σ l) (ideal sem σ r) % 2 ^ s
  | .load b d s be ms => readN (replayMods sem σ σ.mem ms) (addrOf b.size (ideal sem σ b) d) (s / 8) be
def replayMods (sem : OpSem) (σ : St) (μ : Int → Nat) : Mods → (Int → Nat)
  | .nil => μ
  | .cons b d v be rest =>
      replayMods sem σ (writeN μ (addrOf b.size (ideal sem σ b) d) (v.size / 8) (ideal sem σ v) be) rest
end

/-! ## The map -/

inductive Loc where
  | reg (name : String) (size : Nat)
  | ptr (base : E) (disp : Int)
  deriving DecidableEq, Repr, Inhabited

def Loc.isPtr : Loc → Bool
  | .ptr .. => true
  | .reg .. => false

/-- an item of the ordered map: location, value and — for a pointer — the byte order of the write. -/
structure Entry where
  loc : Loc
  val : E
  be : Bool
  deriving DecidableEq, Repr, Inhabited

/-- zone key: `none` = the zone of concrete addresses, `some b` = offsets relative to the expression `b`. -/
abbrev ZK := Option E

structure Cfg where
  noaliasing : Bool
  memtrace : Bool
  deriving Repr, DecidableEq, Inhabited

/-- memory writes are kept as items of the map (`conf.Cas.memtrace or not conf.Cas.noaliasing`) -/
def Cfg.records (c : Cfg) : Bool := c.memtrace || !c.noaliasing

structure MapSt where
  entries : List Entry               -- `__map` in dict order
  lastw : Nat                        -- `__map.lastw`
  zones : List (ZK × Zone)           -- `__Mem._zones` in dict order (the `None` zone is implicit)
  tbl : List E                       -- interned stored values: zone byte `sym w k` is byte k of `tbl[w]`
  deriving Inhabited

def MapSt.empty : MapSt := ⟨[], 0, [], []⟩

def zoneOf (zs : List (ZK × Zone)) (k : ZK) : Zone :=
  match zs.find? (fun kz => kz.1 = k) with
  | some kz => kz.2
  | none => Zone.empty

def setZone (zs : List (ZK × Zone)) (k : ZK) (z : Zone) : List (ZK × Zone) :=
  if zs.any (fun kz => kz.1 = k) then zs.map (fun kz => if kz.1 = k then (k, z) else kz)
  else zs ++ [(k, z)]

/-- `MemoryMap.reference(ptr(base, disp))`: zone key and offset. -/
def zref (base : E) (disp : Int) : ZK × Int :=
  match base with
  | .cst v s => (none, (wrap s ((v : Int) + disp) : Nat))
  | _ => (some base, disp)

def enOf (be : Bool) : Endian := if be then .big else .little

def MapSt.lookup (m : MapSt) (l : Loc) : Option Entry := m.entries.find? (fun e => e.loc = l)

/-- `R(x)`: the expression of register x -/
def MapSt.R (m : MapSt) (name : String) (size : Nat) : E :=
  match m.lookup (.reg name size) with
  | some e => e.val
  | none => .reg name size

/-- the expression of one stored byte -/
def byteE (tbl : List E) : ByteDesc → E
  | .raw b => .cst (b % 256) 8
  | .sym w k => mkSlice (tbl.getD w (.cst 0 0)) (8 * k) 8

/-- the per-byte expressions of a flattened read starting `cur` bytes after `(base, disp)`, memory order;
    an unmapped byte is the input memory at that address (`mem(a, 8, disp=cur, endian)`). -/
def readParts (tbl : List E) (base : E) (disp : Int) (be : Bool) : Nat → List (Option ByteDesc) → List E
  | _, [] => []
  | cur, some bd :: rest => byteE tbl bd :: readParts tbl base disp be (cur + 1) rest
  | cur, none :: rest => .load base (disp + cur) 8 be .nil :: readParts tbl base disp be (cur + 1) rest

/-- `_Mem_read(ptr(base, disp), l, endian)` -/
def memRead (m : MapSt) (base : E) (disp : Int) (l : Nat) (be : Bool) : E :=
  let (zk, off) := zref base disp
  let bytes := flattenItems ((zoneOf m.zones zk).read off l)
  let parts := readParts m.tbl base disp be 0 bytes
  catListJ (if be then parts.reverse else parts)

def Entry.otherBase (base : E) (e : Entry) : Bool :=
  match e.loc with
  | .ptr b _ => b != base
  | .reg .. => false

/-- where `aliasing(k)` starts scanning (`K[i+1:n]`): after the item of this very location if it is at least
    as wide as the read, else from the start. -/
def aliasStart (m : MapSt) (base : E) (disp : Int) (size : Nat) : Nat :=
  match m.entries.findIdx? (fun e => e.loc = .ptr base disp) with
  | some i => if (m.entries.getD i default).val.size < size then 0 else i + 1
  | none => 0

/-- `aliasing(k)` for `k = mem(ptr(base, disp), size)`: 0, or `lastw` when a write through another base
    follows the last covering write to this very location. -/
def aliasing (cfg : Cfg) (m : MapSt) (base : E) (disp : Int) (size : Nat) : Nat :=
  if cfg.noaliasing then 0
  else if ((m.entries.take m.lastw).drop (aliasStart m base disp size)).any (Entry.otherBase base) then m.lastw
  else 0

def modsOf : List Entry → Mods
  | [] => .nil
  | e :: rest =>
    match e.loc with
    | .ptr b d => .cons b d e.val e.be (modsOf rest)
    | .reg .. => modsOf rest

/-- `M(mem(ptr(base, disp), size, endian))` -/
def MapSt.M (cfg : Cfg) (m : MapSt) (base : E) (disp : Int) (size : Nat) (be : Bool) : E :=
  let n := aliasing cfg m base disp size
  if n > 0 then .load base disp size be (modsOf (m.entries.take n))
  else memRead m base disp (size / 8) be

/-- the zone value of a stored expression of `n` bytes interned as atom `w` (`datadiv.__init__`: a constant
    is stored as its bytes). -/
def toVal (w : Nat) (v : E) (n : Nat) : Val :=
  match v with
  | .cst c s => .ex ((List.range n).map (fun k => ByteDesc.raw (((c % 2 ^ s) >>> (8 * k)) % 256)))
  | _ => .ex ((List.range n).map (fun k => ByteDesc.sym w k))

/-- `_Mem_write(ptr(base, disp), v, endian)`: write into the zone, drop the location from the map. -/
def memWrite (m : MapSt) (base : E) (disp : Int) (v : E) (be : Bool) : MapSt :=
  let (zk, off) := zref base disp
  let z := zoneOf m.zones zk
  let z' := z.write off (toVal m.tbl.length v (v.size / 8)) (enOf be)
  { m with zones := setZone m.zones zk z'
           tbl := m.tbl ++ [v]
           entries := m.entries.filter (fun e => e.loc != .ptr base disp) }

/-- `__setitem__`, pointer branch (`loc = ptr(base, disp)`, right-value `v`, byte order `be`). -/
def MapSt.setPtr (cfg : Cfg) (m : MapSt) (base : E) (disp : Int) (v : E) (be : Bool) : MapSt :=
  let r :=
    match m.lookup (.ptr base disp) with
    | some old =>
      if old.val.size > v.size then
        -- the bytes of the previous, wider write that stay in place, read back from the map
        let rest := m.M cfg base (disp + (v.size / 8 : Nat)) (old.val.size - v.size) be
        if be then mkCat rest v else mkCat v rest
      else v
    | none => v
  let m1 := memWrite m base disp r be
  if cfg.records then
    { m1 with lastw := m1.entries.length + 1
              entries := m1.entries ++ [⟨.ptr base disp, r, be⟩] }
  else m1

/-- `dict[k] = v`: an existing key keeps its position -/
def setEntry (es : List Entry) (l : Loc) (v : E) : List Entry :=
  if es.any (fun e => e.loc = l) then es.map (fun e => if e.loc = l then { e with val := v } else e)
  else es ++ [⟨l, v, false⟩]

/-- `r[pos:pos+size] = v` on the `rs`-bit value `old` -/
def splice (old : E) (rs pos size : Nat) (v : E) : E :=
  if pos = 0 ∧ size = rs then v
  else
    let hi := if pos + size < rs then [mkSlice old (pos + size) (rs - (pos + size))] else []
    let lo := if 0 < pos then [mkSlice old 0 pos] else []
    catList (lo ++ [v] ++ hi)

/-- `__setitem__`, register branch: bits `[pos, pos+size)` of register `name` (`rs` bits) := `v`. -/
def MapSt.setReg (m : MapSt) (name : String) (rs pos size : Nat) (v : E) : MapSt :=
  { m with entries := setEntry m.entries (.reg name rs) (splice (m.R name rs) rs pos size v) }

/-- `MemoryMap.copy()` -/
def copyZones (zs : List (ZK × Zone)) : List (ZK × Zone) := zs.map (fun kz => (kz.1, kz.2.copy))

/-- `use()` = `eval(mapper())`: a fresh map on a copy of the memory, every item written again in order. -/
def MapSt.rebuild (cfg : Cfg) (m : MapSt) : MapSt :=
  m.entries.foldl (fun acc e =>
      match e.loc with
      | .ptr b d => acc.setPtr cfg b d e.val e.be
      | .reg n s => acc.setReg n s 0 s e.val)
    { entries := [], lastw := 0, zones := copyZones m.zones, tbl := m.tbl }

def MapSt.memEmpty (m : MapSt) : Bool := m.zones.all (fun kz => kz.2.map.isEmpty)

mutual
/-- `e.eval(m)` -/
def eval (cfg : Cfg) (m : MapSt) : E → E
  | .cst v s => .cst v s
  | .reg n s => m.R n s
  | .slc x p s => mkSlice (eval cfg m x) p s
  | .cat lo hi => mkCat (eval cfg m lo) (eval cfg m hi)
  | .addc x c => mkAddc (eval cfg m x) c
  | .op o l r s => .op o (eval cfg m l) (eval cfg m r) s
  | .load b d s be ms =>
      -- `mem.eval`: address, copy of the environment, replay of the mods, read
      let a := mkPtr (eval cfg m b) d
      -- `env(loc)`, `env(v)` go through `__call__`, which returns its argument on an untouched map
      let ws := if m.entries.isEmpty && m.memEmpty then ms.toList else evalMods cfg m ms
      let m' := ws.foldl (fun acc w => acc.setPtr cfg w.1 w.2.1 w.2.2.1 w.2.2.2) (m.rebuild cfg)
      m'.M cfg a.1 a.2 s be
/-- the mods with location and value evaluated in `m` -/
def evalMods (cfg : Cfg) (m : MapSt) : Mods → List (E × Int × E × Bool)
  | .nil => []
  | .cons b d v be rest =>
      let a := mkPtr (eval cfg m b) d
      (a.1, a.2, eval cfg m v, be) :: evalMods cfg m rest
end

/-- an expression as amoco's constructors deliver it: `composer`, slicing and `+` fold constants when the
    expression is *built* (`composer([cst, cst])` is a `cst`, `cst[8:24]` is a `cst`, `cst + 8` is a `cst`),
    before any map sees it.  Mods are left as they are (they were built by the map). -/
def foldE : E → E
  | .cst v s => .cst v s
  | .reg n s => .reg n s
  | .slc x p s => mkSlice (foldE x) p s
  | .cat lo hi => mkCat (foldE lo) (foldE hi)
  | .addc x c => mkAddc (foldE x) c
  | .op o l r s => .op o (foldE l) (foldE r) s
  | .load b d s be ms => .load (foldE b) d s be ms

/-- `m(x)`: on an untouched map `__call__` returns its argument as it is — as built by the constructors -/
def MapSt.call (cfg : Cfg) (m : MapSt) (x : E) : E :=
  if m.entries.isEmpty && m.memEmpty then foldE x else eval cfg m x

/-- `m2.rcompose(m1)` = `m1 >> m2`: x ↦ m2(m1(x)) -/
def rcompose (cfg : Cfg) (m2 m1 : MapSt) : MapSt :=
  m2.entries.foldl (fun acc e =>
      match e.loc with
      | .ptr b d =>
        let a := if m1.entries.isEmpty && m1.memEmpty then (b, d) else mkPtr (eval cfg m1 b) d
        acc.setPtr cfg a.1 a.2 (m1.call cfg e.val) e.be
      | .reg n s => acc.setReg n s 0 s (m1.call cfg e.val))
    (m1.rebuild cfg)

/-! ## IR programs -/

/-- right-hand sides of IR statements -/
inductive X where
  | cst (v size : Nat)
  | reg (name : String) (size : Nat)
  | slc (x : X) (pos size : Nat)
  | cat (lo hi : X)
  | addc (x : X) (c : Int)
  | op (o : String) (l r : X) (size : Nat)
  | load (base : X) (disp : Int) (size : Nat)
  deriving DecidableEq, Repr, Inhabited

inductive Stmt where
  | set (name : String) (rs pos size : Nat) (e : X)          -- name[pos : pos+size] := e
  | store (base : X) (disp : Int) (size : Nat) (e : X)       -- [base + disp] := e  (size bits)
  deriving DecidableEq, Repr, Inhabited

structure Prog where
  be : Bool
  stmts : List Stmt
  deriving Repr, Inhabited

def X.toE (be : Bool) : X → E
  | .cst v s => .cst v s
  | .reg n s => .reg n s
  | .slc x p s => .slc (x.toE be) p s
  | .cat lo hi => .cat (lo.toE be) (hi.toE be)
  | .addc x c => .addc (x.toE be) c
  | .op o l r s => .op o (l.toE be) (r.toE be) s
  | .load b d s => .load (b.toE be) d s be .nil

def X.size : X → Nat
  | .cst _ s => s
  | .reg _ s => s
  | .slc _ _ s => s
  | .cat lo hi => lo.size + hi.size
  | .addc x _ => x.size
  | .op _ _ _ s => s
  | .load _ _ s => s

/-- sizes fit (what the constructors and `__setitem__`'s size checks enforce); accesses are whole bytes -/
def X.wf : X → Bool
  | .cst _ _ => true
  | .reg _ _ => true
  | .slc x p s => x.wf && decide (p + s ≤ x.size)
  | .cat lo hi => lo.wf && hi.wf
  | .addc x _ => x.wf
  | .op _ l r _ => l.wf && r.wf
  | .load b _ s => b.wf && decide (0 < s) && decide (s % 8 = 0)

def Stmt.wf : Stmt → Bool
  | .set _ rs pos size e => e.wf && decide (e.size = size) && decide (pos + size ≤ rs)
  | .store b _ size e => b.wf && e.wf && decide (e.size = size) && decide (0 < size) && decide (size % 8 = 0)

def Prog.wf (p : Prog) : Bool := p.stmts.all Stmt.wf

/-- no load inside -/
def X.loadFree : X → Bool
  | .cst _ _ => true
  | .reg _ _ => true
  | .slc x _ _ => x.loadFree
  | .cat lo hi => lo.loadFree && hi.loadFree
  | .addc x _ => x.loadFree
  | .op _ l r _ => l.loadFree && r.loadFree
  | .load _ _ _ => false

/-- a statement over registers and sub-register slices only -/
def Stmt.regsOnly : Stmt → Bool
  | .set _ _ _ _ e => e.loadFree
  | .store .. => false

def Prog.regsOnly (p : Prog) : Bool := p.stmts.all Stmt.regsOnly

/-- every address is a constant plus displacement -/
def X.concOnly : X → Bool
  | .cst _ _ => true
  | .reg _ _ => true
  | .slc x _ _ => x.concOnly
  | .cat lo hi => lo.concOnly && hi.concOnly
  | .addc x _ => x.concOnly
  | .op _ l r _ => l.concOnly && r.concOnly
  | .load b _ _ => match b with
    | .cst _ _ => true
    | _ => false

def Stmt.concOnly : Stmt → Bool
  | .set _ _ _ _ e => e.concOnly
  | .store b _ _ e => e.concOnly && match b with
    | .cst _ _ => true
    | _ => false

def Prog.concOnly (p : Prog) : Bool := p.stmts.all Stmt.concOnly

/-- one statement on the symbolic map: `v = m(e); m[loc] = v` -/
def symStep (cfg : Cfg) (be : Bool) (m : MapSt) : Stmt → MapSt
  | .set n rs pos size e => m.setReg n rs pos size (m.call cfg (e.toE be))
  | .store b d _ e =>
      let v := m.call cfg (e.toE be)
      let a := mkPtr (eval cfg m (b.toE be)) d
      m.setPtr cfg a.1 a.2 v be

/-- the symbolic map of a program (from the empty map) -/
def symExec (cfg : Cfg) (p : Prog) : MapSt := p.stmts.foldl (symStep cfg p.be) MapSt.empty

/-! ### reference: sequential concrete execution -/

def X.val (sem : OpSem) (be : Bool) (σ : St) : X → Nat
  | .cst v s => v % 2 ^ s
  | .reg n s => σ.reg n s % 2 ^ s
  | .slc x p s => (x.val sem be σ >>> p) % 2 ^ s
  | .cat lo hi => lo.val sem be σ % 2 ^ lo.size + (hi.val sem be σ % 2 ^ hi.size) * 2 ^ lo.size
  | .addc x c => wrap x.size ((x.val sem be σ : Int) + c)
  | .op o l r s => sem o s (l.val sem be σ) (r.val sem be σ) % 2 ^ s
  | .load b d s => readN σ.mem (addrOf b.size (b.val sem be σ) d) (s / 8) be

def St.setReg (σ : St) (name : String) (rs : Nat) (v : Nat) : St :=
  { σ with reg := fun n s => if n = name ∧ s = rs then v else σ.reg n s }

/-- the `rs`-bit value `old` with bits `[pos, pos+size)` replaced by `v` -/
def spliceVal (old rs pos size v : Nat) : Nat :=
  old % 2 ^ pos + (v % 2 ^ size) * 2 ^ pos + ((old % 2 ^ rs) >>> (pos + size)) * 2 ^ (pos + size)

def concStep (sem : OpSem) (be : Bool) (σ : St) : Stmt → St
  | .set n rs pos size e => σ.setReg n rs (spliceVal (σ.reg n rs) rs pos size (e.val sem be σ))
  | .store b d size e =>
      { σ with mem := writeN σ.mem (addrOf b.size (b.val sem be σ) d) (size / 8) (e.val sem be σ) be }

def concExec (sem : OpSem) (p : Prog) (σ : St) : St := p.stmts.foldl (concStep sem p.be) σ

/-! ### applying a map to a concrete state -/

/-- the memory after replaying, in map order, the pointer items of the map on `μ`
    (what `concrete >> m` does with them) -/
def replayEntries (sem : OpSem) (σ : St) (μ : Int → Nat) : List Entry → (Int → Nat)
  | [] => μ
  | e :: rest =>
    match e.loc with
    | .ptr b d =>
      replayEntries sem σ (writeN μ (addrOf b.size (ideal sem σ b) d) (e.val.size / 8) (ideal sem σ e.val) e.be) rest
    | .reg .. => replayEntries sem σ μ rest

/-- `σ >> m`: every register gets the value of its expression, the pointer items are replayed in order. -/
def applyMap (sem : OpSem) (σ : St) (m : MapSt) : St :=
  { reg := fun n s => ideal sem σ (m.R n s)
    mem := replayEntries sem σ σ.mem m.entries }

/-! ### the accesses of a program (for the hypotheses "no wrap-around" and "distinct bases do not overlap") -/

/-- a memory access as the map sees it: symbolic base, displacement, length in bytes -/
structure Access where
  base : E
  disp : Int
  len : Nat
  deriving DecidableEq, Repr, Inhabited

mutual
/-- the loads of `e` with their addresses evaluated in `m` -/
def loadsOf (cfg : Cfg) (m : MapSt) : E → List Access
  | .cst .. => []
  | .reg .. => []
  | .slc x _ _ => loadsOf cfg m x
  | .cat lo hi => loadsOf cfg m lo ++ loadsOf cfg m hi
  | .addc x _ => loadsOf cfg m x
  | .op _ l r _ => loadsOf cfg m l ++ loadsOf cfg m r
  | .load b d s _ ms =>
      let a := mkPtr (eval cfg m b) d
      loadsOf cfg m b ++ loadsOfMods cfg m ms ++ [⟨a.1, a.2, s / 8⟩]
def loadsOfMods (cfg : Cfg) (m : MapSt) : Mods → List Access
  | .nil => []
  | .cons b d v _ rest =>
      -- the replayed store itself is an access too (`env(loc)` is `loc` itself on an untouched map)
      let a := if m.entries.isEmpty && m.memEmpty then (b, d) else mkPtr (eval cfg m b) d
      loadsOf cfg m b ++ loadsOf cfg m v ++ [⟨a.1, a.2, v.size / 8⟩] ++ loadsOfMods cfg m rest
end

def stmtAccesses (cfg : Cfg) (be : Bool) (m : MapSt) : Stmt → List Access
  | .set _ _ _ _ e => loadsOf cfg m (e.toE be)
  | .store b d size e =>
      let a := mkPtr (eval cfg m (b.toE be)) d
      loadsOf cfg m (e.toE be) ++ loadsOf cfg m (b.toE be) ++ [⟨a.1, a.2, size / 8⟩]

/-- every access of the program, in order, as `(base, disp, len)` of the symbolic run -/
def progAccesses (cfg : Cfg) (be : Bool) : MapSt → List Stmt → List Access
  | _, [] => []
  | m, s :: rest => stmtAccesses cfg be m s ++ progAccesses cfg be (symStep cfg be m s) rest

/-- the accesses of `m1 >> m2` (`rcompose cfg m2 m1`): the loads of `m2`'s pointers and values evaluated in
    `m1`, and the stores of `m2`'s pointer items -/
def rcomposeAccesses (cfg : Cfg) (m2 m1 : MapSt) : List Access :=
  m2.entries.flatMap (fun e =>
    match e.loc with
    | .ptr b d =>
      let a := if m1.entries.isEmpty && m1.memEmpty then (b, d) else mkPtr (eval cfg m1 b) d
      loadsOf cfg m1 b ++ loadsOf cfg m1 e.val ++ [⟨a.1, a.2, e.val.size / 8⟩]
    | .reg _ _ => loadsOf cfg m1 e.val)

mutual
/-- whole-byte loads and mods in the byte order `be0` -/
def E.ok (be0 : Bool) : E → Bool
  | .cst .. => true
  | .reg .. => true
  | .slc x _ _ => x.ok be0
  | .cat lo hi => lo.ok be0 && hi.ok be0
  | .addc x _ => x.ok be0
  | .op _ l r _ => l.ok be0 && r.ok be0
  | .load b _ s be ms =>
      b.ok be0 && decide (0 < s / 8) && decide (8 * (s / 8) = s) && (be == be0) && ms.ok be0
def Mods.ok (be0 : Bool) : Mods → Bool
  | .nil => true
  | .cons b _ v be rest =>
      b.ok be0 && v.ok be0 && decide (0 < v.size / 8) && decide (8 * (v.size / 8) = v.size) && (be == be0)
        && rest.ok be0
end

/-- a well-formed map (what `symExec` produces): distinct locations; a register item holds a value of the
    register's width; a pointer item a whole number of bytes in the byte order `be0`; every expression `ok` -/
def MapSt.ok (be0 : Bool) (m : MapSt) : Bool :=
  decide (m.entries.map Entry.loc).Nodup &&
  m.entries.all (fun e =>
    e.val.ok be0 &&
    match e.loc with
    | .reg _ s => decide (e.val.size = s)
    | .ptr b _ => b.ok be0 && decide (0 < e.val.size / 8) && decide (8 * (e.val.size / 8) = e.val.size)
                    && (e.be == be0))

/-- value of the zone base under `σ` (0 for the zone of concrete addresses) -/
def zbase (sem : OpSem) (σ : St) : ZK → Int
  | none => 0
  | some b => (ideal sem σ b : Nat)

/-- the access does not wrap around the address space: its concrete address is zone base + zone offset and
    its last byte is still below 2^w -/
def Access.noWrap (sem : OpSem) (σ : St) (a : Access) : Prop :=
  let r := zref a.base a.disp
  addrOf a.base.size (ideal sem σ a.base) a.disp = zbase sem σ r.1 + r.2 ∧
  zbase sem σ r.1 + r.2 + a.len ≤ 2 ^ a.base.size

/-- two accesses through different zones touch no common byte -/
def Access.apart (sem : OpSem) (σ : St) (a b : Access) : Prop :=
  (zref a.base a.disp).1 = (zref b.base b.disp).1 ∨
  let x := addrOf a.base.size (ideal sem σ a.base) a.disp
  let y := addrOf b.base.size (ideal sem σ b.base) b.disp
  x + a.len ≤ y ∨ y + b.len ≤ x

end Amoco.Mapper
