/-
  Amoco.Model.Hist — process-global mutable state seen by the symbolic algebra, as an abstract
  machine (C10).  A *slot* is one mutable attribute of one process-global object: the `sf` flag of a
  register / slice object created at import time by an ISA `env` module, an entry of an `internals`
  dictionary, … .  Decoding, symbolic execution and evaluation are *operations* that may assign
  slots (their write footprint, measured on the real code on every run); building or evaluating a map
  is an *observation* that reads slots.
-/
namespace Amoco.Hist

abbrev Slot := Nat
abbrev World := Slot → Bool

/-- an operation (decode / execute / evaluate one instruction) with its measured write footprint -/
structure Op where
  isa      : String
  mnemonic : String
  writes   : List (Slot × Bool)
  deriving Repr, DecidableEq

def assign (w : World) (sv : Slot × Bool) : World := fun t => if t = sv.1 then sv.2 else w t

def applyOp (w : World) (op : Op) : World := op.writes.foldl assign w

def runHist (w : World) (h : List Op) : World := h.foldl applyOp w

/-- the table of measured footprints is clean: no operation assigns any global slot -/
def allClean (tbl : List Op) : Bool := tbl.all (fun op => op.writes.isEmpty)

/-- the operations of `tbl` that are not clean (the findings) -/
def dirty (tbl : List Op) : List Op := tbl.filter (fun op => !op.writes.isEmpty)

end Amoco.Hist
