/-
  Amoco.Model.RiscvRef — reference interpreter for the RV32I / RV64I base integer instruction
  sets, written from "The RISC-V Instruction Set Manual, Volume I: Unprivileged ISA"
  (version 20191213), chapter 2 (RV32I), chapter 5 (RV64I) and chapter 24 (instruction listings).

  * registers x0..x31 (x0 hard-wired to zero), pc, byte-addressed little-endian memory;
  * `decode`  : 32-bit word → base mnemonic (listing tables of chapter 24);
  * `imm?`    : the five immediate formats exactly as drawn in figure 2.4 (bit by bit);
  * `exec`    : one step of every base instruction, incl. the RV64 `*W` forms, LD/SD/LWU and
                the 6-bit shift amounts of RV64.
  Nothing here mentions amoco.  Core Lean only (linked into the compiled driver).
-/
namespace Amoco.Rv

inductive Isa | rv32 | rv64
  deriving DecidableEq, Repr, Inhabited

@[reducible] def Isa.xlen : Isa → Nat
  | .rv32 => 32
  | .rv64 => 64

/-- number of bits of a shift amount: log2 XLEN -/
@[reducible] def Isa.shBits : Isa → Nat
  | .rv32 => 5
  | .rv64 => 6

/-- base mnemonics (RV32I, then those added by RV64I). FENCE_I is Zifencei, kept because the
    listing of the 2.x manuals (and amoco) has it among the base opcodes. -/
inductive Mn
  | LUI | AUIPC | JAL | JALR
  | BEQ | BNE | BLT | BGE | BLTU | BGEU
  | LB | LH | LW | LBU | LHU
  | SB | SH | SW
  | ADDI | SLTI | SLTIU | XORI | ORI | ANDI | SLLI | SRLI | SRAI
  | ADD | SUB | SLL | SLT | SLTU | XOR | SRL | SRA | OR | AND
  | FENCE | FENCE_I | ECALL | EBREAK
  | LWU | LD | SD
  | ADDIW | SLLIW | SRLIW | SRAIW
  | ADDW | SUBW | SLLW | SRLW | SRAW
  deriving DecidableEq, Repr, Inhabited

def Mn.all : List Mn :=
  [.LUI, .AUIPC, .JAL, .JALR, .BEQ, .BNE, .BLT, .BGE, .BLTU, .BGEU, .LB, .LH, .LW, .LBU, .LHU,
   .SB, .SH, .SW, .ADDI, .SLTI, .SLTIU, .XORI, .ORI, .ANDI, .SLLI, .SRLI, .SRAI,
   .ADD, .SUB, .SLL, .SLT, .SLTU, .XOR, .SRL, .SRA, .OR, .AND, .FENCE, .FENCE_I, .ECALL, .EBREAK,
   .LWU, .LD, .SD, .ADDIW, .SLLIW, .SRLIW, .SRAIW, .ADDW, .SUBW, .SLLW, .SRLW, .SRAW]

/-- mnemonics that exist only in RV64I -/
def Mn.only64 : Mn → Bool
  | .LWU | .LD | .SD | .ADDIW | .SLLIW | .SRLIW | .SRAIW | .ADDW | .SUBW | .SLLW | .SRLW | .SRAW => true
  | _ => false

def Mn.name : Mn → String
  | .LUI => "LUI" | .AUIPC => "AUIPC" | .JAL => "JAL" | .JALR => "JALR"
  | .BEQ => "BEQ" | .BNE => "BNE" | .BLT => "BLT" | .BGE => "BGE" | .BLTU => "BLTU" | .BGEU => "BGEU"
  | .LB => "LB" | .LH => "LH" | .LW => "LW" | .LBU => "LBU" | .LHU => "LHU"
  | .SB => "SB" | .SH => "SH" | .SW => "SW"
  | .ADDI => "ADDI" | .SLTI => "SLTI" | .SLTIU => "SLTIU" | .XORI => "XORI" | .ORI => "ORI"
  | .ANDI => "ANDI" | .SLLI => "SLLI" | .SRLI => "SRLI" | .SRAI => "SRAI"
  | .ADD => "ADD" | .SUB => "SUB" | .SLL => "SLL" | .SLT => "SLT" | .SLTU => "SLTU" | .XOR => "XOR"
  | .SRL => "SRL" | .SRA => "SRA" | .OR => "OR" | .AND => "AND"
  | .FENCE => "FENCE" | .FENCE_I => "FENCE_I" | .ECALL => "ECALL" | .EBREAK => "EBREAK"
  | .LWU => "LWU" | .LD => "LD" | .SD => "SD"
  | .ADDIW => "ADDIW" | .SLLIW => "SLLIW" | .SRLIW => "SRLIW" | .SRAIW => "SRAIW"
  | .ADDW => "ADDW" | .SUBW => "SUBW" | .SLLW => "SLLW" | .SRLW => "SRLW" | .SRAW => "SRAW"

def Mn.ofName (s : String) : Option Mn := Mn.all.find? (fun m => m.name == s)

/-! ## machine state -/

structure State (n : Nat) where
  x   : Nat → BitVec n            -- x1..x31 (index 0 is never read)
  pc  : BitVec n
  mem : BitVec n → BitVec 8

/-- read a register: x0 is hard-wired to zero -/
def State.get {n} (σ : State n) (i : Nat) : BitVec n := if i = 0 then 0 else σ.x i

/-- write a register: writes to x0 are discarded -/
def State.set {n} (σ : State n) (i : Nat) (v : BitVec n) : State n :=
  if i = 0 then σ else { σ with x := fun j => if j = i then v else σ.x j }

def State.withPc {n} (σ : State n) (p : BitVec n) : State n := { σ with pc := p }

/-- little-endian value of the `k` bytes at address `a` (addresses wrap modulo 2^XLEN) -/
def loadBytes {n} (mem : BitVec n → BitVec 8) (a : BitVec n) : Nat → Nat
  | 0 => 0
  | k+1 => (mem a).toNat + 256 * loadBytes mem (a + 1) k

/-- store the `k` low bytes of `v` at address `a`, little-endian -/
def storeBytes {n} (mem : BitVec n → BitVec 8) (a : BitVec n) (v : Nat) : Nat → (BitVec n → BitVec 8)
  | 0 => mem
  | k+1 => storeBytes (fun b => if b = a then BitVec.ofNat 8 v else mem b) (a + 1) (v / 256) k

/-! ## instruction fields and immediates (manual, figures 2.2–2.4) -/

def fOpcode (w : BitVec 32) : Nat := (w.extractLsb' 0 7).toNat
def fRd     (w : BitVec 32) : Nat := (w.extractLsb' 7 5).toNat
def fFunct3 (w : BitVec 32) : Nat := (w.extractLsb' 12 3).toNat
def fRs1    (w : BitVec 32) : Nat := (w.extractLsb' 15 5).toNat
def fRs2    (w : BitVec 32) : Nat := (w.extractLsb' 20 5).toNat
def fFunct7 (w : BitVec 32) : Nat := (w.extractLsb' 25 7).toNat
def fFunct6 (w : BitVec 32) : Nat := (w.extractLsb' 26 6).toNat

/-- I-immediate: inst[31:20], sign-extended -/
def immI (n : Nat) (w : BitVec 32) : BitVec n := (w.extractLsb' 20 12).signExtend n
/-- S-immediate: inst[31:25] ++ inst[11:7] -/
def immS (n : Nat) (w : BitVec 32) : BitVec n :=
  (w.extractLsb' 25 7 ++ w.extractLsb' 7 5).signExtend n
/-- B-immediate: inst[31] ++ inst[7] ++ inst[30:25] ++ inst[11:8] ++ 0 -/
def immB (n : Nat) (w : BitVec 32) : BitVec n :=
  (w.extractLsb' 31 1 ++ w.extractLsb' 7 1 ++ w.extractLsb' 25 6 ++ w.extractLsb' 8 4 ++ 0#1).signExtend n
/-- U-immediate: inst[31:12] ++ 12 zeros (a 32-bit value, sign-extended to XLEN) -/
def immU (n : Nat) (w : BitVec 32) : BitVec n := (w.extractLsb' 12 20 ++ 0#12).signExtend n
/-- J-immediate: inst[31] ++ inst[19:12] ++ inst[20] ++ inst[30:21] ++ 0 -/
def immJ (n : Nat) (w : BitVec 32) : BitVec n :=
  (w.extractLsb' 31 1 ++ w.extractLsb' 12 8 ++ w.extractLsb' 20 1 ++ w.extractLsb' 21 10 ++ 0#1).signExtend n

/-- shift amount of the immediate shifts: inst[24:20] (RV32I), inst[25:20] (RV64I) -/
def shamt (isa : Isa) (w : BitVec 32) : Nat := (w.extractLsb' 20 isa.shBits).toNat
/-- shift amount of SLLIW/SRLIW/SRAIW: inst[24:20] -/
def shamtW (w : BitVec 32) : Nat := (w.extractLsb' 20 5).toNat

/-! ## decoding (manual chapter 24, "RV32/RV64G Instruction Set Listings") -/

def decodeRaw (isa : Isa) (w : BitVec 32) : Option Mn :=
  let op := fOpcode w
  let f3 := fFunct3 w
  let f7 := fFunct7 w
  let is64 := isa == .rv64
  /- immediate shifts: RV32I fixes inst[31:25], RV64I fixes inst[31:26] -/
  let shHi := if is64 then fFunct6 w * 2 else f7
  if op = 0x37 then some .LUI
  else if op = 0x17 then some .AUIPC
  else if op = 0x6f then some .JAL
  else if op = 0x67 then (if f3 = 0 then some .JALR else none)
  else if op = 0x63 then
    (if f3 = 0 then some .BEQ else if f3 = 1 then some .BNE else if f3 = 4 then some .BLT
     else if f3 = 5 then some .BGE else if f3 = 6 then some .BLTU else if f3 = 7 then some .BGEU else none)
  else if op = 0x03 then
    (if f3 = 0 then some .LB else if f3 = 1 then some .LH else if f3 = 2 then some .LW
     else if f3 = 4 then some .LBU else if f3 = 5 then some .LHU
     else if f3 = 3 && is64 then some .LD else if f3 = 6 && is64 then some .LWU else none)
  else if op = 0x23 then
    (if f3 = 0 then some .SB else if f3 = 1 then some .SH else if f3 = 2 then some .SW
     else if f3 = 3 && is64 then some .SD else none)
  else if op = 0x13 then
    (if f3 = 0 then some .ADDI else if f3 = 2 then some .SLTI else if f3 = 3 then some .SLTIU
     else if f3 = 4 then some .XORI else if f3 = 6 then some .ORI else if f3 = 7 then some .ANDI
     else if f3 = 1 then (if shHi = 0 then some .SLLI else none)
     else (if shHi = 0 then some .SRLI else if shHi = 0x20 then some .SRAI else none))
  else if op = 0x33 then
    (if f7 = 0 then
       (if f3 = 0 then some .ADD else if f3 = 1 then some .SLL else if f3 = 2 then some .SLT
        else if f3 = 3 then some .SLTU else if f3 = 4 then some .XOR else if f3 = 5 then some .SRL
        else if f3 = 6 then some .OR else some .AND)
     else if f7 = 0x20 then (if f3 = 0 then some .SUB else if f3 = 5 then some .SRA else none)
     else none)
  else if op = 0x0f then (if f3 = 0 then some .FENCE else if f3 = 1 then some .FENCE_I else none)
  else if op = 0x73 then
    (if w = 0x00000073#32 then some .ECALL else if w = 0x00100073#32 then some .EBREAK else none)
  else if op = 0x1b && is64 then
    (if f3 = 0 then some .ADDIW
     else if f3 = 1 then (if f7 = 0 then some .SLLIW else none)
     else if f3 = 5 then (if f7 = 0 then some .SRLIW else if f7 = 0x20 then some .SRAIW else none)
     else none)
  else if op = 0x3b && is64 then
    (if f7 = 0 then
       (if f3 = 0 then some .ADDW else if f3 = 1 then some .SLLW else if f3 = 5 then some .SRLW else none)
     else if f7 = 0x20 then (if f3 = 0 then some .SUBW else if f3 = 5 then some .SRAW else none)
     else none)
  else none

/-- a word decodes to a mnemonic of the ISA at hand (RV64I-only mnemonics never appear in RV32I) -/
def decode (isa : Isa) (w : BitVec 32) : Option Mn :=
  (decodeRaw isa w).filter (fun m => isa == .rv64 || !m.only64)

/-! ## execution (manual chapters 2 and 5) -/

/-- the low 32 bits of a register, for the `*W` instructions -/
def lo32 {n} (v : BitVec n) : BitVec 32 := v.setWidth 32

def bool2bv (n : Nat) (b : Bool) : BitVec n := if b then 1 else 0

/-- One step of instruction `m` encoded by `w`. System instructions (FENCE, FENCE.I) are no-ops
    for a single hart; ECALL/EBREAK transfer control to the execution environment: the
    unprivileged manual defines no register or memory effect (the next pc is the environment's
    business — this interpreter leaves pc at the instruction, see `Props.C06`). -/
def exec (isa : Isa) (m : Mn) (w : BitVec 32) (σ : State isa.xlen) : State isa.xlen :=
  let n := isa.xlen
  let rd := fRd w
  let a := σ.get (fRs1 w)
  let b := σ.get (fRs2 w)
  let next := σ.pc + 4
  let wr (v : BitVec n) : State n := (σ.set rd v).withPc next
  let br (c : Bool) : State n := σ.withPc (if c then σ.pc + immB n w else next)
  let ea (imm : BitVec n) : BitVec n := a + imm
  let ld (k : Nat) : Nat := loadBytes σ.mem (ea (immI n w)) k
  let st (k : Nat) : State n :=
    ({ σ with mem := storeBytes σ.mem (ea (immS n w)) b.toNat k } : State n).withPc next
  match m with
  | .LUI   => wr (immU n w)
  | .AUIPC => wr (σ.pc + immU n w)
  | .JAL   => (σ.set rd next).withPc (σ.pc + immJ n w)
  | .JALR  => (σ.set rd next).withPc ((a + immI n w) &&& ~~~1)
  | .BEQ   => br (a == b)
  | .BNE   => br (a != b)
  | .BLT   => br (a.slt b)
  | .BGE   => br (!(a.slt b))
  | .BLTU  => br (a.ult b)
  | .BGEU  => br (!(a.ult b))
  | .LB    => wr ((BitVec.ofNat 8 (ld 1)).signExtend n)
  | .LH    => wr ((BitVec.ofNat 16 (ld 2)).signExtend n)
  | .LW    => wr ((BitVec.ofNat 32 (ld 4)).signExtend n)
  | .LD    => wr ((BitVec.ofNat 64 (ld 8)).signExtend n)
  | .LBU   => wr ((BitVec.ofNat 8 (ld 1)).setWidth n)
  | .LHU   => wr ((BitVec.ofNat 16 (ld 2)).setWidth n)
  | .LWU   => wr ((BitVec.ofNat 32 (ld 4)).setWidth n)
  | .SB    => st 1
  | .SH    => st 2
  | .SW    => st 4
  | .SD    => st 8
  | .ADDI  => wr (a + immI n w)
  | .SLTI  => wr (bool2bv n (a.slt (immI n w)))
  | .SLTIU => wr (bool2bv n (a.ult (immI n w)))
  | .XORI  => wr (a ^^^ immI n w)
  | .ORI   => wr (a ||| immI n w)
  | .ANDI  => wr (a &&& immI n w)
  | .SLLI  => wr (a <<< shamt isa w)
  | .SRLI  => wr (a >>> shamt isa w)
  | .SRAI  => wr (a.sshiftRight (shamt isa w))
  | .ADD   => wr (a + b)
  | .SUB   => wr (a - b)
  | .SLL   => wr (a <<< (b.toNat % n))
  | .SLT   => wr (bool2bv n (a.slt b))
  | .SLTU  => wr (bool2bv n (a.ult b))
  | .XOR   => wr (a ^^^ b)
  | .SRL   => wr (a >>> (b.toNat % n))
  | .SRA   => wr (a.sshiftRight (b.toNat % n))
  | .OR    => wr (a ||| b)
  | .AND   => wr (a &&& b)
  | .FENCE | .FENCE_I => σ.withPc next
  | .ECALL | .EBREAK => σ
  | .ADDIW => wr ((lo32 a + lo32 (immI n w)).signExtend n)
  | .SLLIW => wr ((lo32 a <<< shamtW w).signExtend n)
  | .SRLIW => wr ((lo32 a >>> shamtW w).signExtend n)
  | .SRAIW => wr (((lo32 a).sshiftRight (shamtW w)).signExtend n)
  | .ADDW  => wr ((lo32 a + lo32 b).signExtend n)
  | .SUBW  => wr ((lo32 a - lo32 b).signExtend n)
  | .SLLW  => wr ((lo32 a <<< (b.toNat % 32)).signExtend n)
  | .SRLW  => wr ((lo32 a >>> (b.toNat % 32)).signExtend n)
  | .SRAW  => wr (((lo32 a).sshiftRight (b.toNat % 32)).signExtend n)

/-- the reference step: decode, then execute; an illegal word leaves the state alone (the
    caller sees `decode = none`). -/
def rvRef (isa : Isa) (σ : State isa.xlen) (w : BitVec 32) : State isa.xlen :=
  match decode isa w with
  | some m => exec isa m w σ
  | none => σ

end Amoco.Rv
