/-
  Amoco.Model.Render — `__str__` of expressions with `conf.Cas.unicode = False`, and the string-based
  notions the simplifier decides with: `hash`-equality (`exp.__eq__`), `symbols_of` renderings
  (lexical operand order), `depth`/`complexity`.  Core Lean only.
-/
import Amoco.Model.Expr

namespace Amoco
namespace Expr

/-- `"{:#x}".format(n)` for a Python int. -/
def hexInt (n : Int) : String :=
  if n < 0 then "-0x" ++ String.ofList (Nat.toDigits 16 n.natAbs) else "0x" ++ String.ofList (Nat.toDigits 16 n.toNat)

/-- `"%+d" % n` -/
def plusD (n : Int) : String := if n < 0 then toString n else "+" ++ toString n

/-- insertion into a list sorted by key (stable: after equal keys) — `sorted(…, key=itemgetter(0))`. -/
def insertKeyed {α} (p : Nat × α) : List (Nat × α) → List (Nat × α)
  | [] => [p]
  | q :: tl => if p.1 < q.1 then p :: q :: tl else q :: insertKeyed p tl

def sortKeyed {α} : List (Nat × α) → List (Nat × α)
  | [] => []
  | p :: tl => insertKeyed p (sortKeyed tl)

/-- the loop of `comp.__unicode__` over the parts in position order: ranges are printed from the running
    position and the *part's own size* (not from the key). -/
def compLoop : Nat → List (Nat × Nat × String) → String
  | _, [] => ""
  | cur, (_, sz, s) :: tl =>
      " [" ++ toString cur ++ ":" ++ toString (cur + sz) ++ "]->" ++ s ++ " |" ++ compLoop (cur + sz) tl

/-- `comp.__unicode__` from `(lo, part.size, str(part))` triples in dict order. -/
def compStr (ps : List (Nat × Nat × String)) : String := "{ |" ++ compLoop 0 (sortKeyed ps) ++ " }"

mutual
/-- `str(e)` -/
def render : Expr → String
  | cst v s f => hexInt (cstValue v s f)
  | reg n _ _ => n
  | ext n _ _ => "@" ++ n
  | slc x p s _ r _ =>
      match r with
      | some n => n
      | none => render x ++ "[" ++ toString p ++ ":" ++ toString (p + s) ++ "]"
  | comp _ _ ps => compStr (renderParts ps)
  | tst t l r _ _ => "(" ++ render t ++ " ? " ++ render l ++ " : " ++ render r ++ ")"
  | op o l r _ _ _ => "(" ++ render l ++ o.symbol ++ render r ++ ")"
  | uop o r _ _ _ => "(" ++ o.symbol ++ render r ++ ")"
  | ptr b sg d _ _ =>
      renderSeg sg ++ "(" ++ render b ++ (if d = 0 then "" else plusD d) ++ ")"
  | mem a s _ _ ms =>
      "M" ++ toString s ++ (if ms.length = 0 then "" else "$" ++ toString ms.length) ++ render a
  | vec l _ _ => "[" ++ String.intercalate "," (renderList l) ++ "]"
  | vecw l _ _ => "[" ++ String.intercalate "," (renderList l) ++ ", ...]"
  | top s _ => "T" ++ toString s
def renderParts : List Part → List (Nat × Nat × String)
  | [] => []
  | (lo, _, e) :: tl => (lo, e.size, render e) :: renderParts tl
def renderSeg : Option Expr → String
  | none => ""
  | some e => render e
def renderList : List Expr → List String
  | [] => []
  | e :: tl => render e :: renderList tl
end

/-- `slc.raw()` -/
def rawSlc : Expr → String
  | slc x p s _ _ _ => render x ++ "[" ++ toString p ++ ":" ++ toString (p + s) ++ "]"
  | e => render e

/-- `hash(a) == hash(b)` as the code uses it in `exp.__eq__` & co. (`hash(str)+size`; `slc` hashes its raw
    name without the size).  String-hash collisions are not modelled. -/
def hashEq (a b : Expr) : Bool :=
  match a.isSlc, b.isSlc with
  | true, true => rawSlc a == rawSlc b
  | false, false => render a == render b && a.size == b.size
  | _, _ => false

mutual
/-- `"".join(str(x) for x in symbols_of(e))` as a list of renderings (the lexical operand order compares
    the concatenation; `complexity` counts the elements). -/
def symbolsOf : Expr → List String
  | cst .. => []
  | reg n _ _ => [n]
  | ext n _ _ => ["@" ++ n]
  | slc x p s _ r k =>
      if k != 0 then
        [match r with
         | some n => n
         | none => render x ++ "[" ++ toString p ++ ":" ++ toString (p + s) ++ "]"]
      else symbolsOf x
  | comp _ _ ps => symbolsParts ps
  | tst t l r _ _ => symbolsOf t ++ symbolsOf l ++ symbolsOf r
  | op _ l r _ _ _ => symbolsOf l ++ symbolsOf r
  | uop _ r _ _ _ => symbolsOf r
  | ptr b _ _ _ _ => symbolsOf b
  | mem a _ _ _ _ => symbolsOf a
  | vec l _ _ => symbolsList l
  | vecw l _ _ => symbolsList l
  | top .. => []
def symbolsParts : List Part → List String
  | [] => []
  | (_, _, e) :: tl => symbolsOf e ++ symbolsParts tl
def symbolsList : List Expr → List String
  | [] => []
  | e :: tl => symbolsOf e ++ symbolsList tl
end

/-- the string compared by the lexical ordering of `op.simplify`. -/
def symStr (e : Expr) : String := String.join (symbolsOf e)


end Expr
end Amoco
