/-
  Amoco.Model.Expr — the expression type of amoco's computer algebra (`cas/expressions.py`).

  One inductive type for the node classes `cst reg ext slc comp tst op uop ptr mem vec vecw top`,
  carrying exactly the attributes the code branches on.  Core Lean only (linked into the drivers).

  Conventions
  * every node carries `size` (bit width) and `sf` (the in-place "signed" annotation) as fields, because
    the Python code stores them per object and rewrites them freely (`res.sf = self.sf`, …);
  * `cst` holds the masked value `v` (`cst.v`); the signed reading `cst.value` is `Expr.cstValue`;
  * `comp` parts are `(lo, hi, part)` in *dict insertion order* (that order is behaviour: `symbols_of`
    walks `parts.values()`); `smask` is not stored: on well-formed comps it is determined by the parts
    (the K-tie checks this on every comp dumped from the real code);
  * `slc` stores `ety`: what `slc.setref` or-ed into its etype *at construction* (0 nothing, 1 the sliced
    object was a register, 2 an external) — `_is_reg`/`_is_ext` of a slice never change afterwards, even
    when `simplify` replaces `x`;
  * `op`/`uop` store `prop` as computed by the constructor (`type | l.prop | r.prop`);
  * `mem` / `ptr` are carried for the mapper models (C02, C09); the algebra treats them as opaque.
-/
namespace Amoco

/-- operator symbols (`OP_ADD` … `OP_ROL`). -/
inductive Op where
  | add | sub | mul | mul2 | div | mod
  | and | or | xor | not
  | eq | neq | le | ge | geu | lt | ltu | gt
  | lsl | lsr | asr | ror | rol
  deriving DecidableEq, Repr, Inhabited

namespace Op

def symbol : Op → String
  | add => "+" | sub => "-" | mul => "*" | mul2 => "**" | div => "/" | mod => "%"
  | and => "&" | or => "|" | xor => "^" | not => "~"
  | eq => "==" | neq => "!=" | le => "<=" | ge => ">=" | geu => ">=." | lt => "<" | ltu => "<." | gt => ">"
  | lsl => "<<" | lsr => ">>" | asr => ".>>" | ror => ">>>" | rol => "<<<"

def ofSymbol? : String → Option Op
  | "+" => some add | "-" => some sub | "*" => some mul | "**" => some mul2 | "/" => some div | "%" => some mod
  | "&" => some and | "|" => some or | "^" => some xor | "~" => some not
  | "==" => some eq | "!=" => some neq | "<=" => some le | ">=" => some ge | ">=." => some geu | "<" => some lt
  | "<." => some ltu | ">" => some gt
  | "<<" => some lsl | ">>" => some lsr | ".>>" => some asr | ">>>" => some ror | "<<<" => some rol
  | _ => none

/-- `_operator.type`: 1 arithmetic, 2 logic, 4 condition, 8 shift. -/
def type : Op → Nat
  | add | sub | mul | mul2 | div | mod => 1
  | and | or | xor | not => 2
  | eq | neq | le | ge | geu | lt | ltu | gt => 4
  | lsl | lsr | asr | ror | rol => 8

/-- `_operator.unsigned`: calling the operator clears `sf` on both operand objects. -/
def unsignedCall : Op → Bool
  | and | or | xor | not | geu | ltu => true
  | _ => false

/-- `_operator.__mul__`: sign algebra of `+`/`-` (`"++" "--" ↦ +`, `"+-" "-+" ↦ -`). -/
def pm : Op → Op → Option Op
  | add, add => some add
  | sub, sub => some add
  | add, sub => some sub
  | sub, add => some sub
  | _, _ => none

end Op

/-- expressions.  See the file header for conventions. -/
inductive Expr where
  | cst (v size : Nat) (sf : Bool)
  | reg (ref : String) (size : Nat) (sf : Bool)
  | ext (ref : String) (size : Nat) (sf : Bool)
  | slc (x : Expr) (pos size : Nat) (sf : Bool) (ref : Option String) (ety : Nat)
  | comp (size : Nat) (sf : Bool) (parts : List (Nat × Nat × Expr))
  | tst (t l r : Expr) (size : Nat) (sf : Bool)
  | op (o : Op) (l r : Expr) (size : Nat) (sf : Bool) (prop : Nat)
  | uop (o : Op) (r : Expr) (size : Nat) (sf : Bool) (prop : Nat)
  | ptr (base : Expr) (seg : Option Expr) (disp : Int) (size : Nat) (sf : Bool)
  | mem (a : Expr) (size : Nat) (sf : Bool) (bigEndian : Bool) (mods : List (Expr × Expr))
  | vec (l : List Expr) (size : Nat) (sf : Bool)
  | vecw (l : List Expr) (size : Nat) (sf : Bool)
  | top (size : Nat) (sf : Bool)
  deriving Repr, Inhabited

abbrev Part := Nat × Nat × Expr

namespace Expr

/-- `e.size` -/
def size : Expr → Nat
  | cst _ s _ | reg _ s _ | ext _ s _ | slc _ _ s _ _ _ | comp s _ _ | tst _ _ _ s _ | op _ _ _ s _ _
  | uop _ _ s _ _ | ptr _ _ _ s _ | mem _ s _ _ _ | vec _ s _ | vecw _ s _ | top s _ => s

/-- `e.sf` -/
def sf : Expr → Bool
  | cst _ _ f | reg _ _ f | ext _ _ f | slc _ _ _ f _ _ | comp _ f _ | tst _ _ _ _ f | op _ _ _ _ f _
  | uop _ _ _ f _ | ptr _ _ _ _ f | mem _ _ f _ _ | vec _ _ f | vecw _ _ f | top _ f => f

/-- `e.sf = f` (in-place write in the code; functional here). -/
def setSf (f : Bool) : Expr → Expr
  | cst v s _ => cst v s f
  | reg n s _ => reg n s f
  | ext n s _ => ext n s f
  | slc x p s _ r k => slc x p s f r k
  | comp s _ ps => comp s f ps
  | tst t l r s _ => tst t l r s f
  | op o l r s _ p => op o l r s f p
  | uop o r s _ p => uop o r s f p
  | ptr b sg d s _ => ptr b sg d s f
  | mem a s _ en m => mem a s f en m
  | vec l s _ => vec l s f
  | vecw l s _ => vecw l s f
  | top s _ => top s f

@[simp] theorem size_setSf (f : Bool) (e : Expr) : (e.setSf f).size = e.size := by
  cases e <;> rfl

@[simp] theorem sf_setSf (f : Bool) (e : Expr) : (e.setSf f).sf = f := by
  cases e <;> rfl

/-! ### kind predicates (`_is_xxx`, from `etype`) -/

def isCst : Expr → Bool | cst .. => true | _ => false
def isCmp : Expr → Bool | comp .. => true | _ => false
def isSlc : Expr → Bool | slc .. => true | _ => false
def isTst : Expr → Bool | tst .. => true | _ => false
def isEqn : Expr → Bool | op .. => true | uop .. => true | _ => false
def isMem : Expr → Bool | mem .. => true | _ => false
def isPtr : Expr → Bool | ptr .. => true | _ => false
/-- `_is_vec` holds for `vec` and for `vecw` (whose etype keeps the vec bit). -/
def isVec : Expr → Bool | vec .. => true | vecw .. => true | _ => false
/-- `_is_top`: `etype < 0` — `top` and `vecw`. -/
def isTop : Expr → Bool | top .. => true | vecw .. => true | _ => false
/-- `_is_def`: `etype > 0`. -/
def isDef (e : Expr) : Bool := !e.isTop
/-- `_is_reg`: registers, externals, and slices *of* registers/externals (`slc.setref` ors the etype). -/
def isReg : Expr → Bool
  | reg .. => true
  | ext .. => true
  | slc _ _ _ _ _ k => k != 0
  | _ => false
/-- `_is_ext` -/
def isExt : Expr → Bool
  | ext .. => true
  | slc _ _ _ _ _ k => k == 2
  | _ => false

/-- the etype bits a new `slc` of `x` inherits (`slc.setref`). -/
def slcEty : Expr → Nat
  | reg .. => 1
  | ext .. => 2
  | _ => 0

/-- `2^n - 1` -/
def mask (n : Nat) : Nat := 2 ^ n - 1

/-- `cst.value`: the Python integer the constant stands for, taking `sf` into account. -/
def cstValue (v size : Nat) (sf : Bool) : Int :=
  if sf && v.testBit (size - 1) then (v : Int) - (2 ^ size : Nat) else (v : Int)

/-- `cst(x, size)` for a Python integer `x`: `sf = x < 0`, `v = x & mask`. -/
def mkCst (x : Int) (size : Nat) : Expr :=
  cst (x % ((2 ^ size : Nat) : Int)).toNat size (decide (x < 0))

def bit0 : Expr := cst 0 1 false
def bit1 : Expr := cst 1 1 false

/-- `prop` of an operand as seen by the `op`/`uop` constructors. -/
def propOf : Expr → Nat
  | op _ _ _ _ _ p => p
  | uop _ _ _ _ p => p
  | _ => 0

/-! ### well-formedness: what the constructors and `_checkarg_sizes` enforce -/

/-- parts are sorted by position, start at `at`, are consecutive, and each key's width is its part's size. -/
def partsTile : Nat → List Part → Option Nat
  | pos, [] => some pos
  | pos, (lo, hi, e) :: tl => if lo = pos ∧ lo < hi ∧ e.size = hi - lo then partsTile hi tl else none

/-- insertion of a part into a list sorted by `lo` (stable: after equal keys). -/
def insertPart (p : Part) : List Part → List Part
  | [] => [p]
  | q :: tl => if p.1 < q.1 then p :: q :: tl else q :: insertPart p tl

/-- `sorted(parts.keys(), key=itemgetter(0))` with the values attached (stable insertion sort). -/
def sortParts : List Part → List Part
  | [] => []
  | p :: tl => insertPart p (sortParts tl)

/-- executable `CompWF` checker: sorted by position the parts tile `[0, size)` exactly, each with the width
    of its key (sound for `Tiles`, see `Amoco.C12.compWF_sound`). -/
def compWF (size : Nat) (parts : List Part) : Bool :=
  decide (0 < size) && (partsTile 0 (sortParts parts) == some size)

/-- does the key of part `p` cover bit `b`? -/
def covers (b : Nat) (p : Part) : Bool := decide (p.1 ≤ b) && decide (b < p.2.1)

/-- every part lies inside `[0, n)`, is non-empty, and has the width of its key -/
def Sized (n : Nat) (ps : List Part) : Prop :=
  ∀ p ∈ ps, p.1 < p.2.1 ∧ p.2.1 ≤ n ∧ p.2.2.size = p.2.1 - p.1

/-- the parts are pairwise disjoint (a comp under construction) -/
def Disj (n : Nat) (ps : List Part) : Prop := Sized n ps ∧ ∀ b, ps.countP (covers b) ≤ 1

/-- `CompWF`: the parts tile `[0, size)` exactly — no gap, no overlap, each part as wide as its key.
    (`compWF` above is the executable checker of the same fact, used on dumps of real comps.) -/
def Tiles (n : Nat) (ps : List Part) : Prop := Sized n ps ∧ ∀ b, b < n → ps.countP (covers b) = 1

mutual
/-- `WF e`: sizes agree where the constructors and `_checkarg_sizes` demand it; every `comp` is `CompWF`. -/
def WF : Expr → Prop
  | cst v s _ => 0 < s ∧ v < 2 ^ s
  | reg _ s _ => 0 < s
  | ext _ s _ => 0 < s
  | slc x p s _ _ _ => WF x ∧ 0 < s ∧ p + s ≤ x.size
  | comp s _ ps => 0 < s ∧ Tiles s ps ∧ WFParts ps
  | tst t l r s _ => 0 < s ∧ WF t ∧ WF l ∧ WF r ∧ t.size = 1 ∧ l.size = s ∧ r.size = s
  | op o l r s _ p =>
      0 < s ∧ o.type ≤ p ∧ WF l ∧ WF r ∧
      (if o.type = 4 then s = 1 ∧ l.size = r.size
       else if o.type = 8 then s = l.size
       else l.size = r.size ∧ s = if o = Op.mul2 then 2 * l.size else l.size)
  | uop _ r s _ _ => 0 < s ∧ WF r ∧ s = r.size
  | ptr b sg _ s _ => 0 < s ∧ WF b ∧ WFOpt sg ∧ s = b.size
  | mem a s _ _ ms => WF a ∧ 0 < s ∧ WFMods ms
  | vec l s _ => 0 < s ∧ l ≠ [] ∧ WFList l s
  | vecw l s _ => 0 < s ∧ l ≠ [] ∧ WFList l s
  | top s _ => 0 < s
def WFParts : List Part → Prop
  | [] => True
  | (_, _, e) :: tl => WF e ∧ WFParts tl
def WFOpt : Option Expr → Prop
  | none => True
  | some e => WF e
def WFMods : List (Expr × Expr) → Prop
  | [] => True
  | (a, b) :: tl => WF a ∧ WF b ∧ WFMods tl
def WFList : List Expr → Nat → Prop
  | [], _ => True
  | e :: tl, s => WF e ∧ e.size = s ∧ WFList tl s
end

end Expr
end Amoco
