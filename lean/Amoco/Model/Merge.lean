/-
  Amoco.Model.Merge — `vec.simplify` (`cas/expressions.py`) and `mapper.merge` (`cas/mapper.py`)
  over register locations (C19).

  Location values are reduced to what `vec.simplify` and `merge` distinguish:
  `top`, a definite vec-free expression (`leaf`), a list of alternatives (`vec`) or a widened list
  (`vecw`, which — like `top` — is "not def": it absorbs).  The expressions themselves are a parameter
  `E` with a decidable equality test `eq` (amoco's `==`, i.e. equality of renderings) and a complexity
  measure; their own simplification is the business of C01.
-/
namespace Amoco.Merge

inductive MV (E : Type)
  | top
  | leaf (e : E)
  | vec (l : List E)
  | vecw (l : List E)
  deriving Repr, DecidableEq, Inhabited

variable {E : Type}

/-- `self.l = []; for e in l: if e in self.l: continue; self.l.append(e)` -/
def dedupBy (eq : E → E → Bool) : List E → List E → List E
  | acc, [] => acc
  | acc, e :: rest => if acc.any (eq e) then dedupBy eq acc rest else dedupBy eq (acc ++ [e]) rest

/-- the first loop of `vec.simplify`: children are already simplified values; a child that is not
    `_is_def` (`top`, `vecw`) is returned as the result; vec children are flattened. -/
def gather : List (MV E) → List E → Sum (MV E) (List E)
  | [], acc => .inr acc
  | .top :: _, _ => .inl .top
  | .vecw l :: _, _ => .inl (.vecw l)
  | .vec l :: rest, acc => gather rest (acc ++ l)
  | .leaf e :: rest, acc => gather rest (acc ++ [e])

/-- `vec.simplify(widening=…)` with complexity threshold `thr` (0 = off); `cplx` is scaled to `Nat`. -/
def vecSimplify (eq : E → E → Bool) (cplx : E → Nat) (thr : Nat) (widening : Bool) (children : List (MV E)) : MV E :=
  match gather children [] with
  | .inl v => v
  | .inr l =>
    let l' := dedupBy eq [] l
    match l' with
    | [e] => .leaf e
    | _ =>
      if widening then .vecw l'
      else if thr > 0 && (l'.map cplx).foldl (· + ·) 0 > thr then .top
      else .vec l'

/-- a register location; `isFlag` is `loc.etype & regtype.FLAGS`. -/
structure Loc where
  name   : String
  isFlag : Bool
  deriving Repr, DecidableEq, Inhabited

abbrev Map (E : Type) := List (Loc × MV E)

def Map.has (m : Map E) (loc : Loc) : Bool := m.any (fun p => p.1 == loc)

/-- `m[loc]`: the value written by the map, or the location itself (its input value) if not written. -/
def Map.get (input : Loc → E) (m : Map E) (loc : Loc) : MV E :=
  match m.find? (fun p => p.1 == loc) with
  | some p => p.2
  | none => .leaf (input loc)

/-- `merge(m1, m2, **kargs)` restricted to register locations.  `simp` is `v.simplify(**kargs)`. -/
def merge (input : Loc → E) (simp : MV E → MV E) (vs : List (MV E) → MV E) (m1 m2 : Map E) : Map E :=
  let part1 : Map E := m1.map (fun (loc, v1) =>
    let v2 := if loc.isFlag then MV.top else m2.get input loc
    (loc, vs [simp v1, simp v2]))
  let part2 : Map E := (m2.filter (fun p => !part1.has p.1)).map (fun (loc, v2) =>
    let v1 := if loc.isFlag then MV.top else m1.get input loc
    (loc, vs [simp v1, simp v2]))
  part1 ++ part2

end Amoco.Merge
