/-
  Amoco.Model.Value — in-place rewriting of shared expression nodes, seen from every expression that
  embeds them (C13).

  amoco's algebra mutates nodes in place (`op.simplify` rewrites `self.l/self.r/self.op`,
  `comp.simplify`/`restruct` rewrite `parts`, `vec.simplify` rewrites `self.l`, …).  An object used as an
  operand of several results is *shared*: after such a rewrite every expression that embeds the node
  sees the new form.  The model: terms over an arbitrary signature whose denotation is compositional;
  an in-place rewrite is a (partial) function on nodes applied at every occurrence.
-/
namespace Amoco.Value

/-- terms: a leaf (register / constant, by id) or an operator node with its operands -/
inductive Tm
  | leaf (id : Nat)
  | node (f : Nat) (args : List Tm)
  deriving Repr, Inhabited

/-- width and value are both compositional: determined by the operator and the operands' width/value -/
structure Sem (V : Type) where
  leafW : Nat → Nat
  leafV : Nat → V
  nodeW : Nat → List Nat → Nat
  nodeV : Nat → List V → V

mutual
def width {V} (S : Sem V) : Tm → Nat
  | .leaf i => S.leafW i
  | .node f as => S.nodeW f (widths S as)
def widths {V} (S : Sem V) : List Tm → List Nat
  | [] => []
  | t :: ts => width S t :: widths S ts
end

mutual
def den {V} (S : Sem V) : Tm → V
  | .leaf i => S.leafV i
  | .node f as => S.nodeV f (dens S as)
def dens {V} (S : Sem V) : List Tm → List V
  | [] => []
  | t :: ts => den S t :: dens S ts
end

mutual
/-- apply the in-place rewrite `rw` at every node (bottom-up): what every embedding expression sees
    after the shared node objects were rewritten -/
def rewrite (rw : Tm → Option Tm) : Tm → Tm
  | .leaf i => (rw (.leaf i)).getD (.leaf i)
  | .node f as =>
    let t := Tm.node f (rewrites rw as)
    (rw t).getD t
def rewrites (rw : Tm → Option Tm) : List Tm → List Tm
  | [] => []
  | t :: ts => rewrite rw t :: rewrites rw ts
end

end Amoco.Value
