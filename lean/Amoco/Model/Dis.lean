/-
  Amoco.Model.Dis — `disassembler.setup` / `disassembler.__call__` of `amoco/arch/core.py`.

  * `setup`   : the decision-tree builder as coded (stable descending sort by mask weight,
                `< 5` leaf, big-endian justification, local mask, insertion-ordered partition,
                single-branch collapse, recursion);
  * `route`   : the tree walk of `__call__` (key from the first `maxlen` bytes);
  * `call`    : the whole `__call__` as a state machine over the pending-prefix instruction,
                parametric in the per-spec decode outcome, with the candidate list abstracted
                (`route tree` for the real thing, the whole weight-sorted list for the reference scan);
  * `checkTree`: a certificate checker for a dumped real tree.
  Core Lean only.
-/
import Amoco.Basic.Bits

namespace Amoco.Dis

inductive Pfx | no | prefix | xdata
  deriving Repr, DecidableEq, Inhabited

/-- what `setup`/`__call__` look at in an `ispec`. -/
structure SpecK where
  id   : Nat          -- position in the registered list (identity)
  size : Nat          -- `mask.size` (= `fix.size`), in bits
  mask : Nat
  fix  : Nat
  pfx  : Pfx := .no
  deriving Repr, DecidableEq, Inhabited

inductive Tree
  | leaf (specs : List SpecK)
  | node (f : Nat) (children : List (Nat × Tree))
  deriving Repr, Inhabited

/-- `adjust`: big-endian ISAs left-justify masks/fixes to `maxlen*8` bits. -/
def adj (be : Bool) (maxlen : Nat) (size v : Nat) : Nat :=
  if be then v <<< (maxlen * 8 - size) else v

def SpecK.amask (be : Bool) (maxlen : Nat) (s : SpecK) : Nat := adj be maxlen s.size s.mask
def SpecK.afix (be : Bool) (maxlen : Nat) (s : SpecK) : Nat := adj be maxlen s.size s.fix

def weight (s : SpecK) : Nat := popcount s.size s.mask

/-- insert `s` in front of the first element whose weight is not strictly greater. -/
def insertFront (s : SpecK) : List SpecK → List SpecK
  | [] => [s]
  | t :: ts => if weight t > weight s then t :: insertFront s ts else s :: t :: ts

/-- `ispecs.sort(key=hw, reverse=True)`: stable, descending weight. -/
def sortW (l : List SpecK) : List SpecK := l.foldr insertFront []

def andAll : List Nat → Nat
  | [] => 0
  | [x] => x
  | x :: xs => x &&& andAll xs

/-- keep first occurrences (insertion order of Python dict keys). -/
def dedup : List Nat → List Nat
  | [] => []
  | x :: xs => x :: (dedup xs).filter (· != x)

/-- insertion-ordered partition by key (Python `defaultdict` filled in a loop):
    keys in order of first occurrence, each with the members having that key, in order. -/
def partitionBy (key : SpecK → Nat) (l : List SpecK) : List (Nat × List SpecK) :=
  (dedup (l.map key)).map (fun k => (k, l.filter (fun t => key t == k)))

def setup (be : Bool) (maxlen : Nat) : Nat → List SpecK → Tree
  | 0, l => .leaf (sortW l)
  | fuel+1, l =>
    let l := sortW l
    if l.length < 5 then .leaf l else
    let f := andAll (l.map (SpecK.amask be maxlen))
    if f == 0 then .leaf l else
    let parts := partitionBy (fun s => s.afix be maxlen &&& f) l
    match parts with
    | [(_, only)] => .leaf only
    | _ => .node f (parts.map (fun (k, sub) => (k, setup be maxlen fuel sub)))

/-- the search key `b` of `__call__`. -/
def key (be : Bool) (maxlen : Nat) (bytes : List Nat) : Nat :=
  let bs := bytes.take maxlen
  if be then (leVal bs.reverse) <<< (maxlen * 8 - 8 * bs.length) else leVal bs

def lookupChild (k : Nat) : List (Nat × Tree) → Option Tree
  | [] => none
  | (k', t) :: rest => if k' == k then some t else lookupChild k rest

/-- tree walk: the leaf list reached for key `b` (empty when the walk falls off). -/
def route : Tree → Nat → List SpecK
  | .leaf l, _ => l
  | .node f cs, b => routeChildren cs (b &&& f) b
where
  routeChildren : List (Nat × Tree) → Nat → Nat → List SpecK
    | [], _, _ => []
    | (k', t) :: rest, k, b => if k' == k then route t b else routeChildren rest k b

/-! ### `__call__` as a state machine -/

/-- outcome of `s.decode(bytestring, e, i=pending)` -/
inductive Out (I : Type)
  | reject                 -- DecodeError / InstructionError : try the next spec
  | ok (i : I)
  | raise (e : Nat)        -- any other exception class: propagates
  deriving Repr, Inhabited

inductive Res (I : Type)
  | none                   -- returns None
  | instr (i : I)
  | raised (e : Nat)
  deriving Repr, DecidableEq, Inhabited

/-- first candidate whose decode does not reject. -/
def firstHit {I} (dec : SpecK → Out I) : List SpecK → Option (SpecK × Out I)
  | [] => none
  | s :: rest =>
    match dec s with
    | .reject => firstHit dec rest
    | o => some (s, o)

/--
`call resetOnRaise cands dec xd fuel pending bytes` = (pending after the call, result).
`cands bytes` is the candidate list examined in order; `dec pending bytes s` the outcome of
`s.decode`; `xd i` models `i.xdata(i, **kargs)` (`none` = it raised, code `0`).
`resetOnRaise = true` is the repaired code (try/finally), `false` the original one.
-/
def call {I} (resetOnRaise : Bool) (cands : List Nat → List SpecK)
    (dec : Option I → List Nat → SpecK → Out I) (xd : I → Option I) :
    Nat → Option I → List Nat → Option I × Res I
  | 0, st, _ => (if resetOnRaise then none else st, .raised 1)      -- RecursionError
  | fuel+1, st, bytes =>
    match firstHit (dec st bytes) (cands bytes) with
    | none => (none, .none)
    | some (_, .reject) => (none, .none)     -- unreachable
    | some (_, .raise e) => (if resetOnRaise then none else st, .raised e)
    | some (s, .ok i) =>
      match s.pfx with
      | .prefix =>
        -- `decode(i=pending)` extends the pending object in place and returns it: `self.__i` is `i`
        call resetOnRaise cands dec xd fuel (some i) (bytes.drop (s.size / 8))
      | .xdata =>
        match xd i with
        | some i' => (none, .instr i')
        | none => (if resetOnRaise then none else st, .raised 0)
      | .no => (none, .instr i)

/-! ### byte accounting of `ispec.decode` -/

/-- an instruction reduced to what the framework itself maintains: its bytes, and an opaque payload. -/
structure Ins where
  bytes : List Nat
  tag   : Nat
  deriving Repr, DecidableEq, Inhabited

/-- outcome of a spec's hook (after the length and mask tests passed) -/
inductive HookOut
  | reject                       -- InstructionError / precondition false : rolled back
  | ok (tag : Nat) (extra : Nat) -- accepted; the hook consumed `extra` more bytes of the tail
  | raise (e : Nat)
  deriving Repr, DecidableEq, Inhabited

def pendBytes : Option Ins → List Nat
  | some p => p.bytes
  | none => []

/-- `ispec.decode` as far as bytes are concerned: `bs = istr[0:blen]`; a fresh instruction gets `bs`,
    a pending one is extended by `bs`; hooks of variable-length specs append bytes they read from the tail. -/
def decBytes (accepts : SpecK → List Nat → Bool) (hook : SpecK → List Nat → Option Ins → HookOut)
    (st : Option Ins) (bytes : List Nat) (s : SpecK) : Out Ins :=
  let blen := s.size / 8
  if bytes.length < blen then .reject
  else if !accepts s bytes then .reject
  else match hook s bytes st with
    | .reject => .reject
    | .raise e => .raise e
    | .ok tag extra =>
      let n := if s.pfx == .prefix then 0 else min extra (bytes.length - blen)
      .ok { bytes := pendBytes st ++ bytes.take (blen + n), tag := tag }

/-! ### certificate checker for a dumped tree -/

def Tree.specs : Tree → List SpecK
  | .leaf l => l
  | .node _ cs => specsChildren cs
where
  specsChildren : List (Nat × Tree) → List SpecK
    | [] => []
    | (_, t) :: rest => t.specs ++ specsChildren rest

/-- `l` is a sub-sequence of `S` (same relative order) consisting of exactly the members of `S`
    satisfying `p`.  Linear. -/
def isFilterOf (p : SpecK → Bool) (S l : List SpecK) : Bool := S.filter p == l

/-- routing invariant of one (sub)tree w.r.t. the ordered list `S` of specs it must index. -/
def checkTree (be : Bool) (maxlen : Nat) : Tree → List SpecK → Bool
  | .leaf l, S => l == S
  | .node f cs, S =>
    f != 0
    && S.all (fun s => s.amask be maxlen &&& f == f)
    && S.all (fun s => (cs.map Prod.fst).contains (s.afix be maxlen &&& f))
    && checkChildren cs f S
where
  checkChildren : List (Nat × Tree) → Nat → List SpecK → Bool
    | [], _, _ => true
    | (k, t) :: rest, f, S =>
      !(rest.map Prod.fst).contains k
      && checkTree be maxlen t (S.filter (fun s => s.afix be maxlen &&& f == k))
      && checkChildren rest f S

end Amoco.Dis
