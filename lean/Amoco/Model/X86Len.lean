/-
  Amoco.Model.X86Len — instruction-length function for IA-32 and x86-64 (C07).

  Written from the encoding chapter of the Intel SDM (vol. 2, ch. 2 "Instruction format" and
  appendix A "Opcode map") for the opcode maps amoco ships: legacy prefixes, REX, the one-byte map,
  the two-byte map `0F xx`, the three-byte maps `0F 38 xx` / `0F 3A xx`, ModRM / SIB / displacement
  by address size (tables 2-1, 2-2, 2-3), immediates by opcode class and operand size (66 / REX.W),
  `moffs`, and relative branch displacements (size and value).

  The decoder is a program of the *byte-reader monad* `Rd` (a free monad over "read the next
  byte"), so that "the result depends only on the bytes consumed" is a theorem about every `Rd`
  program (Amoco/Props/C07.lean), not about this particular table.

  Not covered (`none`): VEX / EVEX / XOP, 3DNow!, opcodes the SDM leaves undefined, and the encodings
  whose length is vendor-dependent (66-prefixed near branches in 64-bit mode, SSE4a 0F 78).

  Core Lean only (no Mathlib): linked into the compiled driver `drv_x86len`.
-/
namespace Amoco.X86Len

/-! ## byte-reader monad -/

/-- a program that reads bytes one at a time and ends with a value or fails. -/
inductive Rd (α : Type) where
  | ret : α → Rd α
  | fail : Rd α
  | read : (Nat → Rd α) → Rd α

namespace Rd

/-- run a reader on a byte list: result and number of bytes consumed. -/
def run {α : Type} : Rd α → List Nat → Option (α × Nat)
  | .ret a, _ => some (a, 0)
  | .fail, _ => none
  | .read _, [] => none
  | .read k, x :: xs =>
    match run (k x) xs with
    | some (a, n) => some (a, n + 1)
    | none => none

def bind {α β : Type} : Rd α → (α → Rd β) → Rd β
  | .ret a, f => f a
  | .fail, _ => .fail
  | .read k, f => .read (fun x => bind (k x) f)

instance : Monad Rd where
  pure := Rd.ret
  bind := Rd.bind

end Rd

open Rd

/-- read one byte -/
def byte : Rd Nat := .read .ret

/-- read `k` bytes -/
def bytes : Nat → Rd (List Nat)
  | 0 => .ret []
  | k + 1 => Rd.bind byte (fun x => Rd.bind (bytes k) (fun xs => .ret (x :: xs)))

/-! ## numbers -/

/-- little-endian value of a byte list -/
def leNat : List Nat → Nat
  | [] => 0
  | b :: bs => b % 256 + 256 * leNat bs

/-- the `k` little-endian bytes of `v` -/
def leBytes : Nat → Nat → List Nat
  | 0, _ => []
  | k + 1, v => v % 256 :: leBytes k (v / 256)

/-- two's-complement reading of `v` as a `8*k`-bit number -/
def sext (k : Nat) (v : Nat) : Int :=
  let w := 2 ^ (8 * k)
  let u := v % w
  if 2 * u < w then (u : Int) else (u : Int) - (w : Int)

/-! ## modes, prefixes -/

inductive Mode where
  | m32 | m64
  deriving DecidableEq, Repr

structure Pfx where
  opsz : Bool := false       -- 66
  adsz : Bool := false       -- 67
  rep : Nat := 0             -- last of F2 / F3 (0 = none)
  lock : Bool := false       -- F0
  seg : Bool := false        -- 26 2E 36 3E 64 65
  rex : Option Nat := none   -- REX byte when it immediately precedes the opcode (64-bit mode)
  deriving Repr

def Pfx.rexW (p : Pfx) : Bool :=
  match p.rex with
  | some r => (r / 8) % 2 == 1
  | none => false

def isSegPfx (x : Nat) : Bool :=
  x == 0x26 || x == 0x2e || x == 0x36 || x == 0x3e || x == 0x64 || x == 0x65

/-- Legacy prefixes in any order and number, then (64-bit mode) REX. A REX byte that is followed by
    another prefix is ignored (SDM 2.2.1: it must immediately precede the opcode / escape byte).
    Returns the prefix state and the first opcode byte. `fuel` bounds the number of prefix bytes:
    an instruction is at most 15 bytes long. -/
def prefixes (m : Mode) : Nat → Pfx → Rd (Pfx × Nat)
  | 0, _ => .fail
  | f + 1, p =>
    Rd.bind byte (fun x =>
      if x == 0x66 then prefixes m f { p with opsz := true, rex := none }
      else if x == 0x67 then prefixes m f { p with adsz := true, rex := none }
      else if x == 0xf2 || x == 0xf3 then prefixes m f { p with rep := x, rex := none }
      else if x == 0xf0 then prefixes m f { p with lock := true, rex := none }
      else if isSegPfx x then prefixes m f { p with seg := true, rex := none }
      else if m == .m64 && 0x40 ≤ x && x ≤ 0x4f then prefixes m f { p with rex := some x }
      else .ret (p, x))

/-! ## ModRM / SIB / displacement (SDM tables 2-1, 2-2, 2-3) -/

structure ModRM where
  mod : Nat
  reg : Nat
  rm : Nat
  deriving Repr, DecidableEq

def mkModRM (x : Nat) : ModRM := ⟨(x / 64) % 4, (x / 8) % 8, x % 8⟩

/-- displacement bytes with 16-bit addressing (table 2-1) -/
def disp16 (mod rm : Nat) : Nat :=
  if mod == 0 then (if rm == 6 then 2 else 0)
  else if mod == 1 then 1
  else if mod == 2 then 2
  else 0

/-- displacement bytes with 32/64-bit addressing (table 2-2; `base` is `rm`, or the SIB base
    field when `rm = 4`, table 2-3) -/
def disp32 (mod base : Nat) : Nat :=
  if mod == 0 then (if base == 5 then 4 else 0)
  else if mod == 1 then 1
  else if mod == 2 then 4
  else 0

/-- number of bytes that follow the ModRM byte (SIB + displacement), as a function of the address
    size (`a16`), the ModRM byte and the byte after it (only looked at when it is a SIB byte). -/
def modrmTail (a16 : Bool) (modrm sib : Nat) : Nat :=
  let mod := (modrm / 64) % 4
  let rm := modrm % 8
  if mod == 3 then 0
  else if a16 then disp16 mod rm
  else if rm == 4 then 1 + disp32 mod (sib % 8)
  else disp32 mod rm

/-- read ModRM, SIB and displacement -/
def rdModRM (a16 : Bool) : Rd ModRM :=
  Rd.bind byte (fun x =>
    let r := mkModRM x
    if r.mod == 3 then .ret r
    else if a16 then Rd.bind (bytes (disp16 r.mod r.rm)) (fun _ => .ret r)
    else if r.rm == 4 then
      Rd.bind byte (fun s => Rd.bind (bytes (disp32 r.mod (s % 8))) (fun _ => .ret r))
    else Rd.bind (bytes (disp32 r.mod r.rm)) (fun _ => .ret r))

/-! ## operand / address size -/

/-- 16-bit addressing is in effect (only 32-bit mode with 67) -/
def addr16 (m : Mode) (p : Pfx) : Bool := m == .m32 && p.adsz

/-- bytes of a `moffs` operand = address size -/
def moffsBytes (m : Mode) (p : Pfx) : Nat :=
  match m with
  | .m32 => if p.adsz then 2 else 4
  | .m64 => if p.adsz then 4 else 8

/-- bytes of an `Iz` immediate: 16-bit operand size → 2, else 4 (REX.W overrides 66) -/
def izBytes (m : Mode) (p : Pfx) : Nat :=
  match m with
  | .m32 => if p.opsz then 2 else 4
  | .m64 => if p.rexW then 4 else if p.opsz then 2 else 4

/-- bytes of an `Iv` immediate (`B8+r`): 2 / 4 / 8 -/
def ivBytes (m : Mode) (p : Pfx) : Nat :=
  match m with
  | .m32 => if p.opsz then 2 else 4
  | .m64 => if p.rexW then 8 else if p.opsz then 2 else 4

/-- bytes of a `Jz` displacement; `none` where the SDM and AMD's manual differ (66 without REX.W in
    64-bit mode: ignored by Intel processors, a 16-bit displacement on AMD's) -/
def jzBytes (m : Mode) (p : Pfx) : Option Nat :=
  match m with
  | .m32 => some (if p.opsz then 2 else 4)
  | .m64 => if p.opsz && !p.rexW then none else some 4

/-! ## immediates -/

/-- what follows opcode (+ModRM) -/
inductive Imm where
  | none
  | ib            -- imm8
  | iw            -- imm16
  | iz            -- imm16/32 by operand size
  | iv            -- imm16/32/64 by operand size
  | iwib          -- ENTER
  | ap            -- far pointer: Iz + 2
  | moffs         -- address-size offset
  | jb            -- rel8
  | jz            -- rel16/32
  deriving DecidableEq, Repr

/-- read an immediate; the value is the relative displacement for `jb`/`jz`. -/
def rdImm (m : Mode) (p : Pfx) : Imm → Rd (Option Int)
  | .none => .ret none
  | .ib => Rd.bind (bytes 1) (fun _ => .ret none)
  | .iw => Rd.bind (bytes 2) (fun _ => .ret none)
  | .iz => Rd.bind (bytes (izBytes m p)) (fun _ => .ret none)
  | .iv => Rd.bind (bytes (ivBytes m p)) (fun _ => .ret none)
  | .iwib => Rd.bind (bytes 3) (fun _ => .ret none)
  | .ap => Rd.bind (bytes (izBytes m p + 2)) (fun _ => .ret none)
  | .moffs => Rd.bind (bytes (moffsBytes m p)) (fun _ => .ret none)
  | .jb => Rd.bind (bytes 1) (fun bs => .ret (some (sext 1 (leNat bs))))
  | .jz =>
    match jzBytes m p with
    | none => .fail
    | some k => Rd.bind (bytes k) (fun bs => .ret (some (sext k (leNat bs))))

/-! ## opcode maps -/

def inl (x : Nat) (l : List Nat) : Bool := l.contains x

/-- what an opcode needs: a ModRM byte? which immediate? -/
structure Op where
  modrm : Bool
  imm : Imm
  deriving Repr, DecidableEq

def opN : Op := ⟨false, .none⟩
def opM : Op := ⟨true, .none⟩
def opI (i : Imm) : Op := ⟨false, i⟩
def opMI (i : Imm) : Op := ⟨true, i⟩

/-- one-byte opcode map (SDM table A-2), without prefixes, the escape 0F and the opcodes treated
    apart (62 C4 C5 8F C6 C7 F6 F7 FE FF, x87 escapes).  `none` = not an instruction in this mode. -/
def op1 (m : Mode) (op : Nat) : Option Op :=
  let only32 (o : Op) : Option Op := if m == .m32 then some o else none
  if op < 0x40 then
    -- ALU block: x0..x3 ModRM, x4 Ib, x5 Iz; x6/x7 push/pop seg, 27 2F 37 3F BCD adjust
    let lo := op % 8
    if lo < 4 then some opM
    else if lo == 4 then some (opI .ib)
    else if lo == 5 then some (opI .iz)
    else if op == 0x0f then none
    else if isSegPfx op then none
    else only32 opN
  else if op < 0x50 then only32 opN                      -- INC/DEC r (REX in 64-bit mode)
  else if op < 0x60 then some opN                        -- PUSH/POP r
  else if op == 0x60 || op == 0x61 then only32 opN       -- PUSHA/POPA
  else if op == 0x63 then some opM                       -- ARPL / MOVSXD
  else if op == 0x68 then some (opI .iz)
  else if op == 0x69 then some (opMI .iz)
  else if op == 0x6a then some (opI .ib)
  else if op == 0x6b then some (opMI .ib)
  else if 0x6c ≤ op && op ≤ 0x6f then some opN           -- INS/OUTS
  else if 0x70 ≤ op && op ≤ 0x7f then some (opI .jb)     -- Jcc rel8
  else if op == 0x80 || op == 0x83 then some (opMI .ib)
  else if op == 0x81 then some (opMI .iz)
  else if op == 0x82 then only32 (opMI .ib)
  else if 0x84 ≤ op && op ≤ 0x8e then some opM           -- TEST XCHG MOV LEA MOV Sreg
  else if 0x90 ≤ op && op ≤ 0x99 then some opN
  else if op == 0x9a then only32 (opI .ap)
  else if 0x9b ≤ op && op ≤ 0x9f then some opN
  else if 0xa0 ≤ op && op ≤ 0xa3 then some (opI .moffs)
  else if 0xa4 ≤ op && op ≤ 0xa7 then some opN
  else if op == 0xa8 then some (opI .ib)
  else if op == 0xa9 then some (opI .iz)
  else if 0xaa ≤ op && op ≤ 0xaf then some opN
  else if 0xb0 ≤ op && op ≤ 0xb7 then some (opI .ib)
  else if 0xb8 ≤ op && op ≤ 0xbf then some (opI .iv)
  else if op == 0xc0 || op == 0xc1 then some (opMI .ib)
  else if op == 0xc2 || op == 0xca then some (opI .iw)
  else if op == 0xc3 || op == 0xcb || op == 0xc9 || op == 0xcc || op == 0xcf then some opN
  else if op == 0xc8 then some (opI .iwib)
  else if op == 0xcd then some (opI .ib)
  else if op == 0xce then only32 opN
  else if 0xd0 ≤ op && op ≤ 0xd3 then some opM
  else if op == 0xd4 || op == 0xd5 then only32 (opI .ib)
  else if op == 0xd7 then some opN
  else if 0xd8 ≤ op && op ≤ 0xdf then some opM           -- x87 escapes
  else if 0xe0 ≤ op && op ≤ 0xe3 then some (opI .jb)     -- LOOPcc / JrCXZ
  else if 0xe4 ≤ op && op ≤ 0xe7 then some (opI .ib)     -- IN/OUT imm8
  else if op == 0xe8 || op == 0xe9 then some (opI .jz)
  else if op == 0xea then only32 (opI .ap)
  else if op == 0xeb then some (opI .jb)
  else if 0xec ≤ op && op ≤ 0xef then some opN
  else if op == 0xf1 || op == 0xf4 || op == 0xf5 then some opN
  else if 0xf8 ≤ op && op ≤ 0xfd then some opN
  else none

/-- two-byte map `0F xx` (SDM table A-3), without 0F 38 / 0F 3A escapes and MOV CR/DR. -/
def op2 (m : Mode) (p : Pfx) (op : Nat) : Option Op :=
  let pfx := p.opsz || p.rep != 0
  if op ≤ 0x03 then some opM                              -- grp6 grp7 LAR LSL
  else if op == 0x05 || op == 0x07 then (if m == .m64 then some opN else none)  -- SYSCALL SYSRET
  else if op == 0x06 || op == 0x08 || op == 0x09 || op == 0x0b then some opN
  else if op == 0x0d then some opM                        -- PREFETCHW
  else if 0x10 ≤ op && op ≤ 0x1f then some opM            -- SSE moves, grp16, hint NOPs
  else if 0x28 ≤ op && op ≤ 0x2f then some opM
  else if 0x30 ≤ op && op ≤ 0x35 then some opN            -- WRMSR RDTSC RDMSR RDPMC SYSENTER SYSEXIT
  else if op == 0x37 then some opN                        -- GETSEC
  else if 0x40 ≤ op && op ≤ 0x4f then some opM            -- CMOVcc
  else if 0x50 ≤ op && op ≤ 0x6f then some opM
  else if 0x70 ≤ op && op ≤ 0x73 then some (opMI .ib)     -- PSHUF*, grp12-14
  else if 0x74 ≤ op && op ≤ 0x76 then some opM
  else if op == 0x77 then some opN                        -- EMMS
  else if op == 0x78 then (if pfx then none else some opM)  -- VMREAD (66/F2: SSE4a, AMD only)
  else if op == 0x79 then (if pfx then none else some opM)  -- VMWRITE
  else if op == 0x7c || op == 0x7d then (if pfx then some opM else none)  -- HADD/HSUB
  else if op == 0x7e || op == 0x7f then some opM
  else if 0x80 ≤ op && op ≤ 0x8f then some (opI .jz)      -- Jcc rel16/32
  else if 0x90 ≤ op && op ≤ 0x9f then some opM            -- SETcc
  else if op == 0xa0 || op == 0xa1 || op == 0xa2 || op == 0xa8 || op == 0xa9 || op == 0xaa then some opN
  else if op == 0xa3 || op == 0xa5 || op == 0xab || op == 0xad || op == 0xae || op == 0xaf then some opM
  else if op == 0xa4 || op == 0xac then some (opMI .ib)   -- SHLD/SHRD imm8
  else if 0xb0 ≤ op && op ≤ 0xb7 then some opM
  else if op == 0xb8 then (if p.rep == 0xf3 then some opM else none)  -- POPCNT (JMPE otherwise)
  else if op == 0xb9 then some opM                        -- UD1
  else if op == 0xba then some (opMI .ib)                 -- grp8
  else if 0xbb ≤ op && op ≤ 0xbf then some opM
  else if op == 0xc0 || op == 0xc1 || op == 0xc3 || op == 0xc7 then some opM
  else if op == 0xc2 || op == 0xc4 || op == 0xc5 || op == 0xc6 then some (opMI .ib)
  else if 0xc8 ≤ op && op ≤ 0xcf then some opN            -- BSWAP
  else if op == 0xd0 || op == 0xd6 || op == 0xe6 then (if pfx then some opM else none)
  else if op == 0xf0 then (if p.rep == 0xf2 then some opM else none)  -- LDDQU
  else if 0xd1 ≤ op && op ≤ 0xfe then some opM
  else none

/-- three-byte map `0F 38 xx` (table A-4): all ModRM, no immediate. -/
def op38 (op : Nat) : Bool :=
  op ≤ 0x0b || inl op [0x10, 0x14, 0x15, 0x17, 0x1c, 0x1d, 0x1e] || (0x20 ≤ op && op ≤ 0x25)
  || (0x28 ≤ op && op ≤ 0x2b) || (0x30 ≤ op && op ≤ 0x35) || (0x37 ≤ op && op ≤ 0x41)
  || (0x80 ≤ op && op ≤ 0x82) || (0xc8 ≤ op && op ≤ 0xcd) || op == 0xcf
  || (0xdb ≤ op && op ≤ 0xdf) || op == 0xf0 || op == 0xf1 || op == 0xf5 || op == 0xf6
  || op == 0xf8 || op == 0xf9

/-- three-byte map `0F 3A xx` (table A-5): all ModRM + imm8. -/
def op3a (op : Nat) : Bool :=
  (0x08 ≤ op && op ≤ 0x0f) || (0x14 ≤ op && op ≤ 0x17) || (0x20 ≤ op && op ≤ 0x22)
  || (0x40 ≤ op && op ≤ 0x42) || op == 0x44 || (0x60 ≤ op && op ≤ 0x63) || op == 0xcc
  || op == 0xce || op == 0xcf || op == 0xdf

/-! ## the decoder -/

/-- ModRM (+SIB+disp) then immediate -/
def rdOp (m : Mode) (p : Pfx) (o : Op) : Rd (Option Int) :=
  if o.modrm then Rd.bind (rdModRM (addr16 m p)) (fun _ => rdImm m p o.imm)
  else rdImm m p o.imm

/-- ModRM whose immediate depends on the reg field (groups 3 and 11) -/
def rdGrp (m : Mode) (p : Pfx) (f : ModRM → Option Imm) : Rd (Option Int) :=
  Rd.bind (rdModRM (addr16 m p)) (fun r =>
    match f r with
    | some i => rdImm m p i
    | none => .fail)

/-- opcodes of the one-byte map whose shape depends on the ModRM byte -/
def special1 (m : Mode) (p : Pfx) (op : Nat) : Option (Rd (Option Int)) :=
  if op == 0x62 then          -- BOUND Gv,Ma (32-bit mode, memory only); otherwise EVEX
    some (if m == .m32 then rdGrp m p (fun r => if r.mod == 3 then none else some .none) else .fail)
  else if op == 0xc4 || op == 0xc5 then   -- LES / LDS (32-bit mode, memory only); otherwise VEX
    some (if m == .m32 then rdGrp m p (fun r => if r.mod == 3 then none else some .none) else .fail)
  else if op == 0x8f then     -- grp1A: POP Ev is /0; the rest is XOP
    some (rdGrp m p (fun r => if r.reg == 0 then some .none else none))
  else if op == 0xc6 then     -- grp11: MOV Eb,Ib is /0; C6 F8 ib is XABORT
    some (rdGrp m p (fun r => if r.reg == 0 || (r.reg == 7 && r.mod == 3 && r.rm == 0) then some .ib else none))
  else if op == 0xc7 then     -- grp11: MOV Ev,Iz is /0; C7 F8 rel is XBEGIN
    some (rdGrp m p (fun r => if r.reg == 0 then some .iz
                              else if r.reg == 7 && r.mod == 3 && r.rm == 0 then some .jz else none))
  else if op == 0xf6 then     -- grp3 Eb: TEST (/0, /1) has an imm8
    some (rdGrp m p (fun r => if r.reg ≤ 1 then some .ib else some .none))
  else if op == 0xf7 then     -- grp3 Ev: TEST (/0, /1) has an Iz
    some (rdGrp m p (fun r => if r.reg ≤ 1 then some .iz else some .none))
  else if op == 0xfe then     -- grp4: INC/DEC Eb
    some (rdGrp m p (fun r => if r.reg ≤ 1 then some .none else none))
  else if op == 0xff then     -- grp5: /7 undefined; far forms (/3, /5) are memory only
    some (rdGrp m p (fun r => if r.reg == 7 then none
                              else if (r.reg == 3 || r.reg == 5) && r.mod == 3 then none else some .none))
  else none

/-- after the opcode escape `0F` -/
def twoByte (m : Mode) (p : Pfx) : Rd (Option Int) :=
  Rd.bind byte (fun op =>
    if op == 0x38 then
      Rd.bind byte (fun op3 => if op38 op3 then rdOp m p opM else .fail)
    else if op == 0x3a then
      Rd.bind byte (fun op3 => if op3a op3 then rdOp m p (opMI .ib) else .fail)
    else if 0x20 ≤ op && op ≤ 0x23 then
      -- MOV to/from CRn/DRn: a ModRM byte whose mod field is ignored (always register form)
      Rd.bind byte (fun _ => .ret none)
    else
      match op2 m p op with
      | some o => rdOp m p o
      | none => .fail)

/-- one instruction: prefixes, opcode, ModRM/SIB/displacement, immediate.
    The value is the relative displacement of a relative jump / call. -/
def insn (m : Mode) : Rd (Option Int) :=
  Rd.bind (prefixes m 15 {}) (fun (p, op) =>
    if op == 0x0f then twoByte m p
    else
      match special1 m p op with
      | some r => r
      | none =>
        match op1 m op with
        | some o => rdOp m p o
        | none => .fail)

/-- length (and relative displacement, if the instruction is a relative branch) of the instruction
    that starts the byte string; `none` if there is none the model covers, if the string is too
    short, or if the instruction would exceed the architectural 15-byte limit. -/
def x86dec (m : Mode) (b : List Nat) : Option (Nat × Option Int) :=
  match (insn m).run b with
  | some (d, n) => if n ≤ 15 then some (n, d) else none
  | none => none

def x86len (m : Mode) (b : List Nat) : Option Nat := (x86dec m b).map (·.1)

def x86rel (m : Mode) (b : List Nat) : Option Int := (x86dec m b).bind (·.2)

/-- boundaries of a linear sweep from offset 0 (stops at the first undecodable position). -/
def sweep (m : Mode) : Nat → List Nat → List Nat
  | 0, _ => []
  | _ + 1, [] => []
  | f + 1, b =>
    match x86len m b with
    | some n => n :: sweep m f (b.drop n)
    | none => []

end Amoco.X86Len
