/-
  Amoco.Model.Leb128 — executable model of amoco/system/structs/utils.py
  (read_leb128 / write_uleb128 / write_sleb128), as coded.  Core Lean only.

  Python reference (utils.py):

    def read_leb128(data, sign=1, offset=0):
        result = 0; shift = 0; count = 0
        for b in data[offset:]:
            count += 1
            result |= (b & 0x7F) << shift
            shift += 7
            if b & 0x80 == 0: break
        if sign < 0 and (b & 0x40):
            result |= ~0 << shift
        return result, count

    def write_uleb128(val):
        if val==0: return b'\0'
        res = []
        while val!=0:
            x = val&0x7f; val = val>>7
            if val!=0: x = 0x80|x
            res.append(x)
        return bytes(res)

    def write_sleb128(val):
        more=True; res = []
        while more:
            x = val&0x7f; val = val>>7
            if ((val==0) and (x&0x40==0)) or ((val==-1) and (x&0x40)): more=False
            else: x = 0x80|x
            res.append(x)
        return bytes(res)
-/

namespace Amoco.Leb128

/-- state of the `for` loop of `read_leb128` after it ends: result, shift, count, last byte `b`. -/
structure LoopOut where
  result : Nat
  shift : Nat
  count : Nat
  last : UInt8
deriving Repr, DecidableEq

/-- the `for b in data[offset:]` loop; `last` is the loop variable `b` (kept after the loop). -/
def readLoop : List UInt8 → Nat → Nat → Nat → UInt8 → LoopOut
  | [], r, s, c, last => ⟨r, s, c, last⟩
  | b :: bs, r, s, c, _ =>
    let r' := r ||| ((b.toNat &&& 0x7F) <<< s)
    if b.toNat &&& 0x80 = 0 then ⟨r', s + 7, c + 1, b⟩
    else readLoop bs r' (s + 7) (c + 1) b

/-- `read_leb128(data, sign, offset)`; `none` models the `UnboundLocalError` raised when the
    signed reader is given no byte at all. -/
def readLeb (signed : Bool) (data : List UInt8) (offset : Nat) : Option (Int × Nat) :=
  match data.drop offset with
  | [] => if signed then none else some (0, 0)
  | b :: bs =>
    let o := readLoop (b :: bs) 0 0 0 0
    if signed && (o.last.toNat &&& 0x40 != 0) then
      -- result |= ~0 << shift   (result < 2^shift, so this is result - 2^shift)
      some ((o.result : Int) - (2 : Int) ^ o.shift, o.count)
    else some ((o.result : Int), o.count)

/-- the `while val != 0` loop of `write_uleb128`. -/
def writeULoop (val : Nat) : List UInt8 :=
  if h : val = 0 then []
  else
    let x := val % 128
    let v' := val / 128
    (if v' ≠ 0 then UInt8.ofNat (x + 128) else UInt8.ofNat x) :: writeULoop v'
termination_by val
decreasing_by omega

/-- `write_uleb128(val)` for `val ≥ 0` (a negative argument does not terminate in Python). -/
def writeU (val : Nat) : List UInt8 :=
  if val = 0 then [0] else writeULoop val

/-- `write_sleb128(val)`. `val & 0x7f` is `val % 128` and `val >> 7` is floor division for
    Python integers of either sign. -/
def writeS (val : Int) : List UInt8 :=
  let x := (val % 128).toNat
  let v' := val / 128
  if (v' = 0 ∧ x &&& 0x40 = 0) ∨ (v' = -1 ∧ x &&& 0x40 ≠ 0) then [UInt8.ofNat x]
  else UInt8.ofNat (x + 128) :: writeS v'
termination_by val.natAbs
decreasing_by
  rename_i h
  have hx : (val % 128).toNat < 128 := by omega
  by_cases h0 : val = 0
  · subst h0; exact absurd (Or.inl ⟨by decide, by decide⟩) h
  by_cases h1 : val = -1
  · subst h1; exact absurd (Or.inr ⟨by decide, by decide⟩) h
  omega

/-! ### canonical (shortest) encodings -/

/-- canonical unsigned multi-byte body: continuation bytes ≥ 0x80, last byte in 1..0x7f -/
def canonULoop : List UInt8 → Bool
  | [] => false
  | [b] => decide (0 < b.toNat ∧ b.toNat < 128)
  | b :: b2 :: bs => decide (128 ≤ b.toNat) && canonULoop (b2 :: bs)

/-- canonical unsigned LEB128: `00`, or a body without a redundant final zero byte -/
def canonU (bs : List UInt8) : Bool := bs == [0] || canonULoop bs

/-- canonical signed LEB128: continuation bytes ≥ 0x80, last < 0x80, and the last byte is not a
    redundant sign extension (`00` after a byte with bit 6 clear, `7f` after one with bit 6 set). -/
def canonS : List UInt8 → Bool
  | [] => false
  | [b] => decide (b.toNat < 128)
  | b :: b2 :: bs =>
    decide (128 ≤ b.toNat) && canonS (b2 :: bs) &&
      (!bs.isEmpty || (!(b2.toNat == 0 && b.toNat &&& 0x40 == 0) && !(b2.toNat == 0x7F && b.toNat &&& 0x40 != 0)))

end Amoco.Leb128
