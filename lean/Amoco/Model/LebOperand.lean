/-
  Amoco.Model.LebOperand — executable model of the LEB128 *operand helpers* of the decoder hooks:
  `_leb128(obj, data, sign)` of amoco/arch/dwarf/spec.py (offset 0) and
  `_leb(obj, data, sign, offset)` of amoco/arch/wasm/spec.py, as coded:

      if len(data) <= offset: raise InstructionError(obj)
      result, blen = read_leb128(data, sign, offset)
      if data[offset + blen - 1] & 0x80: raise InstructionError(obj)
      return result, blen

  `none` models the rejection (InstructionError), `some (value, blen)` the accepted operand.
  Core Lean only.
-/
import Amoco.Model.Leb128

namespace Amoco.Leb128

def lebOperand (signed : Bool) (data : List UInt8) (offset : Nat) : Option (Int × Nat) :=
  if data.length ≤ offset then none
  else
    match readLeb signed data offset with
    | none => none
    | some (v, n) =>
      match data[offset + n - 1]? with
      | some b => if b.toNat &&& 0x80 ≠ 0 then none else some (v, n)
      | none => none

end Amoco.Leb128
