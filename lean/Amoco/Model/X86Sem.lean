/-
  Amoco.Model.X86Sem — the bodies of the x86/x64 integer ALU semantics functions `i_XXX(i, fmap)` of
  `amoco/arch/x64/asm.py` and `amoco/arch/x86/asm.py` (ADD SUB CMP AND OR XOR TEST INC DEC NEG NOT ADC SBB)
  as terms of a small DSL, the meaning of that DSL, the hand-written table `expected` of what each body
  should be, and a reference semantics `ref` written from the Intel SDM instruction pages.

  A body is a list of statements executed in order:
      fmap[rip] = fmap[rip] + i.length            ↦ Stmt.advance
      fmap[<flag>] = e                            ↦ Stmt.setf flag e
      op1, x = _r32_zx64(op1, x); fmap[op1] = x   ↦ Stmt.setdst true e      (x64)
      fmap[op1] = x                               ↦ Stmt.setdst false e     (x86)
  The expressions `e` are over the values read *before* the first store (the translator refuses bodies
  that read the map after a flag or the destination has been stored):
      a = fmap(i.operands[0]), b = fmap(i.operands[1]), cin = fmap(cf)
  and the helpers of asm.py / cas/utils.py, taken as primitives whose meaning is their model in
  Amoco/Model/Flags.lean (the translator checks that the helpers' source still has the modelled shape).

  Operands are bit-vectors of one common width `w` (the reg,reg / reg,mem forms); immediates of a smaller
  size (sign-extended by the decoder or by `i_AND`) are outside this model.  Core Lean only.
-/
import Amoco.Model.Flags

namespace Amoco.X86Sem
open Amoco.Flags

inductive Arch
  | x64 | x86
  deriving DecidableEq, Repr, Inhabited

inductive Mn
  | ADD | SUB | CMP | AND | OR | XOR | TEST | INC | DEC | NEG | NOT | ADC | SBB
  deriving DecidableEq, Repr, Inhabited

def allMn : List Mn := [.ADD, .SUB, .CMP, .AND, .OR, .XOR, .TEST, .INC, .DEC, .NEG, .NOT, .ADC, .SBB]

def Mn.name : Mn → String
  | .ADD => "ADD" | .SUB => "SUB" | .CMP => "CMP" | .AND => "AND" | .OR => "OR" | .XOR => "XOR"
  | .TEST => "TEST" | .INC => "INC" | .DEC => "DEC" | .NEG => "NEG" | .NOT => "NOT" | .ADC => "ADC" | .SBB => "SBB"

/-! ## syntax -/

inductive E
  | a                              -- `fmap(i.operands[0])`
  | b                              -- `fmap(i.operands[1])`
  | cin                            -- `fmap(cf)`
  | cst (v : Nat)                  -- `cst(v, <operand>.size)`
  | bit0 | bit1
  | awc  (x y c : E)               -- `AddWithCarry(x, y, c)[0]`   (declared signed by the helper)
  | awcC (x y c : E)               -- `AddWithCarry(x, y, c)[1]`
  | awcO (x y c : E)               -- `AddWithCarry(x, y, c)[2]`
  | swb  (x y c : E)               -- `SubWithBorrow(x, y, c)[0]`
  | swbC (x y c : E)
  | swbO (x y c : E)
  | hc (x y c : E)                 -- `halfcarry(x, y, c)`   (`c` omitted = `bit0`, as in AddWithCarry)
  | hb (x y c : E)                 -- `halfborrow(x, y, c)`
  | par8 (x : E)                   -- `parity8(x[0:8])`
  | and (x y : E) | or (x y : E) | xor (x y : E)
  | not (x : E)
  | sx (x : E)                     -- `if x.size < op1.size: x = x.signextend(op1.size)`  (identity at equal widths)
  | eqz (x : E)                    -- `x == 0`
  | nez (x : E)                    -- `x != 0`
  | ltz (x : E)                    -- `x < 0`     (reads the declared signedness of x)
  | msb (x : E)                    -- `x.bit(-1)` / `x[x.size-1:x.size]`
  deriving DecidableEq, Repr, Inhabited

inductive Flag
  | cf | pf | af | zf | sf | of
  deriving DecidableEq, Repr, Inhabited

inductive Stmt
  | advance
  | setf (f : Flag) (e : E)
  | setdst (zx : Bool) (e : E)
  | unsupported (why : String)
  deriving DecidableEq, Repr, Inhabited

abbrev Sem := List Stmt

/-! ## meaning -/

/-- a value: a word of the operand width with its declared signedness, or one bit -/
inductive Val (w : Nat)
  | word (x : BitVec w) (sg : Bool)
  | bit (v : Bool)
  deriving DecidableEq, Repr

def wwb {w} (x y k : Option (Val w)) (f : BitVec w → BitVec w → Bool → Val w) : Option (Val w) :=
  match x, y, k with
  | some (.word x _), some (.word y _), some (.bit k) => some (f x y k)
  | _, _, _ => none

def ww {w} (x y : Option (Val w)) (f : BitVec w → BitVec w → Val w) : Option (Val w) :=
  match x, y with
  | some (.word x _), some (.word y _) => some (f x y)
  | _, _ => none

def w1 {w} (x : Option (Val w)) (f : BitVec w → Bool → Option (Val w)) : Option (Val w) :=
  match x with
  | some (.word x sg) => f x sg
  | _ => none

/-- value of an expression on the operand values `a`, `b` and the incoming carry `c`; `none` for
    ill-typed terms and for `x < 0` on a word that nothing declared signed (amoco then compares the
    unsigned value: not modelled) -/
def eval {w} (a b : BitVec w) (c : Bool) : E → Option (Val w)
  | .a => some (.word a false)
  | .b => some (.word b false)
  | .cin => some (.bit c)
  | .cst v => some (.word (BitVec.ofNat w v) false)
  | .bit0 => some (.bit false)
  | .bit1 => some (.bit true)
  | .awc x y k  => wwb (eval a b c x) (eval a b c y) (eval a b c k) fun x y k => .word (addWithCarry x y k).res true
  | .awcC x y k => wwb (eval a b c x) (eval a b c y) (eval a b c k) fun x y k => .bit (addWithCarry x y k).carry
  | .awcO x y k => wwb (eval a b c x) (eval a b c y) (eval a b c k) fun x y k => .bit (addWithCarry x y k).overflow
  | .swb x y k  => wwb (eval a b c x) (eval a b c y) (eval a b c k) fun x y k => .word (subWithBorrow x y k).res true
  | .swbC x y k => wwb (eval a b c x) (eval a b c y) (eval a b c k) fun x y k => .bit (subWithBorrow x y k).carry
  | .swbO x y k => wwb (eval a b c x) (eval a b c y) (eval a b c k) fun x y k => .bit (subWithBorrow x y k).overflow
  | .hc x y k => wwb (eval a b c x) (eval a b c y) (eval a b c k) fun x y k => .bit (halfcarry x y k)
  | .hb x y k => wwb (eval a b c x) (eval a b c y) (eval a b c k) fun x y k => .bit (halfborrow x y k)
  | .par8 x => w1 (eval a b c x) fun x _ => some (.bit (parity8 (x.setWidth 8)))
  | .and x y => ww (eval a b c x) (eval a b c y) fun x y => .word (x &&& y) false
  | .or x y  => ww (eval a b c x) (eval a b c y) fun x y => .word (x ||| y) false
  | .xor x y => ww (eval a b c x) (eval a b c y) fun x y => .word (x ^^^ y) false
  | .not x => w1 (eval a b c x) fun x _ => some (.word (~~~x) false)
  | .sx x => w1 (eval a b c x) fun x sg => some (.word x sg)
  | .eqz x => w1 (eval a b c x) fun x _ => some (.bit (x == 0))
  | .nez x => w1 (eval a b c x) fun x _ => some (.bit (x != 0))
  | .ltz x => w1 (eval a b c x) fun x sg => if sg then some (.bit x.msb) else none
  | .msb x => w1 (eval a b c x) fun x _ => some (.bit x.msb)

/-- what a body did: number of `rip` advances, the value stored in the destination (if any; `zx` =
    through `_r32_zx64`), the value stored in each flag (if any; the last store wins) -/
structure Out (w : Nat) where
  rip : Nat := 0
  dst : Option (BitVec w) := none
  zx : Bool := false
  cf : Option Bool := none
  pf : Option Bool := none
  af : Option Bool := none
  zf : Option Bool := none
  sf : Option Bool := none
  of : Option Bool := none
  deriving DecidableEq, Repr

def Out.setFlag {w} (o : Out w) (f : Flag) (v : Bool) : Out w :=
  match f with
  | .cf => { o with cf := some v } | .pf => { o with pf := some v } | .af => { o with af := some v }
  | .zf => { o with zf := some v } | .sf => { o with sf := some v } | .of => { o with of := some v }

def step {w} (a b : BitVec w) (c : Bool) (s : Stmt) (o : Out w) : Option (Out w) :=
  match s with
  | .advance => some { o with rip := o.rip + 1 }
  | .setf f e => match eval a b c e with
      | some (.bit v) => some (o.setFlag f v)
      | _ => none
  | .setdst zx e => match eval a b c e with
      | some (.word x _) => some { o with dst := some x, zx := zx }
      | _ => none
  | .unsupported _ => none

def runFrom {w} (a b : BitVec w) (c : Bool) : Sem → Out w → Option (Out w)
  | [], o => some o
  | s :: r, o => match step a b c s o with
      | some o' => runFrom a b c r o'
      | none => none

/-- run a body on operand values `a`, `b` and incoming carry `c` -/
def run {w} (s : Sem) (a b : BitVec w) (c : Bool) : Option (Out w) := runFrom a b c s {}

/-! ## the expected bodies -/

def flagsArith (x : E) (half carry ovf : E) : Sem :=
  [.setf .pf (.par8 x), .setf .af half, .setf .zf (.eqz x), .setf .sf (.ltz x), .setf .cf carry, .setf .of ovf]

def flagsIncDec (x : E) (half ovf : E) : Sem :=
  [.setf .af half, .setf .pf (.par8 x), .setf .zf (.eqz x), .setf .sf (.ltz x), .setf .of ovf]

def flagsLogic (x : E) (sign : E) : Sem :=
  [.setf .zf (.eqz x), .setf .sf sign, .setf .cf .bit0, .setf .of .bit0, .setf .pf (.par8 x)]

/-- what each `i_XXX` should be (x64: the destination goes through `_r32_zx64`) -/
def expected (ar : Arch) (m : Mn) : Sem :=
  let zx := ar == .x64
  match m with
  | .ADD => let x := E.awc .a .b .bit0
            .advance :: flagsArith x (.hc .a .b .bit0) (.awcC .a .b .bit0) (.awcO .a .b .bit0) ++ [.setdst zx x]
  | .ADC => let x := E.awc .a .b .cin
            .advance :: flagsArith x (.hc .a .b .cin) (.awcC .a .b .cin) (.awcO .a .b .cin) ++ [.setdst zx x]
  | .SUB => let x := E.swb .a .b .bit0
            .advance :: flagsArith x (.hb .a .b .bit0) (.swbC .a .b .bit0) (.swbO .a .b .bit0) ++ [.setdst zx x]
  | .SBB => let x := E.swb .a .b .cin
            .advance :: flagsArith x (.hb .a .b .cin) (.swbC .a .b .cin) (.swbO .a .b .cin) ++ [.setdst zx x]
  | .CMP => let x := E.swb .a .b .bit0
            [.advance, .setf .af (.hb .a .b .bit0), .setf .zf (.eqz x), .setf .sf (.ltz x),
             .setf .cf (.swbC .a .b .bit0), .setf .of (.swbO .a .b .bit0), .setf .pf (.par8 x)]
  | .INC => let x := E.awc .a (.cst 1) .bit0
            .advance :: flagsIncDec x (.hc .a (.cst 1) .bit0) (.awcO .a (.cst 1) .bit0) ++ [.setdst zx x]
  | .DEC => let x := E.swb .a (.cst 1) .bit0
            .advance :: flagsIncDec x (.hb .a (.cst 1) .bit0) (.swbO .a (.cst 1) .bit0) ++ [.setdst zx x]
  | .NEG => let x := E.swb (.cst 0) .a .bit0
            [.advance, .setf .af (.hb (.cst 0) .a .bit0), .setf .pf (.par8 x), .setf .cf (.nez .a), .setf .zf (.eqz x),
             .setf .sf (.ltz x), .setf .of (.swbO (.cst 0) .a .bit0), .setdst zx x]
  | .NOT => [.advance, .setdst zx (.not .a)]
  | .AND => let x := E.and .a (.sx .b)
            .advance :: flagsLogic x (.msb x) ++ [.setdst zx x]
  | .OR  => let x := E.or .a .b
            .advance :: flagsLogic x (.msb x) ++ [.setdst zx x]
  | .XOR => let x := E.xor .a .b
            .advance :: flagsLogic x (.msb x) ++ [.setdst zx x]
  | .TEST => let x := E.and .a .b
            .advance :: flagsLogic x (.msb x)

/-! ## reference semantics (Intel SDM vol. 2, instruction pages; vol. 1 §3.4.3.1 status flags) -/

/-- effect of an instruction on one status flag -/
inductive Eff
  | set (v : Bool)      -- the flag is set according to the result
  | unchanged           -- "not affected"
  | undefined           -- "undefined": any value conforms
  deriving DecidableEq, Repr

structure Ref (w : Nat) where
  res : Option (BitVec w)      -- value written to the destination operand; `none`: nothing is written
  cf : Eff
  pf : Eff
  af : Eff
  zf : Eff
  sf : Eff
  of : Eff
  deriving DecidableEq, Repr

/-- does the signed value `v` fall outside the `w`-bit two's-complement range? -/
def sovf (w : Nat) (v : Int) : Bool := decide (v < -((2 ^ (w - 1) : Nat) : Int) ∨ ((2 ^ (w - 1) : Nat) : Int) ≤ v)

/-- SF, ZF, PF "set according to the result": sign bit, result = 0, even parity of the low byte -/
def refAdd {w} (a b : BitVec w) (c : Bool) : Ref w :=
  let r := a + b + BitVec.ofNat w c.toNat
  { res := some r
    cf := .set (decide (2 ^ w ≤ a.toNat + b.toNat + c.toNat))                 -- unsigned overflow
    of := .set (sovf w (a.toInt + b.toInt + (c.toNat : Int)))                   -- signed overflow
    af := .set (decide (16 ≤ a.toNat % 16 + b.toNat % 16 + c.toNat))          -- carry out of bit 3
    zf := .set (r == 0), sf := .set r.msb, pf := .set (evenParity (r.setWidth 8)) }

def refSub {w} (a b : BitVec w) (c : Bool) : Ref w :=
  let r := a - b - BitVec.ofNat w c.toNat
  { res := some r
    cf := .set (decide (a.toNat < b.toNat + c.toNat))                          -- borrow
    of := .set (sovf w (a.toInt - b.toInt - (c.toNat : Int)))
    af := .set (decide (a.toNat % 16 < b.toNat % 16 + c.toNat))               -- borrow into bit 3
    zf := .set (r == 0), sf := .set r.msb, pf := .set (evenParity (r.setWidth 8)) }

/-- AND/OR/XOR/TEST: OF and CF cleared, SF ZF PF by the result, AF undefined -/
def refLogic {w} (r : BitVec w) : Ref w :=
  { res := some r, cf := .set false, of := .set false, af := .undefined
    zf := .set (r == 0), sf := .set r.msb, pf := .set (evenParity (r.setWidth 8)) }

def ref {w} (m : Mn) (a b : BitVec w) (c : Bool) : Ref w :=
  match m with
  | .ADD => refAdd a b false
  | .ADC => refAdd a b c
  | .SUB => refSub a b false
  | .SBB => refSub a b c
  | .CMP => { refSub a b false with res := none }                -- "SUB without storing the result"
  | .INC => { refAdd a 1 false with cf := .unchanged }           -- "CF is not affected"
  | .DEC => { refSub a 1 false with cf := .unchanged }
  | .NEG => { refSub 0 a false with res := some (-a), cf := .set (a != 0) }   -- CF = 0 iff the source is 0
  | .NOT => { res := some (~~~a), cf := .unchanged, pf := .unchanged, af := .unchanged, zf := .unchanged,
              sf := .unchanged, of := .unchanged }
  | .AND => refLogic (a &&& b)
  | .OR  => refLogic (a ||| b)
  | .XOR => refLogic (a ^^^ b)
  | .TEST => { refLogic (a &&& b) with res := none }

/-- incoming values of the six status flags -/
structure Fl6 where
  cf : Bool
  pf : Bool
  af : Bool
  zf : Bool
  sf : Bool
  of : Bool
  deriving DecidableEq, Repr

/-- the final value of a flag (incoming `i`, stored `o`) is one the effect allows -/
def Eff.ok (e : Eff) (i : Bool) (o : Option Bool) : Bool :=
  match e with
  | .set v => o.getD i == v
  | .unchanged => o.getD i == i
  | .undefined => true

/-- outcome `o` of a body started with flags `f` is what the reference `r` defines -/
def conforms {w} (o : Out w) (f : Fl6) (r : Ref w) : Bool :=
  o.dst == r.res && r.cf.ok f.cf o.cf && r.pf.ok f.pf o.pf && r.af.ok f.af o.af && r.zf.ok f.zf o.zf &&
  r.sf.ok f.sf o.sf && r.of.ok f.of o.of

/-- mnemonics that write their first operand -/
def Mn.writes : Mn → Bool
  | .CMP | .TEST => false
  | _ => true

end Amoco.X86Sem
