/-
  Amoco.Model.Blocks — linear sweep and basic blocks
  (`amoco/sa/lsweep.py` `lsweep.sequence / iterblocks`, `amoco/code.py` `block`).

  * `sequence`   : `lsweep.sequence` as an unfold of an abstract instruction reader
                   (`prog.read_instruction`): read at `loc`, stamp the address, advance by the
                   instruction length.  `norm` is the address arithmetic of `loc += i.length`
                   (identity for a Python int, `% 2^size` for a `cst`).  The Python generator is
                   unbounded; the model takes the number of instructions to draw as `fuel`.
  * `iterblocks` : grouping of the instruction stream into blocks: an instruction is appended, a
                   `delayed` one arms the delay slot, a control-flow one (or any one while the
                   delay slot is armed) closes the block; a non-empty remainder is the trailing block.
  * `block`      : `address`, `length`, `support`, `raw`, `__getitem__` (slice by byte offsets,
                   Python `slice.indices` semantics, `None` unless both bounds are instruction
                   boundaries and the selection is non-empty) and `cut` (drop the instructions from a
                   given address on; returns how many were removed, 0 when the address is not an
                   instruction address).
  Core Lean only.
-/

namespace Amoco.Blocks

/-- what the sweep, the blocks and the graph look at in an `instruction` object -/
structure Instr where
  addr    : Nat
  bytes   : List Nat          -- `i.bytes`; `i.length = len(i.bytes)`
  cf      : Bool              -- `i.type == type_control_flow`
  delayed : Bool              -- `i.misc.get("delayed", False)`
  deriving Repr, DecidableEq, Inhabited

def Instr.length (i : Instr) : Nat := i.bytes.length

abbrev Block := List Instr

/-! ## lsweep.sequence -/

/-- `prog.read_instruction(loc)`: `none` when nothing decodes there; the address field of the
    result is ignored (the sweep's instruction gets `address = loc`). -/
abbrev Reader := Nat → Option Instr

def sequence (read : Reader) (norm : Nat → Nat) : Nat → Nat → List Instr
  | 0, _ => []
  | fuel + 1, loc =>
    match read loc with
    | none => []
    | some i =>
      let i' := { i with addr := loc }
      i' :: sequence read norm fuel (norm (loc + i'.length))

/-! ## lsweep.iterblocks -/

/-- `l` is the list under construction (reversed), `ds` is `is_delay_slot`. -/
def iterblocksAux : List Instr → List Instr → Bool → List Block
  | [], l, _ => if l.isEmpty then [] else [l.reverse]
  | i :: rest, l, ds =>
    if i.delayed then iterblocksAux rest (i :: l) true
    else if i.cf || ds then (i :: l).reverse :: iterblocksAux rest [] false
    else iterblocksAux rest (i :: l) ds

def iterblocks (s : List Instr) : List Block := iterblocksAux s [] false

/-- `getblock`: first block of the sweep from an address. -/
def getblock (read : Reader) (norm : Nat → Nat) (fuel loc : Nat) : Option Block :=
  (iterblocks (sequence read norm fuel loc)).head?

/-- the documented block boundary: a block ends after a control-flow instruction that has no
    delay slot, or after the instruction that follows a delayed one (`prevDelayed`). -/
def endsBlock (prevDelayed : Bool) (i : Instr) : Bool := !i.delayed && (i.cf || prevDelayed)

/-! ## code.block -/

def address? (b : Block) : Option Nat := b.head?.map (·.addr)

/-- `block.length` -/
def blen (b : Block) : Nat := (b.map Instr.length).sum

/-- `block.support` (`(None, None)` for an empty block) -/
def support (b : Block) : Option (Nat × Nat) := (address? b).map (fun a => (a, a + blen b))

/-- `block.raw()` -/
def raw (b : Block) : List Nat := (b.map (·.bytes)).flatten

/-- byte offsets of the instruction boundaries: `pos` of `__getitem__` -/
def offsets : Block → Nat → List Nat
  | [], o => [o]
  | i :: r, o => o :: offsets r (o + i.length)

/-- one bound of `slice.indices(len)` for step 1 -/
def sliceBound (x : Option Int) (dflt len : Nat) : Nat :=
  match x with
  | none => dflt
  | some v => if v < 0 then (v + len).toNat else min v.toNat len

/-- `block.__getitem__(slice(sta, sto))`: `none` is Python's `None`. -/
def getitem (b : Block) (sta sto : Option Int) : Option Block :=
  let len := blen b
  let a := sliceBound sta 0 len
  let o := sliceBound sto len len
  let pos := offsets b 0
  match pos.idxOf? a, pos.idxOf? o with
  | some ista, some isto =>
    let sel := (b.take isto).drop ista
    if sel.isEmpty then none else some sel
  | _, _ => none

/-- `block.cut(address)`: remaining instructions and the number removed. -/
def cut (b : Block) (address : Nat) : Block × Nat :=
  match (b.map (·.addr)).idxOf? address with
  | none => (b, 0)
  | some pos => (b.take pos, b.length - pos)

/-- each instruction starts where the previous one ends -/
def Consecutive : List Instr → Prop
  | [] => True
  | [_] => True
  | x :: y :: r => x.addr + x.length = y.addr ∧ Consecutive (y :: r)

end Amoco.Blocks
