/-
  Amoco.Model.SemDsl — a small semantics DSL for the RISC-V `i_XXX` functions of
  `amoco/arch/riscv/rv32i/asm.py` and `rv64i/asm.py`, and its ideal (two's-complement) meaning.

  A semantics function is a list of statements executed in order against the map:
    `fmap[loc] = e`            ↦ `Stmt.assign loc e`
    `v = … fmap(…) …`          ↦ `Stmt.bind e`      (evaluated now, referred to as `E.loc k`)
    `if dst is not zero: s`    ↦ `Stmt.guardNZ i s`
  Expressions mirror amoco's operator API (`cas/expressions.py`): `+ - & | ^ << >> .>>`,
  comparisons `== != < <= > >=` (which read the *declared* signedness `sf` of their operands),
  `<.`/`>=.` (`OP_LTU`/`OP_GEU`, unsigned whatever is declared), slices `e[lo:hi]`,
  `signextend/zeroextend`, `tst(c,l,r)`, `cst(v,size)`, bare Python ints (which take the size of
  the other operand), `.signed()` / `.unsigned()` / `x.sf = …` declarations.

  `semIdeal` is the meaning these constructs have in ordinary fixed-width arithmetic; it is *not*
  a model of the implementation of `cas/expressions.py` (that is C01's subject).  Ill-sized
  terms (amoco raises `ValueError`) and unsupported constructs evaluate to `none`.

  Also here: `operands` — what the decoder hooks of `spec_rv32i.py` / `spec_rv64i.py` build from a
  word (incl. the `imm1 // imm2 // …` assembly, `.int(-1)`, `<< 1`), and `expected` — the
  hand-written table of what each `i_XXX` should be.  Core Lean only.
-/
import Amoco.Model.RiscvRef

namespace Amoco.Rv

/-! ## operands of a decoded instruction -/

inductive Operand
  | reg (i : Nat)                              -- `env.x[i]` (`x[0]` is the constant `zero`)
  | imm (v : Nat) (size : Nat) (sf : Bool)     -- `env.cst(v, size)`; `sf` = "was built from a negative int"
  | mem (base : Nat) (size : Nat) (disp : Int) -- `env.mem(x[base], size, disp=disp)`
  deriving DecidableEq, Repr, Inhabited

/-! ## syntax -/

inductive BinOp
  | add | sub | and | or | xor | shl | shr | sar
  | eq | ne | lt | le | gt | ge | ltu | geu
  deriving DecidableEq, Repr, Inhabited

inductive E
  | opnd (i : Nat)                -- `ins.operands[i]`
  | pc
  | loc (k : Nat)                 -- k-th `Stmt.bind` of this function
  | cst (v : Int) (size : Nat)    -- `cst(v, size)`
  | int (v : Int)                 -- bare Python int as right operand (takes the left operand's size)
  | ilen                          -- `ins.length` (a Python int: 4)
  | bin (op : BinOp) (a b : E)
  | slc (a : E) (lo hi : Nat)     -- `a[lo:hi]`
  | sext (a : E) (n : Nat)        -- `a.signextend(n)`
  | zext (a : E) (n : Nat)        -- `a.zeroextend(n)`
  | tst (c a b : E)               -- `tst(c, a, b)`
  | signed (a : E)                -- `a.signed()` / `a.sf = True`
  | unsigned (a : E)              -- `a.unsigned()` / `a.sf = False`
  deriving DecidableEq, Repr, Inhabited

inductive Loc
  | opnd (i : Nat)
  | pc
  deriving DecidableEq, Repr, Inhabited

inductive Stmt
  | assign (l : Loc) (e : E)
  | bind (e : E)
  | guardNZ (i : Nat) (s : Stmt)      -- `if ins.operands[i] is not zero: s`
  | unsupported (why : String)        -- construct outside the subset (translator)
  deriving DecidableEq, Repr, Inhabited

abbrev Sem := List Stmt

/-! ## ideal meaning -/

/-- a fixed-width value with its declared signedness -/
structure Val where
  v    : Nat
  size : Nat
  sf   : Bool
  deriving DecidableEq, Repr, Inhabited

/-- the integer a value stands for under its declared signedness (amoco: `cst.value`) -/
def Val.toInt (a : Val) : Int :=
  if a.sf && decide (2 ^ a.size ≤ 2 * a.v) then (a.v : Int) - (2 ^ a.size : Nat) else (a.v : Int)

/-- two's-complement reading whatever is declared -/
def Val.sint (a : Val) : Int :=
  if 2 ^ a.size ≤ 2 * a.v then (a.v : Int) - (2 ^ a.size : Nat) else (a.v : Int)

/-- `cst(v, size)` for a Python int `v` -/
def mkCst (v : Int) (size : Nat) : Val := ⟨(v % ((2 ^ size : Nat) : Int)).toNat, size, decide (v < 0)⟩

def bit (b : Bool) : Val := ⟨if b then 1 else 0, 1, false⟩

def binop (op : BinOp) (a b : Val) : Option Val :=
  let same (r : Val) : Option Val := if a.size = b.size then some r else none
  match op with
  | .add => same ⟨(a.v + b.v) % 2 ^ a.size, a.size, a.sf || b.sf⟩
  | .sub => same ⟨(2 ^ a.size - b.v % 2 ^ a.size + a.v) % 2 ^ a.size, a.size, a.sf || b.sf⟩
  | .and => same ⟨a.v &&& b.v, a.size, a.sf⟩
  | .or  => same ⟨a.v ||| b.v, a.size, a.sf⟩
  | .xor => same ⟨a.v ^^^ b.v, a.size, a.sf⟩
  | .shl => some ⟨(a.v <<< b.v) % 2 ^ a.size, a.size, a.sf⟩
  | .shr => some ⟨a.v >>> b.v, a.size, a.sf⟩
  | .sar => some ⟨((a.sint >>> b.v) % ((2 ^ a.size : Nat) : Int)).toNat, a.size, a.sf⟩
  | .eq  => same (bit (a.v == b.v))
  | .ne  => same (bit (a.v != b.v))
  | .lt  => same (bit (decide (a.toInt < b.toInt)))
  | .le  => same (bit (decide (a.toInt ≤ b.toInt)))
  | .gt  => same (bit (decide (a.toInt > b.toInt)))
  | .ge  => same (bit (decide (a.toInt ≥ b.toInt)))
  | .ltu => same (bit (decide (a.v < b.v)))
  | .geu => same (bit (decide (a.v ≥ b.v)))

/-- `a[lo:hi]` -/
def slcV (a : Val) (lo hi : Nat) : Option Val :=
  if lo < hi ∧ hi ≤ a.size then some ⟨(a.v >>> lo) % 2 ^ (hi - lo), hi - lo, a.sf⟩ else none

/-- `a.signextend(m)` (no effect when `m ≤ size`) -/
def sextV (a : Val) (m : Nat) : Val :=
  if m ≤ a.size then a else ⟨(a.sint % ((2 ^ m : Nat) : Int)).toNat, m, true⟩

/-- `a.zeroextend(m)` -/
def zextV (a : Val) (m : Nat) : Val :=
  if m ≤ a.size then a else ⟨a.v, m, false⟩

/-- `tst(c, a, b)` on values -/
def tstV (c a b : Val) : Option Val :=
  if c.size = 1 ∧ a.size = b.size then some (if c.v = 1 then a else b) else none

/-- execution context: machine state + values of the `bind` statements so far -/
structure Ctx (n : Nat) where
  st  : State n
  loc : List Val

/-- effective address of a memory operand -/
def memAddr {n} (σ : State n) (base : Nat) (disp : Int) : BitVec n := σ.get base + BitVec.ofInt n disp

def readOpnd {n} (σ : State n) : Operand → Option Val
  | .reg i => some ⟨(σ.get i).toNat, n, false⟩
  | .imm v size sf => some ⟨v, size, sf⟩
  | .mem base size disp =>
    if size % 8 = 0 then some ⟨loadBytes σ.mem (memAddr σ base disp) (size / 8), size, false⟩ else none

def evalE {n} (ops : List Operand) (c : Ctx n) : E → Option Val
  | .opnd i => match ops[i]? with
    | some o => readOpnd c.st o
    | none => none
  | .pc => some ⟨c.st.pc.toNat, n, false⟩
  | .loc k => c.loc[k]?
  | .cst v s => some (mkCst v s)
  | .int _ => none
  | .ilen => none
  | .bin op a b =>
    match evalE ops c a with
    | none => none
    | some va =>
      match b with
      | .int v => binop op va (mkCst v va.size)
      | .ilen => binop op va (mkCst 4 va.size)
      | _ => match evalE ops c b with
        | none => none
        | some vb => binop op va vb
  | .slc a lo hi =>
    match evalE ops c a with
    | none => none
    | some va => slcV va lo hi
  | .sext a m =>
    match evalE ops c a with
    | none => none
    | some va => some (sextV va m)
  | .zext a m =>
    match evalE ops c a with
    | none => none
    | some va => some (zextV va m)
  | .tst cnd a b =>
    match evalE ops c cnd, evalE ops c a, evalE ops c b with
    | some vc, some va, some vb => tstV vc va vb
    | _, _, _ => none
  | .signed a => (evalE ops c a).map (fun v => { v with sf := true })
  | .unsigned a => (evalE ops c a).map (fun v => { v with sf := false })

def writeLoc {n} (ops : List Operand) (c : Ctx n) (l : Loc) (v : Val) : Option (Ctx n) :=
  match l with
  | .pc => if v.size = n then some { c with st := c.st.withPc (BitVec.ofNat n v.v) } else none
  | .opnd i =>
    match ops[i]? with
    | some (.reg r) => if v.size = n then some { c with st := c.st.set r (BitVec.ofNat n v.v) } else none
    | some (.mem base size disp) =>
      if v.size = size ∧ size % 8 = 0 then
        some { c with st := { c.st with mem := storeBytes c.st.mem (memAddr c.st base disp) v.v (size / 8) } }
      else none
    | _ => none

def execStmt {n} (ops : List Operand) (c : Ctx n) : Stmt → Option (Ctx n)
  | .assign l e => match evalE ops c e with
    | some v => writeLoc ops c l v
    | none => none
  | .bind e => match evalE ops c e with
    | some v => some { c with loc := c.loc ++ [v] }
    | none => none
  | .guardNZ i s => match ops[i]? with
    | some (.reg r) => if r = 0 then some c else execStmt ops c s
    | some _ => execStmt ops c s
    | none => none
  | .unsupported _ => none

def execAll {n} (ops : List Operand) : List Stmt → Ctx n → Option (Ctx n)
  | [], c => some c
  | s :: r, c => match execStmt ops c s with
    | some c' => execAll ops r c'
    | none => none

/-- ideal meaning of a semantics function applied to a decoded instruction's operands -/
def semIdeal {n} (s : Sem) (ops : List Operand) (σ : State n) : Option (State n) :=
  (execAll ops s ⟨σ, []⟩).map (·.st)

/-! ## the decoder hooks of spec_rv32i.py / spec_rv64i.py -/

/-- a crysp `Bits` value: (ival, size) -/
abbrev Bits := Nat × Nat

/-- the field delivered for `sym(len)` whose least significant bit is bit `lo` of the word -/
def fld (w : BitVec 32) (lo len : Nat) : Bits := ((w.extractLsb' lo len).toNat, len)

/-- `a // b` : concatenation, `a` in the low bits -/
def Bits.cat (a b : Bits) : Bits := (a.1 + b.1 * 2 ^ a.2, a.2 + b.2)

/-- `.int(-1)` : two's-complement reading -/
def Bits.sint (a : Bits) : Int := if 2 ^ a.2 ≤ 2 * a.1 then (a.1 : Int) - (2 ^ a.2 : Nat) else (a.1 : Int)

/-- `env.cst(v, size)` -/
def cstOf (v : Int) (size : Nat) : Operand :=
  .imm (v % ((2 ^ size : Nat) : Int)).toNat size (decide (v < 0))

def accessBits : Mn → Nat
  | .LB | .LBU | .SB => 8
  | .LH | .LHU | .SH => 16
  | .LW | .LWU | .SW => 32
  | .LD | .SD => 64
  | _ => 0

/-- operands built by the hook of mnemonic `m` from word `w` -/
def operands (isa : Isa) (m : Mn) (w : BitVec 32) : List Operand :=
  let n := isa.xlen
  let rd := fRd w
  let rs1 := fRs1 w
  let rs2 := fRs2 w
  match m with
  -- riscv_rr_arithmetic
  | .ADD | .SUB | .AND | .OR | .XOR | .SLT | .SLTU | .SRA | .SRL | .SLL
  | .ADDW | .SUBW | .SLLW | .SRLW | .SRAW => [.reg rd, .reg rs1, .reg rs2]
  -- riscv_ri_arithmetic1 : `~imm(12)`, `cst(imm.int(-1), XLEN)`
  | .ADDI | .ANDI | .ORI | .XORI | .SLTI | .SLTIU | .JALR =>
    [.reg rd, .reg rs1, cstOf (fld w 20 12).sint n]
  -- riscv_ri_arithmetic3 : ADDIW keeps a 32-bit immediate
  | .ADDIW => [.reg rd, .reg rs1, cstOf (fld w 20 12).sint 32]
  -- riscv_ri_shifts : `imm(5)` (RV64I: 6 bits), `cst(imm, XLEN)`
  | .SLLI | .SRLI | .SRAI => [.reg rd, .reg rs1, cstOf (fld w 20 isa.shBits).1 n]
  | .SLLIW | .SRLIW | .SRAIW => [.reg rd, .reg rs1, cstOf (fld w 20 5).1 n]
  -- riscv_ri_arithmetic2 : RV32I `imm(20)`, `cst(imm << 12, 32)`; RV64I `~imm(20)`, `cst(imm.int(-1) << 12, 64)`
  | .LUI | .AUIPC =>
    match isa with
    | .rv32 => [.reg rd, cstOf (((fld w 12 20).1 * 2 ^ 12 : Nat) : Int) 32]
    | .rv64 => [.reg rd, cstOf ((fld w 12 20).sint * 2 ^ 12) 64]
  -- riscv_jal : imm1 // imm2 // imm3 // imm4, `cst(imm.int(-1), XLEN) << 1`
  | .JAL =>
    let imm := (((fld w 21 10).cat (fld w 20 1)).cat (fld w 12 8)).cat (fld w 31 1)
    [.reg rd, cstOf (imm.sint * 2) n]
  -- riscv_load
  | .LB | .LH | .LW | .LD | .LBU | .LHU | .LWU =>
    [.reg rd, .mem rs1 (accessBits m) (fld w 20 12).sint]
  -- riscv_store : imm = imm1 // imm2
  | .SB | .SH | .SW | .SD =>
    [.mem rs1 (accessBits m) ((fld w 7 5).cat (fld w 25 7)).sint, .reg rs2]
  -- riscv_b : imm1 // imm2 // imm3 // imm4
  | .BEQ | .BNE | .BLT | .BGE | .BLTU | .BGEU =>
    let imm := (((fld w 8 4).cat (fld w 25 6)).cat (fld w 7 1)).cat (fld w 31 1)
    [.reg rs1, .reg rs2, cstOf (imm.sint * 2) n]
  -- riscv_noop
  | .FENCE | .FENCE_I | .ECALL | .EBREAK => []

/-! ## what each `i_XXX` should be -/

/-- the `@__npc` decorator: `fmap[pc] = fmap(pc) + ins.length` -/
def npc : Stmt := .assign .pc (.bin .add .pc .ilen)

/-- `@__npc` + `if dst is not zero: fmap[dst] = fmap(e)` -/
def wr (e : E) : Sem := [npc, .guardNZ 0 (.assign (.opnd 0) e)]

def branch (c : E) : Sem := [.assign .pc (.tst c (.bin .add .pc (.opnd 2)) (.bin .add .pc .ilen))]

def setIf (n : Nat) (c : E) : E := .tst c (.cst 1 n) (.cst 0 n)

/-- low 32 bits of operand `i` (for the `*W` forms) -/
def w32 (i : Nat) : E := .slc (.opnd i) 0 32

def expected (isa : Isa) (m : Mn) : Sem :=
  let n := isa.xlen
  let shm : Int := (n : Int) - 1            -- 0x1f / 0x3f
  match m with
  | .LUI   => wr (.opnd 1)
  | .AUIPC => [.guardNZ 0 (.assign (.opnd 0) (.bin .add .pc (.opnd 1))), npc]
  | .JAL   => [.guardNZ 0 (.assign (.opnd 0) (.bin .add .pc .ilen)), .assign .pc (.bin .add .pc (.opnd 1))]
  | .JALR  => [.bind (.bin .and (.bin .add (.opnd 1) (.opnd 2)) (.int (-2))),
               .guardNZ 0 (.assign (.opnd 0) (.bin .add .pc .ilen)),
               .assign .pc (.loc 0)]
  | .BEQ   => branch (.bin .eq (.opnd 0) (.opnd 1))
  | .BNE   => branch (.bin .ne (.opnd 0) (.opnd 1))
  | .BLT   => branch (.bin .lt (.signed (.opnd 0)) (.signed (.opnd 1)))
  | .BGE   => branch (.bin .ge (.signed (.opnd 0)) (.signed (.opnd 1)))
  | .BLTU  => branch (.bin .ltu (.opnd 0) (.opnd 1))
  | .BGEU  => branch (.bin .geu (.opnd 0) (.opnd 1))
  | .LB | .LH | .LW | .LD => [npc, .assign (.opnd 0) (.sext (.opnd 1) n)]
  | .LBU | .LHU | .LWU => [npc, .assign (.opnd 0) (.zext (.opnd 1) n)]
  | .SB    => [npc, .assign (.opnd 0) (.slc (.opnd 1) 0 8)]
  | .SH    => [npc, .assign (.opnd 0) (.slc (.opnd 1) 0 16)]
  | .SW    => [npc, .assign (.opnd 0) (match isa with | .rv32 => .opnd 1 | .rv64 => .slc (.opnd 1) 0 32)]
  | .SD    => [npc, .assign (.opnd 0) (.opnd 1)]
  | .ADD | .ADDI => wr (.bin .add (.opnd 1) (.opnd 2))
  | .SUB   => wr (.bin .sub (.opnd 1) (.opnd 2))
  | .AND | .ANDI => wr (.bin .and (.opnd 1) (.opnd 2))
  | .OR | .ORI => wr (.bin .or (.opnd 1) (.opnd 2))
  | .XOR | .XORI => wr (.bin .xor (.opnd 1) (.opnd 2))
  | .SLT | .SLTI => wr (setIf n (.bin .lt (.signed (.opnd 1)) (.signed (.opnd 2))))
  | .SLTU | .SLTIU => wr (setIf n (.bin .ltu (.opnd 1) (.opnd 2)))
  | .SLL   => wr (.bin .shl (.unsigned (.opnd 1)) (.bin .and (.unsigned (.opnd 2)) (.int shm)))
  | .SRL   => wr (.bin .shr (.unsigned (.opnd 1)) (.bin .and (.unsigned (.opnd 2)) (.int shm)))
  | .SRA   => wr (.bin .sar (.signed (.opnd 1)) (.bin .and (.unsigned (.opnd 2)) (.int shm)))
  | .SLLI  => wr (.bin .shl (.unsigned (.opnd 1)) (.unsigned (.opnd 2)))
  | .SRLI  => wr (.bin .shr (.unsigned (.opnd 1)) (.unsigned (.opnd 2)))
  | .SRAI  => wr (.bin .sar (.opnd 1) (.opnd 2))
  | .FENCE | .FENCE_I | .ECALL => [npc]
  | .EBREAK => []
  | .ADDIW => wr (.sext (.bin .add (w32 1) (.opnd 2)) n)
  | .ADDW  => wr (.sext (.bin .add (w32 1) (w32 2)) n)
  | .SUBW  => wr (.sext (.bin .sub (w32 1) (w32 2)) n)
  | .SLLW  => wr (.sext (.bin .shl (w32 1) (.bin .and (.opnd 2) (.int 0x1f))) n)
  | .SRLW  => wr (.sext (.bin .shr (w32 1) (.bin .and (.opnd 2) (.int 0x1f))) n)
  | .SRAW  => wr (.sext (.bin .sar (w32 1) (.bin .and (.opnd 2) (.int 0x1f))) n)
  | .SLLIW => wr (.sext (.bin .shl (w32 1) (.opnd 2)) n)
  | .SRLIW => wr (.sext (.bin .shr (w32 1) (.opnd 2)) n)
  | .SRAIW => wr (.sext (.bin .sar (w32 1) (.opnd 2)) n)

/-- mnemonics of an ISA -/
def mnemonics (isa : Isa) : List Mn :=
  Mn.all.filter (fun m => isa == .rv64 || !m.only64)

end Amoco.Rv
