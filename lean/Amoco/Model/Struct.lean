/-
  Amoco.Model.Struct — executable model of amoco/system/structs (core.py, fields.py, __init__.py)
  Core Lean only (no Mathlib): linked into the compiled driver `drv_struct`.

  * field AST (`Field`, `Def`) and the definition-language parser (`parseDef`), mirroring
    `StructDefine.__init__` (pyparsing grammar, field-class selection, bit-field concatenation),
    `UnionDefine`, `TypeDefine`;
  * layout as coded: `alignV` (`align_value`), `sizeV` (`size`), `offsetsV` (`offsets`),
    `alignTo` (`Field.align`), `lenOf` (`__len__`), with the pointer size `psize` threaded as in the code;
  * `unpackDef`/`unpackField` (`StructCore.unpack`, `*Field.unpack`) and
    `packDef`/`packField` (`StructCore.pack`, `*Field.pack`);
  * an independent C-ABI reference: `refDef` (sizes, alignments, offsets), `refDecode`, `refMask`.

  `none` models a Python exception (StructureError, struct.error, TypeError, ...).
  Class-level sizes are `Option Nat`: `none` is Python's `float('Infinity')`/`nan`.
-/
import Amoco.Model.Leb128

namespace Amoco.Struct

abbrev Bytes := List UInt8

/-! ## struct letters -/

inductive Letter
  | x | c | b | B | s | h | H | i | I | l | L | f | q | Q | d | P
deriving DecidableEq, Repr, Inhabited

def Letter.ofChar? : Char → Option Letter
  | 'x' => some .x | 'c' => some .c | 'b' => some .b | 'B' => some .B | 's' => some .s
  | 'h' => some .h | 'H' => some .H | 'i' => some .i | 'I' => some .I | 'l' => some .l
  | 'L' => some .L | 'f' => some .f | 'q' => some .q | 'Q' => some .Q | 'd' => some .d
  | 'P' => some .P | _ => none

def Letter.toChar : Letter → Char
  | .x => 'x' | .c => 'c' | .b => 'b' | .B => 'B' | .s => 's' | .h => 'h' | .H => 'H'
  | .i => 'i' | .I => 'I' | .l => 'l' | .L => 'L' | .f => 'f' | .q => 'q' | .Q => 'Q'
  | .d => 'd' | .P => 'P'

/-- letters whose size follows the pointer size (`tn in ('P','L','l')`) -/
def Letter.isPtr : Letter → Bool
  | .l | .L | .P => true
  | _ => false

/-- `{4:'I',8:'Q',32:'I',64:'Q'}.get(psize, tn)` maps the letter -/
def ptrMapped (ps : Nat) : Bool := ps == 4 || ps == 8 || ps == 32 || ps == 64

/-- byte size of `l`, `L`, `P` for the given `psize` (native size 8 when `psize` is not mapped) -/
def ptrBytes (ps : Nat) : Nat := if ps == 4 || ps == 32 then 4 else 8

/-- `RawField.align_value(psize)`: `struct.calcsize` of the (mapped) letter, native mode. -/
def rawSize (ps : Nat) : Letter → Nat
  | .x | .c | .b | .B | .s => 1
  | .h | .H => 2
  | .i | .I | .f => 4
  | .q | .Q | .d => 8
  | .l | .L | .P => ptrBytes ps

inductive Enc | pad | bytes | sint | uint
deriving DecidableEq, Repr

/-- how `struct` decodes the letter: bytes (`c`,`s`), signed, unsigned (floats are kept as
    their bit pattern), or nothing at all (`x`). -/
def Letter.enc : Letter → Enc
  | .x => .pad
  | .c | .s => .bytes
  | .b | .h | .i | .l | .q => .sint
  | .B | .H | .I | .L | .Q | .P | .f | .d => .uint

/-! ## byte codecs (Python `struct` with an explicit byte order) -/

def leNat : Bytes → Nat
  | [] => 0
  | b :: bs => b.toNat + 256 * leNat bs

def natLE : Nat → Nat → Bytes
  | 0, _ => []
  | k + 1, n => UInt8.ofNat (n % 256) :: natLE k (n / 256)

def decInt (be signed : Bool) (bs : Bytes) : Int :=
  let n := leNat (if be then bs.reverse else bs)
  if signed && decide (2 ^ (8 * bs.length - 1) ≤ n) then (n : Int) - (2 : Int) ^ (8 * bs.length) else (n : Int)

/-- `struct.pack` of one integer: `none` when out of range (struct.error) -/
def encInt (be signed : Bool) (k : Nat) (v : Int) : Option Bytes :=
  let ok := if signed then decide (-((2 : Int) ^ (8 * k - 1)) ≤ v ∧ v < (2 : Int) ^ (8 * k - 1))
            else decide (0 ≤ v ∧ v < (2 : Int) ^ (8 * k))
  if ok then
    let le := natLE k (v % (2 : Int) ^ (8 * k)).toNat
    some (if be then le.reverse else le)
  else none

def zeros (n : Nat) : Bytes := List.replicate n 0
def ones (n : Nat) : Bytes := List.replicate n 0xFF

/-- `data[pos : pos+n]` when it has the full length `n` (a short slice makes `struct.unpack` raise) -/
def slice (data : Bytes) (pos n : Nat) : Option Bytes :=
  if pos + n ≤ data.length then some ((data.drop pos).take n) else none

/-- split into chunks of `k` bytes -/
def chunks (k : Nat) : Nat → Bytes → List Bytes
  | 0, _ => []
  | n + 1, bs => bs.take k :: chunks k n (bs.drop k)

/-- `canon mask bytes`: keep the bits selected by the mask (missing bytes read as 0) -/
def canon : Bytes → Bytes → Bytes
  | [], _ => []
  | m :: ms, [] => (m &&& 0) :: canon ms []
  | m :: ms, b :: bs => (m &&& b) :: canon ms bs

/-! ## values -/

inductive Val
  | int (v : Int)
  | bytes (b : Bytes)
  | seq (vs : List Val)
  | dict (kv : List (String × Int))
  | inst (ns : List (String × Val)) (len : Nat)
  /-- Python `None` -/
  | pyNone
deriving Inhabited

abbrev NS := List (String × Val)

/-- `setattr(self._v, k, v)` (dict item assignment, insertion order kept) -/
def nsSet : NS → String → Val → NS
  | [], k, v => [(k, v)]
  | (k', v') :: r, k, v => if k' = k then (k, v) :: r else (k', v') :: nsSet r k v

/-- `getattr(self._v, k)` -/
def nsGet : NS → String → Option Val
  | [], _ => none
  | (k', v') :: r, k => if k' = k then some v' else nsGet r k

/-! ## definitions -/

inductive Kind | struct | union | typedef
deriving DecidableEq, Repr, Inhabited

mutual
inductive Field
  /-- `RawField(t, count, name, order)` -/
  | raw (name : String) (t : Letter) (be : Bool) (count : Nat)
  /-- `BitField(t, subsizes, subnames, order)` -/
  | bits (t : Letter) (be : Bool) (names : List String) (sizes : List Nat)
  /-- `Field(typename, count, name)` of a previously defined type -/
  | nest (name : String) (ty : Def) (count : Nat)
  /-- `BitFieldEx(typename, subsizes, subnames)` -/
  | bitsEx (ty : Def) (names : List String) (sizes : List Nat)
  /-- `VarField(t, '~', name, order)` -/
  | var (name : String) (t : Letter) (be : Bool)
  /-- `CntField(t, '~'+ct, name, order)` -/
  | cnt (name : String) (t : Letter) (be : Bool) (ct : Letter)
  /-- `BindedField(t, '.'+ref, name, order)` -/
  | bound (name : String) (t : Letter) (be : Bool) (ref : String)
  /-- `Leb128Field(t, 0, name)`; `signed` iff `t in "bhil"` -/
  | leb (name : String) (signed : Bool)
inductive Def
  | mk (kind : Kind) (packed : Bool) (fields : List Field)
end

instance : Inhabited Def := ⟨.mk .struct false []⟩
instance : Inhabited Field := ⟨.leb "" false⟩

def Def.kind : Def → Kind | .mk k _ _ => k
def Def.packed : Def → Bool | .mk _ p _ => p
def Def.fields : Def → List Field | .mk _ _ fs => fs
def Def.isUnion (d : Def) : Bool := d.kind == .union

/-- `f.name` (empty for bit-fields) -/
def Field.name : Field → String
  | .raw n .. | .nest n .. | .var n .. | .cnt n .. | .bound n .. | .leb n .. => n
  | .bits .. | .bitsEx .. => ""

/-! ## layout as coded -/

/-- `Field.align(offset, psize)` given `A = align_value(psize)` -/
def alignTo (offset A : Nat) : Nat :=
  if A = 0 then offset
  else
    let r := offset % A
    if r = 0 then offset else offset + (A - r)

/-- Python `max(list)` of naturals (the list is never empty for a parsed definition) -/
def maxList : List Nat → Nat
  | [] => 0
  | a :: r => if r.isEmpty then a else (if maxList r > a then maxList r else a)

mutual
/-- `f.align_value(psize)` -/
def Field.alignV (ps : Nat) : Field → Nat
  | .raw _ t _ _ => rawSize ps t
  | .bits t _ _ _ => rawSize ps t
  | .var _ t _ => rawSize ps t
  | .cnt _ t _ _ => rawSize ps t
  | .bound _ t _ _ => rawSize ps t
  | .leb _ _ => 1
  | .nest _ ty _ => ty.alignV ps
  | .bitsEx ty _ _ => ty.alignV ps
/-- `cls.align_value(psize)` -/
def Def.alignV (ps : Nat) : Def → Nat
  | .mk _ packed fs => if packed then 1 else maxList (alignVs ps fs)
def alignVs (ps : Nat) : List Field → List Nat
  | [] => []
  | f :: fs => f.alignV ps :: alignVs ps fs
end

/-- `A or 1` -/
def orOne (A : Nat) : Nat := if A = 0 then 1 else A

/-- the `r = sz % A; if not packed and r > 0: sz += A - r` tail of `size`/`__len__`/`pack` -/
def padTail (packed : Bool) (A sz : Nat) : Nat :=
  let r := sz % A
  if !packed && r > 0 then sz + (A - r) else sz

mutual
/-- class-level `f.size(psize)`; `none` = infinite -/
def Field.sizeV (ps : Nat) : Field → Option Nat
  | .raw _ t _ count => some (rawSize ps t * (if count > 0 then count else 1))
  | .bits t _ _ _ => some (rawSize ps t)
  | .nest _ ty count =>
    match ty.sizeV ps with
    | some s => some (if count > 0 then s * count else s)
    | none => none
  | .bitsEx ty _ _ => ty.sizeV ps
  | .var .. => none
  | .cnt .. => none
  | .bound .. => none
  | .leb .. => none
/-- `cls.size(psize)` -/
def Def.sizeV (ps : Nat) : Def → Option Nat
  | .mk kind packed fs =>
    let A := orOne (if packed then 1 else maxList (alignVs ps fs))
    match sizeLoop ps (kind == .union) packed fs 0 with
    | some sz => some (padTail packed A sz)
    | none => none
/-- the `for f in cls.fields` loop of `size` -/
def sizeLoop (ps : Nat) (isUnion packed : Bool) : List Field → Nat → Option Nat
  | [], sz => some sz
  | f :: fs, sz =>
    let sz1 := if !isUnion && !packed then alignTo sz (f.alignV ps) else sz
    match f.sizeV ps with
    | none => none
    | some fsz =>
      let sz2 := if !isUnion then sz1 + fsz else (if fsz > sz1 then fsz else sz1)
      sizeLoop ps isUnion packed fs sz2
end

inductive OffEntry
  | field (off : Nat) (size : Option Nat)
  /-- a bit-field part: `(float("%d.%d"%(o,oo)), float(".%d"%x))` -/
  | bit (off : Nat) (bitoff : Nat) (nbits : Nat)
deriving DecidableEq, Repr

def Field.subsizes? : Field → Option (List Nat)
  | .bits _ _ _ sizes => some sizes
  | .bitsEx _ _ sizes => some sizes
  | _ => none

def bitEntries (o : Nat) : List Nat → Nat → List OffEntry
  | [], _ => []
  | x :: xs, oo => .bit o oo x :: bitEntries o xs (oo + x)

/-- the loop of `offsets(psize)` for a structure, given each field's current size -/
def offsetsLoop (ps : Nat) (packed : Bool) : List Field → List (Option Nat) → Nat → List OffEntry
  | f :: fs, sz :: szs, o =>
    let o1 := if !packed then alignTo o (f.alignV ps) else o
    let here := match f.subsizes? with
      | some sizes => bitEntries o1 sizes 0
      | none => [.field o1 sz]
    -- `o += f.size(psize)`: an infinite size makes every later offset infinite/nan; the model stops
    match sz with
    | some n => here ++ offsetsLoop ps packed fs szs (o1 + n)
    | none => here
  | _, _, _ => []

/-- class-level `offsets(psize)` (fresh instance) -/
def Def.offsetsV (ps : Nat) (d : Def) : List OffEntry :=
  let szs := d.fields.map (Field.sizeV ps)
  if d.isUnion then szs.map (fun s => .field 0 s)
  else offsetsLoop ps d.packed d.fields szs 0

/-- `offset_of(name, psize)` given the current sizes -/
def offsetOfLoop (ps : Nat) (packed : Bool) (name : String) : List Field → List (Option Nat) → Nat → Option Nat
  | f :: fs, sz :: szs, o =>
    let o1 := if !packed then alignTo o (f.alignV ps) else o
    if f.name = name then some o1
    else match sz with
      | some n => offsetOfLoop ps packed name fs szs (o1 + n)
      | none => none
  | _, _, _ => none

/-- `__len__` of an instance whose fields currently have sizes `szs` (`none` = still infinite) -/
def lenLoop (ps : Nat) (isUnion packed : Bool) : List Field → List (Option Nat) → Nat → Nat
  | f :: fs, osz :: szs, sz =>
    let sz1 := if !isUnion && !packed then alignTo sz (f.alignV ps) else sz
    match osz with
    | none => lenLoop ps isUnion packed fs szs sz1
    | some fsz =>
      let sz2 := if !isUnion then sz1 + fsz else (if fsz > sz1 then fsz else sz1)
      lenLoop ps isUnion packed fs szs sz2
  | _, _, sz => sz

def lenOf (ps : Nat) (d : Def) (szs : List (Option Nat)) : Nat :=
  padTail d.packed (d.alignV ps) (lenLoop ps d.isUnion d.packed d.fields szs 0)

/-! ## raw field codecs -/

/-- the letter restrictions of the modelled fragment for variable-length fields -/
def Letter.varOK : Letter → Bool
  | .c | .s | .b | .B | .h | .H | .i | .I | .q | .Q => true
  | _ => false

/-- `RawField.unpack(data, offset, psize)`: value, size, mask -/
def unpackRaw (ps : Nat) (t : Letter) (be : Bool) (count : Nat) (data : Bytes) (pos : Nat) :
    Option (Val × Nat × Bytes) :=
  let esz := rawSize ps t
  let n := if count > 0 then count else 1
  let sz := esz * n
  if t.isPtr && !ptrMapped ps then none      -- '<l' on 8 bytes, '<P': struct.error
  else match slice data pos sz with
    | none => none
    | some bs =>
      match t.enc with
      | .pad => if count > 0 then some (.seq [], sz, zeros sz) else none   -- `()[0]` IndexError
      | .bytes => some (.bytes bs, sz, ones sz)
      | .sint =>
        if count = 0 then some (.int (decInt be true bs), sz, ones sz)
        else some (.seq ((chunks esz n bs).map (fun c => .int (decInt be true c))), sz, ones sz)
      | .uint =>
        if count = 0 then some (.int (decInt be false bs), sz, ones sz)
        else some (.seq ((chunks esz n bs).map (fun c => .int (decInt be false c))), sz, ones sz)

def Val.int? : Val → Option Int
  | .int v => some v
  | _ => none

/-- encode a list of integer values, each on `esz` bytes -/
def encInts (be signed : Bool) (esz : Nat) : List Val → Option Bytes
  | [] => some []
  | v :: vs =>
    match v.int? with
    | none => none
    | some i =>
      match encInt be signed esz i, encInts be signed esz vs with
      | some b, some r => some (b ++ r)
      | _, _ => none

/-- `struct.pack("%ds"%n, b)`: truncate or pad with zeros -/
def fitBytes (n : Nat) (b : Bytes) : Bytes := b.take n ++ zeros (n - b.length)

/-- a sequence of single bytes objects (`'c'` arguments) -/
def charArgs : List Val → Option Bytes
  | [] => some []
  | .bytes [b] :: vs => (charArgs vs).map (b :: ·)
  | _ => none

/-- `RawField.pack(value, psize)` -/
def packRaw (ps : Nat) (t : Letter) (be : Bool) (count : Nat) (v : Val) : Option Bytes :=
  let esz := rawSize ps t
  let n := if count > 0 then count else 1
  if t == .P && !ptrMapped ps then none
  else match t.enc with
    | .pad => (match v with
      | .seq [] => some (zeros n)
      | _ => none)
    | .bytes => (match v with
      | .bytes b => some (fitBytes n b)
      | .seq vs => if t == .c && vs.length = n then charArgs vs else none
      | _ => none)
    | .sint =>
      let esz' := if t.isPtr && !ptrMapped ps then 4 else esz       -- '<l' is 4 bytes in standard mode
      (match v with
      | .seq vs => if vs.length = n then encInts be true esz' vs else none
      | .int i => if n = 1 then encInt be true esz' i else none
      | _ => none)
    | .uint =>
      let esz' := if t.isPtr && !ptrMapped ps then 4 else esz
      (match v with
      | .seq vs => if vs.length = n then encInts be false esz' vs else none
      | .int i => if n = 1 then encInt be false esz' i else none
      | _ => none)

/-- `D[name] = (value>>l)&mask` over `zip(subnames, subsizes)` -/
def splitBits (u : Int) : List String → List Nat → Nat → List (String × Int)
  | nm :: nms, sz :: szs, l => (nm, (u / (2 : Int) ^ l) % (2 : Int) ^ sz) :: splitBits u nms szs (l + sz)
  | _, _, _ => []

/-- `value |= (D[x]&mask)<<l` over `zip(subnames, subsizes)`; `none` = KeyError -/
def joinBits (kv : List (String × Int)) : List String → List Nat → Nat → Option Nat
  | nm :: nms, sz :: szs, l =>
    match kv.lookup nm, joinBits kv nms szs (l + sz) with
    | some x, some r => some (((x % (2 : Int) ^ sz).toNat <<< l) ||| r)
    | _, _ => none
  | _, _, _ => some 0

/-- number of bits covered by `zip(subnames, subsizes)` -/
def coveredBits : List String → List Nat → Nat
  | _ :: nms, sz :: szs => sz + coveredBits nms szs
  | _, _ => 0

/-- mask of a bit-field storage unit of `k` bytes: the covered low bits -/
def bitsMask (be : Bool) (k : Nat) (covered : Nat) : Bytes :=
  let le := natLE k (2 ^ covered - 1)
  if be then le.reverse else le

/-- `BitField.unpack` -/
def unpackBits (ps : Nat) (t : Letter) (be : Bool) (names : List String) (sizes : List Nat)
    (data : Bytes) (pos : Nat) : Option (Val × Nat × Bytes) :=
  match unpackRaw ps t be 0 data pos with
  | some (.int u, sz, _) => some (.dict (splitBits u names sizes 0), sz, bitsMask be sz (coveredBits names sizes))
  | _ => none

/-- `BitField.pack` -/
def packBits (ps : Nat) (t : Letter) (be : Bool) (names : List String) (sizes : List Nat) (v : Val) :
    Option Bytes :=
  match v with
  | .dict kv =>
    match joinBits kv names sizes 0 with
    | some u => packRaw ps t be 0 (.int (u : Int))
    | none => none
  | _ => none

/-- elements of a VarField: chunks of `esz` bytes up to and including the first all-zero one -/
def varElems (esz : Nat) : Nat → Bytes → Option (List Bytes)
  | 0, _ => none
  | fuel + 1, rem =>
    if rem.length < esz then none
    else
      let el := rem.take esz
      if el.all (· == 0) then some [el]
      else match varElems esz fuel (rem.drop esz) with
        | some r => some (el :: r)
        | none => none

def isBytesLetter (t : Letter) : Bool := t == .c || t == .s

/-- decoded elements of a variable-length field -/
def elemsVal (t : Letter) (be : Bool) (els : List Bytes) : Val :=
  if isBytesLetter t then .bytes els.flatten
  else .seq (els.map (fun c => .int (decInt be (t.enc == .sint) c)))

/-- `VarField.unpack` (default terminator: a zero element) -/
def unpackVar (ps : Nat) (t : Letter) (be : Bool) (data : Bytes) (pos : Nat) : Option (Val × Nat × Bytes) :=
  let esz := rawSize ps t
  match varElems esz (data.length + 1) (data.drop pos) with
  | some els => some (elemsVal t be els, esz * els.length, ones (esz * els.length))
  | none => none

/-- `VarField.pack` -/
def packVar (ps : Nat) (t : Letter) (be : Bool) (v : Val) : Option Bytes :=
  match v with
  | .bytes b => some b
  | .seq vs => if isBytesLetter t then none else encInts be (t.enc == .sint) (rawSize ps t) vs
  | _ => none

/-- size of a counter letter (`bBhHiI`) -/
def cntSize : Letter → Nat
  | .b | .B => 1
  | .h | .H => 2
  | _ => 4

/-- `CntField.unpack` -/
def unpackCnt (ps : Nat) (t : Letter) (be : Bool) (ct : Letter) (data : Bytes) (pos : Nat) :
    Option (Val × Nat × Bytes) :=
  let csz := cntSize ct
  let esz := rawSize ps t
  match slice data pos csz with
  | none => none
  | some cb =>
    let nb := decInt be (ct.enc == .sint) cb
    if nb < 0 then none
    else if nb = 0 then
      some (if isBytesLetter t then .bytes [] else .pyNone, csz, ones csz)
    else
      let cnt := nb.toNat
      match slice data pos (csz + esz * cnt) with
      | none => none
      | some all =>
        let body := all.drop csz
        some (elemsVal t be (chunks esz cnt body), csz + esz * cnt, ones (csz + esz * cnt))

/-- number of elements of a value handed to `CntField.pack`: `len(value)`, 0 for `None` -/
def valLen : Val → Option Nat
  | .pyNone => some 0
  | .bytes b => some b.length
  | .seq vs => some vs.length
  | _ => none

/-- the packed elements of a counted/bound field (`_pack_args` + struct.pack) -/
def packElems (ps : Nat) (t : Letter) (be : Bool) (v : Val) : Option Bytes :=
  match v with
  | .pyNone => some []
  | .bytes b => if isBytesLetter t then some b else none
  | .seq vs =>
    if t == .s then none
    else if t == .c then charArgs vs
    else encInts be (t.enc == .sint) (rawSize ps t) vs
  | _ => none

/-- `CntField.pack` -/
def packCnt (ps : Nat) (t : Letter) (be : Bool) (ct : Letter) (v : Val) : Option Bytes :=
  match valLen v, packElems ps t be v with
  | some n, some body =>
    match encInt be (ct.enc == .sint) (cntSize ct) (n : Int) with
    | some c => some (c ++ body)
    | none => none
  | _, _ => none

/-- `BindedField.unpack`: the count is the value of the previously unpacked field `ref` -/
def unpackBound (ps : Nat) (t : Letter) (be : Bool) (ref : String) (ns : NS) (data : Bytes) (pos : Nat) :
    Option (Val × Nat × Bytes) :=
  let esz := rawSize ps t
  match nsGet ns ref with
  | some (.int nb) =>
    if nb < 0 then none
    else if nb = 0 then some (.pyNone, 0, [])
    else
      let cnt := nb.toNat
      match slice data pos (esz * cnt) with
      | none => none
      | some body =>
        let v := if t == .s then .bytes body
                 else if t == .c then .seq ((chunks 1 cnt body).map .bytes)
                 else .seq ((chunks esz cnt body).map (fun c => .int (decInt be (t.enc == .sint) c)))
        some (v, esz * cnt, ones (esz * cnt))
  | _ => none

/-- `BindedField.pack` -/
def packBound (ps : Nat) (t : Letter) (be : Bool) (v : Val) : Option Bytes :=
  packElems ps t be v

/-- `Leb128Field.unpack` -/
def unpackLeb (signed : Bool) (data : Bytes) (pos : Nat) : Option (Val × Nat × Bytes) :=
  match Leb128.readLeb signed data pos with
  | some (v, n) => some (.int v, n, ones n)
  | none => none

/-- the LEB128 number at `pos` is encoded canonically (ghost: see `withFlag`) -/
def lebCanonAt (signed : Bool) (data : Bytes) (pos : Nat) : Bool :=
  match Leb128.readLeb signed data pos with
  | some (_, n) =>
    if signed then Leb128.canonS ((data.drop pos).take n) else Leb128.canonU ((data.drop pos).take n)
  | none => true

/-- `Leb128Field.pack` (`write_uleb128` of a negative value does not terminate: `none`) -/
def packLeb (signed : Bool) (v : Val) : Option Bytes :=
  match v with
  | .int i =>
    if signed then some (Leb128.writeS i)
    else if i < 0 then none else some (Leb128.writeU i.toNat)
  | _ => none

/-! ## unpack -/

/-- what `StructCore.unpack` does with the value of field `f` -/
def store (f : Field) (v : Val) (ns : NS) : NS :=
  match f with
  | .bits .. | .bitsEx .. =>
    (match v with
     | .dict kv => kv.foldl (fun ns p => nsSet ns p.1 (.int p.2)) ns
     | _ => ns)
  | _ => nsSet ns f.name v

/-- ghost flag of an unpack result: every LEB128 number read was in canonical (shortest) form —
    the only encodings `pack` can reproduce.  Always `true` for the other field kinds. -/
def withFlag (c : Bool) : Option (Val × Nat × Bytes) → Option (Val × Nat × Bytes × Bool)
  | some (v, n, m) => some (v, n, m, c)
  | none => none

/-- the element stride of `Field.unpack`: the type's size when finite, else the `len()` just read -/
def pickStride (stride : Option Nat) (n : Nat) : Nat :=
  match stride with
  | some s => s
  | none => n

/-- `Field.unpack` for `count > 0`: `count` elements, each read where the previous one ended
    (`stride`: the type's size when finite, else the `len()` of the element just read) -/
def repeatAt (g : Nat → Option (Val × Nat × Bytes × Bool)) (stride : Option Nat) :
    Nat → Nat → Option (List Val × Nat × Bytes × Bool)
  | 0, _ => some ([], 0, [], true)
  | k + 1, pos =>
    match g pos with
    | none => none
    | some (v, n, m, c) =>
      let st := pickStride stride n
      match repeatAt g stride k (pos + st) with
      | none => none
      | some (vs, n', m', c') => some (v :: vs, st + n', m ++ m', c && c')

/-- the struct part of the tail of `StructCore.pack`: parts are `(align_value, bytes)` per field,
    each preceded by the padding that aligns the running offset -/
def assembleS (packed : Bool) : List (Nat × Bytes) → Nat → Bytes
  | [], _ => []
  | (a, p) :: r, offset =>
    let pad := if packed then 0 else alignTo offset a - offset
    zeros pad ++ p ++ assembleS packed r (offset + (pad + p.length))

/-- `max(parts, key=len)`: the first part of maximal length -/
def longest : List Bytes → Bytes
  | [] => []
  | p :: r => if (longest r).length > p.length then longest r else p

/-- the tail of `StructCore.pack` (also used to assemble the masks) -/
def assemble (isUnion packed : Bool) (A : Nat) (parts : List (Nat × Bytes)) : Bytes :=
  let res := if isUnion then longest (parts.map (·.2)) else assembleS packed parts 0
  if packed then res
  else
    let r := res.length % orOne A
    if r > 0 then res ++ zeros (orOne A - r) else res

/-- pair each part with its field's `align_value` -/
def zipAligns (ps : Nat) : List Field → List Bytes → List (Nat × Bytes)
  | f :: fs, p :: ps' => (f.alignV ps, p) :: zipAligns ps fs ps'
  | _, _ => []

mutual
/-- byte order of the integer scalar a typedef chain ends in (for the mask of a `BitFieldEx`) -/
def bitsExBE : Def → Bool
  | .mk _ _ fs => bitsExBEFields fs
def bitsExBEFields : List Field → Bool
  | [] => false
  | f :: _ => bitsExBEField f
def bitsExBEField : Field → Bool
  | .raw _ _ be _ => be
  | .nest _ ty _ => bitsExBE ty
  | _ => false
end

/-- a typedef instance returns the value of its only field (size rounded like `__len__`) -/
def finishTypedef (packed : Bool) (A : Nat) :
    Option (Val × Nat × Bytes × Bool) → Option (Val × Nat × Bytes × Bool)
  | some (v, sz, m, c) => some (v, padTail packed A sz, m ++ zeros (padTail packed A sz - sz), c)
  | none => none

/-- the instance a struct/union `unpack` returns: namespace, `len()`, mask, flag -/
def finishAgg (ps : Nat) (isUnion packed : Bool) (fs : List Field) :
    Option (NS × List (Val × Nat × Bytes × Bool)) → Option (Val × Nat × Bytes × Bool)
  | some (ns, res) =>
    let A := if packed then 1 else maxList (alignVs ps fs)
    let len := padTail packed A (lenLoop ps isUnion packed fs (res.map (fun r => some r.2.1)) 0)
    some (.inst ns len, len, assemble isUnion packed A (zipAligns ps fs (res.map (·.2.2.1))), res.all (·.2.2.2))
  | none => none

mutual
/-- `f.unpack(data, pos, psize)` followed by `f.size(psize)`: value, size, mask -/
def unpackField (ps : Nat) (data : Bytes) (pos : Nat) (ns : NS) : Field → Option (Val × Nat × Bytes × Bool)
  | .raw _ t be count => withFlag true (unpackRaw ps t be count data pos)
  | .bits t be names sizes => withFlag true (unpackBits ps t be names sizes data pos)
  | .var _ t be => withFlag true (unpackVar ps t be data pos)
  | .cnt _ t be ct => withFlag true (unpackCnt ps t be ct data pos)
  | .bound _ t be ref => withFlag true (unpackBound ps t be ref ns data pos)
  | .leb _ signed => withFlag (lebCanonAt signed data pos) (unpackLeb signed data pos)
  | .nest _ ty count =>
    if count = 0 then
      match unpackDef ps data pos ty with
      | some (v, n, m, c) =>
        -- Field.size: the type's size when finite, else len(value)
        (match ty.sizeV ps with
         | some s => some (v, s, m, c)
         | none => some (v, n, m, c))
      | none => none
    else
      match repeatAt (fun p => unpackDef ps data p ty) (ty.sizeV ps) count pos with
      | some (vs, n, m, c) => some (.seq vs, n, m, c)
      | none => none
  | .bitsEx ty names sizes =>
    match unpackDef ps data pos ty with
    | some (.int u, _, _, c) =>
      (match ty.sizeV ps with
       | some s => some (.dict (splitBits u names sizes 0), s, bitsMask (bitsExBE ty) s (coveredBits names sizes), c)
       | none => none)
    | _ => none
/-- `cls().unpack(data, pos, psize)`: value (the instance, or the field value for a typedef),
    `len()` of the result, mask, flag -/
def unpackDef (ps : Nat) (data : Bytes) (pos : Nat) : Def → Option (Val × Nat × Bytes × Bool)
  | .mk .typedef packed fs =>
    finishTypedef packed (if packed then 1 else maxList (alignVs ps fs))
      (match fs with
       | f :: _ => unpackField ps data pos [] f
       | [] => none)
  | .mk .struct packed fs =>
    finishAgg ps false packed fs (unpackFields ps data pos false packed fs 0 [])
  | .mk .union packed fs =>
    finishAgg ps true packed fs (unpackFields ps data pos true packed fs 0 [])
/-- the `for f in self.fields` loop of `StructCore.unpack` (field alignment relative to the start
    `base` of the structure); result: namespace and, per field, (value, size, mask) -/
def unpackFields (ps : Nat) (data : Bytes) (base : Nat) (isUnion packed : Bool) :
    List Field → Nat → NS → Option (NS × List (Val × Nat × Bytes × Bool))
  | [], _, ns => some (ns, [])
  | f :: fs, rel, ns =>
    let rel1 := if !isUnion && !packed then alignTo rel (f.alignV ps) else rel
    match unpackField ps data (base + rel1) ns f with
    | none => none
    | some (v, sz, m, c) =>
      let ns1 := store f v ns
      let rel2 := if isUnion then rel1 else rel1 + sz
      match unpackFields ps data base isUnion packed fs rel2 ns1 with
      | none => none
      | some (ns2, res) => some (ns2, (v, sz, m, c) :: res)
end

/-! ## pack -/

/-- `D[x] = getattr(self._v, x)` for a bit-field part (its value must be an integer) -/
def partOf (ns : NS) (nm : String) : Option (String × Int) :=
  match nsGet ns nm with
  | some (.int x) => some (nm, x)
  | _ => none

/-- one element of the `data` list `StructCore.pack` builds from the instance namespace: the value
    of a named field, or the dictionary of the parts of a bit-field -/
def collectAt (ns : NS) : Field → Option Val
  | .bits _ _ names _ => (names.mapM (partOf ns)).map .dict
  | .bitsEx _ names _ => (names.mapM (partOf ns)).map .dict
  | f => nsGet ns f.name

/-- the `data` list `StructCore.pack` builds from the instance namespace when `data is None` -/
def collect (ns : NS) : List Field → Option (List Val)
  | [] => some []
  | f :: fs =>
    match collectAt ns f, collect ns fs with
    | some v, some r => some (v :: r)
    | _, _ => none

/-- `b"".join([g(v) for v in value])` -/
def mapJoin (g : Val → Option Bytes) : List Val → Option Bytes
  | [] => some []
  | v :: vs =>
    match g v, mapJoin g vs with
    | some b, some r => some (b ++ r)
    | _, _ => none

mutual
/-- `f.pack(value, psize)` -/
def packField (ps : Nat) : Field → Val → Option Bytes
  | .raw _ t be count, v => packRaw ps t be count v
  | .bits t be names sizes, v => packBits ps t be names sizes v
  | .var _ t be, v => packVar ps t be v
  | .cnt _ t be ct, v => packCnt ps t be ct v
  | .bound _ t be _, v => packBound ps t be v
  | .leb _ signed, v => packLeb signed v
  | .nest _ ty count, v =>
    if count = 0 then packOne ps ty v
    else match v with
      | .seq vs => mapJoin (fun x => packOne ps ty x) vs
      | _ => none
  | .bitsEx ty names sizes, v =>
    match v with
    | .dict kv =>
      (match joinBits kv names sizes 0 with
       | some u => packOne ps ty (.int (u : Int))
       | none => none)
    | _ => none
/-- `Field._pack1(value, psize)`: an instance packs itself from its namespace
    (`value.pack(None, psize)`), any other value is the single datum of a typedef
    (`self.type().pack([value], psize)`) -/
def packOne (ps : Nat) : Def → Val → Option Bytes
  | .mk kind packed fs, v =>
    let A := if packed then 1 else maxList (alignVs ps fs)
    match v with
    | .inst ns l =>
      if kind == .typedef then
        -- the instance is of the aggregate the typedef names: it packs itself
        (match fs with
         | .nest _ ty _ :: _ => packOne ps ty (.inst ns l)
         | _ => none)
      else
      (match collect ns fs with
       | some vals =>
         (match packFields ps fs vals with
          | some parts => some (assemble (kind == .union) packed A parts)
          | none => none)
       | none => none)
    | v =>
      (match packFields ps fs [v] with
       | some parts => some (assemble (kind == .union) packed A parts)
       | none => none)
/-- `[f.pack(v) for f, v in zip(self.fields, data)]` with each field's `align_value` -/
def packFields (ps : Nat) : List Field → List Val → Option (List (Nat × Bytes))
  | f :: fs, v :: vs =>
    match packField ps f v, packFields ps fs vs with
    | some p, some r => some ((f.alignV ps, p) :: r)
    | _, _ => none
  | _, _ => some []
end

/-- `instance.pack(None, psize)` on the result of `unpackDef` -/
def packDef (ps : Nat) (d : Def) (v : Val) : Option Bytes := packOne ps d v

/-! ## the modelled fragment and the well-formedness conditions of the round-trip theorem -/

mutual
/-- constructs the model mirrors faithfully (everything else: the driver answers "unmodelled") -/
def Field.modelled (ps : Nat) : Field → Bool
  -- with a `psize` the code does not map, `l`/`L`/`P` are sized natively (8) but decoded with the
  -- standard-size letter (`<l` = 4 bytes, `<P` invalid): outside the fragment
  | .raw _ t _ _ => !(t.isPtr && !ptrMapped ps)
  | .bits t _ _ _ => !(t.isPtr && !ptrMapped ps)
  | .var _ t _ => t.varOK
  | .cnt _ t _ ct => t.varOK && (ct == .b || ct == .B || ct == .h || ct == .H || ct == .i || ct == .I)
  | .bound _ t _ _ => t.varOK
  | .leb .. => true
  | .nest _ ty _ => ty.modelled ps
  | .bitsEx ty _ _ => ty.modelled ps && (ty.sizeV ps).isSome
def Def.modelled (ps : Nat) : Def → Bool
  | .mk kind _ fs =>
    fieldsModelled ps fs && !fs.isEmpty &&
      (match kind with
       | .struct => true
       -- unions and typedefs of variable-length members are outside the fragment
       | _ => (sizeLoop ps true true fs 0).isSome)
def fieldsModelled (ps : Nat) : List Field → Bool
  | [] => true
  | f :: fs => f.modelled ps && fieldsModelled ps fs
end

mutual
/-- the integer scalar (letter, byte order) a chain of typedefs ends in -/
def intChain : Def → Option (Letter × Bool)
  | .mk kind _ fs => if kind == .typedef then intChainFields fs else none
def intChainFields : List Field → Option (Letter × Bool)
  | [f] => intChainField f
  | _ => none
def intChainField : Field → Option (Letter × Bool)
  | .raw _ t be count => if count = 0 && (t.enc == .sint || t.enc == .uint) then some (t, be) else none
  | .nest _ ty count => if count = 0 then intChain ty else none
  | _ => none
end

/-- the names a field contributes to the instance namespace -/
def Field.names : Field → List String
  | .bits _ _ names _ => names
  | .bitsEx _ names _ => names
  | f => [f.name]

def allNames : List Field → List String
  | [] => []
  | f :: fs => f.names ++ allNames fs

mutual
/-- hypotheses of the round-trip theorem, all decidable on the definition:
    distinct member names; bit-field parts named one to one, over an integer storage type whose sign
    bit stays uncovered when the type is signed (see the known finding otherwise);
    typedefs of a single scalar, array or previously defined type -/
def Field.wf (ps : Nat) : Field → Bool
  | .bits t _ names sizes =>
    names.length == sizes.length && decide names.Nodup && (t.enc == .sint || t.enc == .uint) &&
      (t.enc != .sint || decide (coveredBits names sizes < 8 * rawSize ps t))
  | .bitsEx ty names sizes =>
    ty.wf ps && names.length == sizes.length && decide names.Nodup &&
      (match intChain ty with
       | some (t, _) => t.enc != .sint || decide (coveredBits names sizes < 8 * rawSize ps t)
       | none => false)
  | .nest _ ty _ => ty.wf ps
  | _ => true
def Def.wf (ps : Nat) : Def → Bool
  | .mk kind packed fs =>
    fieldsWf ps fs && decide (allNames fs).Nodup &&
      (match kind with
       | .typedef => !packed && typedefShape fs
       | _ => true)
def fieldsWf (ps : Nat) : List Field → Bool
  | [] => true
  | f :: fs => f.wf ps && fieldsWf ps fs
def typedefShape : List Field → Bool
  | [.raw ..] => true
  | [.nest ..] => true
  | _ => false
end

/-! ## C ABI reference (independent of the code's algorithm) -/

/-- least multiple of `a` that is `≥ o` -/
def roundUp (o a : Nat) : Nat := (o + a - 1) / a * a

/-- size of the C type a struct letter stands for, for a data model with `ps`-byte `long` and pointers:
    char 1, short 2, int 4, long long 8, float 4, double 8 -/
def cSize (ps : Nat) : Letter → Nat
  | .x | .c | .b | .B | .s => 1
  | .h | .H => 2
  | .i | .I | .f => 4
  | .q | .Q | .d => 8
  | .l | .L | .P => if ps = 4 ∨ ps = 32 then 4 else 8

structure Lay where
  size : Nat
  align : Nat
  offs : List Nat
deriving DecidableEq, Repr

/-- member offsets of a structure: each member at the least multiple of its alignment that is
    not below the end of the previous member; returns offsets and the end of the last member -/
def placeMembers : List (Nat × Nat) → Nat → List Nat × Nat
  | [], e => ([], e)
  | (sz, al) :: r, e =>
    let o := roundUp e al
    let (os, e') := placeMembers r (o + sz)
    (o :: os, e')

/-- layout of a struct/union with members `(size, alignment)`; `packed` forces every alignment to 1 -/
def place (isUnion packed : Bool) (ms : List (Nat × Nat)) : Lay :=
  let ms' := if packed then ms.map (fun m => (m.1, 1)) else ms
  let al := ms'.foldl (fun a m => max a m.2) 1
  if isUnion then
    { size := roundUp (ms'.foldl (fun a m => max a m.1) 0) al, align := al, offs := ms'.map (fun _ => 0) }
  else
    let (os, e) := placeMembers ms' 0
    { size := roundUp e al, align := al, offs := os }

mutual
/-- (size, alignment) of a member; `none` for variable-length members (no C counterpart) -/
def refField (ps : Nat) : Field → Option (Nat × Nat)
  | .raw _ t _ count => some (cSize ps t * (if count = 0 then 1 else count), cSize ps t)
  | .bits t _ _ _ => some (cSize ps t, cSize ps t)
  | .nest _ ty count =>
    match refDef ps ty with
    | some L => some (L.size * (if count = 0 then 1 else count), L.align)
    | none => none
  | .bitsEx ty _ _ =>
    match refDef ps ty with
    | some L => some (L.size, L.align)
    | none => none
  | .var .. => none
  | .cnt .. => none
  | .bound .. => none
  | .leb .. => none
def refDef (ps : Nat) : Def → Option Lay
  | .mk kind packed fs =>
    match refMembers ps fs with
    | some ms => some (place (kind == .union) packed ms)
    | none => none
def refMembers (ps : Nat) : List Field → Option (List (Nat × Nat))
  | [] => some []
  | f :: fs =>
    match refField ps f, refMembers ps fs with
    | some m, some r => some (m :: r)
    | _, _ => none
end

/-- what `offsets()` should list for a fixed-size definition, from the reference layout -/
def refEntries (ps : Nat) (isUnion : Bool) : List Field → List Nat → List OffEntry
  | f :: fs, o :: os =>
    (match (if isUnion then none else f.subsizes?) with
     | some sizes => bitEntries o sizes 0
     | none => [.field o ((refField ps f).map (·.1))]) ++ refEntries ps isUnion fs os
  | _, _ => []

/-- `count` consecutive elements of `stride` bytes decoded by `g` from the start of `bs` -/
def refElems (g : Bytes → Option Val) (stride : Nat) : Nat → Bytes → Option (List Val)
  | 0, _ => some []
  | k + 1, bs =>
    match g bs, refElems g stride k (bs.drop stride) with
    | some v, some r => some (v :: r)
    | _, _ => none

def refElemMasks (m : Bytes) : Nat → Bytes
  | 0 => []
  | k + 1 => m ++ refElemMasks m k

/-- struct mask from member masks placed at the reference offsets, zero elsewhere -/
def maskAt : List Nat → List Bytes → Nat → Bytes
  | o :: os, m :: ms, e => zeros (o - e) ++ m ++ maskAt os ms (o + m.length)
  | _, _, _ => []

mutual
/-- reference decoding of a member from the bytes starting at the member -/
def refDecodeField (ps : Nat) (bs : Bytes) (ns : NS) : Field → Option Val
  | .raw _ t be count => (unpackRaw ps t be count bs 0).map (·.1)
  | .bits t be names sizes => (unpackBits ps t be names sizes bs 0).map (·.1)
  | .nest _ ty count =>
    if count = 0 then refDecodeDef ps bs ty
    else match refDef ps ty with
      | some L => (refElems (fun b => refDecodeDef ps b ty) L.size count bs).map .seq
      | none => none
  | .bitsEx ty names sizes =>
    (match refDecodeDef ps bs ty with
     | some (.int u) => some (.dict (splitBits u names sizes 0))
     | _ => none)
  | _ => let _ := ns; none
/-- reference decoding of a fixed-size definition from the bytes starting at it: every member is
    decoded from the bytes at its ABI offset -/
def refDecodeDef (ps : Nat) (bs : Bytes) : Def → Option Val
  | .mk .typedef _ fs =>
    match refMembers ps fs with
    | none => none
    | some _ =>
      (match fs with
       | f :: _ => refDecodeField ps bs [] f
       | [] => none)
  | .mk .struct packed fs =>
    match refMembers ps fs with
    | none => none
    | some ms =>
      (match refDecodeFields ps bs fs (place false packed ms).offs [] with
       | some ns => some (.inst ns (place false packed ms).size)
       | none => none)
  | .mk .union packed fs =>
    match refMembers ps fs with
    | none => none
    | some ms =>
      (match refDecodeFields ps bs fs (place true packed ms).offs [] with
       | some ns => some (.inst ns (place true packed ms).size)
       | none => none)
def refDecodeFields (ps : Nat) (bs : Bytes) : List Field → List Nat → NS → Option NS
  | f :: fs, o :: os, ns =>
    match refDecodeField ps (bs.drop o) ns f with
    | some v => refDecodeFields ps bs fs os (store f v ns)
    | none => none
  | _, _, ns => some ns
end

mutual
/-- reference mask of a member: which bits of its bytes carry data -/
def refMaskField (ps : Nat) : Field → Bytes
  | .raw _ t _ count =>
    let n := cSize ps t * (if count = 0 then 1 else count)
    if t == .x then zeros n else ones n
  | .bits t be names sizes => bitsMask be (cSize ps t) (coveredBits names sizes)
  | .nest _ ty count =>
    if count = 0 then refMaskDef ps ty else refElemMasks (refMaskDef ps ty) count
  | .bitsEx ty names sizes =>
    (match refDef ps ty with
     | some L => bitsMask (bitsExBE ty) L.size (coveredBits names sizes)
     | none => [])
  | _ => []
/-- reference mask of a fixed-size definition: member masks at the ABI offsets, padding zero;
    for a union the first member of maximal size -/
def refMaskDef (ps : Nat) : Def → Bytes
  | .mk kind packed fs =>
    match refMembers ps fs with
    | none => []
    | some ms =>
      let L := place (kind == .union) packed ms
      let body := if kind == .union then longest (refMaskFields ps fs)
                  else maskAt L.offs (refMaskFields ps fs) 0
      body ++ zeros (L.size - body.length)
def refMaskFields (ps : Nat) : List Field → List Bytes
  | [] => []
  | f :: fs => refMaskField ps f :: refMaskFields ps fs
end

/-! ## the definition language (`StructDefine.__init__`, `UnionDefine`, `TypeDefine`) -/

/-- the `length` alternatives of the grammar -/
inductive Count
  | int (n : Nat)
  /-- `special` (`.name`, `%name`) or `inf` (`~`, `~I`) as the string pyparsing returns -/
  | str (s : String)
  | bits (l : List Nat)
deriving Repr, DecidableEq

/-- one `Group(typename + fieldname + Optional(comment))` -/
structure Decl where
  tname : String
  count : Count
  order : Option Bool      -- `some true` = '>', `some false` = '<', `none` = not given
  fname : String
deriving Repr

namespace Parse

def isWs (c : Char) : Bool := c == ' ' || c == '\t' || c == '\n' || c == '\r'
def isAlpha_ (c : Char) : Bool := c.isAlpha || c == '_'
def isSymRest (c : Char) : Bool := c.isAlphanum || c == '_' || c == '/' || c == '$'
def isSpecRest (c : Char) : Bool := c.isAlphanum || c == '_' || c == '/'

def skipWs : List Char → List Char
  | c :: r => if isWs c then skipWs r else c :: r
  | [] => []

def spanWhile (p : Char → Bool) : List Char → List Char × List Char
  | c :: r => if p c then let (a, b) := spanWhile p r; (c :: a, b) else ([], c :: r)
  | [] => ([], [])

theorem spanWhile_len (p : Char → Bool) : ∀ l, (spanWhile p l).2.length ≤ l.length
  | [] => by simp [spanWhile]
  | c :: r => by
    unfold spanWhile
    split
    · have := spanWhile_len p r
      simp only [List.length_cons]; omega
    · simp

/-- `symbol = Regex("[A-Za-z_][A-Za-z0-9_/$]*")` (after skipping whitespace) -/
def symbol (inp : List Char) : Option (String × List Char) :=
  match skipWs inp with
  | c :: r => if isAlpha_ c then let (a, b) := spanWhile isSymRest r; some (String.ofList (c :: a), b) else none
  | [] => none

/-- `integer = Regex("[0-9][0-9]*")` -/
def integer (inp : List Char) : Option (Nat × List Char) :=
  match spanWhile Char.isDigit (skipWs inp) with
  | ([], _) => none
  | (ds, r) => some (ds.foldl (fun a c => 10 * a + (c.toNat - '0'.toNat)) 0, r)

/-- `delimitedList(integer, delim='/')` continuation: `("/" integer)*` -/
def moreInts : Nat → List Char → List Nat × List Char
  | 0, inp => ([], inp)
  | fuel + 1, inp =>
    match skipWs inp with
    | '/' :: r =>
      (match integer r with
       | some (n, r') => let (l, r'') := moreInts fuel r'; (n :: l, r'')
       | none => ([], inp))
    | _ => ([], inp)

/-- `length = integer | special | inf | bitslen` -/
def length (inp : List Char) : Option (Count × List Char) :=
  match skipWs inp with
  | [] => none
  | c :: r =>
    if c.isDigit then (integer (c :: r)).map (fun p => (.int p.1, p.2))
    else if c == '.' || c == '%' then
      (match r with
       | c2 :: r2 =>
         if isAlpha_ c2 then let (a, b) := spanWhile isSpecRest r2; some (.str (String.ofList (c :: c2 :: a)), b)
         else none
       | [] => none)
    else if c == '~' then
      (match r with
       | c2 :: r2 =>
         if c2 == 'b' || c2 == 'B' || c2 == 'h' || c2 == 'H' || c2 == 'i' || c2 == 'I'
         then some (.str (String.ofList [c, c2]), r2) else some (.str "~", r)
       | [] => some (.str "~", []))
    else if c == '#' then
      (match integer r with
       | some (n, r') => let (l, r'') := moreInts r'.length r'; some (.bits (n :: l), r'')
       | none => none)
    else none

/-- one field declaration -/
def decl (inp : List Char) : Option (Decl × List Char) :=
  match symbol inp with
  | none => none
  | some (tn, r1) =>
    -- Optional(Suppress("*") + length, default=0)
    let (cnt, r2) : Count × List Char :=
      match skipWs r1 with
      | '*' :: r =>
        (match length r with
         | some (c, r') => (c, r')
         | none => (.int 0, r1))
      | _ => (.int 0, r1)
    match skipWs r2 with
    | ':' :: r3 =>
      let (ord, r4) : Option Bool × List Char :=
        match skipWs r3 with
        | '>' :: r => (some true, r)
        | '<' :: r => (some false, r)
        | _ => (none, r3)
      (match symbol r4 with
       | none => none
       | some (fname, r5) =>
         -- Optional(Suppress(";") + restOfLine)
         let r6 := match skipWs r5 with
           | ';' :: r => (spanWhile (fun c => c != '\n') r).2
           | _ => r5
         some ({ tname := tn, count := cnt, order := ord, fname := fname }, r6))
    | _ => none

/-- `OneOrMore(decl)` then end of input (`parseAll`) -/
def decls : Nat → List Char → Option (List Decl)
  | 0, _ => none
  | fuel + 1, inp =>
    match decl inp with
    | none => none
    | some (d, r) =>
      (match skipWs r with
       | [] => some [d]
       | _ => (decls fuel r).map (d :: ·))

end Parse

/-- `structfmt.parseString(fmt, True)` -/
def parseDecls (src : String) : Option (List Decl) :=
  Parse.decls (src.length + 1) src.toList

abbrev Env := List (String × Def)

/-- an elaborated field with the `typename` attribute amoco keeps (needed by the bit-field merge) -/
structure EField where
  typename : String
  be : Bool
  field : Field

def splitSlash (s : String) : List String := s.splitOn "/"

/-- field-class selection of `StructDefine.__init__` for one declaration.
    `none`: the constructor raises, or the construct is outside the modelled fragment. -/
def elabDecl (env : Env) (order : Option Bool) (d : Decl) : Option EField :=
  let ord := match d.order with
    | some o => some o
    | none => order
  let be := ord == some true          -- `forder or "<"`
  let rawLetter : Option Letter :=
    match d.tname.toList with
    | [c] => Letter.ofChar? c
    | _ => none
  match rawLetter with
  | some t =>
    (match d.count with
     | .int n => some ⟨d.tname, be, .raw d.fname t be n⟩
     | .bits l => some ⟨d.tname, be, .bits t be (splitSlash d.fname) l⟩
     | .str s =>
       (match s.toList with
        | ['~'] => some ⟨d.tname, be, .var d.fname t be⟩
        | ['~', c] => (Letter.ofChar? c).map (fun ct => ⟨d.tname, be, .cnt d.fname t be ct⟩)
        | '.' :: r => some ⟨d.tname, be, .bound d.fname t be (String.ofList r)⟩
        | _ => if s == "%leb128" then
                 some ⟨d.tname, be, .leb d.fname (t == .b || t == .h || t == .i || t == .l)⟩
               else none))
  | none =>
    -- 'n', 'N', 'p' are in `rawtypes` but not in `alignments`: KeyError
    if d.tname == "n" || d.tname == "N" || d.tname == "p" then none
    else match env.lookup d.tname with
      | none => none
      | some ty =>
        (match d.count with
         | .int n => some ⟨d.tname, be, .nest d.fname ty n⟩
         | .bits l => some ⟨d.tname, be, .bitsEx ty (splitSlash d.fname) l⟩
         | .str _ => none)

def sumList : List Nat → Nat
  | [] => 0
  | a :: r => a + sumList r

/-- `prev.concat(f)` for a one-part bit-field `f` on a previous bit-field of the same type and
    byte order: the merged field, or `none` (TypeError: does not fit) -/
def concatBits (prev new : EField) : Option EField :=
  if prev.typename != new.typename || prev.be != new.be then none
  else match prev.field, new.field with
    | .bits t be names sizes, .bits _ be' [nm] [sz] =>
      if be == be' && decide (rawSize 0 t * 8 ≥ sumList sizes + sz)
      then some ⟨prev.typename, prev.be, .bits t be (names ++ [nm]) (sizes ++ [sz])⟩ else none
    | .bitsEx ty names sizes, .bitsEx _ [nm] [sz] =>
      let fits := match ty.sizeV 0 with
        | some s => decide (s * 8 ≥ sumList sizes + sz)
        | none => true
      if fits then some ⟨prev.typename, prev.be, .bitsEx ty (names ++ [nm]) (sizes ++ [sz])⟩ else none
    | _, _ => none

/-- the field loop of `StructDefine.__init__` (`acc` is `self.fields` reversed) -/
def elabFields (env : Env) (order : Option Bool) : List Decl → List EField → Option (List EField)
  | [], acc => some acc.reverse
  | d :: ds, acc =>
    match elabDecl env order d with
    | none => none
    | some f =>
      match acc with
      | prev :: rest =>
        (match concatBits prev f with
         | some merged => elabFields env order ds (merged :: rest)
         | none => elabFields env order ds (f :: acc))
      | [] => elabFields env order ds [f]

/-- `TypeDefine`: `t.fields[0].count = typecount` -/
def setCount (n : Nat) : Field → Field
  | .raw nm t be _ => .raw nm t be n
  | .nest nm ty _ => .nest nm ty n
  | f => f

/-- `StructFactory` / `UnionFactory` / `TypeDefine` -/
def parseDef (env : Env) (kind : Kind) (packed : Bool) (order : Option Bool) (src : String)
    (tdCount : Nat) : Option Def :=
  match parseDecls src with
  | none => none
  | some ds =>
    match elabFields env order ds [] with
    | none => none
    | some fs =>
      let fields := fs.map (·.field)
      match kind, fields with
      | .typedef, f :: r => some (.mk .typedef false ((if tdCount > 0 then setCount tdCount f else f) :: r))
      | .typedef, [] => none
      | k, _ => some (.mk k packed fields)

end Amoco.Struct
