/-
  Amoco.Model.HexSrec — Intel-HEX and Motorola S-record readers of
  `amoco/system/structs/HEX.py` and `SREC.py`, as coded, in an exception monad.

  * `PyExn`, `Py`       : the Python exception classes the format code can raise, `Except PyExn`;
  * `pyInt`             : CPython's `int(bytes, base)` (whitespace, sign, `0x` prefix, underscores);
  * `unhexlify`         : `codecs.decode(·, "hex")`;
  * `pySlice`           : `l[a:b]` with negative indices;
  * `hexLineSet`        : `HEXline.set` (count / address / type / data / checksum, type specific
                          payloads `base`, `cs:ip`, `ela`, `eip`);
  * `hexInit`, `hexDecode` : `HEX.__init__` and `HEX.decode` (segment / linear address composition);
  * `srecLineSet`, `srecInit` : `SRECline.set`, `SREC.__init__`;
  * `hexPrint`, `srecPrint` : `HEXline.pack`, `SRECline.pack` for in-range records;
  * `hexRefAddrs`       : address composition written from the Intel-HEX specification
                          (the most recent extension record decides).
  Every partial Python operation (`assert`, `int(…)`, `unhexlify`) is explicit.  The model follows
  the code with the proposed repairs `proposed_fixes/C14-srec-checksum.diff` (bad checksum raises
  `SRECError`) and `proposed_fixes/C20-hex-asserts.diff` (the type specific asserts of `HEXline.set`
  are inside the `try`).  Core Lean only.
-/
namespace Amoco.Fmt

/-- Python exception classes that the modelled code can raise. -/
inductive PyExn
  | assertion | value | struct | index | zeroDiv | unicode | attribute | type | key | notImpl | overflow
  | hexError | srecError | elfError | structureError | peError | machoError | coffError
  deriving Repr, DecidableEq, Inhabited

abbrev Py := Except PyExn

def PyExn.name : PyExn → String
  | .assertion => "AssertionError" | .value => "ValueError" | .struct => "struct.error"
  | .index => "IndexError" | .zeroDiv => "ZeroDivisionError" | .unicode => "UnicodeDecodeError"
  | .attribute => "AttributeError" | .type => "TypeError" | .key => "KeyError"
  | .notImpl => "NotImplementedError" | .overflow => "OverflowError"
  | .hexError => "HEXError" | .srecError => "SRECError" | .elfError => "ElfError"
  | .structureError => "StructureError" | .peError => "PEError" | .machoError => "MachOError"
  | .coffError => "COFFError"

def pyAssert (b : Bool) : Py Unit := if b then .ok () else .error .assertion

/-! ## Python helpers on byte strings (`List Nat`, every element `< 256`) -/

/-- ASCII whitespace of `bytes.strip()` and of `int()` : space, `\t \n \v \f \r`. -/
def isSpace (c : Nat) : Bool := c == 32 || (9 ≤ c && c ≤ 13)

def lstrip (l : List Nat) : List Nat := l.dropWhile isSpace
def rstrip (l : List Nat) : List Nat := (l.reverse.dropWhile isSpace).reverse
def strip (l : List Nat) : List Nat := rstrip (lstrip l)

/-- normalisation of a slice index against length `n` (`slice.indices`, step 1). -/
def normIdx (n : Nat) (i : Int) : Nat := if i < 0 then (i + n).toNat else min i.toNat n

/-- `l[a:b]` -/
def pySlice {α} (l : List α) (a b : Int) : List α :=
  (l.drop (normIdx l.length a)).take (normIdx l.length b - normIdx l.length a)

/-- `l[a:]` -/
def pySliceFrom {α} (l : List α) (a : Int) : List α := l.drop (normIdx l.length a)

/-- value of a hexadecimal digit character (either case). -/
def hexVal? (c : Nat) : Option Nat :=
  if 48 ≤ c && c ≤ 57 then some (c - 48)
  else if 97 ≤ c && c ≤ 102 then some (c - 87)
  else if 65 ≤ c && c ≤ 70 then some (c - 55)
  else none

/-- `codecs.decode(s, "hex")` = `binascii.unhexlify` : odd length or a non-hex digit is a
    `binascii.Error`, a subclass of `ValueError`. -/
def unhexlify : List Nat → Py (List Nat)
  | [] => .ok []
  | [_] => .error .value
  | a :: b :: t =>
    match hexVal? a, hexVal? b with
    | some x, some y =>
      match unhexlify t with
      | .ok r => .ok ((x * 16 + y) :: r)
      | .error e => .error e
    | _, _ => .error .value

def lowerHex (n : Nat) : Nat := if n < 10 then 48 + n else 87 + n
def upperHex (n : Nat) : Nat := if n < 10 then 48 + n else 55 + n

/-- `codecs.encode(d, "hex")` (lower case). -/
def hexlify : List Nat → List Nat
  | [] => []
  | b :: t => lowerHex (b / 16) :: lowerHex (b % 16) :: hexlify t

/-- `codecs.encode(d, "hex").upper()` -/
def hexlifyUpper : List Nat → List Nat
  | [] => []
  | b :: t => upperHex (b / 16) :: upperHex (b % 16) :: hexlifyUpper t

/-- digit value as used by `int()` : `0-9a-zA-Z` → 0..35. -/
def digitVal? (c : Nat) : Option Nat :=
  if 48 ≤ c && c ≤ 57 then some (c - 48)
  else if 97 ≤ c && c ≤ 122 then some (c - 87)
  else if 65 ≤ c && c ≤ 90 then some (c - 55)
  else none

/-- `long_from_string_base`: digits and single underscores between digits; stops at the first
    other character.  `none` = syntax error (double or trailing underscore). -/
def scanDigits (base : Nat) : List Nat → Nat → Bool → Option (Nat × List Nat)
  | [], acc, prevUs => if prevUs then none else some (acc, [])
  | c :: t, acc, prevUs =>
    if c == 95 then (if prevUs then none else scanDigits base t acc true)
    else
      match digitVal? c with
      | some d =>
        if d < base then scanDigits base t (acc * base + d) false
        else if prevUs then none else some (acc, c :: t)
      | none => if prevUs then none else some (acc, c :: t)

/-- CPython `int(b, base)` for `bytes` input and base 10 or 16 (`PyLong_FromString` +
    `_PyLong_FromBytes`): leading whitespace, optional sign, optional `0x`/`0X` prefix (base 16)
    followed by at most one underscore, digits with single underscores, trailing whitespace,
    nothing else; anything else is a `ValueError`. -/
def pyInt (base : Nat) (s : List Nat) : Py Int :=
  let s1 := lstrip s
  let neg : Bool := s1.head? == some 45
  let s2 : List Nat := if s1.head? == some 45 || s1.head? == some 43 then s1.tail else s1
  let hasPfx : Bool :=
    base == 16 && s2.head? == some 48 && (s2.tail.head? == some 120 || s2.tail.head? == some 88)
  let s3 : List Nat :=
    if hasPfx then (if s2.tail.tail.head? == some 95 then s2.tail.tail.tail else s2.tail.tail) else s2
  if s3.head? == some 95 then .error .value
  else
    match scanDigits base s3 0 false with
    | none => .error .value
    | some (v, rest) =>
      if rest.length == s3.length then .error .value
      else if lstrip rest != [] then .error .value
      else .ok (if neg then - (v : Int) else (v : Int))

/-- `f.readlines()` of a `BytesIO`: split after every `\n`, terminators kept. -/
def readlinesAux : List Nat → List Nat → List (List Nat)
  | [], cur => if cur.isEmpty then [] else [cur.reverse]
  | c :: t, cur => if c == 10 then (c :: cur).reverse :: readlinesAux t [] else readlinesAux t (c :: cur)

def readlines (data : List Nat) : List (List Nat) := readlinesAux data []

def sumBytes : List Nat → Nat
  | [] => 0
  | b :: t => b + sumBytes t

/-- big-endian value of a byte list -/
def beNat : List Nat → Nat → Nat
  | [], acc => acc
  | b :: t, acc => beNat t (acc * 256 + b)

/-! ## Intel HEX -/

inductive HexExt
  | none
  | base (v : Int)
  | csip (cs ip : Int)
  | ela (v : Int)
  | eip (v : Int)
  deriving Repr, DecidableEq, Inhabited

structure HexLine where
  count : Int
  address : Int
  code : Int
  data : List Nat
  cksum : Nat
  ext : HexExt
  deriving Repr, DecidableEq, Inhabited

/-- `-(sum(s) & 0xFF) & 0xFF` -/
def hexCksum (s : List Nat) : Nat := (256 - sumBytes s % 256) % 256

/-- the type specific part of `HEXline.set` -/
def hexExtOf (code count : Int) (data : List Nat) : Py HexExt :=
  let v := hexlify data
  if code == 2 then do
    pyAssert (count == 2)
    let b ← pyInt 16 v
    pure (.base b)
  else if code == 3 then do
    pyAssert (count == 4)
    let cs ← pyInt 16 (pySlice v 0 4)
    let ip ← pyInt 16 (pySliceFrom v 4)
    pure (.csip cs ip)
  else if code == 4 then do
    pyAssert (count == 2)
    let b ← pyInt 16 v
    pure (.ela b)
  else if code == 5 then do
    pyAssert (count == 4)
    let b ← pyInt 16 v
    pure (.eip b)
  else pure .none

/-- body of the `try` block of `HEXline.set` on the stripped line. -/
def hexLineBody (line : List Nat) : Py HexLine := do
  pyAssert (pySlice line 0 1 == [58])
  let count ← pyInt 16 (pySlice line 1 3)
  let address ← pyInt 16 (pySlice line 3 7)
  let code ← pyInt 16 (pySlice line 7 9)
  let c : Int := 9 + 2 * count
  let data ← unhexlify (pySlice line 9 c)
  let s ← unhexlify (pySlice line 1 (-2))
  let ck := hexCksum s
  let last ← pyInt 16 (pySliceFrom line (-2))
  pyAssert ((ck : Int) == last)
  let ext ← hexExtOf code count data
  pure { count := count, address := address, code := code, data := data, cksum := ck, ext := ext }

/-- `except (AssertionError, ValueError): raise HEXError(line)` -/
def toHexError {α} : Py α → Py α
  | .error .assertion => .error .hexError
  | .error .value => .error .hexError
  | r => r

/-- `HEXline(data)` : `self.set(data.strip())`. -/
def hexLineSet (raw : List Nat) : Py HexLine := toHexError (hexLineBody (strip raw))

/-- value of `HEX._entrypoint` : `0`, or the pair `(cs, ip)` of the last start-segment record. -/
inductive HexEntry
  | zero
  | csip (cs ip : Int)
  deriving Repr, DecidableEq, Inhabited

structure HexFile where
  lines : List HexLine
  entry : HexEntry
  eip : Option Int          -- attribute `entrypoint` set by a start-linear record (not in `entrypoints`)
  deriving Repr, DecidableEq, Inhabited

def hexInitLoop : List (List Nat) → HexFile → Py HexFile
  | [], acc => .ok { acc with lines := acc.lines.reverse }
  | raw :: rest, acc =>
    match hexLineSet raw with
    | .error e => .error e
    | .ok l =>
      let acc1 : HexFile :=
        match l.ext with
        | .csip cs ip => if l.code == 3 then { acc with entry := .csip cs ip } else acc
        | .eip v => if l.code == 5 then { acc with eip := some v } else acc
        | _ => acc
      hexInitLoop rest { acc1 with lines := l :: acc1.lines }

/-- `HEX.__init__` on the file content. -/
def hexInit (data : List Nat) : Py HexFile :=
  hexInitLoop (readlines data) { lines := [], entry := .zero, eip := none }

/-- `HEX.decode` : the `(address, data)` list in file order.  (repair "HEX.decode lets the most recent
    extension record decide": one running base, set by type 02 to `base·16` and by type 04 to
    `ela·65536`; the first version kept both and preferred a non-zero linear base.) -/
def hexDecodeLoop : List HexLine → Int → List (Int × List Nat)
  | [], _ => []
  | l :: rest, base =>
    if l.code == 2 then
      hexDecodeLoop rest (match l.ext with | .base b => b * 16 | _ => base)
    else if l.code == 4 then
      hexDecodeLoop rest (match l.ext with | .ela b => b * 65536 | _ => base)
    else if l.code == 0 then
      (base + l.address, l.data) :: hexDecodeLoop rest base
    else hexDecodeLoop rest base

def hexDecode (ls : List HexLine) : List (Int × List Nat) := hexDecodeLoop ls 0

/-- Reference (Intel HEX specification, rev. A): a type 04 record sets the upper linear base
    address and switches to linear addressing, a type 02 record sets the segment base and switches
    to segmented addressing; data bytes go to `base + offset`. -/
inductive HexMode
  | plain
  | seg (b : Int)
  | lin (b : Int)
  deriving Repr, DecidableEq, Inhabited

def hexRefLoop : List HexLine → HexMode → List (Int × List Nat)
  | [], _ => []
  | l :: rest, m =>
    if l.code == 2 then hexRefLoop rest (match l.ext with | .base b => .seg b | _ => m)
    else if l.code == 4 then hexRefLoop rest (match l.ext with | .ela b => .lin b | _ => m)
    else if l.code == 0 then
      let a : Int := match m with
        | .plain => l.address
        | .seg b => b * 16 + l.address
        | .lin b => b * 65536 + l.address
      (a, l.data) :: hexRefLoop rest m
    else hexRefLoop rest m

def hexRefAddrs (ls : List HexLine) : List (Int × List Nat) := hexRefLoop ls .plain

/-- the running base of `HEX.decode` that corresponds to a mode of the reference -/
def HexMode.base : HexMode → Int
  | .plain => 0
  | .seg b => b * 16
  | .lin b => b * 65536

/-! ### printing (`HEXline.pack`) of in-range records -/

/-- `w` upper-case hexadecimal digits of `n` (most significant first) — `b"%0wX" % n` for `n < 16^w`. -/
def hexDigits : Nat → Nat → List Nat
  | 0, _ => []
  | w + 1, n => hexDigits w (n / 16) ++ [upperHex (n % 16)]

structure HexRec where
  count : Nat
  address : Nat
  code : Nat
  data : List Nat
  deriving Repr, DecidableEq, Inhabited

/-- bytes covered by the checksum: count, address (big endian), type, data. -/
def HexRec.bytes (r : HexRec) : List Nat :=
  r.count :: (r.address / 256) :: (r.address % 256) :: r.code :: r.data

def HexRec.cksum (r : HexRec) : Nat := hexCksum r.bytes

/-- `HEXline.pack` with checksum byte `ck`. -/
def hexPrint (r : HexRec) (ck : Nat) : List Nat :=
  58 :: (hexDigits 2 r.count ++ (hexDigits 4 r.address ++ (hexDigits 2 r.code ++
    (hexlifyUpper r.data ++ hexDigits 2 ck))))

/-- what a record means once parsed. -/
def HexRec.ext (r : HexRec) : HexExt :=
  if r.code = 2 then .base (beNat r.data 0)
  else if r.code = 3 then .csip (beNat (r.data.take 2) 0) (beNat (r.data.drop 2) 0)
  else if r.code = 4 then .ela (beNat r.data 0)
  else if r.code = 5 then .eip (beNat r.data 0)
  else .none

def HexRec.toLine (r : HexRec) : HexLine :=
  { count := r.count, address := r.address, code := r.code, data := r.data, cksum := r.cksum, ext := r.ext }

/-- a record as the Intel HEX format defines it. -/
def HexRec.WF (r : HexRec) : Prop :=
  r.count = r.data.length ∧ r.count < 256 ∧ r.address < 65536 ∧ r.code < 256 ∧
  (∀ b ∈ r.data, b < 256) ∧
  (r.code = 2 → r.count = 2) ∧ (r.code = 3 → r.count = 4) ∧
  (r.code = 4 → r.count = 2) ∧ (r.code = 5 → r.count = 4)

/-! ## Motorola S-records -/

structure SrecLine where
  type : Int
  count : Int
  address : Int
  data : List Nat
  cksum : Nat
  deriving Repr, DecidableEq, Inhabited

/-- the `size` property: number of hex digits of the address field. -/
def srecSize (ty count : Int) : Int :=
  let l : Int := match ty with
    | 0 => 4 | 1 => 4 | 2 => 6 | 3 => 8 | 4 => 0 | 5 => 4 | 6 => 6 | 7 => 8 | 8 => 6 | 9 => 4
    | _ => 0
  if ty == 5 || ty == 6 then
    let r := 2 * count
    if r - 2 != l then r - 2 else l
  else l

/-- `(sum(s) & 0xFF) ^ 0xFF` -/
def srecCksum (s : List Nat) : Nat := 255 - sumBytes s % 256

def srecLineBody (line : List Nat) : Py SrecLine := do
  pyAssert (pySlice line 0 1 == [83])
  let ty ← pyInt 10 (pySlice line 1 2)
  let count ← pyInt 16 (pySlice line 2 4)
  let l := srecSize ty count
  let address ← pyInt 16 (pySlice line 4 (4 + l))
  let data ← unhexlify (pySlice line (4 + l) (-2))
  -- `assert self.count == (l / 2) + len(self.data) + 1`  (l is always even)
  pyAssert (2 * count == l + 2 * (data.length : Int) + 2)
  let s ← unhexlify (pySlice line 2 (-2))
  let ck := srecCksum s
  let last ← pyInt 16 (pySliceFrom line (-2))
  if (ck : Int) != last then throw .srecError
  pure { type := ty, count := count, address := address, data := data, cksum := ck }

def toSrecError {α} : Py α → Py α
  | .error .assertion => .error .srecError
  | .error .value => .error .srecError
  | r => r

def srecLineSet (raw : List Nat) : Py SrecLine := toSrecError (srecLineBody (strip raw))

structure SrecFile where
  lines : List SrecLine
  name : Option (List Nat)      -- data of the last header record
  entry : Option Int            -- attribute `entrypoint` set by a non-zero start record
  deriving Repr, DecidableEq, Inhabited

def srecInitLoop : List (List Nat) → SrecFile → Py SrecFile
  | [], acc => .ok { acc with lines := acc.lines.reverse }
  | raw :: rest, acc =>
    if strip raw == [] then srecInitLoop rest acc
    else
      match srecLineSet raw with
      | .error e => .error e
      | .ok l =>
        let acc1 : SrecFile :=
          if l.type == 0 then { acc with name := some l.data }
          else if l.type == 7 || l.type == 8 || l.type == 9 then
            (if l.address != 0 then { acc with entry := some l.address } else acc)
          else acc
        srecInitLoop rest { acc1 with lines := l :: acc1.lines }

/-- `SREC.__init__` -/
def srecInit (data : List Nat) : Py SrecFile :=
  srecInitLoop (readlines data) { lines := [], name := none, entry := none }

/-- `(address, data)` of the data records (`SREC.decode` / `load_binary`). -/
def srecDecode (ls : List SrecLine) : List (Int × List Nat) :=
  (ls.filter (fun l => l.type == 1 || l.type == 2 || l.type == 3)).map (fun l => (l.address, l.data))

structure SrecRec where
  type : Nat
  address : Nat
  data : List Nat
  deriving Repr, DecidableEq, Inhabited

/-- number of address bytes of a record type (S-record definition). For the count records S5/S6
    the reader takes whatever the byte count leaves (`2·count − 2` digits); 2 resp. 3 bytes is the
    standard form. -/
def srecAddrBytes : Nat → Nat
  | 0 => 2 | 1 => 2 | 2 => 3 | 3 => 4 | 5 => 2 | 6 => 3 | 7 => 4 | 8 => 3 | 9 => 2
  | _ => 0

def SrecRec.count (r : SrecRec) : Nat := srecAddrBytes r.type + r.data.length + 1

/-- big-endian bytes of `n`, `k` of them -/
def beBytes : Nat → Nat → List Nat
  | 0, _ => []
  | k + 1, n => beBytes k (n / 256) ++ [n % 256]

def SrecRec.bytes (r : SrecRec) : List Nat :=
  r.count :: (beBytes (srecAddrBytes r.type) r.address ++ r.data)

def SrecRec.cksum (r : SrecRec) : Nat := srecCksum r.bytes

/-- `SRECline.pack` with checksum byte `ck` -/
def srecPrint (r : SrecRec) (ck : Nat) : List Nat :=
  83 :: (48 + r.type) :: (hexDigits 2 r.count ++ (hexDigits (2 * srecAddrBytes r.type) r.address ++
    (hexlifyUpper r.data ++ hexDigits 2 ck)))

def SrecRec.toLine (r : SrecRec) : SrecLine :=
  { type := r.type, count := r.count, address := r.address, data := r.data, cksum := r.cksum }

def SrecRec.WF (r : SrecRec) : Prop :=
  r.type < 10 ∧ r.type ≠ 4 ∧ r.count < 256 ∧ r.address < 256 ^ srecAddrBytes r.type ∧
  (∀ b ∈ r.data, b < 256) ∧ ((r.type = 5 ∨ r.type = 6) → r.data = [])

end Amoco.Fmt
