/-
  C03 — Instruction specifications mean what the format language says.
  Property theorems only (helper lemmas live in Amoco/Proofs).
-/
import Amoco.Model.Spec
import Amoco.Proofs.Spec

namespace Amoco.Spec.Props

open Amoco Amoco.Spec

/-- **Central theorem.**  For every format the grammar admits (`GrammarOK`: the decidable
    "the documentation judges this format" predicate — any length, both directions, every
    directive kind, overlapping `=` fields, variable tails, names already bound in
    `iattr`/`fargs`), `buildspec` **as coded** (list reversal for `<`, running index `i`, `count`,
    the `=` overlap arithmetic, `(*)` sizing, the `redefined`/`out of bound`/`mismatch` tests)
    succeeds and its fix, mask and extractors are the documented meaning (`refCells`, `refFields`:
    written-order positions, direction aware).  Proof: `Amoco.Spec.buildspec_meaning_proof`
    (processing-order form of the reference + loop invariant `bloop_inv`). -/
theorem buildspec_meaning (a : Ast) (keysA keysF : List String)
    (hok : GrammarOK a keysA keysF = true) :
    ∃ s, buildspec a keysA keysF = .ok s ∧
      s.fixSize = bitSize a ∧
      s.fix = cellsFix (refCells a) ∧ s.mask = cellsMask (refCells a) ∧
      s.exts.map Ext.toRField = refFields a ∧
      s.size = a.size.getD 0 ∧ s.pfx = a.pfx ∧ s.xdata = a.xdata :=
  buildspec_meaning_proof a keysA keysF hok

-- non-vacuity: AVR-style `<` format with an overlapping `=` field (s re-reads the fixed bit
-- written just before it) — the grammar admits it, and this is what `buildspec` returns
example :
    (parse "16<[ 1001 000=s d(5) 1100 ]").map (fun a => (GrammarOK a, (buildspec a).toOption)) =
      some (true, some ({ size := 16, fixSize := 16, fix := 0x900c, mask := 0xfe0f, pfx := false,
                          xdata := false,
                          exts := [⟨false, "d", .int, 4, some 9, false⟩,
                                 ⟨false, "s", .int, 9, some 10, false⟩] } : Spec)) := by decide

-- non-vacuity: x86-style `>` variable-length format with a byte, fixed bits, a field and a tail
example :
    (parse "*>[ {0f} 1000 cc(4) ~data(*) ]").map (fun a => (GrammarOK a, (buildspec a).toOption)) =
      some (true, some ({ size := 0, fixSize := 16, fix := 0x010f, mask := 0x0fff, pfx := false,
                          xdata := false,
                          exts := [⟨false, "cc", .int, 12, some 16, true⟩,
                                 ⟨false, "data", .bits, 16, none, true⟩] } : Spec)) := by decide

-- non-vacuity with names already bound: `.cond` goes to `iattr`, `cond` to `fargs`; same symbol in
-- the two dictionaries is admitted, a symbol already in the *same* dictionary is not
example :
    (parse "8>[ .cond(4) cond(4) ]").map
        (fun a => (GrammarOK a ["x"] ["y"], GrammarOK a ["cond"] [], (buildspec a ["x"] ["y"]).toOption.map (·.exts.length))) =
      some (true, false, some 2) := by decide

/-- A spec accepts a byte string iff it is long enough and every fixed bit of the instruction word
    (fetched with the given endianness) has the value the format fixes. -/
theorem decode_accepts_iff (s : Spec) (istr : List Nat) (be : Bool) :
    (decode s istr be).isSome ↔
      (s.fixSize / 8 ≤ istr.length ∧ (word s istr be) &&& s.mask = s.fix) := by
  unfold decode
  by_cases h1 : istr.length < s.fixSize / 8
  · simp [h1]; omega
  · by_cases h2 : (word s istr be) &&& s.mask = s.fix
    · simp [h1, h2]; omega
    · simp [h1, h2]

/-- bit-level reading of acceptance: every bit selected by the mask agrees with `fix`. -/
theorem decode_accepts_bits (s : Spec) (istr : List Nat) (be : Bool)
    (h : (decode s istr be).isSome) (k : Nat) (hk : s.mask.testBit k = true) :
    (word s istr be).testBit k = s.fix.testBit k := by
  have := ((decode_accepts_iff s istr be).mp h).2
  rw [← this, Nat.testBit_and, hk, Bool.and_true]

/-- An accepted word delivers, for every extractor, exactly the bits `[sta, sto)` of the
    instruction word (extended by the tail for variable-length specs). -/
theorem decode_fields (s : Spec) (istr : List Nat) (be : Bool) (ds : List Delivered)
    (h : decode s istr be = some ds) :
    ds = s.exts.map (deliver (fullBits s istr be)) := by
  unfold decode at h
  split at h
  · cases h
  · split at h
    · cases h
    · exact (Option.some.inj h).symm

/-- the integer delivered for a field is the bits of the word at the field's positions. -/
theorem sliceBits_testBit (v n p : Nat) (q : Option Nat) (j : Nat) :
    (sliceBits v n p q).1.testBit j =
      (decide (j < (sliceBits v n p q).2) && v.testBit (min p (min (q.getD n) n) + j)) := by
  unfold sliceBits
  simp only [testBit_bitsAt]

/-- Fixed-length specs read only their own bytes: trailing bytes never change the outcome. -/
theorem decode_reads_prefix (s : Spec) (b t : List Nat) (be : Bool)
    (hfix : s.size ≠ 0) (hlen : s.fixSize / 8 ≤ b.length) :
    decode s (b ++ t) be = decode s b be := by
  have hw : word s (b ++ t) be = word s b be := by
    unfold word
    rw [List.take_append_of_le_length hlen]
  have hf : fullBits s (b ++ t) be = fullBits s b be := by
    unfold fullBits
    simp [hfix, hw]
  unfold decode
  rw [hw, hf]
  have h1 : ¬ (b ++ t).length < s.fixSize / 8 := by
    rw [List.length_append]; omega
  have h2 : ¬ b.length < s.fixSize / 8 := by omega
  rw [if_neg h1, if_neg h2]

/-- `/r` and `/digit` macro of the x86 spec files, for every digit. -/
theorem modrm_macro_r :
    expandIa32 "*>[ {0f}{b6} /r ]" = some "*>[ {0f}{b6} RM(3) REG(3) Mod(2) ~data(*) ]" := by decide

theorem modrm_macro_digit :
    ∀ d : Fin 8, expandIa32 (String.ofList ("*>[ {ff} /".toList ++ [Char.ofNat (48 + d.val)] ++ " ]".toList))
      = some (String.ofList ("*>[ {ff} RM(3) ".toList ++ bits3 d.val ++ " Mod(2) ~data(*) ]".toList)) := by
  decide

-- non-vacuity: a concrete spec, word and tail meeting the hypotheses
example : (decode { size := 8, fixSize := 8, fix := 0x90, mask := 0xff, pfx := false, xdata := false, exts := [] }
            [0x90, 1, 2] false).isSome = true := by decide

end Amoco.Spec.Props
