/-
  C11 — Decoding has no memory of earlier calls.
  `call true` is the repaired `disassembler.__call__` (pending instruction reset on every exit,
  including exceptions); `call false` is the original code, kept to exhibit the defect.
-/
import Amoco.Proofs.Dis

namespace Amoco.Dis.Props11

open Amoco Amoco.Dis

/-- After any call — returning an instruction, returning `None`, or raising any exception at any
    depth of the prefix recursion — no pending instruction is left. -/
theorem pending_none_after_call {I} (cands : List Nat → List SpecK)
    (dec : Option I → List Nat → SpecK → Out I) (xd : I → Option I)
    (fuel : Nat) (st : Option I) (bytes : List Nat) :
    (call true cands dec xd fuel st bytes).1 = none :=
  call_pending_none cands dec xd fuel st bytes

/-- a history of calls on one disassembler object: the results, threading the pending state. -/
def runHistory {I} (r : Bool) (cands : List Nat → List SpecK)
    (dec : Option I → List Nat → SpecK → Out I) (xd : I → Option I) :
    Option I → List (List Nat) → List (Res I)
  | _, [] => []
  | st, b :: rest =>
    let (st', res) := call r cands dec xd (b.length + 2) st b
    res :: runHistory r cands dec xd st' rest

/-- **History independence**: in any history of calls (valid, invalid, truncated-after-prefix,
    exception-raising inputs in any order) every call returns what a fresh disassembler returns. -/
theorem call_history_independent {I} (cands : List Nat → List SpecK)
    (dec : Option I → List Nat → SpecK → Out I) (xd : I → Option I) :
    ∀ (hist : List (List Nat)) (st : Option I), st = none →
      runHistory true cands dec xd st hist
        = hist.map (fun b => (call true cands dec xd (b.length + 2) none b).2)
  | [], _, _ => rfl
  | b :: rest, st, hst => by
    subst hst
    simp only [runHistory, List.map_cons]
    congr 1
    exact call_history_independent cands dec xd rest _ (call_pending_none cands dec xd _ _ _)

/-- invariant used for `no_prefix_leak`: the pending bytes followed by the remaining input are the
    original input of this call. -/
theorem call_bytes_prefix (cands : List Nat → List SpecK)
    (accepts : SpecK → List Nat → Bool) (hook : SpecK → List Nat → Option Ins → HookOut)
    (xd : Ins → Option Ins) (hxd : ∀ i i', xd i = some i' → i'.bytes = i.bytes) (orig : List Nat) :
    ∀ (fuel : Nat) (st : Option Ins) (bytes : List Nat) (i : Ins),
      pendBytes st ++ bytes = orig →
      (call true cands (decBytes accepts hook) xd fuel st bytes).2 = .instr i →
      i.bytes <+: orig
  | 0, _, _, _, _, h => by simp [call] at h
  | fuel+1, st, bytes, i, hinv, h => by
    simp only [call] at h
    split at h
    · simp at h
    · simp at h
    · simp at h
    · rename_i s i0 hfh
      obtain ⟨n, hn, hge, hpf, hb⟩ :=
        decBytes_ok accepts hook st bytes s i0 (firstHit_some _ _ _ _ hfh).1
      have hpre : i0.bytes <+: orig := by
        rw [hb, ← hinv]
        exact (List.prefix_append_right_inj _).mpr (List.take_prefix _ _)
      split at h
      · rename_i hp
        apply call_bytes_prefix cands accepts hook xd hxd orig fuel (some i0) (bytes.drop (s.size / 8)) i _ h
        simp only [pendBytes, hb, hpf hp]
        rw [List.append_assoc, List.take_append_drop]
        exact hinv
      · split at h
        · rename_i i' hx
          simp only [Res.instr.injEq] at h
          subst h
          rw [hxd _ _ hx]; exact hpre
        · simp at h
      · simp only [Res.instr.injEq] at h
        subst h
        exact hpre

/-- **No prefix leak**: the bytes of a returned instruction are a prefix of *this* call's input
    (nothing seen by an earlier call can appear in it, because every call starts with no pending
    instruction — `pending_none_after_call`). -/
theorem no_prefix_leak (cands : List Nat → List SpecK)
    (accepts : SpecK → List Nat → Bool) (hook : SpecK → List Nat → Option Ins → HookOut)
    (xd : Ins → Option Ins) (hxd : ∀ i i', xd i = some i' → i'.bytes = i.bytes)
    (fuel : Nat) (bytes : List Nat) (i : Ins)
    (h : (call true cands (decBytes accepts hook) xd fuel none bytes).2 = .instr i) :
    i.bytes <+: bytes :=
  call_bytes_prefix cands accepts hook xd hxd bytes fuel none bytes i (by simp [pendBytes]) h

/-- The original (unrepaired) code does leak: a hook that raises after a prefix was accepted leaves
    the prefix pending, and the next call returns an instruction that starts with it. -/
def leakSpecs : List SpecK := [⟨0, 8, 0xff, 0x66, .prefix⟩, ⟨1, 8, 0xff, 0x90, .no⟩, ⟨2, 8, 0xff, 0x0f, .no⟩]
def leakHook (s : SpecK) (_ : List Nat) (_ : Option Ins) : HookOut :=
  if s.id == 2 then .raise 7 else .ok s.id 0
def leakAcc (s : SpecK) (b : List Nat) : Bool := (b.headD 0) &&& s.mask == s.fix

theorem original_code_leaks :
    runHistory false (fun _ => leakSpecs) (decBytes leakAcc leakHook) some none [[0x66, 0x0f], [0x90]]
      = [.raised 7, .instr ⟨[0x66, 0x90], 1⟩] := by decide

theorem repaired_code_does_not :
    runHistory true (fun _ => leakSpecs) (decBytes leakAcc leakHook) some none [[0x66, 0x0f], [0x90]]
      = [.raised 7, .instr ⟨[0x90], 1⟩] := by decide

end Amoco.Dis.Props11
