import Amoco.Model.Eval
namespace Amoco.C12
theorem placeholder : True := trivial
end Amoco.C12
