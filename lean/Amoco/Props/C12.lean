/-
  C12 — Every expression has the width its construction dictates.
  Property theorems only (helper lemmas and the induction over the whole rewrite system live in
  Amoco/Proofs/Expr{Comp,Width,EvalWidth}.lean).  All statements are about the executable model
  Amoco.Model.{Expr,Simplify,Eval} of `cas/expressions.py`, for every fuel, complexity oracle and option.
-/
import Amoco.Proofs.ExprEvalWidth

namespace Amoco.C12

open Amoco Amoco.Expr

variable (cfg : Cfg)

/-- Construction with the operator API (`l <o> r` in Python): the result is well-formed and has the
    operand width for arithmetic, logic and shifts, 1 for comparisons, double for the widening multiply. -/
theorem width_construct (fuel : Nat) (o : Op) (l r e : Expr) (hl : WF l) (hr : WF r)
    (hc : o.type = 4 → l.size = r.size) (h : api cfg fuel o l r = .ok e) :
    WF e ∧ e.size = (if o.type = 4 then 1 else if o = Op.mul2 then 2 * l.size else l.size) :=
  (widthIH_all cfg fuel).api o l r hl hr hc e h

/-- `oper(o, l, r)` (used by `ltu geu ror rol` and internally by every operator) -/
theorem width_oper (fuel : Nat) (o : Op) (l r e : Expr) (hl : WF l) (hr : WF r)
    (hc : o.type = 4 → l.size = r.size) (h : oper cfg fuel o l r = .ok e) :
    WF e ∧ e.size = (if o.type = 4 then 1 else if o = Op.mul2 then 2 * l.size else l.size) :=
  (widthIH_all cfg fuel).oper o l r hl hr hc e h

/-- unary operators keep the width -/
theorem width_neg (fuel : Nat) (x e : Expr) (hx : WF x) (h : apiNeg cfg fuel x = .ok e) : WF e ∧ e.size = x.size :=
  (widthIH_all cfg fuel).apiNeg x hx e h

theorem width_not (fuel : Nat) (x e : Expr) (hx : WF x) (h : apiNot cfg fuel x = .ok e) : WF e ∧ e.size = x.size :=
  (widthIH_all cfg fuel).apiNot x hx e h

/-- `simplify` with every option (`bitslice`, `widening`) returns a well-formed expression of the same width -/
theorem width_simplify (fuel : Nat) (opts : Opts) (e r : Expr) (he : WF e) (h : simplify cfg fuel opts e = .ok r) :
    WF r ∧ r.size = e.size :=
  (widthIH_all cfg fuel).simplify opts e he r h

/-- `eval` / substitution under any environment that binds registers to well-formed expressions of the
    register's width — constants (concrete), some registers only (partial), arbitrary expressions (symbolic) -/
theorem width_eval (fuel : Nat) (env : Env) (henv : EnvOK env) (e r : Expr) (he : WF e)
    (h : eval cfg fuel env e = .ok r) : WF r ∧ r.size = e.size :=
  eval_width cfg env henv fuel e he r h

/-- slicing `x[a:b]` returns `b - a` bits -/
theorem width_slice (fuel : Nat) (x r : Expr) (a b : Int) (hx : WF x) (h : getitem cfg fuel x a b = .ok r) :
    WF r ∧ r.size = (b - a).toNat ∧ 0 ≤ a ∧ a < b ∧ b ≤ x.size := by
  have h1 := (widthIH_all cfg fuel).getitem x a b hx r h
  refine ⟨h1.1, h1.2, ?_⟩
  cases fuel with
  | zero => rw [getitem.eq_def] at h; cases h
  | succ n =>
    rw [getitem.eq_def] at h; dsimp only at h
    cases hc : checkSlice x.size a b with
    | error e => rw [hc] at h; cases h
    | ok u => exact checkSlice_ok hc

/-- `composer(parts)` has the sum of the widths of its parts -/
theorem width_compose (fuel : Nat) (parts : List Expr) (r : Expr) (hp : ∀ x ∈ parts, WF x)
    (h : composer cfg fuel parts = .ok r) : WF r ∧ r.size = (parts.map Expr.size).sum := by
  have := (widthIH_all cfg fuel).composer parts hp r h
  refine ⟨this.1, ?_⟩
  rw [this.2]
  clear this h hp
  suffices ∀ k, parts.foldl (fun a x => a + x.size) k = k + (parts.map Expr.size).sum by simpa using this 0
  induction parts with
  | nil => intro k; simp
  | cons x tl ih => intro k; simp only [List.foldl_cons, List.map_cons, List.sum_cons]; rw [ih]; omega

/-- `zeroextend` / `signextend` return the target width (or the operand's, if that is larger) -/
theorem width_extend (fuel : Nat) (sign : Bool) (x r : Expr) (size : Nat) (hx : WF x)
    (h : extend cfg fuel sign x size = .ok r) : WF r ∧ r.size = max size x.size := by
  unfold extend at h
  split at h
  · rename_i v s f
    split at h <;> (cases h; exact ⟨WF_mkCst _ _ (Nat.lt_of_lt_of_le hx.1 (Nat.le_max_right _ _)), rfl⟩)
  · exact (widthIH_all cfg fuel).extendExp sign x size hx r h

/-- a conditional has the width of its branches -/
theorem width_tst (t l r e : Expr) (ht : WF t) (hl : WF l) (hr : WF r) (ht1 : t.size = 1) (h : mkTst t l r = .ok e) :
    WF e ∧ e.size = l.size ∧ l.size = r.size := by
  unfold mkTst at h
  split at h
  · cases h
  · rename_i hne
    simp only [bne_iff_ne, ne_eq, Decidable.not_not] at hne
    cases h
    exact ⟨by simp only [WF]; exact ⟨WF_size_pos l hl, ht, hl, hr, ht1, trivial, hne.symm⟩, rfl, hne⟩

/-! ### compositions tile their width -/

/-- `CompWF` of everything well-formed: the parts of a composition tile `[0, size)` exactly — no gap, no
    overlap, every part as wide as its key (so by the `width_*` theorems every comp returned by construction,
    `simplify`, `eval`, slicing, `composer`, `extend` is tiled, and so is every comp nested inside). -/
theorem compWF_of_WF (s : Nat) (f : Bool) (ps : List Part) (h : WF (.comp s f ps)) :
    0 < s ∧ Tiles s ps ∧ ∀ p ∈ ps, WF p.2.2 := by
  simp only [WF] at h
  exact ⟨h.1, h.2.1, (WFParts_iff ps).mp h.2.2⟩

/-- `c[a:b] = v` on a tiled comp (`comp.__setitem__` with `cut`, flattening a comp value): still tiled -/
theorem compWF_setitem (fuel : Nat) (n : Nat) (sf : Bool) (ps : List Part) (a b : Int) (v r : Expr)
    (hc : WF (.comp n sf ps)) (hv : WF v) (h : setitem cfg fuel (.comp n sf ps) a b v = .ok r) : WF r ∧ r.size = n := by
  obtain ⟨hn, ht, hw⟩ := compWF_of_WF n sf ps hc
  obtain ⟨ps', rfl, hd', hw', _, _, _, hc'⟩ := (widthIH_all cfg fuel).setitem n sf ps a b v r ht.disj hw hv h
  refine ⟨?_, rfl⟩
  simp only [WF]
  refine ⟨hn, tiles_of_disj_cnt hd' ?_, (WFParts_iff _).mpr hw'⟩
  intro x hx
  rw [hc' x]
  split
  · rfl
  · exact ht.2 x hx

/-- `comp.restruct()` keeps a tiled part table tiled -/
theorem compWF_restruct (n : Nat) (ps : List Part) (ht : Tiles n ps) (hw : ∀ p ∈ ps, WF p.2.2) :
    Tiles n (restruct ps) ∧ ∀ p ∈ restruct ps, WF p.2.2 := by
  obtain ⟨r1, r2, r3⟩ := restruct_spec n ps ht.disj hw
  exact ⟨tiles_of_disj_cnt r1 (fun x hx => by rw [r3 x]; exact ht.2 x hx), r2⟩

/-- soundness of the executable checker run on every comp dumped from the real code (K-tie) -/
theorem compWF_sound (n : Nat) (ps : List Part) (h : compWF n ps = true) : 0 < n ∧ Tiles n ps :=
  Expr.compWF_sound n ps h

/-! ### non-vacuity: concrete trees meeting the hypotheses -/

def cfg0 : Cfg := { cplx := fun _ => false, vecCplx := fun _ => false }

/-- `(a & 0xff00)` on 32 bits: well-formed, and `simplify` returns the 32-bit composition of the mask rule -/
example : WF (.op .and (.reg "a" 32 false) (.cst 0xff00 32 false) 32 false 2) := by
  simp [WF, Op.type]

example : (match simplify cfg0 20 {} (.op .and (.reg "a" 32 false) (.cst 0xff00 32 false) 32 false 2) with
    | .ok r => r.size == 32 && r.isCmp
    | .error _ => false) = true := by
  decide +kernel

example : compWF 32 [(8, 16, .slc (.reg "a" 32 false) 8 8 false none 1), (0, 8, .cst 0 8 false), (16, 32, .cst 0 16 false)] = true := by
  decide

/-- memory expressions: `mem(p, 32)[4:12]` is an 8-bit slice of the two covering bytes, `mem(p+4, 32, big-endian)[8:24]`
    the 16-bit `mem` of its two middle bytes (`width_slice` covers every well-formed `mem` leaf) -/
def exMem : Expr := .mem (.ptr (.reg "p" 32 false) none 0 32 false) 32 false false []
def exMemBE : Expr := .mem (.ptr (.reg "p" 64 false) none 4 64 false) 32 false true []

example : WF exMem ∧ WF exMemBE := by simp [exMem, exMemBE, WF, WFOpt, WFMods]

example : (match getitem cfg0 5 exMem 4 12 with
    | .ok (.slc (.mem _ 16 _ false _) 4 8 _ _ _) => true | _ => false) = true := by decide +kernel
example : (match getitem cfg0 5 exMemBE 8 24 with
    | .ok (.mem (.ptr _ _ 5 _ _) 16 _ true _) => true | _ => false) = true := by decide +kernel

end Amoco.C12
