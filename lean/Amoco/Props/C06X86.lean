/-
  C06, x86 half — the bodies of the x86/x64 integer ALU instructions
  (ADD SUB CMP AND OR XOR TEST INC DEC NEG NOT ADC SBB) of amoco/arch/x64/asm.py and amoco/arch/x86/asm.py.
  Property theorems only (helper lemmas in Amoco/Proofs/X86Sem.lean and Amoco/Proofs/Rv.lean).

  `x86_expected_correct`      for both modes, every mnemonic in scope, every operand width w ≥ 1, all operand
                              values and all incoming flags: the hand-written body term `expected` runs, advances
                              the instruction pointer once, writes exactly the destination value the SDM defines
                              (nothing for CMP/TEST; through `_r32_zx64` in 64-bit mode) and leaves every status
                              flag in a state the SDM allows (set per result / not affected / undefined).
  `x86_generated_eq_expected` the table regenerated from amoco's source on every run (Generated/X86Sem.lean)
                              is that `expected` table (kernel `decide`).
  `x86_generated_correct`     their composition: what the translator read in the source means the SDM semantics.
  `ref_*_core`                the reference CF/OF of ADD/SUB are core Lean's `uaddOverflow`, `saddOverflow`,
                              `usubOverflow`, `ssubOverflow`.
-/
import Amoco.Proofs.X86Sem
import Generated.X86Sem

namespace Amoco.X86Sem.Props
open Amoco.X86Sem Amoco.Flags

/-- **Main x86 theorem.** -/
theorem x86_expected_correct {k : Nat} (ar : Arch) (m : Mn) (a b : BitVec (k + 1)) (f : Fl6) :
    ∃ o, run (expected ar m) a b f.cf = some o ∧ o.rip = 1 ∧ conforms o f (ref m a b f.cf) = true
      ∧ o.dst.isSome = m.writes ∧ o.zx = (m.writes && ar == .x64) := by
  cases m <;> refine ⟨_, rfl, rfl, ?_, rfl, ?_⟩ <;>
  simp [conforms, Eff.ok, ref, refAdd, refSub, refLogic, sovf, awc_res_eq, swb_res_eq, awc_carry, awc_overflow,
    swb_carry, swb_overflow, halfcarry_eq, halfborrow_eq, par8_eq, Out.setFlag, Mn.writes]

/-- the table translated from the current source is the expected one, for both modes and all mnemonics -/
theorem x86_generated_eq_expected (ar : Arch) (m : Mn) : Generated.X86.generated ar m = some (expected ar m) := by
  cases ar <;> cases m <;> decide

/-- what the translator read in asm.py means the SDM semantics (composition of the two theorems) -/
theorem x86_generated_correct {k : Nat} (ar : Arch) (m : Mn) (a b : BitVec (k + 1)) (f : Fl6) :
    ∃ s o, Generated.X86.generated ar m = some s ∧ run s a b f.cf = some o ∧ o.rip = 1 ∧
      conforms o f (ref m a b f.cf) = true ∧ o.dst.isSome = m.writes := by
  obtain ⟨o, h1, h2, h3, h4, _⟩ := x86_expected_correct ar m a b f
  exact ⟨_, o, x86_generated_eq_expected ar m, h1, h2, h3, h4⟩

/-- the reference flags are not a copy of amoco's formulas: CF/OF of ADD and SUB are core Lean's predicates -/
theorem ref_add_cf_core {w} (a b : BitVec w) : (ref .ADD a b false).cf = .set (BitVec.uaddOverflow a b) := refAdd_cf_core a b
theorem ref_add_of_core {w} (a b : BitVec w) : (ref .ADD a b false).of = .set (BitVec.saddOverflow a b) := refAdd_of_core a b
theorem ref_sub_cf_core {w} (a b : BitVec w) : (ref .SUB a b false).cf = .set (BitVec.usubOverflow a b) := refSub_cf_core a b
theorem ref_sub_of_core {w} (a b : BitVec w) : (ref .SUB a b false).of = .set (BitVec.ssubOverflow a b) := refSub_of_core a b

/-! ### non-vacuity -/

def fl0 : Fl6 := ⟨false, false, false, false, false, false⟩
def fl1 : Fl6 := ⟨true, true, true, true, true, true⟩

/-- SUB 0,1 (8 bits): 0xff, borrow, no signed overflow, AF, SF, PF (0xff has eight one bits) -/
example : run (expected .x64 .SUB) 0x00#8 0x01#8 false =
    some { rip := 1, dst := some 0xff#8, zx := true, cf := some true, pf := some true, af := some true,
           zf := some false, sf := some true, of := some false } := by decide
/-- ADC 0x7f,0 with carry in: signed overflow only -/
example : run (expected .x86 .ADC) 0x7f#8 0x00#8 true =
    some { rip := 1, dst := some 0x80#8, zx := false, cf := some false, pf := some false, af := some true,
           zf := some false, sf := some true, of := some true } := by decide
/-- INC does not store CF, CMP does not store the destination, NOT stores no flag -/
example : (run (expected .x64 .INC) 0xff#8 0#8 true).map (·.cf) = some none := by decide
example : (run (expected .x64 .CMP) 0x12#8 0x34#8 true).map (·.dst) = some none := by decide
example : run (expected .x64 .NOT) 0x0f#8 0#8 true = some { rip := 1, dst := some 0xf0#8, zx := true } := by decide

/-- `conforms` discriminates: each of the seeded variants of a body fails on some input.
    SUB with cf/of swapped, INC also writing cf, NEG with cf = (src == 0), AND not clearing of,
    SBB with the carry inverted (as bit1 when cf = 0), CMP with the operands reversed. -/
def subSwapped : Sem :=
  let x := E.swb .a .b .bit0
  [.advance, .setf .pf (.par8 x), .setf .af (.hb .a .b .bit0), .setf .zf (.eqz x), .setf .sf (.ltz x),
   .setf .of (.swbC .a .b .bit0), .setf .cf (.swbO .a .b .bit0), .setdst true x]
example : (run subSwapped 0x00#8 0x01#8 false).map (fun o => conforms o fl0 (ref .SUB 0x00#8 0x01#8 false)) = some false := by decide

def incWritesCf : Sem := expected .x64 .INC ++ [.setf .cf (.awcC .a (.cst 1) .bit0)]
example : (run incWritesCf 0x00#8 0#8 true).map (fun o => conforms o fl1 (ref .INC 0x00#8 0#8 true)) = some false := by decide

def negCfEq : Sem := expected .x64 .NEG ++ [.setf .cf (.eqz .a)]
example : (run negCfEq 0x01#8 0#8 false).map (fun o => conforms o fl0 (ref .NEG 0x01#8 0#8 false)) = some false := by decide

def andKeepsOf : Sem :=
  let x := E.and .a (.sx .b)
  [.advance, .setf .zf (.eqz x), .setf .sf (.msb x), .setf .cf .bit0, .setf .pf (.par8 x), .setdst true x]
example : (run andKeepsOf 0x01#8 0x01#8 false).map (fun o => conforms o fl1 (ref .AND 0x01#8 0x01#8 true)) = some false := by decide

def cmpReversed : Sem :=
  let x := E.swb .b .a .bit0
  [.advance, .setf .af (.hb .b .a .bit0), .setf .zf (.eqz x), .setf .sf (.ltz x),
   .setf .cf (.swbC .b .a .bit0), .setf .of (.swbO .b .a .bit0), .setf .pf (.par8 x)]
example : (run cmpReversed 0x00#8 0x01#8 false).map (fun o => conforms o fl0 (ref .CMP 0x00#8 0x01#8 false)) = some false := by decide

/-- a body that tests `x < 0` on a word nothing declared signed, or contains an untranslated statement,
    has no meaning in the model (the driver answers "unmodelled") -/
example : run [.advance, .setf .sf (.ltz (.and .a .b))] 0x80#8 0x80#8 false = none := by decide
example : run [.advance, .unsupported "x"] 0x80#8 0x80#8 false = none := by decide

end Amoco.X86Sem.Props
