/-
  C07 — x86/x64 instruction boundaries agree with reference disassemblers.

  The property itself is agreement with two external programs (objdump, llvm-mc) and cannot be a
  theorem; what is proved here is about the hub of the comparison, the length model `x86len`
  (Amoco/Model/X86Len.lean, written from the SDM):

  * `x86len_prefix_free` / `x86dec_prefix_free` — the length (and branch displacement) of the first
    instruction is between 1 and 15, lies inside the string, and is determined by exactly the bytes
    consumed: any continuation gives the same answer.  Hence `sweep_next_boundary`: two byte strings
    that agree up to the end of the instruction at offset `k` have the same next boundary — a sweep that
    agrees with the reference at one boundary agrees at the next.
  * `modrm_*` — the number of SIB / displacement bytes for every Mod / RM / SIB-base / address-size
    combination (SDM tables 2-1, 2-2, 2-3), `modrmTail_cases` (the rows are exhaustive) and
    `modrm_len` / `modrm_len_67` (what the decoder consumes for a ModRM opcode is that number).
  * `iz_len_66`, `iz_len_66_rexw` — operand-size dependent immediates: 66 selects 2 bytes, REX.W wins.
  * `rel8_decode`, `rel32_decode`, `rel16_decode_m32`, `jcc_rel32_decode` — a relative jump / call
    whose displacement field encodes `d` is decoded with displacement exactly `d` and the right length.

  Helper lemmas live in Amoco/Proofs/X86Len.lean.  The model is tied to amoco and to the reference
  disassemblers by harness/c07.py.
-/
import Amoco.Model.X86Len
import Amoco.Proofs.X86Len

namespace Amoco.X86Len.Props

open Amoco.X86Len Rd

/-! ## boundaries depend only on the bytes consumed -/

theorem x86dec_prefix_free (m : Mode) (b : List Nat) (n : Nat) (d : Option Int)
    (h : x86dec m b = some (n, d)) :
    1 ≤ n ∧ n ≤ 15 ∧ n ≤ b.length ∧ ∀ t, x86dec m (b.take n ++ t) = some (n, d) := by
  unfold x86dec at h
  cases hr : (insn m).run b with
  | none => simp [hr] at h
  | some r =>
    obtain ⟨d', n'⟩ := r
    simp only [hr] at h
    by_cases h15 : n' ≤ 15
    · simp only [h15, if_true, Option.some.injEq, Prod.mk.injEq] at h
      obtain ⟨rfl, rfl⟩ := h
      obtain ⟨hle, hext⟩ := Rd.run_prefix (insn m) b d' n' hr
      obtain ⟨k, hk⟩ : ∃ k, insn m = .read k := ⟨_, rfl⟩
      refine ⟨?_, h15, hle, ?_⟩
      · rw [hk] at hr; exact Rd.run_read_pos k b d' n' hr
      · intro t; unfold x86dec; rw [hext t]; simp [h15]
    · simp [h15] at h

theorem x86len_prefix_free (m : Mode) (b : List Nat) (n : Nat) (h : x86len m b = some n) :
    1 ≤ n ∧ n ≤ 15 ∧ n ≤ b.length ∧ ∀ t, x86len m (b.take n ++ t) = some n := by
  unfold x86len at h
  cases hd : x86dec m b with
  | none => simp [hd] at h
  | some r =>
    obtain ⟨n', d⟩ := r
    simp only [hd, Option.map_some, Option.some.injEq] at h
    subst h
    obtain ⟨h1, h2, h3, h4⟩ := x86dec_prefix_free m b n' d hd
    refine ⟨h1, h2, h3, ?_⟩
    intro t
    unfold x86len
    rw [h4 t]; rfl

/-- the displacement of a relative branch is determined by the consumed bytes as well -/
theorem x86rel_prefix_free (m : Mode) (b : List Nat) (n : Nat) (h : x86len m b = some n) (t : List Nat) :
    x86rel m (b.take n ++ t) = x86rel m b := by
  unfold x86len at h
  cases hd : x86dec m b with
  | none => simp [hd] at h
  | some r =>
    obtain ⟨n', d⟩ := r
    simp only [hd, Option.map_some, Option.some.injEq] at h
    subst h
    have := (x86dec_prefix_free m b n' d hd).2.2.2 t
    unfold x86rel
    rw [this, hd]

/-- no proper prefix of an instruction is an instruction, and no instruction extends another -/
theorem x86len_unique (m : Mode) (b t : List Nat) (n k : Nat)
    (h1 : x86len m b = some n) (h2 : x86len m (b.take n ++ t) = some k) : k = n := by
  have := (x86len_prefix_free m b n h1).2.2.2 t
  rw [this] at h2
  exact (Option.some.inj h2).symm

/-- a sweep that is at offset `k` of two strings agreeing on the first `k + n` bytes finds the same
    instruction length `n` there: the next boundary is the same. -/
theorem sweep_next_boundary (m : Mode) (b b' : List Nat) (k n : Nat)
    (h : x86len m (b.drop k) = some n) (heq : b'.take (k + n) = b.take (k + n)) :
    x86len m (b'.drop k) = some n := by
  obtain ⟨_, _, hlen, hext⟩ := x86len_prefix_free m (b.drop k) n h
  have e1 : (b'.drop k).take n = (b.drop k).take n := by
    rw [List.take_drop, List.take_drop, Nat.add_comm k n] at *
    rw [heq]
  have e2 : b'.drop k = (b.drop k).take n ++ (b'.drop k).drop n := by
    rw [← e1, List.take_append_drop]
  rw [e2]
  exact hext _

/-! ## ModRM / SIB / displacement: every row of SDM tables 2-1, 2-2, 2-3 -/

section modrm
variable (x s : Nat)

/-- register operand: nothing follows, whatever the address size -/
theorem modrm_reg (a16 : Bool) (h : (x / 64) % 4 = 3) : modrmTail a16 x s = 0 := by
  simp [modrmTail, h]

/-- 16-bit addressing, table 2-1 -/
theorem modrm16_mod0 (h : (x / 64) % 4 = 0) (hrm : x % 8 ≠ 6) : modrmTail true x s = 0 := by
  simp [modrmTail, disp16, h, hrm]
theorem modrm16_disp16 (h : (x / 64) % 4 = 0) (hrm : x % 8 = 6) : modrmTail true x s = 2 := by
  simp [modrmTail, disp16, h, hrm]
theorem modrm16_mod1 (h : (x / 64) % 4 = 1) : modrmTail true x s = 1 := by
  simp [modrmTail, disp16, h]
theorem modrm16_mod2 (h : (x / 64) % 4 = 2) : modrmTail true x s = 2 := by
  simp [modrmTail, disp16, h]

/-- 32/64-bit addressing without SIB, table 2-2 -/
theorem modrm32_mod0 (h : (x / 64) % 4 = 0) (h4 : x % 8 ≠ 4) (h5 : x % 8 ≠ 5) :
    modrmTail false x s = 0 := by
  simp [modrmTail, disp32, h, h4, h5]
theorem modrm32_disp32 (h : (x / 64) % 4 = 0) (h5 : x % 8 = 5) : modrmTail false x s = 4 := by
  simp [modrmTail, disp32, h, h5]
theorem modrm32_mod1 (h : (x / 64) % 4 = 1) (h4 : x % 8 ≠ 4) : modrmTail false x s = 1 := by
  simp [modrmTail, disp32, h, h4]
theorem modrm32_mod2 (h : (x / 64) % 4 = 2) (h4 : x % 8 ≠ 4) : modrmTail false x s = 4 := by
  simp [modrmTail, disp32, h, h4]

/-- 32/64-bit addressing with SIB (`rm = 4`), table 2-3 -/
theorem modrm32_sib_mod0 (h : (x / 64) % 4 = 0) (h4 : x % 8 = 4) (hb : s % 8 ≠ 5) :
    modrmTail false x s = 1 := by
  simp [modrmTail, disp32, h, h4, hb]
theorem modrm32_sib_nobase (h : (x / 64) % 4 = 0) (h4 : x % 8 = 4) (hb : s % 8 = 5) :
    modrmTail false x s = 5 := by
  simp [modrmTail, disp32, h, h4, hb]
theorem modrm32_sib_mod1 (h : (x / 64) % 4 = 1) (h4 : x % 8 = 4) : modrmTail false x s = 2 := by
  simp [modrmTail, disp32, h, h4]
theorem modrm32_sib_mod2 (h : (x / 64) % 4 = 2) (h4 : x % 8 = 4) : modrmTail false x s = 5 := by
  simp [modrmTail, disp32, h, h4]

/-- the rows above are exhaustive: for every ModRM byte, next byte and address size -/
theorem modrmTail_cases (a16 : Bool) :
    modrmTail a16 x s =
      (if (x / 64) % 4 = 3 then 0
       else if a16 then
         (if (x / 64) % 4 = 0 then (if x % 8 = 6 then 2 else 0) else if (x / 64) % 4 = 1 then 1 else 2)
       else
         (if x % 8 = 4 then 1 else 0) +
         (if (x / 64) % 4 = 0 then (if (if x % 8 = 4 then s % 8 else x % 8) = 5 then 4 else 0)
          else if (x / 64) % 4 = 1 then 1 else 4)) := by
  have hm : (x / 64) % 4 < 4 := Nat.mod_lt _ (by decide)
  by_cases h3 : (x / 64) % 4 = 3
  · simp [modrmTail, h3]
  · cases a16
    · by_cases h4 : x % 8 = 4
      · by_cases h0 : (x / 64) % 4 = 0
        · simp [modrmTail, disp32, h4, h0]
        · by_cases h1 : (x / 64) % 4 = 1
          · simp [modrmTail, disp32, h4, h1]
          · have h2 : (x / 64) % 4 = 2 := by omega
            simp [modrmTail, disp32, h4, h2]
      · by_cases h0 : (x / 64) % 4 = 0
        · simp [modrmTail, disp32, h4, h0]
        · by_cases h1 : (x / 64) % 4 = 1
          · simp [modrmTail, disp32, h4, h1]
          · have h2 : (x / 64) % 4 = 2 := by omega
            simp [modrmTail, disp32, h4, h2]
    · by_cases h0 : (x / 64) % 4 = 0
      · simp [modrmTail, disp16, h0]
      · by_cases h1 : (x / 64) % 4 = 1
        · simp [modrmTail, disp16, h1]
        · have h2 : (x / 64) % 4 = 2 := by omega
          simp [modrmTail, disp16, h2]

theorem modrmTail_le (a16 : Bool) : modrmTail a16 x s ≤ 5 := by
  rw [modrmTail_cases]
  repeat' split
  all_goals omega

end modrm

/-- reading a ModRM operand consumes the ModRM byte and exactly `modrmTail` further bytes -/
theorem rdModRM_run (a16 : Bool) (x : Nat) (rest : List Nat)
    (h : modrmTail a16 x (rest.headD 0) ≤ rest.length) :
    (rdModRM a16).run (x :: rest) = some (mkModRM x, 1 + modrmTail a16 x (rest.headD 0)) := by
  simp only [rdModRM, Rd.run_bind, run_byte, List.drop_succ_cons, List.drop_zero]
  unfold modrmTail at h ⊢
  simp only [mkModRM] at *
  by_cases h3 : (x / 64) % 4 = 3
  · simp [h3, Rd.run]
  · have h3' : ((x / 64 % 4 == 3) = false) := by simpa using h3
    simp only [h3', Bool.false_eq_true, if_false] at h ⊢
    cases a16
    · simp only [Bool.false_eq_true, if_false] at h ⊢
      by_cases h4 : x % 8 = 4
      · have h4' : (x % 8 == 4) = true := by simpa using h4
        simp only [h4', if_true] at h ⊢
        cases rest with
        | nil => simp at h
        | cons sb rest' =>
          simp only [List.headD_cons, List.length_cons] at h ⊢
          have hb : disp32 (x / 64 % 4) (sb % 8) ≤ rest'.length := by omega
          simp only [Rd.run_bind, run_byte, List.drop_succ_cons, List.drop_zero, run_bytes _ _ hb, Rd.run]
          simp <;> omega
      · have h4' : (x % 8 == 4) = false := by simpa using h4
        simp only [h4', Bool.false_eq_true, if_false] at h ⊢
        simp only [Rd.run_bind, run_bytes _ _ h, Rd.run]
        simp
    · simp only [if_true] at h ⊢
      simp only [Rd.run_bind, run_bytes _ _ h, Rd.run]
      simp

/-- an opcode of the one-byte map with a ModRM operand and no immediate, no prefixes:
    the instruction is opcode + ModRM + `modrmTail` bytes (32-bit addressing in 32-bit mode, 64-bit
    addressing in 64-bit mode). -/
theorem modrm_len (m : Mode) (op x : Nat) (rest : List Nat)
    (hop : plainOp m {} op = some opM)
    (h : modrmTail false x (rest.headD 0) ≤ rest.length) :
    x86len m (op :: x :: rest) = some (2 + modrmTail false x (rest.headD 0)) := by
  have hp := plainOp_notPfx m {} op opM hop
  have ha : addr16 m {} = false := by cases m <;> rfl
  have hb := modrmTail_le x (rest.headD 0) false
  unfold x86len x86dec
  rw [insn_eq, Rd.run_bind, prefixes_stop m 14 {} op _ hp]
  simp only [List.drop_succ_cons, List.drop_zero, afterPfx_plain m {} op opM hop]
  simp only [rdOp, opM, if_true, ha, Rd.run_bind, rdModRM_run false x rest h, rdImm, Rd.run]
  have : 1 + (1 + modrmTail false x (rest.headD 0) + 0) ≤ 15 := by omega
  simp only [this, if_true, Option.map_some]
  congr 1; omega

/-- the same with an address-size prefix: 16-bit addressing in 32-bit mode, 32-bit in 64-bit mode -/
theorem modrm_len_67 (m : Mode) (op x : Nat) (rest : List Nat)
    (hop : plainOp m { adsz := true } op = some opM)
    (h : modrmTail (m == .m32) x (rest.headD 0) ≤ rest.length) :
    x86len m (0x67 :: op :: x :: rest) = some (3 + modrmTail (m == .m32) x (rest.headD 0)) := by
  have hp := plainOp_notPfx m _ op opM hop
  have ha : addr16 m { adsz := true } = (m == .m32) := by cases m <;> rfl
  have hb := modrmTail_le x (rest.headD 0) (m == .m32)
  unfold x86len x86dec
  rw [insn_eq, Rd.run_bind, prefixes_67 m 14 {} _, prefixes_stop m 13 _ op _ hp]
  simp only [List.drop_succ_cons, List.drop_zero, afterPfx_plain m _ op opM hop]
  simp only [rdOp, opM, if_true, ha, Rd.run_bind, rdModRM_run _ x rest h, rdImm, Rd.run]
  have : 1 + 1 + (1 + modrmTail (m == .m32) x (rest.headD 0) + 0) ≤ 15 := by omega
  simp only [this, if_true, Option.map_some]
  congr 1; omega

/-! ## immediates that follow the operand size (`Iz`): 66 selects 16 bits, REX.W wins over 66 -/

/-- an `Iz` opcode (e.g. `05 ADD eAX,Iz`, `68 PUSH Iz`, `A9 TEST`) with operand-size prefix: 2-byte immediate -/
theorem iz_len_66 (m : Mode) (op : Nat) (i t : List Nat)
    (hop : plainOp m { opsz := true } op = some (opI .iz)) (hi : i.length = 2) :
    x86len m (0x66 :: op :: (i ++ t)) = some 4 := by
  have hp := plainOp_notPfx m _ op _ hop
  have hz : izBytes m { opsz := true } = 2 := by cases m <;> rfl
  have hb : (bytes 2).run (i ++ t) = some (i, 2) := by
    rw [run_bytes 2 (i ++ t) (by simp [hi]), List.take_left' hi]
  unfold x86len x86dec
  rw [insn_eq, Rd.run_bind, prefixes_66 m 14 {} _, prefixes_stop m 13 _ op _ hp]
  simp only [List.drop_succ_cons, List.drop_zero, afterPfx_plain m _ op _ hop]
  simp only [rdOp, opI, rdImm, hz, hb, Bool.false_eq_true, if_false, Rd.run_bind, Rd.run]
  rfl

/-- 64-bit mode, 66 followed by a REX prefix with W set: the immediate is 4 bytes (REX.W takes
    precedence over 66), the instruction 7 — amoco read 2 here (proposed fix C07-x64-rexw-overrides-66-imm) -/
theorem iz_len_66_rexw (rex op : Nat) (i t : List Nat) (hlo : 0x48 ≤ rex) (hhi : rex ≤ 0x4f)
    (hop : plainOp .m64 { opsz := true, rex := some rex } op = some (opI .iz)) (hi : i.length = 4) :
    x86len .m64 (0x66 :: rex :: op :: (i ++ t)) = some 7 := by
  have hp := plainOp_notPfx .m64 _ op _ hop
  have hw : Pfx.rexW { opsz := true, rex := some rex } = true := by
    simp only [Pfx.rexW, beq_iff_eq]; omega
  have hz : izBytes .m64 { opsz := true, rex := some rex } = 4 := by simp [izBytes, hw]
  have hb : (bytes 4).run (i ++ t) = some (i, 4) := by
    rw [run_bytes 4 (i ++ t) (by simp [hi]), List.take_left' hi]
  unfold x86len x86dec
  rw [insn_eq, Rd.run_bind, prefixes_66 .m64 14 {} _, prefixes_rex 13 _ rex _ (by omega) hhi,
    prefixes_stop .m64 12 _ op _ hp]
  simp only [List.drop_succ_cons, List.drop_zero, afterPfx_plain .m64 _ op _ hop]
  simp only [rdOp, opI, rdImm, hz, hb, Bool.false_eq_true, if_false, Rd.run_bind, Rd.run]
  rfl

/-! ## relative jumps and calls: size and value of the displacement -/

/-- the `k` displacement bytes that encode `d` (two's complement, little-endian) -/
def encRel (k : Nat) (d : Int) : List Nat := leBytes k (d % (2 ^ (8 * k) : Int)).toNat

theorem decode_encRel (k : Nat) (hk : 0 < k) (d : Int)
    (hlo : -(2 ^ (8 * k - 1) : Int) ≤ d) (hhi : d < (2 ^ (8 * k - 1) : Int)) :
    sext k (leNat (encRel k d)) = d := by
  unfold encRel
  rw [leNat_leBytes]
  have : sext k ((d % (2 ^ (8 * k) : Int)).toNat % 2 ^ (8 * k)) = sext k (d % (2 ^ (8 * k) : Int)).toNat := by
    unfold sext; simp only [Nat.mod_mod]
  rw [this]
  exact sext_roundtrip k hk d hlo hhi

theorem run_bytes_enc (k : Nat) (d : Int) (t : List Nat) :
    (bytes k).run (encRel k d ++ t) = some (encRel k d, k) := by
  have hl : (encRel k d).length = k := leBytes_length _ _
  have := run_bytes k (encRel k d ++ t) (by simp [hl])
  rw [this, List.take_left' hl]

/-- short jumps (`Jcc rel8`, `JMP rel8`, `LOOPcc`, `JrCXZ`): 2 bytes, displacement `d` -/
theorem rel8_decode (m : Mode) (op : Nat) (d : Int) (t : List Nat)
    (hop : plainOp m {} op = some (opI .jb)) (hlo : -128 ≤ d) (hhi : d < 128) :
    x86dec m (op :: (encRel 1 d ++ t)) = some (2, some d) := by
  have hp := plainOp_notPfx m {} op _ hop
  unfold x86dec
  rw [insn_eq, Rd.run_bind, prefixes_stop m 14 {} op _ hp]
  simp only [List.drop_succ_cons, List.drop_zero, afterPfx_plain m {} op _ hop]
  simp only [rdOp, opI, rdImm, Bool.false_eq_true, if_false, Rd.run_bind, run_bytes_enc, Rd.run]
  rw [decode_encRel 1 (by decide) d (by simpa using hlo) (by simpa using hhi)]
  rfl

/-- near `CALL` / `JMP` without prefix: 5 bytes, displacement `d`, in both modes -/
theorem rel32_decode (m : Mode) (op : Nat) (d : Int) (t : List Nat)
    (hop : plainOp m {} op = some (opI .jz)) (hlo : -2 ^ 31 ≤ d) (hhi : d < 2 ^ 31) :
    x86dec m (op :: (encRel 4 d ++ t)) = some (5, some d) := by
  have hp := plainOp_notPfx m {} op _ hop
  have hj : jzBytes m {} = some 4 := by cases m <;> rfl
  unfold x86dec
  rw [insn_eq, Rd.run_bind, prefixes_stop m 14 {} op _ hp]
  simp only [List.drop_succ_cons, List.drop_zero, afterPfx_plain m {} op _ hop]
  simp only [rdOp, opI, rdImm, hj, Bool.false_eq_true, if_false, Rd.run_bind, run_bytes_enc, Rd.run]
  rw [decode_encRel 4 (by decide) d (by simpa using hlo) (by simpa using hhi)]
  rfl

/-- near `CALL` / `JMP` with operand-size prefix in 32-bit mode: 4 bytes, 16-bit displacement -/
theorem rel16_decode_m32 (op : Nat) (d : Int) (t : List Nat)
    (hop : plainOp .m32 { opsz := true } op = some (opI .jz)) (hlo : -2 ^ 15 ≤ d) (hhi : d < 2 ^ 15) :
    x86dec .m32 (0x66 :: op :: (encRel 2 d ++ t)) = some (4, some d) := by
  have hp := plainOp_notPfx .m32 _ op _ hop
  have hj : jzBytes .m32 { opsz := true } = some 2 := rfl
  unfold x86dec
  rw [insn_eq, Rd.run_bind, prefixes_66 .m32 14 {} _, prefixes_stop .m32 13 _ op _ hp]
  simp only [List.drop_succ_cons, List.drop_zero, afterPfx_plain .m32 _ op _ hop]
  simp only [rdOp, opI, rdImm, hj, Bool.false_eq_true, if_false, Rd.run_bind, run_bytes_enc, Rd.run]
  rw [decode_encRel 2 (by decide) d (by simpa using hlo) (by simpa using hhi)]
  rfl

/-- `0F 8x` (`Jcc rel32`) without prefix: 6 bytes, displacement `d`, in both modes -/
theorem jcc_rel32_decode (m : Mode) (op : Nat) (d : Int) (t : List Nat)
    (hop : plainOp2 m {} op = some (opI .jz)) (hlo : -2 ^ 31 ≤ d) (hhi : d < 2 ^ 31) :
    x86dec m (0x0f :: op :: (encRel 4 d ++ t)) = some (6, some d) := by
  have hp : isPfxByte m 0x0f = false := by cases m <;> rfl
  have hj : jzBytes m {} = some 4 := by cases m <;> rfl
  unfold x86dec
  rw [insn_eq, Rd.run_bind, prefixes_stop m 14 {} 0x0f _ hp]
  simp only [List.drop_succ_cons, List.drop_zero, afterPfx, beq_self_eq_true, if_true,
    twoByte_plain m {} op _ _ hop]
  simp only [rdOp, opI, rdImm, hj, Bool.false_eq_true, if_false, Rd.run_bind, run_bytes_enc, Rd.run]
  rw [decode_encRel 4 (by decide) d (by simpa using hlo) (by simpa using hhi)]
  rfl

/-! ## non-vacuity: the hypotheses are met by concrete opcodes and strings -/

-- `mov 0x11223344(,%rax,2),%eax` then garbage: 7 bytes in 64-bit mode; stable under any continuation
example : x86len .m64 [0x8b, 0x04, 0x45, 0x44, 0x33, 0x22, 0x11, 0xcc, 0xcc] = some 7 := by decide
example : ∀ t, x86len .m64 ([0x8b, 0x04, 0x45, 0x44, 0x33, 0x22, 0x11, 0xcc, 0xcc].take 7 ++ t) = some 7 :=
  (x86len_prefix_free .m64 _ 7 (by decide)).2.2.2
-- the opcode classes quantified over in the lemmas are inhabited
example : plainOp .m64 {} 0x8b = some opM := by decide
example : plainOp .m32 { adsz := true } 0x8b = some opM := by decide
example : plainOp .m32 {} 0xeb = some (opI .jb) := by decide
example : plainOp .m64 {} 0x74 = some (opI .jb) := by decide
example : plainOp .m64 {} 0xe8 = some (opI .jz) := by decide
example : plainOp .m32 { opsz := true } 0xe9 = some (opI .jz) := by decide
example : plainOp2 .m64 {} 0x84 = some (opI .jz) := by decide
-- `call .-5` and `jmp .-2`
example : x86dec .m32 [0xe8, 0xfb, 0xff, 0xff, 0xff] = some (5, some (-5)) := by decide
example : encRel 4 (-5) = [0xfb, 0xff, 0xff, 0xff] := by decide
example : x86dec .m64 (0xeb :: (encRel 1 (-2) ++ [0x90])) = some (2, some (-2)) :=
  rel8_decode .m64 0xeb (-2) [0x90] (by decide) (by decide) (by decide)
-- ModRM rows
example : modrmTail false 0x04 0x25 = 5 := modrm32_sib_nobase 0x04 0x25 (by decide) (by decide) (by decide)
example : modrmTail true 0x06 0 = 2 := modrm16_disp16 0x06 0 (by decide) (by decide)
-- operand-size dependent immediates; the two inputs on which amoco's x64 decoder was wrong
example : plainOp .m64 { opsz := true, rex := some 0x48 } 0x05 = some (opI .iz) := by decide
example : x86len .m64 [0x66, 0x48, 0x05, 1, 2, 3, 4, 0x90] = some 7 :=
  iz_len_66_rexw 0x48 0x05 [1, 2, 3, 4] [0x90] (by decide) (by decide) (by decide) rfl
example : x86len .m32 [0x66, 0x05, 1, 2, 0x90] = some 4 := iz_len_66 .m32 0x05 [1, 2] [0x90] (by decide) rfl
example : x86len .m64 [0x67, 0x8b, 0x04, 0x25, 1, 2, 3, 4] = some 8 :=
  modrm_len_67 .m64 0x8b 0x04 [0x25, 1, 2, 3, 4] (by decide) (by decide)
-- what the model does not cover is `none`, e.g. VEX and a 66-prefixed near call in 64-bit mode
example : x86len .m64 [0xc5, 0xf8, 0x77] = none := by decide
example : x86len .m64 [0x66, 0xe8, 0, 0, 0, 0] = none := by decide

end Amoco.X86Len.Props
