/-
  C01 (extension) — value soundness of the rewrite system on the fragment WITH ROTATIONS.

  `Props/C01.lean` proves `simplify_sound / oper_sound / slice_sound / compose_sound / extend_sound` on the
  sign-agnostic fragment `Amoco.Expr.Plain`, which excludes the rotations `>>>` (`ror`) and `<<<` (`rol`).
  Here the same theorems are proved on the fragment `PlainRot` = `Plain` + rotation nodes anywhere in the tree
  (as roots and as operands of every other node: under slices, inside compositions, conditionals, `+ - * & | ^`,
  comparisons, shifts, unary `- ~`, and rotations of rotations; rotation amounts are arbitrary expressions of any
  width), by the induction over the whole mutual block redone for the larger fragment
  (`Amoco.Rot.soundIH_all`, files `Proofs/ExprSoundExt*.lean`).  The model (`Model/Simplify.lean`) is unchanged.

  What the rewrite system does with a rotation, each step proved value-preserving:
    * `ror(x, n)` / `rol(x, n)` on two constants folds (`helperRot` → `>> << |` of the `cst` table; `fold_ror/rol`);
    * on anything else the `op` node is kept (`helperRot`), its operands simplified (`op.simplify`);
    * `(l >>> 0) ⇒ l`, `(l <<< 0) ⇒ l` (`eqn2_helpers`; `rot_zero` below);
    * `x >>> x` is kept (no `x op x` rule fires), `-(x >>> n)`, `~(x >>> n)`, `(x >>> n)[a:b]` stay as they are,
      `+`/`-` re-association does not look through a rotation, `bitslice=True` does not split a rotation.
  Also here: stand-alone rotation facts for all widths (`rot_bits rol_as_ror ror_ror rot_amount slice_ror_nowrap`);
  `simplify_sound_top` / `oper_sound_top` (a `top`/`vecw` result covers the value: every tree, every threshold, every
  option); `simplify_sound_cmp_partial` (an ordered comparison as root over operands of the fragment, excluded case
  explicit) and the witness `cmp_one_flag_reading_not_preserved` showing why ordered comparisons need another reading.
  Still NOT proved: `< <= > >=` as operands and without the flag hypothesis, `** / %`, trees containing
  `top/vec/vecw/mem/ptr/ext`, `widening=True`, threshold on when the result is not itself `top`.
-/
import Amoco.Proofs.ExprSoundExtSimp
import Amoco.Proofs.ExprSoundExtRot
import Amoco.Proofs.ExprSoundExtCmp

namespace Amoco.C01Ext

open Amoco Amoco.Expr Amoco.Bits

/-- the fragment: `Plain` of C01 plus `>>>` / `<<<` nodes (`Amoco.Rot.Plain`): constants, registers, slices,
    compositions, conditionals, `+ - * & | ^ == != <. >=. << >> // >>> <<<` and unary `- ~` -/
abbrev PlainRot (e : Expr) : Prop := Amoco.Rot.Plain e

/-- the binary operators of the fragment -/
abbrev agnRot (o : Op) : Bool := Amoco.Rot.agnOp o

/-- as `C01.NoRenderClash`, stated for the larger fragment: two well-formed `PlainRot` expressions of one size that
    render alike (or are `exp.__eq__`-equal) have the same value under `ρ` -/
abbrev NoRenderClashRot (ρ : Val) : Prop := Amoco.Rot.EqOK ρ

abbrev NoThreshold (cfg : Cfg) : Prop := ∀ e, cfg.cplx e = false

/-- the rule `(l >>> 0) ⇒ l`, `(l <<< 0) ⇒ l` of `eqn2_helpers`, all widths -/
theorem rot_zero (o : Op) (ho : o = Op.ror ∨ o = Op.rol) (sg : Bool) (w a : Nat) (h : a < 2 ^ w) :
    binSem o sg w a 0 = a := Amoco.Rot.rot_zero o ho sg w a h

/-! ## stand-alone rotation facts, all widths (`a` the `w`-bit value rotated, `n` the amount, of any size) -/

/-- bit `j` of `a >>> n` is bit `(j + n) mod w` of `a`; bit `j` of `a <<< n` is bit `(j + (w - n mod w)) mod w` -/
theorem rot_bits (sg : Bool) (w a n j : Nat) (ha : a < 2 ^ w) (hj : j < w) :
    (binSem Op.ror sg w a n).testBit j = a.testBit ((j + n) % w) ∧
    (binSem Op.rol sg w a n).testBit j = a.testBit ((j + (w - n % w)) % w) :=
  ⟨Amoco.Rot.ror_testBit sg w a n j ha hj, Amoco.Rot.rol_testBit sg w a n j ha hj⟩

/-- *rol_as_ror*: `(a <<< n) = (a >>> (w - n mod w))` -/
theorem rol_as_ror (sg1 sg2 : Bool) (w a n : Nat) (ha : a < 2 ^ w) :
    binSem Op.rol sg1 w a n = binSem Op.ror sg2 w a (w - n % w) := Amoco.Rot.rol_as_ror sg1 sg2 w a n ha

/-- *rotation composition*: `((a >>> n) >>> k) = (a >>> (n + k))` -/
theorem ror_ror (sg1 sg2 sg3 : Bool) (w a n k : Nat) (ha : a < 2 ^ w) (hw : 0 < w) :
    binSem Op.ror sg1 w (binSem Op.ror sg2 w a n) k = binSem Op.ror sg3 w a (n + k) :=
  Amoco.Rot.ror_ror sg1 sg2 sg3 w a n k ha hw

/-- the amount counts modulo the width, a rotation by the width is the identity, `<<<` undoes `>>>` -/
theorem rot_amount (sg1 sg2 : Bool) (w a n : Nat) (ha : a < 2 ^ w) (hw : 0 < w) :
    binSem Op.ror sg1 w a (n % w) = binSem Op.ror sg1 w a n ∧ binSem Op.ror sg1 w a w = a ∧
    binSem Op.rol sg1 w (binSem Op.ror sg2 w a n) n = a :=
  ⟨Amoco.Rot.ror_mod sg1 w a n, Amoco.Rot.ror_width sg1 w a ha, Amoco.Rot.rol_ror sg1 sg2 w a n ha hw⟩

/-- *slice-of-rotation* (no wrap-around): `(a >>> n)[p:p+s] = a[p+n : p+n+s]` when `p + s + n mod w ≤ w` -/
theorem slice_ror_nowrap (sg : Bool) (w a n p s : Nat) (ha : a < 2 ^ w) (h : p + s + n % w ≤ w) (hs : 0 < s) :
    bitsOf (binSem Op.ror sg w a n) p s = bitsOf a (p + n % w) s := Amoco.Rot.slice_ror_nowrap sg w a n p s ha h hs

/-- the fragment of C01 is contained in `PlainRot` (so the theorems below subsume those of C01, under the hypothesis
    `NoRenderClashRot`, which quantifies over the larger fragment) -/
theorem plain_subset (e : Expr) (h : Amoco.Expr.Plain e) : PlainRot e := Amoco.Rot.plain_of_plain e h

/-! ## the induction through the whole rewrite system, with rotations -/

/-- **simplify_sound_rot**.  `e` well-formed and in `PlainRot`: whatever `e.simplify()` or
    `e.simplify(bitslice=True)` returns is again well-formed and `PlainRot`, has the width of `e`, and under every
    valuation without rendering clashes **the same value as `e`**.  For every fuel. -/
theorem simplify_sound_rot (cfg : Cfg) (hc : NoThreshold cfg) (ρ : Val) (hρ : NoRenderClashRot ρ) (fuel : Nat) (opts : Opts)
    (ho : opts.widening = false) (e r : Expr) (he : WF e) (hp : PlainRot e) (h : simplify cfg fuel opts e = .ok r) :
    WF r ∧ r.size = e.size ∧ PlainRot r ∧ ideal ρ r = ideal ρ e := by
  obtain ⟨h1, h2⟩ := (widthIH_all cfg fuel).simplify opts e he r h
  obtain ⟨h3, h4⟩ := (Amoco.Rot.soundIH_all cfg hc ρ hρ fuel).simplify opts e he hp ho r h
  exact ⟨h1, h2, h3, h4⟩

/-- **oper_sound_rot**.  `_operator.__call__(l, r)` for every operator of the fragment, now including
    `ror(l, r)` / `rol(l, r)` (`helperRot`), on well-formed `PlainRot` operands: the result has the reference meaning
    of the operator applied to the values of the operands (for a rotation: `binSem ror/rol`, amount of any width,
    reduced modulo the width of `l`). -/
theorem oper_sound_rot (cfg : Cfg) (hc : NoThreshold cfg) (ρ : Val) (hρ : NoRenderClashRot ρ) (fuel : Nat) (o : Op)
    (l r res : Expr) (hl : WF l) (hr : WF r) (hpl : PlainRot l) (hpr : PlainRot r) (ho : agnRot o = true)
    (hsz : o.type ≠ 8 → l.size = r.size) (h : callOp cfg fuel o l r = .ok res) :
    WF res ∧ res.size = (if o.type = 4 then 1 else l.size) ∧ PlainRot res ∧
      ideal ρ res = binSem o false l.size (ideal ρ l) (ideal ρ r) := by
  obtain ⟨h1, h2⟩ := (widthIH_all cfg fuel).callOp o l r hl hr (fun h4 => hsz (by omega)) res h
  obtain ⟨h3, h4⟩ := (Amoco.Rot.soundIH_all cfg hc ρ hρ fuel).callOp o l r hl hr hpl hpr ho hsz res h
  refine ⟨h1, ?_, h3, h4⟩
  rw [h2]
  cases o <;> simp [agnRot, Amoco.Rot.agnOp] at ho <;> simp [resSize, Op.type]

/-- the special case the C01 theorem does not have: a rotation of any `PlainRot` operand by any `PlainRot` amount -/
theorem rotate_sound (cfg : Cfg) (hc : NoThreshold cfg) (ρ : Val) (hρ : NoRenderClashRot ρ) (fuel : Nat) (o : Op)
    (ho : o = Op.ror ∨ o = Op.rol) (x n res : Expr) (hx : WF x) (hn : WF n) (hpx : PlainRot x) (hpn : PlainRot n)
    (h : callOp cfg fuel o x n = .ok res) :
    WF res ∧ res.size = x.size ∧ PlainRot res ∧ ideal ρ res = binSem o false x.size (ideal ρ x) (ideal ρ n) := by
  have ha : agnRot o = true := by rcases ho with rfl | rfl <;> rfl
  have ht : o.type = 8 := by rcases ho with rfl | rfl <;> rfl
  obtain ⟨h1, h2, h3, h4⟩ := oper_sound_rot cfg hc ρ hρ fuel o x n res hx hn hpx hpn ha (fun h8 => absurd ht h8) h
  refine ⟨h1, ?_, h3, h4⟩
  rw [h2, ht]; simp

/-- unary `-x`, `~x` on the larger fragment -/
theorem uoper_sound_rot (cfg : Cfg) (hc : NoThreshold cfg) (ρ : Val) (hρ : NoRenderClashRot ρ) (fuel : Nat) (o : Op)
    (x res : Expr) (hx : WF x) (hp : PlainRot x) (ho : o = Op.sub ∨ o = Op.not) (h : callUop cfg fuel o x = .ok res) :
    WF res ∧ res.size = x.size ∧ PlainRot res ∧ ideal ρ res = unSem o x.size (ideal ρ x) := by
  obtain ⟨h1, h2⟩ := (widthIH_all cfg fuel).callUop o x hx res h
  obtain ⟨h3, h4⟩ := (Amoco.Rot.soundIH_all cfg hc ρ hρ fuel).callUop o x hx hp ho res h
  exact ⟨h1, h2, h3, h4⟩

/-- **slice_sound_rot**.  `x[a:b]` is the slice of the value, also when `x` contains rotations -/
theorem slice_sound_rot (cfg : Cfg) (hc : NoThreshold cfg) (ρ : Val) (hρ : NoRenderClashRot ρ) (fuel : Nat)
    (x res : Expr) (a b : Int) (hx : WF x) (hp : PlainRot x) (h : getitem cfg fuel x a b = .ok res) :
    WF res ∧ res.size = (b - a).toNat ∧ PlainRot res ∧ ideal ρ res = bitsOf (ideal ρ x) a.toNat (b.toNat - a.toNat) := by
  obtain ⟨h1, h2⟩ := (widthIH_all cfg fuel).getitem x a b hx res h
  obtain ⟨h3, h4⟩ := (Amoco.Rot.soundIH_all cfg hc ρ hρ fuel).getitem x a b hx hp res h
  exact ⟨h1, h2, h3, h4⟩

/-- **compose_sound_rot**.  `composer([x0, x1, …])` is the concatenation of the values, `x0` lowest -/
theorem compose_sound_rot (cfg : Cfg) (hc : NoThreshold cfg) (ρ : Val) (hρ : NoRenderClashRot ρ) (fuel : Nat)
    (parts : List Expr) (res : Expr) (hw : ∀ x ∈ parts, WF x) (hp : ∀ x ∈ parts, PlainRot x)
    (h : composer cfg fuel parts = .ok res) :
    WF res ∧ res.size = parts.foldl (fun a x => a + x.size) 0 ∧ PlainRot res ∧ ideal ρ res = Amoco.Rot.catVal ρ parts := by
  obtain ⟨h1, h2⟩ := (widthIH_all cfg fuel).composer parts hw res h
  obtain ⟨h3, h4⟩ := (Amoco.Rot.soundIH_all cfg hc ρ hρ fuel).composer parts hw hp res h
  exact ⟨h1, h2, h3, h4⟩

/-- `catVal` (value of `composer(parts)`: the parts one after the other from bit 0) is the same recursion as in C01 -/
theorem catVal_nil (ρ : Val) : Amoco.Rot.catVal ρ [] = 0 := rfl
theorem catVal_cons (ρ : Val) (x : Expr) (tl : List Expr) :
    Amoco.Rot.catVal ρ (x :: tl) = cat (ideal ρ x) x.size (Amoco.Rot.catVal ρ tl) := rfl

/-- **extend_sound_rot**.  `x.zeroextend(n)` keeps the value, `x.signextend(n)` is the `n`-bit two's complement of
    the signed reading of `x` (non-constant `x`, `n > x.size`) -/
theorem extend_sound_rot (cfg : Cfg) (hc : NoThreshold cfg) (ρ : Val) (hρ : NoRenderClashRot ρ) (fuel : Nat) (sign : Bool)
    (x res : Expr) (n : Nat) (hx : WF x) (hp : PlainRot x) (hn : x.size < n) (h : extendExp cfg fuel sign x n = .ok res) :
    WF res ∧ res.size = n ∧ PlainRot res ∧
      ideal ρ res = (if sign then wrap n (toInt x.size (ideal ρ x)) else ideal ρ x) := by
  obtain ⟨h1, h2⟩ := (widthIH_all cfg fuel).extendExp sign x n hx res h
  obtain ⟨h3, h4⟩ := (Amoco.Rot.soundIH_all cfg hc ρ hρ fuel).extendExp sign x n hx hp hn res h
  exact ⟨h1, by rw [h2]; omega, h3, h4⟩

/-! ## results that are `top` (complexity threshold ON, `top` operands, `widening`): only the width matters

A first piece of the threshold-on case: whenever an entry point returns an undefined value (`top`, or `vecw` under
`widening=True`) — the complexity threshold fired at the root, or a `top` operand was absorbed — the result stands for
EVERY value of its width (`Den`), so it covers the value of the input: for every well-formed tree (all operators, no
fragment), every complexity oracle, every option.  (Not proved: results that contain `top` strictly inside, and
top-free results computed through intermediate `top`s.) -/

theorem den_of_isTop (ρ : Val) (r : Expr) (ht : r.isTop = true) (x : Nat) (hx : x < 2 ^ r.size) : Den ρ r x := by
  cases r <;> simp [isTop] at ht <;> simpa [Den, size] using hx

/-- **simplify_sound_top**: a `top`/`vecw` returned by `simplify` has the width of `e`, hence denotes (among all values
    of that width) the value of `e` -/
theorem simplify_sound_top (cfg : Cfg) (fuel : Nat) (opts : Opts) (ρ : Val) (e r : Expr) (he : WF e)
    (h : simplify cfg fuel opts e = .ok r) (ht : r.isTop = true) : r.size = e.size ∧ Den ρ r (ideal ρ e) := by
  obtain ⟨_, h2⟩ := (widthIH_all cfg fuel).simplify opts e he r h
  exact ⟨h2, den_of_isTop ρ r ht _ (by rw [h2]; exact ideal_lt ρ e he)⟩

/-- the same for `_operator.__call__(l, r)` (any operator): an undefined result covers the reference meaning -/
theorem oper_sound_top (cfg : Cfg) (fuel : Nat) (ρ : Val) (o : Op) (sg : Bool) (l r res : Expr) (hl : WF l) (hr : WF r)
    (hsz : o.type ≠ 8 → l.size = r.size) (h : callOp cfg fuel o l r = .ok res) (ht : res.isTop = true) :
    Den ρ res (binSem o sg l.size (ideal ρ l) (ideal ρ r)) := by
  obtain ⟨_, h2⟩ := (widthIH_all cfg fuel).callOp o l r hl hr (fun h4 => hsz (by omega)) res h
  refine den_of_isTop ρ res ht _ ?_
  rw [h2]
  exact binSem_lt o sg l.size _ _ (ideal_lt ρ l hl) (fun h8 => by rw [hsz h8]; exact ideal_lt ρ r hr) (WF_size_pos l hl)

/-! ### non-vacuity -/

/-- a complexity oracle that finds every 32-bit operand too complex: `a + b` simplifies to `top(32)` -/
def cfgT : Cfg := { cplx := fun e => e.size == 32, vecCplx := fun _ => false }

example : (match simplify cfgT 10 {} (.op .add (.reg "a" 32 false) (.reg "b" 32 false) 32 false 1) with
    | .ok (.top 32 _) => true | _ => false) = true := by decide +kernel


def cfg0 : Cfg := { cplx := fun _ => false, vecCplx := fun _ => false }

example : NoThreshold cfg0 := fun _ => rfl

/-- `(((a >>> 0) + 3) - a) & 0xff00` with a rotation of a register by a constant below it, and
    `((b >>> (c[0:5] zero-extended…)))`-style rotation by a non-constant amount: `(a >>> b[0:8]) <<< 0x4` -/
def exR1 : Expr :=
  .op .and (.op .sub (.op .add (.op .ror (.reg "a" 32 false) (.cst 0 32 false) 32 false 8) (.cst 3 32 false) 32 false 9)
    (.reg "a" 32 false) 32 false 9) (.cst 0xff00 32 false) 32 false 11

def exR2 : Expr :=
  .op .rol (.op .ror (.reg "a" 32 false) (.slc (.reg "b" 32 false) 0 8 false none 1) 32 false 8) (.cst 4 32 false) 32 false 8

/-- a rotation of a constant by a constant, under a slice -/
def exR3 : Expr := .slc (.op .ror (.cst 0x12345678 32 false) (.cst 8 32 false) 32 false 8) 24 8 false none 0

example : WF exR1 ∧ PlainRot exR1 := by
  constructor
  · simp [exR1, WF, Op.type]
  · simp [exR1, PlainRot, Amoco.Rot.Plain, Amoco.Rot.agnOp]

example : WF exR2 ∧ PlainRot exR2 := by
  constructor
  · simp [exR2, WF, Op.type]
  · simp [exR2, PlainRot, Amoco.Rot.Plain, Amoco.Rot.agnOp]

example : WF exR3 ∧ PlainRot exR3 := by
  constructor
  · simp [exR3, WF, Op.type]
  · simp [exR3, PlainRot, Amoco.Rot.Plain, Amoco.Rot.agnOp]

/-- none of them is in the fragment of C01 -/
example : ¬ Amoco.Expr.Plain exR1 ∧ ¬ Amoco.Expr.Plain exR2 ∧ ¬ Amoco.Expr.Plain exR3 := by
  refine ⟨?_, ?_, ?_⟩ <;> simp [exR1, exR2, exR3, Amoco.Expr.Plain, Amoco.Expr.agnOp]

/-- `simplify` returns on them: the rotation by 0 disappears and the rest folds to a constant; the rotation by a
    non-constant amount is kept; the slice of the rotated constant is the constant `0x78` -/
example : (match simplify cfg0 40 {} exR1 with | .ok r => r.size == 32 | _ => false) = true := by decide +kernel
example : (match simplify cfg0 40 {} exR2 with | .ok (.op .rol (.op .ror ..) ..) => true | _ => false) = true := by decide +kernel
example : (match simplify cfg0 40 {} exR3 with | .ok (.cst v s _) => v == 0x78 && s == 8 | _ => false) = true := by decide +kernel
example : bitsOf (binSem Op.ror false 32 0x12345678 8) 24 8 = 0x78 := by decide

example : binSem Op.rol false 8 0x81 1 = 0x03 ∧ binSem Op.ror false 8 0x81 9 = 0xc0 := by decide
example : bitsOf (binSem Op.ror false 32 0x12345678 8) 4 16 = bitsOf 0x12345678 12 16 := by decide

/-! ## why the ordered comparisons `< <= > >=` are not in the fragment: the reading `ideal` gives them

`ideal ρ (op < l r)` reads BOTH operands with the flag of the left one (`binSem o l.sf`).  The rewrite system does not
keep that flag: `(a - a) < b` over signed registers simplifies to `0x0 < b` where the new constant `0x0` is unsigned
(`x_op_x` returns `cst(0, size)`), so `ideal` reads the simplified tree unsigned: with `b = 0x80000000` the tree is
worth 0 and what `simplify` returns is worth 1 under `ideal`.  The real code is NOT wrong here (replayed: both
`((a-a)<b).eval(m)` and `((a-a)<b).simplify().eval(m)` give `0x0` for `b ↦ 0x80000000`, because `cst.__lt__` reads each
side with its own flag and `0x0` reads the same either way).  So value soundness of ordered comparisons cannot be stated
with `ideal`: it needs the reading of `eval_sound` (`SfIs`: a constant whose top bit is clear is sign-neutral, each side
read with its own declared flag) threaded through the rewriting — that is what extension (c) has to build first. -/

def cmpE : Expr := .op .lt (.op .sub (.reg "a" 32 true) (.reg "a" 32 true) 32 true 1) (.reg "b" 32 true) 1 false 5
def cmpρ : Val := fun n _ => if n == "b" then 0x80000000 else 5

/-- `simplify` maps `(a - a) < b` (signed registers) to `0x0 < b` with an UNSIGNED `0x0`: under the one-flag reading
    `ideal` the value changes from 0 to 1 at `b = 0x80000000` (a limit of the reading, not of the code) -/
theorem cmp_one_flag_reading_not_preserved :
    (match simplify cfg0 40 {} cmpE with
     | .ok (.op .lt (.cst 0 32 false) (.reg "b" 32 true) 1 _ _) => true | _ => false) = true ∧
    (match simplify cfg0 40 {} cmpE with | .ok r => ideal cmpρ r | _ => 2) = 1 ∧ ideal cmpρ cmpE = 0 := by
  decide +kernel

/-! ## a first piece of (c): an ordered comparison as ROOT over operands of the fragment

`simplify_sound_cmp_partial`: `e = (l o r)` with `o ∈ {<, <=, >, >=}` and `l`, `r` in `PlainRot`.  `op.simplify` simplifies
the operands (value kept: the induction above), `eqn2_helpers` then does no re-association, applies no constant-operand
rule, folds two constants with the `cst` table (`cst.__lt__` …), answers `x < x ⇒ 0` / `x <= x ⇒ 1` by rendering, or keeps
the node — each step proved.  PARTIAL: the excluded case is made an explicit (decidable for given inputs) hypothesis
`hsf`: the simplified operands still carry the declared signedness of `l` (it fails for `cmpE` above: `a - a ⇒ 0x0`
unsigned).  Missing for the full statement: the two-flag reading with sign-neutral constants threaded through rewriting;
comparisons as operands of other nodes; `** / %`. -/
theorem simplify_sound_cmp_partial (cfg : Cfg) (hc : NoThreshold cfg) (ρ : Val) (hρ : NoRenderClashRot ρ) (fuel : Nat)
    (opts : Opts) (ho : opts.widening = false) (o : Op) (hord : o = Op.lt ∨ o = Op.le ∨ o = Op.gt ∨ o = Op.ge)
    (l r : Expr) (size : Nat) (sf : Bool) (prop : Nat) (res : Expr)
    (he : WF (.op o l r size sf prop)) (hpl : PlainRot l) (hpr : PlainRot r)
    (hsf : ∀ l' r', simplify cfg fuel opts l = .ok l' → simplify cfg fuel opts r = .ok r' → l'.sf = l.sf ∧ r'.sf = l.sf)
    (h : simplify cfg (fuel + 1) opts (.op o l r size sf prop) = .ok res) :
    WF res ∧ res.size = 1 ∧ ideal ρ res = binSem o l.sf l.size (ideal ρ l) (ideal ρ r) := by
  have hord' : Amoco.Rot.ordOp o = true := by rcases hord with rfl | rfl | rfl | rfl <;> rfl
  obtain ⟨h1, h2⟩ := (widthIH_all cfg (fuel + 1)).simplify opts _ he res h
  have h3 := Amoco.Rot.simplify_ord cfg hρ hc hord' opts ho l r size sf prop he hpl hpr fuel hsf res h
  refine ⟨h1, ?_, by rw [h3]; simp only [ideal]⟩
  obtain ⟨_, _, _, _, hs, _⟩ := (WF_op_iff _ _ _ _ _ _).mp he
  rw [h2, size_op, hs]
  simp [resSize, Amoco.Rot.ord_type hord']

/-- non-vacuity: `a < (b >>> 8)` over signed registers; the operands simplify to themselves, flags kept -/
def cmpL : Expr := .reg "a" 32 true
def cmpR : Expr := .op .ror (.reg "b" 32 true) (.cst 8 32 false) 32 true 8
def cmpOK : Expr := .op .lt cmpL cmpR 1 false 12

example : WF cmpOK ∧ PlainRot cmpL ∧ PlainRot cmpR := by
  refine ⟨by simp [cmpOK, cmpL, cmpR, WF, Op.type], by simp [cmpL, PlainRot, Amoco.Rot.Plain], ?_⟩
  simp [cmpR, PlainRot, Amoco.Rot.Plain, Amoco.Rot.agnOp]

example : ∀ l' r', simplify cfg0 20 {} cmpL = .ok l' → simplify cfg0 20 {} cmpR = .ok r' → l'.sf = cmpL.sf ∧ r'.sf = cmpL.sf := by
  intro l' r' h1 h2
  have e1 : (match simplify cfg0 20 {} cmpL with | .ok x => x.sf == true | _ => false) = true := by decide +kernel
  have e2 : (match simplify cfg0 20 {} cmpR with | .ok x => x.sf == true | _ => false) = true := by decide +kernel
  rw [h1] at e1; rw [h2] at e2
  simp only [beq_iff_eq] at e1 e2
  exact ⟨e1, e2⟩

example : (match simplify cfg0 21 {} cmpOK with | .ok (.op .lt (.reg "a" 32 true) (.op .ror ..) 1 _ _) => true | _ => false) = true := by
  decide +kernel
example : (match simplify cfg0 21 {} (.op .le cmpR cmpR 1 false 12) with | .ok (.cst 1 1 _) => true | _ => false) = true := by
  decide +kernel

end Amoco.C01Ext
