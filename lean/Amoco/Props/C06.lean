/-
  C06 — Instruction semantics match the architecture (x86: the CPU, RISC-V: the manual).
  Property theorems only (helper lemmas, RISC-V and x86 flags, live in Amoco/Proofs/Rv.lean).

  RISC-V (full): `rv_expected_correct` — for every base mnemonic of RV32I/RV64I, every state and every
  32-bit word that decodes to it, the hand-written DSL term `expected` applied to the operands the
  decoder hooks build means exactly one step of the reference interpreter `rvRef` (registers, pc,
  memory).  `rv_generated_eq_expected` — the table regenerated from amoco's asm.py on every run
  (Generated/RvSem.lean) is that `expected` table.  `rv_imm_*` — the hooks' immediate assembly is
  the manual's immediate.
  x86 (partial): all-width theorems about the shared flag / extension / condition-code helpers.
-/
import Amoco.Proofs.Rv
import Generated.RvSem

namespace Amoco.Rv.Props

open Amoco.Rv

/-! ## RISC-V -/

/-- RV64I-only mnemonics are never decoded in RV32I -/
theorem decode_in_isa (isa : Isa) (w : BitVec 32) (m : Mn) (h : decode isa w = some m) :
    (isa == .rv64 || !m.only64) = true := by
  unfold decode at h
  rw [Option.filter_eq_some_iff] at h
  exact h.2

/-- **Main RISC-V theorem.**  For every ISA, mnemonic, state and word decoding to that mnemonic
    (ECALL excepted, see `rv_expected_ecall`), the expected semantics term run on the operands built
    by the decoder hook yields exactly the reference interpreter's next state. -/
theorem rv_expected_correct (isa : Isa) (m : Mn) (w : BitVec 32) (σ : State isa.xlen)
    (hd : decode isa w = some m) (hm : m ≠ .ECALL) :
    semIdeal (expected isa m) (operands isa m w) σ = some (rvRef isa σ w) := by
  have hin := decode_in_isa isa w m hd
  have hr : rvRef isa σ w = exec isa m w σ := by simp [rvRef, hd]
  rw [hr]
  cases m
  case ECALL => exact absurd rfl hm
  case LUI => exact ok_LUI isa w σ
  case AUIPC => exact ok_AUIPC isa w σ
  case JAL => exact ok_JAL isa w σ
  case JALR => exact ok_JALR isa w σ
  case BEQ => exact ok_BEQ isa w σ
  case BNE => exact ok_BNE isa w σ
  case BLT => exact ok_BLT isa w σ
  case BGE => exact ok_BGE isa w σ
  case BLTU => exact ok_BLTU isa w σ
  case BGEU => exact ok_BGEU isa w σ
  case LB => exact ok_LB isa w σ
  case LH => exact ok_LH isa w σ
  case LW => exact ok_LW isa w σ
  case LBU => exact ok_LBU isa w σ
  case LHU => exact ok_LHU isa w σ
  case SB => exact ok_SB isa w σ
  case SH => exact ok_SH isa w σ
  case SW => exact ok_SW isa w σ
  case ADDI => exact ok_ADDI isa w σ
  case SLTI => exact ok_SLTI isa w σ
  case SLTIU => exact ok_SLTIU isa w σ
  case XORI => exact ok_XORI isa w σ
  case ORI => exact ok_ORI isa w σ
  case ANDI => exact ok_ANDI isa w σ
  case SLLI => exact ok_SLLI isa w σ
  case SRLI => exact ok_SRLI isa w σ
  case SRAI => exact ok_SRAI isa w σ
  case ADD => exact ok_ADD isa w σ
  case SUB => exact ok_SUB isa w σ
  case SLL => exact ok_SLL isa w σ
  case SLT => exact ok_SLT isa w σ
  case SLTU => exact ok_SLTU isa w σ
  case XOR => exact ok_XOR isa w σ
  case SRL => exact ok_SRL isa w σ
  case SRA => exact ok_SRA isa w σ
  case OR => exact ok_OR isa w σ
  case AND => exact ok_AND isa w σ
  case FENCE => exact ok_FENCE isa w σ
  case FENCE_I => exact ok_FENCE_I isa w σ
  case EBREAK => exact ok_EBREAK isa w σ
  case LWU =>
    cases isa
    · simp [Mn.only64] at hin
    · exact ok_LWU w σ
  case LD =>
    cases isa
    · simp [Mn.only64] at hin
    · exact ok_LD w σ
  case SD =>
    cases isa
    · simp [Mn.only64] at hin
    · exact ok_SD w σ
  case ADDIW =>
    cases isa
    · simp [Mn.only64] at hin
    · exact ok_ADDIW w σ
  case SLLIW =>
    cases isa
    · simp [Mn.only64] at hin
    · exact ok_SLLIW w σ
  case SRLIW =>
    cases isa
    · simp [Mn.only64] at hin
    · exact ok_SRLIW w σ
  case SRAIW =>
    cases isa
    · simp [Mn.only64] at hin
    · exact ok_SRAIW w σ
  case ADDW =>
    cases isa
    · simp [Mn.only64] at hin
    · exact ok_ADDW w σ
  case SUBW =>
    cases isa
    · simp [Mn.only64] at hin
    · exact ok_SUBW w σ
  case SLLW =>
    cases isa
    · simp [Mn.only64] at hin
    · exact ok_SLLW w σ
  case SRLW =>
    cases isa
    · simp [Mn.only64] at hin
    · exact ok_SRLW w σ
  case SRAW =>
    cases isa
    · simp [Mn.only64] at hin
    · exact ok_SRAW w σ

/-- ECALL/EBREAK hand control to the execution environment; the unprivileged manual defines no
    register or memory effect and leaves the next pc to the environment: the expected term (the
    `@__npc` step alone) changes neither registers nor memory. -/
theorem rv_expected_ecall (isa : Isa) (w : BitVec 32) (σ : State isa.xlen) :
    ∃ σ', semIdeal (expected isa .ECALL) (operands isa .ECALL w) σ = some σ' ∧ σ'.x = σ.x ∧ σ'.mem = σ.mem :=
  ⟨σ.withPc (σ.pc + 4), by simp [semIdeal, expected, execAll, exec_npc], rfl, rfl⟩

/-- non-vacuity: a concrete word meets the hypotheses (`add a0, a0, a1`, `addw`, `blt`) -/
example : decode .rv32 0x00b50533#32 = some .ADD := by decide
example : decode .rv64 0x00b5053b#32 = some .ADDW := by decide
example : decode .rv32 0x00b5053b#32 = none := by decide
example : decode .rv32 0xfe62cee3#32 = some .BLT := by decide

/-! ### the decoder hooks assemble the manual's immediates (for all 32-bit words, all XLEN) -/

/-- I-type (`~imm(12)`, `cst(imm.int(-1), XLEN)`): ADDI…, loads, JALR -/
theorem rv_imm_I (n : Nat) (w : BitVec 32) : BitVec.ofInt n (fld w 20 12).sint = immI n w := ofInt_immI n w
/-- S-type (`imm = imm1 // imm2`, `.int(-1)`) -/
theorem rv_imm_S (n : Nat) (w : BitVec 32) :
    BitVec.ofInt n ((fld w 7 5).cat (fld w 25 7)).sint = immS n w := ofInt_immS n w
/-- B-type (`imm1 // imm2 // imm3 // imm4`, `cst(imm.int(-1), XLEN) << 1`) -/
theorem rv_imm_B (n : Nat) (w : BitVec 32) :
    BitVec.ofInt n (((((fld w 8 4).cat (fld w 25 6)).cat (fld w 7 1)).cat (fld w 31 1)).sint * 2) = immB n w :=
  ofInt_immB n w
/-- J-type -/
theorem rv_imm_J (n : Nat) (w : BitVec 32) :
    BitVec.ofInt n (((((fld w 21 10).cat (fld w 20 1)).cat (fld w 12 8)).cat (fld w 31 1)).sint * 2) = immJ n w :=
  ofInt_immJ n w
/-- U-type, RV64I hook (`~imm(20)`, `cst(imm.int(-1) << 12, 64)`), any XLEN -/
theorem rv_imm_U (n : Nat) (w : BitVec 32) :
    BitVec.ofInt n ((fld w 12 20).sint * 2 ^ 12) = immU n w := ofInt_immU n w
/-- U-type, RV32I hook (`imm(20)`, `cst(imm << 12, 32)`) -/
theorem rv_imm_U32 (w : BitVec 32) :
    BitVec.ofInt 32 (((fld w 12 20).1 * 2 ^ 12 : Nat) : Int) = immU 32 w := ofInt_immU32 w

/-- the immediate operand the hooks build reads back, in any state, as the manual's immediate -/
theorem rv_fields (isa : Isa) (w : BitVec 32) (σ : State isa.xlen) :
    (readOpnd σ (cstOf (fld w 20 12).sint isa.xlen)).map Val.nosf = some (bv (immI isa.xlen w) false) ∧
    (readOpnd σ (cstOf ((((((fld w 8 4).cat (fld w 25 6)).cat (fld w 7 1)).cat (fld w 31 1)).sint) * 2) isa.xlen)).map Val.nosf
        = some (bv (immB isa.xlen w) false) ∧
    (readOpnd σ (cstOf ((((((fld w 21 10).cat (fld w 20 1)).cat (fld w 12 8)).cat (fld w 31 1)).sint) * 2) isa.xlen)).map Val.nosf
        = some (bv (immJ isa.xlen w) false) ∧
    (readOpnd σ (cstOf ((fld w 12 20).sint * 2 ^ 12) isa.xlen)).map Val.nosf = some (bv (immU isa.xlen w) false) := by
  simp [readOpnd_cstOf, ofInt_immI, ofInt_immB, ofInt_immJ, ofInt_immU']

/-! ### the table generated from amoco's source is the expected table -/

/-- (isa, mnemonic) pairs for which amoco defines **no** semantics function today; each is a known
    finding of C06 (`known_findings.d/C06.json`), EBREAK excepted (no register/memory effect is the
    reference behaviour).  The second theorem makes the list exact: adding a binding breaks it. -/
def noSemantics : List (Isa × Mn) :=
  -- (the RV64 W-forms and LWU/LD/SD were in this list until their `i_` functions were added to
  --  rv64i/asm.py by `fix:` commits; the translated bodies are now compared with `expected` like the rest)
  [(.rv32, .EBREAK), (.rv64, .EBREAK)]

def genOk (isa : Isa) (m : Mn) : Bool :=
  if noSemantics.contains (isa, m) then (Generated.Rv.generated isa m).isNone
  else Generated.Rv.generated isa m == some (expected isa m)

/-- every `i_XXX` binding of rv32i/asm.py and rv64i/asm.py, translated into the DSL by
    `harness/translate_riscv.py` on this run, is syntactically the expected term; the mnemonics
    without a binding are exactly `noSemantics`. -/
theorem rv_generated_eq_expected :
    ∀ isa ∈ [Isa.rv32, Isa.rv64], ∀ m ∈ mnemonics isa, genOk isa m = true := by
  decide +kernel

end Amoco.Rv.Props

/-! ## x86: the shared flag / extension / condition-code helpers (all widths, all operands)

The instruction bodies of x64/asm.py and x86/asm.py are NOT modelled (their agreement with the
CPU is checked differentially against native execution); these theorems cover the formulas the
bodies share. -/
namespace Amoco.Flags.Props

open Amoco.Flags

/-- `AddWithCarry`: the result is the sum modulo 2^n -/
theorem addWithCarry_result {n : Nat} (x y : BitVec n) (c : Bool) (hn : 0 < n) :
    (addWithCarry x y c).res.toNat = (x.toNat + y.toNat + c.toNat) % 2 ^ n := awc_res x y c hn

/-- `AddWithCarry`'s carry formula is the architectural CF: unsigned overflow of x + y + c -/
theorem addWithCarry_carry {m : Nat} (x y : BitVec (m + 1)) (c : Bool) :
    (addWithCarry x y c).carry = decide (2 ^ (m + 1) ≤ x.toNat + y.toNat + c.toNat) := awc_carry x y c

/-- `AddWithCarry`'s overflow formula is the architectural OF: signed overflow of x + y + c -/
theorem addWithCarry_overflow {m : Nat} (x y : BitVec (m + 1)) (c : Bool) :
    (addWithCarry x y c).overflow =
      decide (x.toInt + y.toInt + (c.toNat : Int) < -((2 ^ m : Nat) : Int) ∨
              ((2 ^ m : Nat) : Int) ≤ x.toInt + y.toInt + (c.toNat : Int)) := awc_overflow x y c

/-- `SubWithBorrow`'s carry formula is the architectural CF of SUB/SBB/CMP: a borrow is needed -/
theorem subWithBorrow_carry {m : Nat} (x y : BitVec (m + 1)) (c : Bool) :
    (subWithBorrow x y c).carry = decide (x.toNat < y.toNat + c.toNat) := swb_carry x y c

/-- `SubWithBorrow`'s overflow formula is the architectural OF: signed overflow of x - y - c -/
theorem subWithBorrow_overflow {m : Nat} (x y : BitVec (m + 1)) (c : Bool) :
    (subWithBorrow x y c).overflow =
      decide (x.toInt - y.toInt - (c.toNat : Int) < -((2 ^ m : Nat) : Int) ∨
              ((2 ^ m : Nat) : Int) ≤ x.toInt - y.toInt - (c.toNat : Int)) := swb_overflow x y c

/-- `parity8` with the table 0x9669 is the architectural PF: even parity of the low byte
    (complete table of the 256 bytes, `decide`) -/
theorem parity8_is_even_parity : ∀ x : BitVec 8, parity8 x = evenParity x := parity8_even

/-- … and with the table 0x6996 (the tree before `fix: C06-x86-parity-flag-even`) it is the
    complement of PF on every byte -/
theorem parity8_table_6996_is_odd_parity : ∀ x : BitVec 8, parity8With 0x6996#16 x = !evenParity x :=
  parity8_6996_odd

/-- `halfcarry` is the architectural AF of an addition: carry out of bit 3 -/
theorem halfcarry_is_AF {n : Nat} (x y : BitVec n) (c : Bool) :
    halfcarry x y c = decide (16 ≤ x.toNat % 16 + y.toNat % 16 + c.toNat) := halfcarry_eq x y c

/-- `halfborrow` is the architectural AF of a subtraction: borrow into bit 3 -/
theorem halfborrow_is_AF {n : Nat} (x y : BitVec n) (c : Bool) :
    halfborrow x y c = decide (x.toNat % 16 < y.toNat % 16 + c.toNat) := halfborrow_eq x y c

/-- the condition codes evaluated on the flags CMP leaves are the unsigned / signed order relations -/
theorem condition_codes_after_cmp {m : Nat} (a b : BitVec (m + 1)) :
    cond 0x2 (cmpFlags a b) = a.ult b ∧ cond 0x3 (cmpFlags a b) = !(a.ult b) ∧
    cond 0x4 (cmpFlags a b) = (a == b) ∧ cond 0x5 (cmpFlags a b) = (a != b) ∧
    cond 0x6 (cmpFlags a b) = a.ule b ∧ cond 0x7 (cmpFlags a b) = !(a.ule b) ∧
    cond 0xC (cmpFlags a b) = a.slt b ∧ cond 0xD (cmpFlags a b) = !(a.slt b) ∧
    cond 0xE (cmpFlags a b) = a.sle b ∧ cond 0xF (cmpFlags a b) = !(a.sle b) := cc_after_cmp a b

/-- a 32-bit register destination zeroes the upper half of the 64-bit register and keeps the value -/
theorem r32_destination_zero_extends (old v : BitVec 64) :
    (writeReg old 32 v).extractLsb' 32 32 = 0#32 ∧ (writeReg old 32 v).extractLsb' 0 32 = v.extractLsb' 0 32 :=
  ⟨writeReg32_upper old v, writeReg32_lower old v⟩

/-- non-vacuity: 0x7f + 1 overflows signed, not unsigned; 0xff + 1 the other way round; CMP 3,5 -/
example : (addWithCarry 0x7f#8 0x01#8 false).overflow = true ∧ (addWithCarry 0x7f#8 0x01#8 false).carry = false := by decide
example : (addWithCarry 0xff#8 0x01#8 false).overflow = false ∧ (addWithCarry 0xff#8 0x01#8 false).carry = true := by decide
example : cond 0xC (cmpFlags 0xfd#8 0x05#8) = true ∧ cond 0x2 (cmpFlags 0xfd#8 0x05#8) = false := by decide

end Amoco.Flags.Props

